#!/bin/bash
# usage: tools/validate_refac.sh <root>   — every <root>/*/patch.diff must apply to the current tree, build, and pass the full suite;
# a demo_test.go next to it (the test that failed on the buggy variant) must pass too.
ROOT=$1
export GOFLAGS=-mod=mod GOPROXY=off GOSUMDB=off GOTOOLCHAIN=local; unset GOWORK
WT=/tmp/scratch/refwt
git -C /repo worktree remove --force $WT 2>/dev/null
git -C /repo worktree add -q --detach $WT HEAD || exit 2
for d in $ROOT/*/; do
  id=$(basename $d); p=$d/patch.diff; [ -f $p ] || continue
  git -C $WT checkout -q -- . ; git -C $WT clean -fdq
  if ! git -C $WT apply $p 2>/dev/null; then echo "$id: DOES NOT APPLY"; continue; fi
  (cd $WT && go build ./... >/tmp/scratch/rb.log 2>&1); b=$?
  (cd $WT && timeout 300 go test -vet=off -count=1 ./... >/tmp/scratch/rt.log 2>&1); t=$?
  dm=-
  if [ -f $d/demo_test.go ]; then cp $d/demo_test.go $WT/zz_demo_test.go; (cd $WT && timeout 120 go test -vet=off -count=1 -run 'TestSeed' . >/tmp/scratch/rd.log 2>&1); dm=$?; rm -f $WT/zz_demo_test.go; fi
  echo "$id: build=$b suite=$t demo=$dm"
done
git -C /repo worktree remove --force $WT
