#!/bin/bash
# usage: tools/selftest.sh <Cnn> — tests the check both ways on scratch copies of /repo's HEAD (outside /repo and /verif):
#   every seeded property-breaking change for Cnn (seeded/Cnn-*/patch.diff) must make the check fire (exit 1),
#   every behaviour-preserving refactoring (refactorings/*/patch.diff) must leave it silent (exit 0).
# Prints one JSON object. Never changes the verdict on the tree itself.
PROP=$1
VERIF=$(cd "$(dirname "$0")/.." && pwd)
REPO=${BCL_REPO_GIT:-/repo}
TMP=$(mktemp -d /tmp/bclverif-selftest.XXXXXX) || { echo '{"skipped":"mktemp failed"}'; exit 0; }
trap 'for w in $TMP/wt*; do git -C $REPO worktree remove --force $w >/dev/null 2>&1; done; rm -rf $TMP' EXIT
git -C $REPO rev-parse HEAD >/dev/null 2>&1 || { echo '{"skipped":"/repo is not a git repository"}'; exit 0; }
JOBS=8
for i in $(seq 1 $JOBS); do git -C $REPO worktree add -q --detach $TMP/wt$i HEAD >/dev/null 2>&1 || { echo '{"skipped":"git worktree add failed"}'; exit 0; }; done
ls -d $VERIF/seeded/$PROP-*/ 2>/dev/null | sed 's#/$##' | awk '{print "seed " $0}' > $TMP/jobs
ls -d $VERIF/refactorings/*/ 2>/dev/null | sed 's#/$##' | awk '{print "refac " $0}' >> $TMP/jobs
runjob() {
  slot=$1; kind=$2; dir=$3; wt=$TMP/wt$slot
  git -C $wt checkout -q -- . ; git -C $wt clean -fdq
  if ! git -C $wt apply $dir/patch.diff 2>/dev/null; then echo "$kind $(basename $dir) noapply"; return; fi
  $VERIF/bin/bclverif -repo $wt -verif $VERIF -prop $PROP -tier quick -evidence $TMP/ev$slot.json >/dev/null 2>&1
  rc=$?
  echo "$kind $(basename $dir) $rc"
}
export -f runjob; export TMP VERIF PROP REPO
i=0
while read kind dir; do
  i=$(( i % JOBS + 1 ))
  echo "$i $kind $dir"
done < $TMP/jobs > $TMP/jobs2
for s in $(seq 1 $JOBS); do ( grep "^$s " $TMP/jobs2 | while read slot kind dir; do runjob $slot $kind $dir; done > $TMP/out$s ) & done; wait
cat $TMP/out* > $TMP/results
python3 - $TMP/results <<'PY'
import sys,json
seed={"total":0,"detected":0,"missed":[],"not_applicable":[]}
ref={"total":0,"silent":0,"alarmed":[],"not_applicable":[]}
for l in open(sys.argv[1]):
    kind,name,code=l.split()
    d=seed if kind=="seed" else ref
    if code=="noapply":
        d["not_applicable"].append(name); continue
    d["total"]+=1
    if kind=="seed":
        if code=="1": d["detected"]+=1
        else: d["missed"].append(name+":exit"+code)
    else:
        if code=="0": d["silent"]+=1
        else: d["alarmed"].append(name+":exit"+code)
print(json.dumps({"seeded_changes":seed,"behaviour_preserving_refactorings":ref}))
PY
