#!/bin/sh
# usage: tools/seedtest.sh <seed-dir-root> <prop ...>   e.g. tools/seedtest.sh /tmp/seeds C10 C14
# Applies every patch*.diff under <root>/*/ to a scratch worktree of /repo and runs the given checks on it.
# With prop "own", each seed is checked against the property it was written for.
ROOT=$1; shift
PROPS="$*"
WT=/tmp/scratch/mutwt
mkdir -p /tmp/scratch
git -C /repo worktree remove --force $WT 2>/dev/null
git -C /repo worktree add -q --detach $WT HEAD || exit 2
for d in $ROOT/*/; do
  id=$(basename $d)
  for p in $d/patch*.diff; do
    [ -f "$p" ] || continue
    case $id in C??-*) own=${id%%-*};; *) own=$id;; esac
    git -C $WT checkout -q -- . ; git -C $WT clean -fdq
    if ! git -C $WT apply "$p" 2>/dev/null; then echo "$id $(basename $p): DOES NOT APPLY"; continue; fi
    res=""
    props="$PROPS"; [ "$PROPS" = "own" ] && props=$own
    for prop in $props; do
      out=$(BCL_REPO=$WT /verif/run $prop quick -evidence /tmp/scratch/ev-$prop.json 2>&1); code=$?
      res="$res $prop=$code"
      if [ -n "$VERBOSE" ] && [ $code -ne 0 ]; then echo "$out" | grep -E "violated|undecided|ERROR" | head -${VERBOSE}; fi
    done
    echo "$id $(basename $p):$res"
  done
done
git -C /repo worktree remove --force $WT
