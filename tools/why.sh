#!/bin/bash
# usage: tools/why.sh <patch.diff> <prop...> — show the violation lines of the given checks on a patched scratch tree
P=$1; shift
WT=/tmp/scratch/whywt
git -C /repo worktree remove --force $WT 2>/dev/null
git -C /repo worktree add -q --detach $WT HEAD || exit 2
git -C $WT apply $P || exit 2
for prop in "$@"; do BCL_REPO=$WT /verif/run $prop quick -evidence /tmp/scratch/why.json 2>&1 | grep -E "violated|undecided|ERROR" | cut -c1-${WIDTH:-400}; done
git -C /repo worktree remove --force $WT
