#!/bin/bash
# Validates every seed under $1 (default /tmp/seeds): patch applies, tree builds, the 405 tests pass with it,
# the demo fails with it and passes without. Validated seeds are copied to /verif/seeded/<id>-<k>/.
ROOT=${1:-/tmp/seeds}
OFFSET=${2:-0}   # added to the patch number when naming the stored seed (round 2: 3)
PFX=${3:-}   # prefix of the test number in the demo function name (round 3: R)
export GOFLAGS=-mod=mod GOPROXY=off GOSUMDB=off GOTOOLCHAIN=local; unset GOWORK
WT=/tmp/scratch/valwt
git -C /repo worktree remove --force $WT 2>/dev/null
git -C /repo worktree add -q --detach $WT HEAD || exit 2
for d in $ROOT/C*/; do
  id=$(basename $d)
  for p in $d/patch*.diff; do
    [ -f "$p" ] || continue
    k=$(basename $p .diff); k=${k#patch}
    demo=$d/demo${k}_test.go; meta=$d/meta${k}.json
    git -C $WT checkout -q -- . ; git -C $WT clean -fdq
    place=$WT
    if grep -q '^package main' $demo 2>/dev/null; then place=$WT/cmd/bcl; fi
    # clean tree: demo passes
    cp $demo $place/seed_demo_test.go
    (cd $place && timeout 120 go test -vet=off -count=1 -run "TestSeed${id}_${PFX}${k}" . >/tmp/scratch/val_clean.log 2>&1); clean=$?
    grep -q "no tests to run" /tmp/scratch/val_clean.log && clean=99
    rm -f $place/seed_demo_test.go
    if ! git -C $WT apply $p 2>/dev/null; then echo "$id-$k: PATCH DOES NOT APPLY"; continue; fi
    (cd $WT && timeout 300 go test -vet=off -count=1 ./... >/tmp/scratch/val_suite.log 2>&1); suite=$?
    cp $demo $place/seed_demo_test.go
    (cd $place && timeout 120 go test -vet=off -count=1 -run "TestSeed${id}_${PFX}${k}" . >/tmp/scratch/val_mut.log 2>&1); mut=$?
    rm -f $place/seed_demo_test.go
    verdict=REJECT
    if [ $clean -eq 0 ] && [ $suite -eq 0 ] && [ $mut -ne 0 ]; then verdict=OK; fi
    echo "$id-$k: demo-on-clean=$clean suite-with-patch=$suite demo-with-patch=$mut => $verdict"
    if [ $verdict = OK ]; then
      dst=/verif/seeded/$id-$((k+OFFSET)); mkdir -p $dst
      cp $p $dst/patch.diff; cp $demo $dst/demo_test.go
      python3 - "$meta" "$dst/meta.json" "$id" "$k" "$place" <<'PY'
import json,sys
src,dst,pid,k,place=sys.argv[1:6]
try: m=json.load(open(src))
except Exception as e: m={"summary":"(meta unreadable: %s)"%e}
m["property"]=pid
m["demo_placement"]="cmd/bcl (package main)" if place.endswith("cmd/bcl") else "repository root (package bcl)"
m["validated_by"]="tools/validate_seeds.sh: demo TestSeed%s_%s passes on the clean tree (exit 0), the full suite passes with the patch (exit 0), the demo fails with the patch"%(pid,k)
json.dump(m,open(dst,"w"),indent=1)
PY
    fi
  done
done
git -C /repo worktree remove --force $WT
