#!/usr/bin/env python3
"""Regenerates the generated appendices of DESIGN.md (between BEGIN/END GENERATED markers):
   rules  - the rule catalogue as built, from evidence/*.json (run every check first)
   matrix - which checks catch which seeded changes, from seeded/MATRIX.txt and refactorings/MATRIX.txt
"""
import json, re, os, glob
V = os.path.dirname(os.path.dirname(os.path.abspath(__file__)))
props = {}
for l in open(os.path.join(V, 'properties.jsonl')):
    d = json.loads(l); props[d['id']] = d
claims = json.load(open(os.path.join(V, 'tools', 'claims.json')))

def rules_md():
    out = []
    for pid in sorted(props):
        p = os.path.join(V, 'evidence', pid + '.json')
        if not os.path.exists(p):
            continue
        ev = json.load(open(p)); c = ev['coverage']
        out.append('### %s %s — level `%s`, %d obligations\n' % (pid, props[pid]['title'], ev['level'], c['obligations']))
        out.append('| rule | instances (min) | what is required |\n|---|---|---|')
        for r in c['rules']:
            out.append('| `%s` | %d (%d) | %s |' % (r['rule'], r['instances'], r['min_instances'], r['doc'].replace('|', '\\|').replace('\n', ' ')))
        nd = c.get('not_decided') or []
        if nd:
            out.append('\nNot decided: ' + ' '.join(x.rstrip('.') + '.' for x in nd))
        asm = [a for a in ev.get('assumptions', []) if not a.startswith('the analysis is deterministic')]
        if asm:
            out.append('\nAssumed / trusted: ' + ' '.join(x.rstrip('.') + '.' for x in asm))
        out.append('')
    return '\n'.join(out)

def matrix_md():
    out = []
    for title, path in (('Seeded property-breaking changes (`seeded/`): X = the check reports a violation, u = it reports only obligations it could not decide on the changed code (also exit 1)', 'seeded/MATRIX.txt'),
                        ('Behaviour-preserving refactorings (`refactorings/`): every cell must be `.`', 'refactorings/MATRIX.txt')):
        p = os.path.join(V, path)
        if not os.path.exists(p):
            continue
        out.append('**' + title + '**\n')
        out.append('```')
        out.append(open(p).read().rstrip())
        out.append('```\n')
    # per seed: one line what it is and who catches it
    mp = os.path.join(V, 'seeded/MATRIX.txt')
    caught = {}
    if os.path.exists(mp):
        lines = open(mp).read().splitlines()
        hdr = lines[0].split()[1:]
        for l in lines[1:]:
            f = l.split()
            if len(f) != len(hdr) + 1: continue
            caught[f[0]] = ['C' + h for h, x in zip(hdr, f[1:]) if x in ('X', 'u')]
    out.append('| change | what it does | caught by |\n|---|---|---|')
    for d in sorted(glob.glob(os.path.join(V, 'seeded', '*', 'meta.json'))):
        sid = os.path.basename(os.path.dirname(d))
        m = json.load(open(d))
        s = m.get('summary', '').replace('|', '\\|').replace('\n', ' ')
        if len(s) > 260: s = s[:257] + '...'
        out.append('| %s | %s | %s |' % (sid, s, ' '.join(caught.get(sid, ['?']))))
    return '\n'.join(out)

doc = open(os.path.join(V, 'DESIGN.md')).read()
for name, fn in (('rules', rules_md), ('matrix', matrix_md)):
    b, e = '<!-- BEGIN GENERATED: %s -->' % name, '<!-- END GENERATED: %s -->' % name
    if b in doc and e in doc:
        i, j = doc.index(b) + len(b), doc.index(e)
        doc = doc[:i] + '\n' + fn() + '\n' + doc[j:]
open(os.path.join(V, 'DESIGN.md'), 'w').write(doc)
