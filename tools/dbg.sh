#!/bin/bash
# usage: tools/dbg.sh <patch.diff> <DBGxxx> — full output of a debug pseudo-property on a patched scratch tree
P=$1; shift
WT=/tmp/scratch/dbgwt
git -C /repo worktree remove --force $WT 2>/dev/null
git -C /repo worktree add -q --detach $WT HEAD || exit 2
git -C $WT apply $P || exit 2
for prop in "$@"; do BCL_REPO=$WT /verif/run $prop quick -evidence /tmp/scratch/dbg.json 2>&1 | cut -c1-${WIDTH:-600}; done
git -C /repo worktree remove --force $WT
