#!/usr/bin/env python3
"""Regenerates /verif/MANIFEST.json from tools/claims.json (one entry per property:
either a claim with level/text/note/technique/design_ref, or {"na": reason})."""
import json, os, subprocess
here = os.path.dirname(os.path.abspath(__file__))
root = os.path.dirname(here)
claims = json.load(open(os.path.join(here, "claims.json")))
fix_commits = subprocess.run(["git", "-C", "/repo", "log", "--format=%H %s", "d0f6a51..HEAD"], capture_output=True, text=True).stdout.strip().splitlines()
checks, na = [], []
for pid in sorted(claims):
    c = claims[pid]
    if "na" in c:
        na.append({"property_id": pid, "reason": c["na"]})
        continue
    checks.append({
        "property_id": pid,
        "quick_cmd": f"./run {pid} quick",
        "thorough_cmd": f"./run {pid} thorough",
        "evidence_file": f"/verif/evidence/{pid}.json",
        "replay_cmd_template": "bin/bclverif -replay {path}",
        "engine": "bclverif",
        "level_claimed": {"category": c["level"], "text": c["text"], "design_ref": c.get("design_ref", "DESIGN.md §5 " + pid)},
        "level_note": c["note"],
        "technique": c["technique"],
    })
m = {
    "version": 1,
    "setup_cmd": "cd /verif/checker && GOFLAGS=-mod=mod GOPROXY=off GOSUMDB=off GOTOOLCHAIN=local go build -o ../bin/bclverif .",
    "hooks": {
        "guard": "verif",
        "enable": "none needed: the checker reads /repo's sources (go/packages + go/ssa); nothing in /repo is instrumented or executed",
        "baseline_off_cmd": "cd /repo && go test -mod=mod -json -vet=off -count=1 -timeout 25m ./...",
        "source_commits": [l.split()[0] for l in fix_commits],
        "add_only": True,
    },
    "engines": [{
        "name": "bclverif",
        "path": "/verif/checker",
        "serves_properties": [c["property_id"] for c in checks],
        "kind_free_text": "repository-specific static analyser (Go, golang.org/x/tools v0.29.0: go/packages, go/types, go/ssa, call graphs): table extraction, structured abstract interpretation of the VM arms and of the compiler (effect typing), SSA ownership / dominance / typestate rules; compares with oracle tables in /verif/spec",
    }],
    "checks": checks,
    "notes": "All checks are static: they load and type-check /repo's current working tree on every run and execute none of it. source_commits lists the unguarded 'fix:' commits made to /repo (genuine defects, see known_findings.json); there are no hooks. Exit 2 = the tree does not type-check or the checker failed (no verdict).",
    "not_applicable": na,
}
json.dump(m, open(os.path.join(root, "MANIFEST.json"), "w"), indent=1)
print("checks:", [c["property_id"] for c in checks], "na:", len(na))
