#!/bin/bash
# usage: tools/matrix.sh [seed-root]  — runs every check against every seeded change; prints a matrix (1 = alarm).
ROOT=${1:-/verif/seeded}
PROPS="C01 C02 C03 C04 C05 C06 C07 C08 C09 C10 C11 C12 C13 C14 C15 C16 C17 C18 C19 C20"
WT=${MATRIX_WT:-/tmp/scratch/matrixwt}
git -C /repo worktree remove --force $WT 2>/dev/null
git -C /repo worktree add -q --detach $WT HEAD || exit 2
printf "%-8s" seed; for p in $PROPS; do printf " %s" ${p#C}; done; echo
for d in $ROOT/*/; do
  id=$(basename $d); p=$d/patch.diff; [ -f $p ] || continue
  git -C $WT checkout -q -- . ; git -C $WT clean -fdq
  git -C $WT apply $p 2>/dev/null || { echo "$id: does not apply"; continue; }
  printf "%-8s" $id
  out=$(for prop in $PROPS; do ( BCL_REPO=$WT /verif/run $prop quick -evidence /tmp/scratch/m-$prop.json >/dev/null 2>&1; echo "$prop $?" ) & done; wait)
  for prop in $PROPS; do code=$(echo "$out" | awk -v p=$prop '$1==p{print $2}'); case $code in 0) printf "  .";; 1) printf "  X";; *) printf "  E";; esac; done; echo
done
git -C /repo worktree remove --force $WT
