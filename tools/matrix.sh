#!/bin/bash
# usage: tools/matrix.sh [seed-root]  — runs every check against every seeded change; prints a matrix
# (X = the check reports a violation, u = it only reports obligations it could not decide, . = silent).
# MATRIX_WT: scratch worktree to use; MATRIX_BIN: a frozen copy of bin/bclverif (so that a rebuild during the run does not mix versions).
ROOT=${1:-/verif/seeded}
PROPS="C01 C02 C03 C04 C05 C06 C07 C08 C09 C10 C11 C12 C13 C14 C15 C16 C17 C18 C19 C20"
WT=${MATRIX_WT:-/tmp/scratch/matrixwt}
git -C /repo worktree remove --force $WT 2>/dev/null
git -C /repo worktree add -q --detach $WT HEAD || exit 2
printf "%-8s" seed; for p in $PROPS; do printf " %s" ${p#C}; done; echo
for d in $ROOT/*/; do
  id=$(basename $d); p=$d/patch.diff; [ -f $p ] || continue
  git -C $WT checkout -q -- . ; git -C $WT clean -fdq
  git -C $WT apply $p 2>/dev/null || { echo "$id: does not apply"; continue; }
  printf "%-8s" $id
  TAG=$(basename $WT)
  out=$(for prop in $PROPS; do (
    if [ -n "${MATRIX_BIN:-}" ]; then
      GOFLAGS=-mod=mod GOPROXY=off GOSUMDB=off GOTOOLCHAIN=local $MATRIX_BIN -repo $WT -verif /verif -prop $prop -tier quick -evidence /tmp/scratch/m-$TAG-$prop.json >/tmp/scratch/m-$TAG-$prop.out 2>&1; rc=$?
    else
      BCL_REPO=$WT /verif/run $prop quick -evidence /tmp/scratch/m-$TAG-$prop.json >/tmp/scratch/m-$TAG-$prop.out 2>&1; rc=$?
    fi
    if [ $rc -eq 1 ] && ! grep -q "violated:" /tmp/scratch/m-$TAG-$prop.out; then rc=u; fi
    echo "$prop $rc" ) & done; wait)
  for prop in $PROPS; do code=$(echo "$out" | awk -v p=$prop '$1==p{print $2}'); case $code in 0) printf "  .";; 1) printf "  X";; u) printf "  u";; *) printf "  E";; esac; done; echo
done
rm -f /tmp/scratch/m-$(basename $WT)-*.json /tmp/scratch/m-$(basename $WT)-*.out
git -C /repo worktree remove --force $WT
