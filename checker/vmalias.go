package main

// The machine's stacks are known to the rules as vm.stack/vm.tos and vm.blockStack/vm.blockTos. When one of them was
// moved into a small struct of its own (held by value in a field of vm, with methods), its two fields are recognised
// by their types — the array of values or of blocks, and the integer beside it — and paths to them are rendered
// under the reference names; the struct's methods count as code of the machine.

import (
	"go/ast"
	"go/types"
	"strings"
)

type vmAliases struct {
	holders map[string]bool   // names of the holder struct types
	prefix  map[string]string // "<blockFrames>.frames" -> "<vm>.blockStack"
}

func (c *Ctx) vmAliasTable() *vmAliases {
	if c.memoTab == nil {
		c.memoTab = map[string]any{}
	}
	if v, ok := c.memoTab["vmAliases"]; ok {
		a, _ := v.(*vmAliases)
		return a
	}
	c.memoTab["vmAliases"] = (*vmAliases)(nil)
	vt := namedType(c.Bcl, "vm")
	if vt == nil {
		return nil
	}
	vst, ok := vt.Underlying().(*types.Struct)
	if !ok {
		return nil
	}
	out := &vmAliases{holders: map[string]bool{}, prefix: map[string]string{}}
	have := map[string]bool{}
	for i := 0; i < vst.NumFields(); i++ {
		// a reference field is "still there" when it still is the array or the counter (a holder struct may well
		// be called `stack` itself)
		switch u := vst.Field(i).Type().Underlying().(type) {
		case *types.Array:
			have[vst.Field(i).Name()] = true
		case *types.Basic:
			if u.Kind() == types.Int {
				have[vst.Field(i).Name()] = true
			}
		}
	}
	for i := 0; i < vst.NumFields(); i++ {
		f := vst.Field(i)
		n, ok := f.Type().(*types.Named) // held by value
		if !ok || n.Obj().Pkg() == nil || n.Obj().Pkg().Path() != bclPath {
			continue
		}
		st, ok := n.Underlying().(*types.Struct)
		if !ok {
			continue
		}
		var arr, cnt *types.Var
		var ints []*types.Var
		kind := ""
		narr := 0
		for j := 0; j < st.NumFields(); j++ {
			g := st.Field(j)
			switch u := g.Type().Underlying().(type) {
			case *types.Array:
				switch {
				case isNamed(u.Elem(), bclPath, "Block"):
					arr, kind = g, "block"
					narr++
				case isNamed(u.Elem(), bclPath, "value"):
					arr, kind = g, "value"
					narr++
				}
			case *types.Basic:
				if u.Kind() == types.Int {
					ints = append(ints, g)
				}
			}
		}
		if arr == nil || narr != 1 || len(ints) == 0 {
			continue
		}
		if len(ints) == 1 {
			cnt = ints[0]
		} else {
			// several integers beside the array (a high-water mark, say): the counter is the one the array is
			// indexed with in the struct's own methods
			used := map[*types.Var]bool{}
			for _, it := range c.sortedDecls() {
				if it.fd.Body == nil || it.fd.Recv == nil {
					continue
				}
				if rn, isN := derefType(c.typeOfRecv(it.fd)).(*types.Named); !isN || rn.Obj() != n.Obj() {
					continue
				}
				ast.Inspect(it.fd.Body, func(x ast.Node) bool {
					ix, isIx := x.(*ast.IndexExpr)
					if !isIx {
						return true
					}
					if sel, isSel := stripParens(ix.X).(*ast.SelectorExpr); !isSel || c.objOf(sel) != types.Object(arr) {
						return true
					}
					ast.Inspect(ix.Index, func(y ast.Node) bool {
						if sel, isSel := y.(*ast.SelectorExpr); isSel {
							if fv, isVar := c.objOf(sel).(*types.Var); isVar {
								for _, g := range ints {
									if fv == g {
										used[g] = true
									}
								}
							}
						}
						return true
					})
					return true
				})
			}
			if len(used) != 1 {
				continue
			}
			for g := range used {
				cnt = g
			}
		}
		refArr, refCnt := "blockStack", "blockTos"
		if kind == "value" {
			refArr, refCnt = "stack", "tos"
		}
		if have[refArr] || have[refCnt] {
			continue // the reference fields are still there
		}
		tn := n.Obj().Name()
		out.holders[tn] = true
		for _, base := range []string{"<" + tn + ">.", "<vm>." + f.Name() + "."} {
			out.prefix[base+arr.Name()] = "<vm>." + refArr
			out.prefix[base+cnt.Name()] = "<vm>." + refCnt
		}
		// the holder's other fields (an overflow flag, a high-water mark) under one spelling
		for j := 0; j < st.NumFields(); j++ {
			if g := st.Field(j); g != arr && g != cnt {
				out.prefix["<"+tn+">."+g.Name()] = "<vm>." + f.Name() + "." + g.Name()
			}
		}
		c.AliasNotes = append(c.AliasNotes, "vm."+f.Name()+" ("+tn+") holds the machine's "+refArr+"/"+refCnt+" as "+arr.Name()+"/"+cnt.Name())
	}
	// the instruction pointer (prog, pc) in a struct of its own, with the operand decoders as its methods
	isProgPtr := func(t types.Type) bool {
		p, ok := t.(*types.Pointer)
		return ok && isNamed(p.Elem(), bclPath, "Prog")
	}
	vmHasProg := false
	for i := 0; i < vst.NumFields(); i++ {
		if isProgPtr(vst.Field(i).Type()) {
			vmHasProg = true
		}
	}
	for i := 0; i < vst.NumFields() && !vmHasProg; i++ {
		f := vst.Field(i)
		n, ok := f.Type().(*types.Named)
		if !ok || n.Obj().Pkg() == nil || n.Obj().Pkg().Path() != bclPath || out.holders[n.Obj().Name()] {
			continue
		}
		st, ok := n.Underlying().(*types.Struct)
		if !ok {
			continue
		}
		var prog *types.Var
		var ints []*types.Var
		nprog := 0
		for j := 0; j < st.NumFields(); j++ {
			g := st.Field(j)
			if isProgPtr(g.Type()) {
				prog = g
				nprog++
			} else if b, isB := g.Type().Underlying().(*types.Basic); isB && b.Kind() == types.Int {
				ints = append(ints, g)
			}
		}
		if nprog != 1 || len(ints) == 0 {
			continue
		}
		var pc *types.Var
		if len(ints) == 1 {
			pc = ints[0]
		} else {
			// the one the code is indexed or sliced with in the struct's own methods
			used := map[*types.Var]bool{}
			for _, it := range c.sortedDecls() {
				if it.fd.Body == nil || it.fd.Recv == nil {
					continue
				}
				if rn, isN := derefType(c.typeOfRecv(it.fd)).(*types.Named); !isN || rn.Obj() != n.Obj() {
					continue
				}
				ast.Inspect(it.fd.Body, func(x ast.Node) bool {
					var base ast.Expr
					var idx []ast.Expr
					switch e := x.(type) {
					case *ast.IndexExpr:
						base, idx = e.X, []ast.Expr{e.Index}
					case *ast.SliceExpr:
						base, idx = e.X, []ast.Expr{e.Low, e.High}
					default:
						return true
					}
					if sel, isSel := stripParens(base).(*ast.SelectorExpr); !isSel || sel.Sel.Name != "code" {
						return true
					}
					for _, ie := range idx {
						if ie == nil {
							continue
						}
						ast.Inspect(ie, func(y ast.Node) bool {
							if sel, isSel := y.(*ast.SelectorExpr); isSel {
								if fv, isVar := c.objOf(sel).(*types.Var); isVar {
									for _, g := range ints {
										if fv == g {
											used[g] = true
										}
									}
								}
							}
							return true
						})
					}
					return true
				})
			}
			if len(used) != 1 {
				continue
			}
			for g := range used {
				pc = g
			}
		}
		tn := n.Obj().Name()
		out.holders[tn] = true
		for _, base := range []string{"<" + tn + ">.", "<vm>." + f.Name() + "."} {
			out.prefix[base+prog.Name()] = "<vm>.prog"
			out.prefix[base+pc.Name()] = "<vm>.pc"
		}
		if f.Embedded() {
			// promoted fields are written vm.<name>
			if prog.Name() != "prog" {
				out.prefix["<vm>."+prog.Name()] = "<vm>.prog"
			}
			if pc.Name() != "pc" {
				out.prefix["<vm>."+pc.Name()] = "<vm>.pc"
			}
		}
		for j := 0; j < st.NumFields(); j++ {
			if g := st.Field(j); g != prog && g != pc {
				out.prefix["<"+tn+">."+g.Name()] = "<vm>." + f.Name() + "." + g.Name()
			}
		}
		c.AliasNotes = append(c.AliasNotes, "vm."+f.Name()+" ("+tn+") holds the machine's prog/pc as "+prog.Name()+"/"+pc.Name())
	}
	// the same with the program kept in vm and only its code in the cursor struct ({code []byte; pc int}, the code
	// field initialised from prog.code where the machine is built)
	isByteSlice := func(t types.Type) bool {
		sl, ok := t.Underlying().(*types.Slice)
		if !ok {
			return false
		}
		b, ok := sl.Elem().Underlying().(*types.Basic)
		return ok && b.Kind() == types.Uint8
	}
	for i := 0; i < vst.NumFields() && vmHasProg && !have["pc"]; i++ {
		f := vst.Field(i)
		n, ok := f.Type().(*types.Named)
		if !ok || n.Obj().Pkg() == nil || n.Obj().Pkg().Path() != bclPath || out.holders[n.Obj().Name()] {
			continue
		}
		st, ok := n.Underlying().(*types.Struct)
		if !ok {
			continue
		}
		var code, pc *types.Var
		ncode, nint := 0, 0
		for j := 0; j < st.NumFields(); j++ {
			g := st.Field(j)
			if isByteSlice(g.Type()) {
				code = g
				ncode++
			} else if b, isB := g.Type().Underlying().(*types.Basic); isB && b.Kind() == types.Int {
				pc = g
				nint++
			}
		}
		if ncode != 1 || nint != 1 || st.NumFields() != 2 {
			continue
		}
		// every literal of the struct sets the code field from a program's code
		okInit, nLit := true, 0
		for _, lit := range c.compositeLits(func(t types.Type) bool { return types.Identical(t, n) }) {
			nLit++
			found := false
			for k, el := range lit.Elts {
				val := el
				name := ""
				if kv, isKV := el.(*ast.KeyValueExpr); isKV {
					if id, isID := kv.Key.(*ast.Ident); isID {
						name = id.Name
					}
					val = kv.Value
				} else if k < st.NumFields() {
					name = st.Field(k).Name()
				}
				if name != code.Name() {
					continue
				}
				sel, isSel := stripParens(val).(*ast.SelectorExpr)
				if isSel && sel.Sel.Name == "code" && isNamed(derefType(c.typeOf(sel.X)), bclPath, "Prog") {
					found = true
				}
			}
			if !found {
				okInit = false
			}
		}
		if !okInit || nLit == 0 {
			continue
		}
		tn := n.Obj().Name()
		out.holders[tn] = true
		for _, base := range []string{"<" + tn + ">.", "<vm>." + f.Name() + "."} {
			out.prefix[base+code.Name()] = "<vm>.prog.code"
			out.prefix[base+pc.Name()] = "<vm>.pc"
		}
		if f.Embedded() {
			out.prefix["<vm>."+code.Name()] = "<vm>.prog.code"
			if pc.Name() != "pc" {
				out.prefix["<vm>."+pc.Name()] = "<vm>.pc"
			}
		}
		c.AliasNotes = append(c.AliasNotes, "vm."+f.Name()+" ("+tn+") holds the program's code and the machine's pc as "+code.Name()+"/"+pc.Name())
	}
	if len(out.holders) == 0 {
		return nil
	}
	c.memoTab["vmAliases"] = out
	return out
}

func (c *Ctx) vmFieldAlias(fp string) string {
	a := c.vmAliasTable()
	if a == nil {
		return fp
	}
	for from, to := range a.prefix {
		if fp == from || strings.HasPrefix(fp, from+".") || strings.HasPrefix(fp, from+"[") {
			return to + strings.TrimPrefix(fp, from)
		}
	}
	return fp
}

// isVMHolder: t is a struct the machine keeps one of its stacks in.
func (c *Ctx) isVMHolder(t types.Type) bool {
	a := c.vmAliasTable()
	if a == nil {
		return false
	}
	n, ok := derefType(t).(*types.Named)
	return ok && n.Obj().Pkg() != nil && n.Obj().Pkg().Path() == bclPath && a.holders[n.Obj().Name()]
}
