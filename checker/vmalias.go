package main

// The machine's stacks are known to the rules as vm.stack/vm.tos and vm.blockStack/vm.blockTos. When one of them was
// moved into a small struct of its own (held by value in a field of vm, with methods), its two fields are recognised
// by their types — the array of values or of blocks, and the integer beside it — and paths to them are rendered
// under the reference names; the struct's methods count as code of the machine.

import (
	"go/types"
	"strings"
)

type vmAliases struct {
	holders map[string]bool   // names of the holder struct types
	prefix  map[string]string // "<blockFrames>.frames" -> "<vm>.blockStack"
}

func (c *Ctx) vmAliasTable() *vmAliases {
	if c.memoTab == nil {
		c.memoTab = map[string]any{}
	}
	if v, ok := c.memoTab["vmAliases"]; ok {
		a, _ := v.(*vmAliases)
		return a
	}
	c.memoTab["vmAliases"] = (*vmAliases)(nil)
	vt := namedType(c.Bcl, "vm")
	if vt == nil {
		return nil
	}
	vst, ok := vt.Underlying().(*types.Struct)
	if !ok {
		return nil
	}
	out := &vmAliases{holders: map[string]bool{}, prefix: map[string]string{}}
	have := map[string]bool{}
	for i := 0; i < vst.NumFields(); i++ {
		have[vst.Field(i).Name()] = true
	}
	for i := 0; i < vst.NumFields(); i++ {
		f := vst.Field(i)
		n, ok := f.Type().(*types.Named) // held by value
		if !ok || n.Obj().Pkg() == nil || n.Obj().Pkg().Path() != bclPath {
			continue
		}
		st, ok := n.Underlying().(*types.Struct)
		if !ok || st.NumFields() != 2 {
			continue
		}
		var arr, cnt *types.Var
		kind := ""
		for j := 0; j < st.NumFields(); j++ {
			g := st.Field(j)
			switch u := g.Type().Underlying().(type) {
			case *types.Array:
				switch {
				case isNamed(u.Elem(), bclPath, "Block"):
					arr, kind = g, "block"
				case isNamed(u.Elem(), bclPath, "value"):
					arr, kind = g, "value"
				}
			case *types.Basic:
				if u.Kind() == types.Int {
					cnt = g
				}
			}
		}
		if arr == nil || cnt == nil {
			continue
		}
		refArr, refCnt := "blockStack", "blockTos"
		if kind == "value" {
			refArr, refCnt = "stack", "tos"
		}
		if have[refArr] || have[refCnt] {
			continue // the reference fields are still there
		}
		tn := n.Obj().Name()
		out.holders[tn] = true
		for _, base := range []string{"<" + tn + ">.", "<vm>." + f.Name() + "."} {
			out.prefix[base+arr.Name()] = "<vm>." + refArr
			out.prefix[base+cnt.Name()] = "<vm>." + refCnt
		}
		c.AliasNotes = append(c.AliasNotes, "vm."+f.Name()+" ("+tn+") holds the machine's "+refArr+"/"+refCnt+" as "+arr.Name()+"/"+cnt.Name())
	}
	if len(out.holders) == 0 {
		return nil
	}
	c.memoTab["vmAliases"] = out
	return out
}

func (c *Ctx) vmFieldAlias(fp string) string {
	a := c.vmAliasTable()
	if a == nil {
		return fp
	}
	for from, to := range a.prefix {
		if fp == from || strings.HasPrefix(fp, from+".") || strings.HasPrefix(fp, from+"[") {
			return to + strings.TrimPrefix(fp, from)
		}
	}
	return fp
}

// isVMHolder: t is a struct the machine keeps one of its stacks in.
func (c *Ctx) isVMHolder(t types.Type) bool {
	a := c.vmAliasTable()
	if a == nil {
		return false
	}
	n, ok := derefType(t).(*types.Named)
	return ok && n.Obj().Pkg() != nil && n.Obj().Pkg().Path() == bclPath && a.holders[n.Obj().Name()]
}
