package main

import (
	"go/ast"
	"go/types"
)

func init() {
	register("C15", "other", checkC15)
	register("C05", "other", checkC05)
}

func checkC15(c *Ctx, r *Report) {
	ruleReflectGuards(c, r, "reflect-guards")
	ruleNoCoercion(c, r, "no-coercion")
	ruleErrorsPropagate(c, r, "errors-propagate")
	ruleMapRange(c, r, "map-range")
	c.ruleNoGlobalWrites(r, "no-global-state")
	ruleMappingRule(c, r, "mapping-rule")
	r.rule("bind-entry", 1, "Bind forwards to copyBlocks and returns its result")
	if _, fd := c.find("Bind"); fd != nil {
		ok := false
		if len(fd.Body.List) == 1 {
			if rs, isR := fd.Body.List[0].(*ast.ReturnStmt); isR && len(rs.Results) == 1 {
				if call, isC := rs.Results[0].(*ast.CallExpr); isC && c.calleeName(call) == "copyBlocks" {
					ok = true
				}
			}
		}
		r.check(ok, "bind-entry", "Bind", "return copyBlocks(target, binding)", "Bind must return copyBlocks' result unchanged", c.pos(fd.Pos()))
	} else {
		r.bad("bind-entry", "Bind", "function not found", "")
	}
	r.note("the space of user-defined target types is open-ended: the rules decide that each partial reflect operation is guarded on the same value, not that every type is handled as a user expects")
}

func ruleMappingRule(c *Ctx, r *Report, rule string) {
	r.rule(rule, 6, "field mapping, on the interpreted paths of copyBlock: the tag table (raw `bcl` tag value -> field, over all fields) is consulted first with the raw key; only on a miss is the key cut at its first '.' and matched against the field names with underscores removed and strings.EqualFold; a named struct type must match the block type the same way; the block name goes through the setter as (\"Name\", block.Name) before the fields")
	ruleSetterMapping(c, r, rule)
}

func checkC05(c *Ctx, r *Report) {
	ruleMappingRule(c, r, "mapping-rule")
	ruleEndBlock(c, r, "blocks-reach-result")
	// the values copied are the ones the source assigned: SETFIELD writes the innermost open block only, a read finds
	// the nearest enclosing definition
	ruleFieldAccess(c, r, "field-values")
	ruleStringOpaque(c, r, "string-literal-scan")
	ruleNoCoercion(c, r, "no-coercion")
	ruleReflectGuards(c, r, "fresh-slice-and-guards")
	ruleMapRange(c, r, "map-range")
	ruleErrorsPropagate(c, r, "errors-propagate")
	r.note("the round trip itself (write a value as BCL text, unmarshal, compare deeply): it ranges over run-time reflect types and values; only the structure of the mapping rule, the fresh-slice construction and the absence of coercion are decided — this check is thin, and says so")
}

// underscoreStrippedParams: the indexes of fd's parameters whose value is
// handed (directly or through module functions, including closures those
// return) to strings.Replace/ReplaceAll(x, "_", "", ...).
func (c *Ctx) underscoreStrippedParams(fd *ast.FuncDecl, depth int) map[int]bool {
	out := map[int]bool{}
	if fd == nil || fd.Body == nil || depth > 4 {
		return out
	}
	params := map[types.Object]int{}
	k := 0
	for _, f := range fd.Type.Params.List {
		for _, n := range f.Names {
			params[c.objOf(n)] = k
			k++
		}
	}
	paramOf := func(e ast.Expr) (int, bool) {
		id, ok := stripParens(e).(*ast.Ident)
		if !ok {
			return 0, false
		}
		i, ok := params[c.objOf(id)]
		return i, ok
	}
	ast.Inspect(fd.Body, func(n ast.Node) bool {
		call, ok := n.(*ast.CallExpr)
		if !ok {
			return true
		}
		name := c.calleeName(call)
		if (name == "strings.ReplaceAll" || name == "strings.Replace") && len(call.Args) >= 3 {
			if a, ok := c.strConst(call.Args[1]); ok && a == "_" {
				if i, ok := paramOf(call.Args[0]); ok {
					out[i] = true
				}
			}
			return true
		}
		if fn, ok := c.callee(call).(*types.Func); ok && fn.Pkg() != nil && fn.Pkg().Path() == bclPath {
			inner := c.underscoreStrippedParams(c.funcDecls[fn], depth+1)
			for j, a := range call.Args {
				if i, ok := paramOf(a); ok && inner[j] {
					out[i] = true
				}
			}
		}
		return true
	})
	return out
}
