package main

import (
	"fmt"
	"go/ast"
	"go/token"
	"go/types"
	"strings"
)

func init() {
	register("C15", "other", checkC15)
	register("C05", "other", checkC05)
}

func checkC15(c *Ctx, r *Report) {
	ruleReflectGuards(c, r, "reflect-guards")
	ruleNoCoercion(c, r, "no-coercion")
	ruleErrorsPropagate(c, r, "errors-propagate")
	ruleMapRange(c, r, "map-range")
	c.ruleNoGlobalWrites(r, "no-global-state")
	ruleMappingRule(c, r, "mapping-rule")
	r.rule("bind-entry", 1, "Bind forwards to copyBlocks and returns its result")
	if _, fd := c.find("Bind"); fd != nil {
		ok := false
		if len(fd.Body.List) == 1 {
			if rs, isR := fd.Body.List[0].(*ast.ReturnStmt); isR && len(rs.Results) == 1 {
				if call, isC := rs.Results[0].(*ast.CallExpr); isC && c.calleeName(call) == "copyBlocks" {
					ok = true
				}
			}
		}
		r.check(ok, "bind-entry", "Bind", "return copyBlocks(target, binding)", "Bind must return copyBlocks' result unchanged", c.pos(fd.Pos()))
	} else {
		r.bad("bind-entry", "Bind", "function not found", "")
	}
	r.note("the space of user-defined target types is open-ended: the rules decide that each partial reflect operation is guarded on the same value, not that every type is handled as a user expects")
}

func ruleMappingRule(c *Ctx, r *Report, rule string) {
	r.rule(rule, 6, "field mapping: the tag table (raw `bcl` tag value -> field index) is consulted first with the raw key; only on a miss is the key cut at its first '.' and matched with FieldByNameFunc(unsnakeMatcher); unsnakeMatcher removes underscores and compares with EqualFold; a named struct type must match the block type the same way; Name is set before the fields")
	_, cb := c.find("copyBlock")
	if cb == nil {
		r.bad(rule, "copyBlock", "function not found", "")
		return
	}
	var setField *ast.FuncLit
	ast.Inspect(cb.Body, func(n ast.Node) bool {
		if as, ok := n.(*ast.AssignStmt); ok && len(as.Rhs) == 1 {
			if lit, ok := as.Rhs[0].(*ast.FuncLit); ok && setField == nil {
				setField = lit
			}
		}
		return true
	})
	if setField == nil {
		r.bad(rule, "setField", "the field-setting closure was not found in copyBlock", c.pos(cb.Pos()))
		return
	}
	nameParam := c.infoFor(setField).Defs[setField.Type.Params.List[0].Names[0]]
	// tag table construction: <map>[f.Tag.Get("bcl")] = i, in copyBlock or in a helper whose result is the table
	okTable := false
	tableFuncs := []*ast.FuncDecl{cb}
	ast.Inspect(cb.Body, func(n ast.Node) bool {
		as, ok := n.(*ast.AssignStmt)
		if !ok || len(as.Lhs) != 1 || len(as.Rhs) != 1 {
			return true
		}
		if id, ok := as.Lhs[0].(*ast.Ident); ok && id.Name == "tagged" {
			if call, ok := as.Rhs[0].(*ast.CallExpr); ok {
				if fn, ok := c.callee(call).(*types.Func); ok {
					if hd := c.funcDecls[fn]; hd != nil {
						tableFuncs = append(tableFuncs, hd)
					}
				}
			}
		}
		return true
	})
	badStore := ""
	for _, tf := range tableFuncs {
		ast.Inspect(tf.Body, func(n ast.Node) bool {
			if _, isLit := n.(*ast.FuncLit); isLit {
				return false
			}
			as, ok := n.(*ast.AssignStmt)
			if !ok || len(as.Lhs) != 1 {
				return true
			}
			ix, ok := as.Lhs[0].(*ast.IndexExpr)
			if !ok {
				return true
			}
			mt, isMap := c.typeOf(ix.X).Underlying().(*types.Map)
			if !isMap || types.TypeString(mt.Key(), nil) != "string" || !isInt(mt.Elem()) {
				return true
			}
			// the key must be the direct result of Tag.Get("bcl")
			key := ix.Index
			if kid, ok := key.(*ast.Ident); ok {
				if def, n := c.singleDef(tf.Body, c.objOf(kid)); n == 1 {
					key = def
				}
			}
			goodKey := false
			if call, ok := key.(*ast.CallExpr); ok && c.calleeName(call) == "reflect.StructTag.Get" {
				if s, isS := c.strConst(call.Args[0]); isS && s == "bcl" {
					goodKey = true
				}
			}
			// the stored index is the induction variable of `for i := 0; i < t.NumField(); i++` (the index space of t.Field)
			goodIdx := false
			if vid, ok := as.Rhs[0].(*ast.Ident); ok {
				pm := parentMap(tf.Body)
				for p := pm[as]; p != nil; p = pm[p] {
					fs, isFor := p.(*ast.ForStmt)
					if !isFor {
						if _, isRange := p.(*ast.RangeStmt); isRange {
							break
						}
						continue
					}
					if cond, ok := stripParens(fs.Cond).(*ast.BinaryExpr); ok && cond.Op == token.LSS && c.isObj(cond.X, c.objOf(vid)) {
						if call, ok := stripParens(cond.Y).(*ast.CallExpr); ok && c.calleeName(call) == "reflect.Type.NumField" {
							goodIdx = true
						}
					}
					break
				}
			}
			if goodKey && goodIdx {
				okTable = true
			} else {
				badStore = c.pos(as.Pos())
			}
			return true
		})
	}
	if badStore != "" {
		okTable = false
	}
	r.check(okTable, rule, "tag-table", `table[f.Tag.Get("bcl")] = i for i < t.NumField(), nothing else`, "every entry of the tag table must be keyed by the raw value of a `bcl` tag and hold the field's index in t.Field's index space (for i := 0; i < t.NumField(); i++); offending store at "+badStore, c.pos(cb.Pos()))
	// order inside setField
	tagAt, nameAt := -1, -1
	rawKey, underNotOK, cutFirst := false, false, false
	for i, s := range setField.Body.List {
		ast.Inspect(s, func(n ast.Node) bool {
			switch n := n.(type) {
			case *ast.IndexExpr:
				if id, ok := n.X.(*ast.Ident); ok && id.Name == "tagged" {
					if tagAt < 0 {
						tagAt = i
					}
					rawKey = c.isObj(n.Index, nameParam)
				}
			case *ast.CallExpr:
				switch c.calleeName(n) {
				case "reflect.Type.FieldByNameFunc":
					if nameAt < 0 {
						nameAt = i
					}
					if ifs, ok := s.(*ast.IfStmt); ok {
						if ue, ok := stripParens(ifs.Cond).(*ast.UnaryExpr); ok && ue.Op == token.NOT {
							if id, ok := stripParens(ue.X).(*ast.Ident); ok && id.Name == "ok" {
								underNotOK = true
							}
						}
					}
				case "strings.Cut":
					if sep, isS := c.strConst(n.Args[1]); isS && sep == "." && c.isObj(n.Args[0], nameParam) {
						cutFirst = true
					}
				case "strings.LastIndex", "strings.LastIndexByte", "strings.Split", "strings.SplitN", "strings.Index", "strings.IndexByte", "strings.TrimSuffix", "strings.TrimPrefix", "strings.ToLower", "strings.ReplaceAll":
					cutFirst = false
					rawKey = false
				}
			}
			return true
		})
	}
	r.check(tagAt >= 0 && nameAt > tagAt && rawKey, rule, "tag-first", "tagged[name] with the raw key, before name matching", "the tag table must be consulted first, with the unmodified block key", c.pos(setField.Pos()))
	r.check(underNotOK && cutFirst, rule, "name-fallback", "only on a tag miss: cut the key at its first '.', FieldByNameFunc(unsnakeMatcher(...))", "name matching must run only when the tag lookup missed, on the key cut at its first '.' (strings.Cut)", c.pos(setField.Pos()))
	// unsnakeMatcher (and the helpers it calls): one underscore removal on the key, EqualFold, nothing else on strings
	if _, um := c.find("unsnakeMatcher"); um != nil {
		okRep, okFold, other := 0, 0, ""
		var visit func(fd *ast.FuncDecl, depth int)
		seenFd := map[*ast.FuncDecl]bool{}
		visit = func(fd *ast.FuncDecl, depth int) {
			if fd == nil || seenFd[fd] || depth > 3 {
				return
			}
			seenFd[fd] = true
			for _, cs := range c.callsOf(fd) {
				switch {
				case cs.Name == "strings.ReplaceAll" && len(cs.Call.Args) == 3:
					a, ok1 := c.strConst(cs.Call.Args[1])
					b, ok2 := c.strConst(cs.Call.Args[2])
					if ok1 && ok2 && a == "_" && b == "" {
						okRep++
					} else {
						other = cs.Name
					}
				case cs.Name == "strings.Replace" && len(cs.Call.Args) == 4:
					a, ok1 := c.strConst(cs.Call.Args[1])
					b, ok2 := c.strConst(cs.Call.Args[2])
					n, ok3 := c.intConst(cs.Call.Args[3])
					if ok1 && ok2 && ok3 && a == "_" && b == "" && n < 0 {
						okRep++
					} else {
						other = cs.Name
					}
				case cs.Name == "strings.EqualFold":
					okFold++
				case strings.HasPrefix(cs.Name, "strings.") || strings.HasPrefix(cs.Name, "unicode."):
					other = cs.Name
				default:
					if fn, ok := c.callee(cs.Call).(*types.Func); ok && fn.Pkg() != nil && fn.Pkg().Path() == bclPath {
						visit(c.funcDecls[fn], depth+1)
					}
				}
			}
		}
		visit(um, 0)
		r.check(okRep == 1 && okFold == 1 && other == "", rule, "unsnakeMatcher", `EqualFold(field, key with "_" removed)`, fmt.Sprintf("unsnakeMatcher must remove underscores from the key once and compare with strings.EqualFold, nothing else (removals %d, EqualFold %d, other string call %q)", okRep, okFold, other), c.pos(um.Pos()))
	} else {
		r.bad(rule, "unsnakeMatcher", "function not found", "")
	}
	if _, ue := c.find("unsnakeEq"); ue != nil {
		sp := c.underscoreStrippedParams(ue, 0)
		r.check(len(sp) == 1 && sp[1], rule, "unsnakeEq", "underscores removed from the second argument only", fmt.Sprintf("unsnakeEq(orig, snake) must remove underscores from its second argument (the BCL spelling) and compare it with the first (the Go name); parameters whose underscores are removed: %v", sp), c.pos(ue.Pos()))
	}
	// type name check: st != "" && !unsnakeEq(st, bt)  (any equivalent spelling) -> error
	okType := false
	ast.Inspect(cb.Body, func(n ast.Node) bool {
		if _, isLit := n.(*ast.FuncLit); isLit {
			return false
		}
		ifs, ok := n.(*ast.IfStmt)
		if !ok {
			return true
		}
		init, _ := ifs.Init.(*ast.AssignStmt)
		atoms, pure := c.nnf(ifs.Cond, true, init).conjuncts()
		if !pure || len(atoms) != 2 {
			return true
		}
		nonEmpty, mismatch := false, false
		for _, a := range atoms {
			if _, isEmpty, ok := c.emptyStringCmp(a); ok && !isEmpty {
				nonEmpty = true
			}
			if call, ok := a.E.(*ast.CallExpr); ok && !a.Pos && c.calleeName(call) == "unsnakeEq" && len(call.Args) == 2 {
				// unsnakeEq(Go type name, block type): the first is t.Name(), the second block.Type
				a0, a1 := c.resolveInit(a, call.Args[0]), c.resolveInit(a, call.Args[1])
				if n0, ok := stripParens(a0).(*ast.CallExpr); ok && c.calleeName(n0) == "reflect.Type.Name" && c.fieldPath(a1) == "<Block>.Type" {
					mismatch = true
				}
			}
		}
		returnsErr := false
		for _, s := range ifs.Body.List {
			if rs, ok := s.(*ast.ReturnStmt); ok && len(rs.Results) == 1 && !isNilIdent(rs.Results[0]) {
				returnsErr = true
			}
		}
		if nonEmpty && mismatch && returnsErr {
			okType = true
		}
		return true
	})
	r.check(okType, rule, "type-name", `struct type name != "" && !unsnakeEq(type name, block type) -> error`, "a named struct type must be checked with unsnakeEq(Go type name, block type) — in this order — and unnamed struct types skipped", c.pos(cb.Pos()))
	// Name first
	firstCall := ""
	for _, s := range cb.Body.List {
		// err := setField(...)   or   if err := setField(...); err != nil {
		if ifs, ok := s.(*ast.IfStmt); ok && ifs.Init != nil {
			s = ifs.Init
		}
		if as, ok := s.(*ast.AssignStmt); ok && len(as.Rhs) == 1 {
			if call, ok := as.Rhs[0].(*ast.CallExpr); ok {
				if c.isFieldSetterCall(call) && firstCall == "" {
					if s0, isS := c.strConst(call.Args[0]); isS {
						firstCall = s0
					}
					if firstCall == "Name" && !strings.HasSuffix(c.fieldPath(call.Args[1]), ".Name") {
						firstCall = "?"
					}
				}
			}
		}
	}
	r.check(firstCall == "Name", rule, "name-field", `setField("Name", block.Name) before the fields`, "the block name must be stored through setField(\"Name\", block.Name) before the fields", c.pos(cb.Pos()))
}

func checkC05(c *Ctx, r *Report) {
	ruleMappingRule(c, r, "mapping-rule")
	ruleEndBlock(c, r, "blocks-reach-result")
	ruleStringOpaque(c, r, "string-literal-scan")
	ruleNoCoercion(c, r, "no-coercion")
	ruleReflectGuards(c, r, "fresh-slice-and-guards")
	ruleMapRange(c, r, "map-range")
	ruleErrorsPropagate(c, r, "errors-propagate")
	r.note("the round trip itself (write a value as BCL text, unmarshal, compare deeply): it ranges over run-time reflect types and values; only the structure of the mapping rule, the fresh-slice construction and the absence of coercion are decided — this check is thin, and says so")
}

// underscoreStrippedParams: the indexes of fd's parameters whose value is
// handed (directly or through module functions, including closures those
// return) to strings.Replace/ReplaceAll(x, "_", "", ...).
func (c *Ctx) underscoreStrippedParams(fd *ast.FuncDecl, depth int) map[int]bool {
	out := map[int]bool{}
	if fd == nil || fd.Body == nil || depth > 4 {
		return out
	}
	params := map[types.Object]int{}
	k := 0
	for _, f := range fd.Type.Params.List {
		for _, n := range f.Names {
			params[c.objOf(n)] = k
			k++
		}
	}
	paramOf := func(e ast.Expr) (int, bool) {
		id, ok := stripParens(e).(*ast.Ident)
		if !ok {
			return 0, false
		}
		i, ok := params[c.objOf(id)]
		return i, ok
	}
	ast.Inspect(fd.Body, func(n ast.Node) bool {
		call, ok := n.(*ast.CallExpr)
		if !ok {
			return true
		}
		name := c.calleeName(call)
		if (name == "strings.ReplaceAll" || name == "strings.Replace") && len(call.Args) >= 3 {
			if a, ok := c.strConst(call.Args[1]); ok && a == "_" {
				if i, ok := paramOf(call.Args[0]); ok {
					out[i] = true
				}
			}
			return true
		}
		if fn, ok := c.callee(call).(*types.Func); ok && fn.Pkg() != nil && fn.Pkg().Path() == bclPath {
			inner := c.underscoreStrippedParams(c.funcDecls[fn], depth+1)
			for j, a := range call.Args {
				if i, ok := paramOf(a); ok && inner[j] {
					out[i] = true
				}
			}
		}
		return true
	})
	return out
}
