package main

import (
	"fmt"
	"go/ast"
	"go/token"
	"go/types"
	"strings"
)

func init() {
	register("C15", "other", checkC15)
	register("C05", "other", checkC05)
}

func checkC15(c *Ctx, r *Report) {
	ruleReflectGuards(c, r, "reflect-guards")
	ruleNoCoercion(c, r, "no-coercion")
	ruleErrorsPropagate(c, r, "errors-propagate")
	ruleMapRange(c, r, "map-range")
	r.rule("bind-entry", 1, "Bind forwards to copyBlocks and returns its result")
	if _, fd := c.find("Bind"); fd != nil {
		ok := false
		if len(fd.Body.List) == 1 {
			if rs, isR := fd.Body.List[0].(*ast.ReturnStmt); isR && len(rs.Results) == 1 {
				if call, isC := rs.Results[0].(*ast.CallExpr); isC && c.calleeName(call) == "copyBlocks" {
					ok = true
				}
			}
		}
		r.check(ok, "bind-entry", "Bind", "return copyBlocks(target, binding)", "Bind must return copyBlocks' result unchanged", c.pos(fd.Pos()))
	} else {
		r.bad("bind-entry", "Bind", "function not found", "")
	}
	r.note("the space of user-defined target types is open-ended: the rules decide that each partial reflect operation is guarded on the same value, not that every type is handled as a user expects")
}

func ruleMappingRule(c *Ctx, r *Report, rule string) {
	r.rule(rule, 6, "field mapping: the tag table (raw `bcl` tag value -> field index) is consulted first with the raw key; only on a miss is the key cut at its first '.' and matched with FieldByNameFunc(unsnakeMatcher); unsnakeMatcher removes underscores and compares with EqualFold; a named struct type must match the block type the same way; Name is set before the fields")
	_, cb := c.find("copyBlock")
	if cb == nil {
		r.bad(rule, "copyBlock", "function not found", "")
		return
	}
	var setField *ast.FuncLit
	ast.Inspect(cb.Body, func(n ast.Node) bool {
		if as, ok := n.(*ast.AssignStmt); ok && len(as.Rhs) == 1 {
			if lit, ok := as.Rhs[0].(*ast.FuncLit); ok && setField == nil {
				setField = lit
			}
		}
		return true
	})
	if setField == nil {
		r.bad(rule, "setField", "the field-setting closure was not found in copyBlock", c.pos(cb.Pos()))
		return
	}
	nameParam := c.infoFor(setField).Defs[setField.Type.Params.List[0].Names[0]]
	// tag table construction: <map>[f.Tag.Get("bcl")] = i, in copyBlock or in a helper whose result is the table
	okTable := false
	tableFuncs := []*ast.FuncDecl{cb}
	ast.Inspect(cb.Body, func(n ast.Node) bool {
		as, ok := n.(*ast.AssignStmt)
		if !ok || len(as.Lhs) != 1 || len(as.Rhs) != 1 {
			return true
		}
		if id, ok := as.Lhs[0].(*ast.Ident); ok && id.Name == "tagged" {
			if call, ok := as.Rhs[0].(*ast.CallExpr); ok {
				if fn, ok := c.callee(call).(*types.Func); ok {
					if hd := c.funcDecls[fn]; hd != nil {
						tableFuncs = append(tableFuncs, hd)
					}
				}
			}
		}
		return true
	})
	for _, tf := range tableFuncs {
		ast.Inspect(tf.Body, func(n ast.Node) bool {
			as, ok := n.(*ast.AssignStmt)
			if !ok || len(as.Lhs) != 1 {
				return true
			}
			ix, ok := as.Lhs[0].(*ast.IndexExpr)
			if !ok {
				return true
			}
			if _, isMap := c.typeOf(ix.X).Underlying().(*types.Map); !isMap {
				return true
			}
			// the key must be the direct result of Tag.Get("bcl")
			key := ix.Index
			if kid, ok := key.(*ast.Ident); ok {
				if def, n := c.singleDef(tf.Body, c.objOf(kid)); n == 1 {
					key = def
				}
			}
			if call, ok := key.(*ast.CallExpr); ok && c.calleeName(call) == "reflect.StructTag.Get" {
				if s, isS := c.strConst(call.Args[0]); isS && s == "bcl" {
					okTable = true
				}
			}
			return true
		})
	}
	r.check(okTable, rule, "tag-table", `table[f.Tag.Get("bcl")] = i`, "the tag table must be keyed by the raw value of the `bcl` tag", c.pos(cb.Pos()))
	// order inside setField
	tagAt, nameAt := -1, -1
	rawKey, underNotOK, cutFirst := false, false, false
	for i, s := range setField.Body.List {
		ast.Inspect(s, func(n ast.Node) bool {
			switch n := n.(type) {
			case *ast.IndexExpr:
				if id, ok := n.X.(*ast.Ident); ok && id.Name == "tagged" {
					if tagAt < 0 {
						tagAt = i
					}
					rawKey = c.isObj(n.Index, nameParam)
				}
			case *ast.CallExpr:
				switch c.calleeName(n) {
				case "reflect.Type.FieldByNameFunc":
					if nameAt < 0 {
						nameAt = i
					}
					if ifs, ok := s.(*ast.IfStmt); ok {
						if ue, ok := stripParens(ifs.Cond).(*ast.UnaryExpr); ok && ue.Op == token.NOT {
							if id, ok := stripParens(ue.X).(*ast.Ident); ok && id.Name == "ok" {
								underNotOK = true
							}
						}
					}
				case "strings.Cut":
					if sep, isS := c.strConst(n.Args[1]); isS && sep == "." && c.isObj(n.Args[0], nameParam) {
						cutFirst = true
					}
				case "strings.LastIndex", "strings.LastIndexByte", "strings.Split", "strings.SplitN", "strings.Index", "strings.IndexByte", "strings.TrimSuffix", "strings.TrimPrefix", "strings.ToLower", "strings.ReplaceAll":
					cutFirst = false
					rawKey = false
				}
			}
			return true
		})
	}
	r.check(tagAt >= 0 && nameAt > tagAt && rawKey, rule, "tag-first", "tagged[name] with the raw key, before name matching", "the tag table must be consulted first, with the unmodified block key", c.pos(setField.Pos()))
	r.check(underNotOK && cutFirst, rule, "name-fallback", "only on a tag miss: cut the key at its first '.', FieldByNameFunc(unsnakeMatcher(...))", "name matching must run only when the tag lookup missed, on the key cut at its first '.' (strings.Cut)", c.pos(setField.Pos()))
	// unsnakeMatcher (and the helpers it calls): one underscore removal on the key, EqualFold, nothing else on strings
	if _, um := c.find("unsnakeMatcher"); um != nil {
		okRep, okFold, other := 0, 0, ""
		var visit func(fd *ast.FuncDecl, depth int)
		seenFd := map[*ast.FuncDecl]bool{}
		visit = func(fd *ast.FuncDecl, depth int) {
			if fd == nil || seenFd[fd] || depth > 3 {
				return
			}
			seenFd[fd] = true
			for _, cs := range c.callsOf(fd) {
				switch {
				case cs.Name == "strings.ReplaceAll" && len(cs.Call.Args) == 3:
					a, ok1 := c.strConst(cs.Call.Args[1])
					b, ok2 := c.strConst(cs.Call.Args[2])
					if ok1 && ok2 && a == "_" && b == "" {
						okRep++
					} else {
						other = cs.Name
					}
				case cs.Name == "strings.Replace" && len(cs.Call.Args) == 4:
					a, ok1 := c.strConst(cs.Call.Args[1])
					b, ok2 := c.strConst(cs.Call.Args[2])
					n, ok3 := c.intConst(cs.Call.Args[3])
					if ok1 && ok2 && ok3 && a == "_" && b == "" && n < 0 {
						okRep++
					} else {
						other = cs.Name
					}
				case cs.Name == "strings.EqualFold":
					okFold++
				case strings.HasPrefix(cs.Name, "strings.") || strings.HasPrefix(cs.Name, "unicode."):
					other = cs.Name
				default:
					if fn, ok := c.callee(cs.Call).(*types.Func); ok && fn.Pkg() != nil && fn.Pkg().Path() == bclPath {
						visit(c.funcDecls[fn], depth+1)
					}
				}
			}
		}
		visit(um, 0)
		r.check(okRep == 1 && okFold == 1 && other == "", rule, "unsnakeMatcher", `EqualFold(field, key with "_" removed)`, fmt.Sprintf("unsnakeMatcher must remove underscores from the key once and compare with strings.EqualFold, nothing else (removals %d, EqualFold %d, other string call %q)", okRep, okFold, other), c.pos(um.Pos()))
	} else {
		r.bad(rule, "unsnakeMatcher", "function not found", "")
	}
	// type name check: st != "" && !unsnakeEq(st, bt)  (any equivalent spelling) -> error
	okType := false
	ast.Inspect(cb.Body, func(n ast.Node) bool {
		if _, isLit := n.(*ast.FuncLit); isLit {
			return false
		}
		ifs, ok := n.(*ast.IfStmt)
		if !ok {
			return true
		}
		init, _ := ifs.Init.(*ast.AssignStmt)
		atoms, pure := c.nnf(ifs.Cond, true, init).conjuncts()
		if !pure || len(atoms) != 2 {
			return true
		}
		nonEmpty, mismatch := false, false
		for _, a := range atoms {
			if _, isEmpty, ok := c.emptyStringCmp(a); ok && !isEmpty {
				nonEmpty = true
			}
			if call, ok := a.E.(*ast.CallExpr); ok && !a.Pos && c.calleeName(call) == "unsnakeEq" {
				mismatch = true
			}
		}
		returnsErr := false
		for _, s := range ifs.Body.List {
			if rs, ok := s.(*ast.ReturnStmt); ok && len(rs.Results) == 1 && !isNilIdent(rs.Results[0]) {
				returnsErr = true
			}
		}
		if nonEmpty && mismatch && returnsErr {
			okType = true
		}
		return true
	})
	r.check(okType, rule, "type-name", `struct type name != "" && !unsnakeEq(name, block type) -> error`, "a named struct type must be checked against the block type with unsnakeEq, and unnamed struct types skipped", c.pos(cb.Pos()))
	// Name first
	firstCall := ""
	for _, s := range cb.Body.List {
		if as, ok := s.(*ast.AssignStmt); ok && len(as.Rhs) == 1 {
			if call, ok := as.Rhs[0].(*ast.CallExpr); ok {
				if id, ok := call.Fun.(*ast.Ident); ok && id.Name == "setField" && firstCall == "" {
					if s0, isS := c.strConst(call.Args[0]); isS {
						firstCall = s0
					}
					if firstCall == "Name" && !strings.HasSuffix(c.fieldPath(call.Args[1]), ".Name") {
						firstCall = "?"
					}
				}
			}
		}
	}
	r.check(firstCall == "Name", rule, "name-field", `setField("Name", block.Name) before the fields`, "the block name must be stored through setField(\"Name\", block.Name) before the fields", c.pos(cb.Pos()))
}

func checkC05(c *Ctx, r *Report) {
	ruleMappingRule(c, r, "mapping-rule")
	ruleNoCoercion(c, r, "no-coercion")
	ruleReflectGuards(c, r, "fresh-slice-and-guards")
	ruleMapRange(c, r, "map-range")
	ruleErrorsPropagate(c, r, "errors-propagate")
	r.note("the round trip itself (write a value as BCL text, unmarshal, compare deeply): it ranges over run-time reflect types and values; only the structure of the mapping rule, the fresh-slice construction and the absence of coercion are decided — this check is thin, and says so")
}
