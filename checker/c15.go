package main

import (
	"go/ast"
	"go/token"
	"strings"
)

func init() {
	register("C15", "other", checkC15)
	register("C05", "other", checkC05)
}

func checkC15(c *Ctx, r *Report) {
	ruleReflectGuards(c, r, "reflect-guards")
	ruleNoCoercion(c, r, "no-coercion")
	ruleErrorsPropagate(c, r, "errors-propagate")
	ruleMapRange(c, r, "map-range")
	r.rule("bind-entry", 1, "Bind forwards to copyBlocks and returns its result")
	if _, fd := c.find("Bind"); fd != nil {
		ok := false
		if len(fd.Body.List) == 1 {
			if rs, isR := fd.Body.List[0].(*ast.ReturnStmt); isR && len(rs.Results) == 1 {
				if call, isC := rs.Results[0].(*ast.CallExpr); isC && c.calleeName(call) == "copyBlocks" {
					ok = true
				}
			}
		}
		r.check(ok, "bind-entry", "Bind", "return copyBlocks(target, binding)", "Bind must return copyBlocks' result unchanged", c.pos(fd.Pos()))
	} else {
		r.bad("bind-entry", "Bind", "function not found", "")
	}
	r.note("the space of user-defined target types is open-ended: the rules decide that each partial reflect operation is guarded on the same value, not that every type is handled as a user expects")
}

func ruleMappingRule(c *Ctx, r *Report, rule string) {
	r.rule(rule, 6, "field mapping: the tag table (raw `bcl` tag value -> field index) is consulted first with the raw key; only on a miss is the key cut at its first '.' and matched with FieldByNameFunc(unsnakeMatcher); unsnakeMatcher removes underscores and compares with EqualFold; a named struct type must match the block type the same way; Name is set before the fields")
	_, cb := c.find("copyBlock")
	if cb == nil {
		r.bad(rule, "copyBlock", "function not found", "")
		return
	}
	var setField *ast.FuncLit
	ast.Inspect(cb.Body, func(n ast.Node) bool {
		if as, ok := n.(*ast.AssignStmt); ok && len(as.Rhs) == 1 {
			if lit, ok := as.Rhs[0].(*ast.FuncLit); ok && setField == nil {
				setField = lit
			}
		}
		return true
	})
	if setField == nil {
		r.bad(rule, "setField", "the field-setting closure was not found in copyBlock", c.pos(cb.Pos()))
		return
	}
	nameParam := c.infoFor(setField).Defs[setField.Type.Params.List[0].Names[0]]
	// tag table construction: tagged[f.Tag.Get("bcl")] = i
	okTable := false
	ast.Inspect(cb.Body, func(n ast.Node) bool {
		as, ok := n.(*ast.AssignStmt)
		if !ok || len(as.Lhs) != 1 {
			return true
		}
		ix, ok := as.Lhs[0].(*ast.IndexExpr)
		if !ok {
			return true
		}
		if id, ok := ix.X.(*ast.Ident); !ok || id.Name != "tagged" {
			return true
		}
		// the key variable must be the direct result of Tag.Get("bcl")
		if kid, ok := ix.Index.(*ast.Ident); ok {
			def, n := c.singleDef(cb.Body, c.objOf(kid))
			if call, ok := def.(*ast.CallExpr); ok && n == 1 && c.calleeName(call) == "reflect.StructTag.Get" {
				if s, isS := c.strConst(call.Args[0]); isS && s == "bcl" {
					okTable = true
				}
			}
		}
		return true
	})
	r.check(okTable, rule, "tag-table", `tagged[f.Tag.Get("bcl")] = i`, "the tag table must be keyed by the raw value of the `bcl` tag", c.pos(cb.Pos()))
	// order inside setField
	tagAt, nameAt := -1, -1
	rawKey, underNotOK, cutFirst := false, false, false
	for i, s := range setField.Body.List {
		ast.Inspect(s, func(n ast.Node) bool {
			switch n := n.(type) {
			case *ast.IndexExpr:
				if id, ok := n.X.(*ast.Ident); ok && id.Name == "tagged" {
					if tagAt < 0 {
						tagAt = i
					}
					rawKey = c.isObj(n.Index, nameParam)
				}
			case *ast.CallExpr:
				switch c.calleeName(n) {
				case "reflect.Type.FieldByNameFunc":
					if nameAt < 0 {
						nameAt = i
					}
					if ifs, ok := s.(*ast.IfStmt); ok {
						if ue, ok := stripParens(ifs.Cond).(*ast.UnaryExpr); ok && ue.Op == token.NOT {
							if id, ok := stripParens(ue.X).(*ast.Ident); ok && id.Name == "ok" {
								underNotOK = true
							}
						}
					}
				case "strings.Cut":
					if sep, isS := c.strConst(n.Args[1]); isS && sep == "." && c.isObj(n.Args[0], nameParam) {
						cutFirst = true
					}
				case "strings.LastIndex", "strings.LastIndexByte", "strings.Split", "strings.SplitN", "strings.Index", "strings.IndexByte", "strings.TrimSuffix", "strings.TrimPrefix", "strings.ToLower", "strings.ReplaceAll":
					cutFirst = false
					rawKey = false
				}
			}
			return true
		})
	}
	r.check(tagAt >= 0 && nameAt > tagAt && rawKey, rule, "tag-first", "tagged[name] with the raw key, before name matching", "the tag table must be consulted first, with the unmodified block key", c.pos(setField.Pos()))
	r.check(underNotOK && cutFirst, rule, "name-fallback", "only on a tag miss: cut the key at its first '.', FieldByNameFunc(unsnakeMatcher(...))", "name matching must run only when the tag lookup missed, on the key cut at its first '.' (strings.Cut)", c.pos(setField.Pos()))
	// unsnakeMatcher
	if _, um := c.find("unsnakeMatcher"); um != nil {
		okRep, okFold := false, false
		for _, cs := range c.callsOf(um) {
			switch cs.Name {
			case "strings.ReplaceAll":
				a, ok1 := c.strConst(cs.Call.Args[1])
				b, ok2 := c.strConst(cs.Call.Args[2])
				okRep = ok1 && ok2 && a == "_" && b == "" && c.isObj(cs.Call.Args[0], c.paramObj(um, 0))
			case "strings.EqualFold":
				okFold = true
			default:
				okRep = false
			}
		}
		r.check(okRep && okFold, rule, "unsnakeMatcher", `EqualFold(field, ReplaceAll(key, "_", ""))`, "unsnakeMatcher must remove underscores from the key and compare case-insensitively (strings.EqualFold), nothing else", c.pos(um.Pos()))
	} else {
		r.bad(rule, "unsnakeMatcher", "function not found", "")
	}
	// type name check
	okType := false
	if len(cb.Body.List) >= 2 {
		ast.Inspect(cb.Body.List[1], func(n ast.Node) bool {
			ifs, ok := n.(*ast.IfStmt)
			if !ok {
				return true
			}
			be, ok := stripParens(ifs.Cond).(*ast.BinaryExpr)
			if !ok || be.Op != token.LAND {
				return true
			}
			l, ok1 := stripParens(be.X).(*ast.BinaryExpr)
			ue, ok2 := stripParens(be.Y).(*ast.UnaryExpr)
			if ok1 && ok2 && l.Op == token.NEQ && ue.Op == token.NOT {
				if s, isS := c.strConst(l.Y); isS && s == "" {
					if call, isC := stripParens(ue.X).(*ast.CallExpr); isC && c.calleeName(call) == "unsnakeEq" {
						okType = true
					}
				}
			}
			return true
		})
	}
	r.check(okType, rule, "type-name", `struct type name != "" && !unsnakeEq(name, block type) -> error`, "a named struct type must be checked against the block type with unsnakeEq, and unnamed struct types skipped", c.pos(cb.Pos()))
	// Name first
	firstCall := ""
	for _, s := range cb.Body.List {
		if as, ok := s.(*ast.AssignStmt); ok && len(as.Rhs) == 1 {
			if call, ok := as.Rhs[0].(*ast.CallExpr); ok {
				if id, ok := call.Fun.(*ast.Ident); ok && id.Name == "setField" && firstCall == "" {
					if s0, isS := c.strConst(call.Args[0]); isS {
						firstCall = s0
					}
					if firstCall == "Name" && !strings.HasSuffix(c.fieldPath(call.Args[1]), ".Name") {
						firstCall = "?"
					}
				}
			}
		}
	}
	r.check(firstCall == "Name", rule, "name-field", `setField("Name", block.Name) before the fields`, "the block name must be stored through setField(\"Name\", block.Name) before the fields", c.pos(cb.Pos()))
}

func checkC05(c *Ctx, r *Report) {
	ruleMappingRule(c, r, "mapping-rule")
	ruleNoCoercion(c, r, "no-coercion")
	ruleReflectGuards(c, r, "fresh-slice-and-guards")
	ruleMapRange(c, r, "map-range")
	ruleErrorsPropagate(c, r, "errors-propagate")
	r.note("the round trip itself (write a value as BCL text, unmarshal, compare deeply): it ranges over run-time reflect types and values; only the structure of the mapping rule, the fresh-slice construction and the absence of coercion are decided — this check is thin, and says so")
}
