package main

// Normalisation of conditions, so that rules compare meanings rather than
// spellings: negation normal form, flattening of && / ||, integer
// comparisons against constants as bounds, relational atoms with a
// canonical operand order.

import (
	"go/ast"
	"go/token"
	"go/types"
)

// condAtom is an atomic condition with its polarity.
type condAtom struct {
	E    ast.Expr // the atom (never a !, &&, || or parenthesis)
	Pos  bool     // E holds (true) or its negation holds (false)
	Init *ast.AssignStmt
}

// condNF is a condition in negation normal form.
type condNF struct {
	Atom *condAtom
	And  []*condNF
	Or   []*condNF
}

func (c *Ctx) nnf(e ast.Expr, pos bool, init *ast.AssignStmt) *condNF {
	e = stripParens(e)
	switch x := e.(type) {
	case *ast.UnaryExpr:
		if x.Op == token.NOT {
			return c.nnf(x.X, !pos, init)
		}
	case *ast.BinaryExpr:
		if x.Op == token.LAND || x.Op == token.LOR {
			l, r := c.nnf(x.X, pos, init), c.nnf(x.Y, pos, init)
			and := (x.Op == token.LAND) == pos
			n := &condNF{}
			add := func(k *condNF) {
				if and && k.And != nil {
					n.And = append(n.And, k.And...)
				} else if !and && k.Or != nil {
					n.Or = append(n.Or, k.Or...)
				} else if and {
					n.And = append(n.And, k)
				} else {
					n.Or = append(n.Or, k)
				}
			}
			add(l)
			add(r)
			return n
		}
	}
	return &condNF{Atom: &condAtom{E: e, Pos: pos, Init: init}}
}

// conjuncts returns the atoms of a pure conjunction (a single atom counts).
func (n *condNF) conjuncts() ([]condAtom, bool) {
	if n.Atom != nil {
		return []condAtom{*n.Atom}, true
	}
	if n.Or != nil {
		return nil, false
	}
	var out []condAtom
	for _, k := range n.And {
		if k.Atom == nil {
			return nil, false
		}
		out = append(out, *k.Atom)
	}
	return out, true
}

// disjuncts returns the atoms of a pure disjunction.
func (n *condNF) disjuncts() ([]condAtom, bool) {
	if n.Atom != nil {
		return []condAtom{*n.Atom}, true
	}
	if n.And != nil {
		return nil, false
	}
	var out []condAtom
	for _, k := range n.Or {
		if k.Atom == nil {
			return nil, false
		}
		out = append(out, *k.Atom)
	}
	return out, true
}

// dnf expands to a disjunction of conjunctions (bounded).
func (n *condNF) dnf() [][]condAtom {
	switch {
	case n.Atom != nil:
		return [][]condAtom{{*n.Atom}}
	case n.Or != nil:
		var out [][]condAtom
		for _, k := range n.Or {
			out = append(out, k.dnf()...)
		}
		return out
	default:
		out := [][]condAtom{{}}
		for _, k := range n.And {
			var next [][]condAtom
			for _, a := range out {
				for _, b := range k.dnf() {
					if len(next) > 256 {
						return next
					}
					next = append(next, append(append([]condAtom(nil), a...), b...))
				}
			}
			out = next
		}
		return out
	}
}

// allAtoms lists every atom that is known to hold when n holds (atoms under
// a disjunction are not known individually and are skipped).
func (n *condNF) knownAtoms() []condAtom {
	if n.Atom != nil {
		return []condAtom{*n.Atom}
	}
	var out []condAtom
	for _, k := range n.And {
		out = append(out, k.knownAtoms()...)
	}
	return out
}

// intBound describes an integer comparison of X with a constant:
// Lo <= X, X <= Hi, X == Eq, X != Ne (any subset).
type intBound struct {
	X      ast.Expr
	Lo, Hi *int64
	Ne     *int64
}

func i64p(v int64) *int64 { return &v }

// boundOf interprets the atom as a comparison between an expression and an
// integer constant (either side), taking the atom's polarity into account.
func (c *Ctx) boundOf(a condAtom) (intBound, bool) {
	be, ok := a.E.(*ast.BinaryExpr)
	if !ok {
		return intBound{}, false
	}
	x, y := be.X, be.Y
	op := be.Op
	k, isC := c.intConst(y)
	if !isC {
		if k2, ok2 := c.intConst(x); ok2 {
			// constant on the left: flip
			x, k, isC = y, k2, true
			op = flipOp(op)
		}
	}
	if !isC {
		return intBound{}, false
	}
	if !a.Pos {
		op = negOp(op)
	}
	x = c.resolveInit(a, x)
	switch op {
	case token.EQL:
		return intBound{X: x, Lo: i64p(k), Hi: i64p(k)}, true
	case token.NEQ:
		return intBound{X: x, Ne: i64p(k)}, true
	case token.LSS:
		return intBound{X: x, Hi: i64p(k - 1)}, true
	case token.LEQ:
		return intBound{X: x, Hi: i64p(k)}, true
	case token.GTR:
		return intBound{X: x, Lo: i64p(k + 1)}, true
	case token.GEQ:
		return intBound{X: x, Lo: i64p(k)}, true
	}
	return intBound{}, false
}

func flipOp(op token.Token) token.Token {
	switch op {
	case token.LSS:
		return token.GTR
	case token.GTR:
		return token.LSS
	case token.LEQ:
		return token.GEQ
	case token.GEQ:
		return token.LEQ
	}
	return op
}

func negOp(op token.Token) token.Token {
	switch op {
	case token.EQL:
		return token.NEQ
	case token.NEQ:
		return token.EQL
	case token.LSS:
		return token.GEQ
	case token.GEQ:
		return token.LSS
	case token.GTR:
		return token.LEQ
	case token.LEQ:
		return token.GTR
	}
	return op
}

// resolveInit replaces an identifier defined in the if-header by its definition.
func (c *Ctx) resolveInit(a condAtom, e ast.Expr) ast.Expr {
	return c.initDef(fact{Cond: a.E, Pos: a.Pos, Init: a.Init}, e)
}

// relOf interprets the atom as a comparison between two non-constant
// expressions, normalised to  L op R  with op in {<, <=, ==, !=}.
type relAtom struct {
	L, R ast.Expr
	Op   token.Token
}

func (c *Ctx) relOf(a condAtom) (relAtom, bool) {
	be, ok := a.E.(*ast.BinaryExpr)
	if !ok {
		return relAtom{}, false
	}
	op := be.Op
	switch op {
	case token.EQL, token.NEQ, token.LSS, token.LEQ, token.GTR, token.GEQ:
	default:
		return relAtom{}, false
	}
	if !a.Pos {
		op = negOp(op)
	}
	l, r := c.resolveInit(a, be.X), c.resolveInit(a, be.Y)
	if op == token.GTR || op == token.GEQ {
		l, r, op = r, l, flipOp(op)
	}
	return relAtom{l, r, op}, true
}

// callOf: the atom is a call (with polarity) of the named function.
func (c *Ctx) callOf(a condAtom, name string) (*ast.CallExpr, bool) {
	call, ok := a.E.(*ast.CallExpr)
	if !ok || c.calleeName(call) != name {
		return nil, false
	}
	return call, true
}

// isEmptyStringCmp: atom says  X == ""  (pos) or X != "" (neg), normalised.
func (c *Ctx) emptyStringCmp(a condAtom) (x ast.Expr, isEmpty bool, ok bool) {
	be, isB := a.E.(*ast.BinaryExpr)
	if !isB || (be.Op != token.EQL && be.Op != token.NEQ) {
		return nil, false, false
	}
	l, r := be.X, be.Y
	if s, isS := c.strConst(l); isS && s == "" {
		l, r = r, l
	}
	s, isS := c.strConst(r)
	if !isS || s != "" {
		// len(x) == 0 form
		if call, isC := stripParens(l).(*ast.CallExpr); isC && c.calleeName(call) == "len" {
			if b, okb := c.boundOf(a); okb {
				if b.Hi != nil && *b.Hi == 0 {
					return call.Args[0], true, true
				}
				if (b.Lo != nil && *b.Lo == 1) || (b.Ne != nil && *b.Ne == 0) {
					return call.Args[0], false, true
				}
			}
		}
		return nil, false, false
	}
	eq := (be.Op == token.EQL) == a.Pos
	return l, eq, true
}

// sameExpr compares two expressions structurally through resolved objects
// (identifiers by object, selectors by field path, constants by value).
func (c *Ctx) sameExpr(a, b ast.Expr) bool {
	a, b = c.stripConv(a), c.stripConv(b)
	if va, vb := c.constOf(a), c.constOf(b); va != nil || vb != nil {
		return va != nil && vb != nil && va.ExactString() == vb.ExactString()
	}
	switch x := a.(type) {
	case *ast.Ident:
		y, ok := b.(*ast.Ident)
		return ok && c.objOf(x) != nil && c.objOf(x) == c.objOf(y)
	case *ast.SelectorExpr:
		y, ok := b.(*ast.SelectorExpr)
		return ok && x.Sel.Name == y.Sel.Name && c.sameExpr(x.X, y.X)
	case *ast.IndexExpr:
		y, ok := b.(*ast.IndexExpr)
		return ok && c.sameExpr(x.X, y.X) && c.sameExpr(x.Index, y.Index)
	case *ast.CallExpr:
		y, ok := b.(*ast.CallExpr)
		if !ok || len(x.Args) != len(y.Args) || c.calleeName(x) != c.calleeName(y) || c.calleeName(x) == "" {
			return false
		}
		if sx, ok := x.Fun.(*ast.SelectorExpr); ok {
			sy, ok2 := y.Fun.(*ast.SelectorExpr)
			if !ok2 || !c.sameExpr(sx.X, sy.X) {
				if _, isPkg := c.objOf(sx.X).(*types.PkgName); !isPkg {
					return false
				}
			}
		}
		for i := range x.Args {
			if !c.sameExpr(x.Args[i], y.Args[i]) {
				return false
			}
		}
		return true
	case *ast.BinaryExpr:
		y, ok := b.(*ast.BinaryExpr)
		return ok && x.Op == y.Op && c.sameExpr(x.X, y.X) && c.sameExpr(x.Y, y.Y)
	case *ast.StarExpr:
		y, ok := b.(*ast.StarExpr)
		return ok && c.sameExpr(x.X, y.X)
	case *ast.UnaryExpr:
		y, ok := b.(*ast.UnaryExpr)
		return ok && x.Op == y.Op && c.sameExpr(x.X, y.X)
	case *ast.SliceExpr:
		y, ok := b.(*ast.SliceExpr)
		if !ok || !c.sameExpr(x.X, y.X) || (x.Low == nil) != (y.Low == nil) || (x.High == nil) != (y.High == nil) {
			return false
		}
		return (x.Low == nil || c.sameExpr(x.Low, y.Low)) && (x.High == nil || c.sameExpr(x.High, y.High))
	}
	return false
}
