package main

import (
	"go/ast"
	"go/token"
)

func init() {
	register("C07", "other", checkC07)
	register("C11", "other", checkC11)
}

// ruleLineCalcAdd: the line table records prefix+i for every '\n' byte of the chunk.
func ruleLineCalcAdd(c *Ctx, r *Report, rule string) {
	r.rule(rule, 1, "lineCalc.add visits every byte position of the chunk (range or index loop) and appends prefix+i exactly for the positions holding '\\n' (i is a byte index), nothing else")
	_, fd := c.find("lineCalc.add")
	if fd == nil {
		r.bad(rule, "lineCalc.add", "function not found", "")
		return
	}
	r.fn("lineCalc.add")
	chunk, prefix := c.paramObj(fd, 0), c.paramObj(fd, 1)
	var fl *filterLoop
	other := 0
	for _, s := range fd.Body.List {
		switch s := s.(type) {
		case *ast.RangeStmt, *ast.ForStmt:
			if l := c.asFilterLoop(s, func(x ast.Expr) bool { return c.isObj(x, chunk) }); l != nil && fl == nil {
				fl = l
			} else {
				other++
			}
		case *ast.ExprStmt, *ast.DeferStmt:
			// lock / unlock
		default:
			other++
		}
	}
	ok := fl != nil && other == 0
	why := "expected one loop over the chunk (and the lock)"
	if ok && fl.Implied != nil {
		// search-and-hop form: the positions visited are exactly those holding the byte searched for
		good := *fl.Implied == '\n' && len(fl.Action) == 1
		if good {
			app, isA := fl.Action[0].(*ast.AssignStmt)
			good = isA && len(app.Lhs) == 1 && len(app.Rhs) == 1 && c.fieldPath(app.Lhs[0]) == "<lineCalc>.lfs"
			if good {
				call, isC := app.Rhs[0].(*ast.CallExpr)
				good = isC && c.calleeName(call) == "append" && len(call.Args) == 2 && c.fieldPath(call.Args[0]) == "<lineCalc>.lfs"
				if good {
					// prefix + position, in any association
					l, okL := c.linOfExpr(call.Args[1])
					good = false
					if okL {
						rest := l.sub(c.symOfObj(prefix))
						// rest must be the position: ask IdxIs through a synthetic comparison of linear forms
						good = fl.posEquals(c, rest)
					}
				}
			}
		}
		r.check(good, rule, "lineCalc.add", "scan for '\\n' from the last hit on; append prefix+position of each hit", "lineCalc.add must append prefix+i for exactly the '\\n' bytes of the chunk: in the search-and-hop form the byte searched for must be '\\n' and the only action lfs = append(lfs, prefix+position)", c.pos(fd.Pos()))
		return
	}
	if ok {
		// one append to lfs in the loop, of prefix + position, under exactly the condition element == '\n'
		var app *ast.AssignStmt
		n := 0
		ast.Inspect(fl.Body, func(x ast.Node) bool {
			switch x := x.(type) {
			case *ast.AssignStmt:
				n++
				app = x
			case *ast.BranchStmt:
				if x.Tok != token.CONTINUE {
					ok = false
					why = "the loop can be left early"
				}
			case *ast.ReturnStmt, *ast.ForStmt, *ast.RangeStmt, *ast.IncDecStmt:
				ok = false
				why = "unexpected statement in the loop"
			}
			return true
		})
		if n != 1 || app == nil || len(app.Lhs) != 1 || c.fieldPath(app.Lhs[0]) != "<lineCalc>.lfs" {
			ok = false
			why = "the loop must contain exactly one statement lfs = append(lfs, prefix+i)"
		}
		if ok {
			call, isC := app.Rhs[0].(*ast.CallExpr)
			ok = isC && c.calleeName(call) == "append" && len(call.Args) == 2 && c.fieldPath(call.Args[0]) == "<lineCalc>.lfs"
			if ok {
				sum, isS := stripParens(call.Args[1]).(*ast.BinaryExpr)
				ok = isS && sum.Op == token.ADD &&
					((c.isObj(sum.X, prefix) && fl.IdxIs(sum.Y)) || (c.isObj(sum.Y, prefix) && fl.IdxIs(sum.X)))
			}
			if !ok {
				why = "what is appended must be prefix + the byte position of the element"
			}
		}
		if ok {
			facts := splitFacts(c.factsAt(fl.Body, app))
			good := 0
			for _, f := range facts {
				b, isB := c.boundOf(condAtom{E: stripParens(f.Cond), Pos: f.Pos, Init: f.Init})
				if isB && b.Lo != nil && b.Hi != nil && *b.Lo == '\n' && *b.Hi == '\n' && fl.ElemIs(b.X) {
					good++
				}
			}
			if good < 1 || good != len(facts) {
				ok = false
				why = "the append must happen under exactly the condition element == '\\n'"
			}
		}
	}
	r.check(ok, rule, "lineCalc.add", "for i, c := range s { if c == '\\n' { lfs = append(lfs, prefix+i) } } (or the index-loop form)", "lineCalc.add must append prefix+i for exactly the '\\n' bytes of the chunk: "+why, c.pos(fd.Pos()))
}

func checkC07(c *Ctx, r *Report) {
	ruleFullRune(c, r, "full-rune")
	ruleRefill(c, r, "refill-affine")
	ruleLexPrimitivesOnly(c, r, "primitives-only")
	ruleReaderProtocol(c, r, "reader-forwards", true)
	ruleChunkImmutable(c, r, "immutable-chunks")
	ruleTokenPos(c, r, "token-pos")
	ruleLineCalcAdd(c, r, "newline-only")
	r.note("equality of the compiled program for every partition of every input (needs the lexer's full semantics); only the refill arithmetic, full-rune decoding, the window ownership and the reader's forwarding table are decided")
	r.trust("lexer state functions consume input only through next() (checked: primitives-only), so a chunk boundary can only be observed inside next()")
}

func checkC11(c *Ctx, r *Report) {
	ruleReaderProtocol(c, r, "reader-protocol", false)
	ruleParserProtocol(c, r, "parser-protocol")
	ruleParserDrains(c, r, "parser-drains")
	ruleNoAbruptExit(c, r, "no-abrupt-exit")
	ruleLexerStops(c, r, "lexer-stops")
	ruleFullRune(c, r, "empty-chunk-not-eof")
	r.rule("single-receive", 1, "the lexer receives from its input channel at exactly one place (next)")
	c.ownership(r, "single-receive", "lexer", "inputs", lexerOwners["inputs"], false)
	ruleChunkImmutable(c, r, "pipeline")
	r.note("liveness under all goroutine schedules, 'within a few reads', behaviour under delays (needs a model checker: a different technique family); only the protocol shape is decided: who sends/receives/closes what, how often, on which paths")
	r.assume("after a lexical failure or end of input the lexer goroutine stops receiving (rule lexer-stops); the parser consumes tokens up to a finaliser token (rule parser-drains; that every statement function returns to the toplevel loop is C06's parser-progress)")
}
