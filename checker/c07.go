package main

import (
	"go/ast"
	"go/token"
)

func init() {
	register("C07", "other", checkC07)
	register("C11", "other", checkC11)
}

// ruleLineCalcAdd: the line table records prefix+i for every '\n' byte of the chunk.
func ruleLineCalcAdd(c *Ctx, r *Report, rule string) {
	r.rule(rule, 1, "lineCalc.add ranges over the chunk and appends prefix+i exactly for the bytes equal to '\\n' (i is a byte index), nothing else")
	_, fd := c.find("lineCalc.add")
	if fd == nil {
		r.bad(rule, "lineCalc.add", "function not found", "")
		return
	}
	r.fn("lineCalc.add")
	var rs *ast.RangeStmt
	other := 0
	for _, s := range fd.Body.List {
		switch s := s.(type) {
		case *ast.RangeStmt:
			rs = s
		case *ast.ExprStmt, *ast.DeferStmt:
			// lock / unlock
		default:
			other++
		}
	}
	ok := rs != nil && other == 0 && c.isObj(rs.X, c.paramObj(fd, 0)) && rs.Key != nil && rs.Value != nil && len(rs.Body.List) == 1
	if ok {
		iobj, vobj := c.objOf(rs.Key.(*ast.Ident)), c.objOf(rs.Value.(*ast.Ident))
		ifs, isIf := rs.Body.List[0].(*ast.IfStmt)
		ok = isIf && ifs.Else == nil && len(ifs.Body.List) == 1
		if ok {
			be, isB := stripParens(ifs.Cond).(*ast.BinaryExpr)
			ok = isB && be.Op == token.EQL && c.isObj(be.X, vobj)
			if ok {
				k, isC := c.intConst(be.Y)
				ok = isC && k == '\n'
			}
		}
		if ok {
			as, isA := ifs.Body.List[0].(*ast.AssignStmt)
			ok = isA && len(as.Lhs) == 1 && c.fieldPath(as.Lhs[0]) == "<lineCalc>.lfs"
			if ok {
				call, isC := as.Rhs[0].(*ast.CallExpr)
				ok = isC && c.calleeName(call) == "append" && len(call.Args) == 2 && c.fieldPath(call.Args[0]) == "<lineCalc>.lfs"
				if ok {
					sum, isS := stripParens(call.Args[1]).(*ast.BinaryExpr)
					ok = isS && sum.Op == token.ADD &&
						((c.isObj(sum.X, c.paramObj(fd, 1)) && c.isObj(sum.Y, iobj)) || (c.isObj(sum.Y, c.paramObj(fd, 1)) && c.isObj(sum.X, iobj)))
				}
			}
		}
	}
	r.check(ok, rule, "lineCalc.add", "for i, c := range s { if c == '\\n' { lfs = append(lfs, prefix+i) } }", "lineCalc.add must append prefix+i for exactly the '\\n' bytes of the chunk", c.pos(fd.Pos()))
}

func checkC07(c *Ctx, r *Report) {
	ruleFullRune(c, r, "full-rune")
	ruleRefill(c, r, "refill-affine")
	ruleLexPrimitivesOnly(c, r, "primitives-only")
	ruleReaderProtocol(c, r, "reader-forwards", true)
	ruleChunkImmutable(c, r, "immutable-chunks")
	ruleTokenPos(c, r, "token-pos")
	ruleLineCalcAdd(c, r, "newline-only")
	r.note("equality of the compiled program for every partition of every input (needs the lexer's full semantics); only the refill arithmetic, full-rune decoding, the window ownership and the reader's forwarding table are decided")
	r.trust("lexer state functions consume input only through next() (checked: primitives-only), so a chunk boundary can only be observed inside next()")
}

func checkC11(c *Ctx, r *Report) {
	ruleReaderProtocol(c, r, "reader-protocol", false)
	ruleParserProtocol(c, r, "parser-protocol")
	ruleParserDrains(c, r, "parser-drains")
	ruleLexerStops(c, r, "lexer-stops")
	ruleFullRune(c, r, "empty-chunk-not-eof")
	r.rule("single-receive", 1, "the lexer receives from its input channel at exactly one place (next)")
	c.ownership(r, "single-receive", "lexer", "inputs", lexerOwners["inputs"], false)
	ruleChunkImmutable(c, r, "pipeline")
	r.note("liveness under all goroutine schedules, 'within a few reads', behaviour under delays (needs a model checker: a different technique family); only the protocol shape is decided: who sends/receives/closes what, how often, on which paths")
	r.assume("after a lexical failure or end of input the lexer goroutine stops receiving (rule lexer-stops); the parser consumes tokens up to a finaliser token (rule parser-drains; that every statement function returns to the toplevel loop is C06's parser-progress)")
}
