package main

import (
	"fmt"
	"go/ast"
	"go/token"
	"go/types"
)

func init() {
	register("C07", "other", checkC07)
	register("C11", "other", checkC11)
}

// ruleLineCalcAdd: the line table records prefix+i for every '\n' byte of the chunk.
func ruleLineCalcAdd(c *Ctx, r *Report, rule string) {
	r.rule(rule, 1, "lineCalc.add visits every byte position of the chunk (range or index loop) and appends prefix+i exactly for the positions holding '\\n' (i is a byte index), nothing else")
	_, fd := c.find("lineCalc.add")
	if fd == nil {
		r.bad(rule, "lineCalc.add", "function not found", "")
		return
	}
	r.fn("lineCalc.add")
	chunk, prefix := c.paramObj(fd, 0), c.paramObj(fd, 1)
	var fl *filterLoop
	other := 0
	for _, s := range fd.Body.List {
		switch s := s.(type) {
		case *ast.RangeStmt, *ast.ForStmt:
			if l := c.asFilterLoop(s, func(x ast.Expr) bool { return c.isObj(x, chunk) }); l != nil && fl == nil {
				fl = l
			} else {
				other++
			}
		case *ast.ExprStmt, *ast.DeferStmt:
			// lock / unlock
		default:
			other++
		}
	}
	ok := fl != nil && other == 0
	why := "expected one loop over the chunk (and the lock)"
	if ok && fl.Implied != nil {
		// search-and-hop form: the positions visited are exactly those holding the byte searched for
		good := *fl.Implied == '\n' && len(fl.Action) == 1
		if good {
			app, isA := fl.Action[0].(*ast.AssignStmt)
			good = isA && len(app.Lhs) == 1 && len(app.Rhs) == 1 && c.fieldPath(app.Lhs[0]) == "<lineCalc>.lfs"
			if good {
				call, isC := app.Rhs[0].(*ast.CallExpr)
				good = isC && c.calleeName(call) == "append" && len(call.Args) == 2 && c.fieldPath(call.Args[0]) == "<lineCalc>.lfs"
				if good {
					// prefix + position, in any association
					l, okL := c.linOfExpr(call.Args[1])
					good = false
					if okL {
						rest := l.sub(c.symOfObj(prefix))
						// rest must be the position: ask IdxIs through a synthetic comparison of linear forms
						good = fl.posEquals(c, rest)
					}
				}
			}
		}
		r.check(good, rule, "lineCalc.add", "scan for '\\n' from the last hit on; append prefix+position of each hit", "lineCalc.add must append prefix+i for exactly the '\\n' bytes of the chunk: in the search-and-hop form the byte searched for must be '\\n' and the only action lfs = append(lfs, prefix+position)", c.pos(fd.Pos()))
		return
	}
	if ok {
		// one append to lfs in the loop, of prefix + position, under exactly the condition element == '\n'
		var app *ast.AssignStmt
		n := 0
		ast.Inspect(fl.Body, func(x ast.Node) bool {
			switch x := x.(type) {
			case *ast.AssignStmt:
				n++
				app = x
			case *ast.BranchStmt:
				if x.Tok != token.CONTINUE {
					ok = false
					why = "the loop can be left early"
				}
			case *ast.ReturnStmt, *ast.ForStmt, *ast.RangeStmt, *ast.IncDecStmt:
				ok = false
				why = "unexpected statement in the loop"
			}
			return true
		})
		if n != 1 || app == nil || len(app.Lhs) != 1 || c.fieldPath(app.Lhs[0]) != "<lineCalc>.lfs" {
			ok = false
			why = "the loop must contain exactly one statement lfs = append(lfs, prefix+i)"
		}
		if ok {
			call, isC := app.Rhs[0].(*ast.CallExpr)
			ok = isC && c.calleeName(call) == "append" && len(call.Args) == 2 && c.fieldPath(call.Args[0]) == "<lineCalc>.lfs"
			if ok {
				sum, isS := stripParens(call.Args[1]).(*ast.BinaryExpr)
				ok = isS && sum.Op == token.ADD &&
					((c.isObj(sum.X, prefix) && fl.IdxIs(sum.Y)) || (c.isObj(sum.Y, prefix) && fl.IdxIs(sum.X)))
			}
			if !ok {
				why = "what is appended must be prefix + the byte position of the element"
			}
		}
		if ok {
			facts := splitFacts(c.factsAt(fl.Body, app))
			good := 0
			for _, f := range facts {
				b, isB := c.boundOf(condAtom{E: stripParens(f.Cond), Pos: f.Pos, Init: f.Init})
				if isB && b.Lo != nil && b.Hi != nil && *b.Lo == '\n' && *b.Hi == '\n' && fl.ElemIs(b.X) {
					good++
				}
			}
			if good < 1 || good != len(facts) {
				ok = false
				why = "the append must happen under exactly the condition element == '\\n'"
			}
		}
	}
	r.check(ok, rule, "lineCalc.add", "for i, c := range s { if c == '\\n' { lfs = append(lfs, prefix+i) } } (or the index-loop form)", "lineCalc.add must append prefix+i for exactly the '\\n' bytes of the chunk: "+why, c.pos(fd.Pos()))
}

func checkC07(c *Ctx, r *Report) {
	ruleFullRune(c, r, "full-rune")
	ruleRefill(c, r, "refill-affine")
	ruleLexPrimitivesOnly(c, r, "primitives-only")
	ruleReaderProtocol(c, r, "reader-forwards", true)
	ruleChunkImmutable(c, r, "immutable-chunks")
	ruleTokenPos(c, r, "token-pos")
	ruleLineCalcAdd(c, r, "newline-only")
	r.note("equality of the compiled program for every partition of every input (needs the lexer's full semantics); only the refill arithmetic, full-rune decoding, the window ownership and the reader's forwarding table are decided")
	r.trust("lexer state functions consume input only through next() (checked: primitives-only), so a chunk boundary can only be observed inside next()")
}

func checkC11(c *Ctx, r *Report) {
	ruleReaderProtocol(c, r, "reader-protocol", false)
	ruleParserProtocol(c, r, "parser-protocol")
	ruleParserDrains(c, r, "parser-drains")
	ruleNoAbruptExit(c, r, "no-abrupt-exit")
	ruleFileHandedOver(c, r, "file-handed-over")
	ruleLexerStops(c, r, "lexer-stops")
	ruleFullRune(c, r, "empty-chunk-not-eof")
	r.rule("single-receive", 1, "the lexer receives from its input channel at exactly one place (next)")
	c.ownership(r, "single-receive", "lexer", "inputs", lexerOwners["inputs"], false)
	ruleChunkImmutable(c, r, "pipeline")
	r.note("liveness under all goroutine schedules, 'within a few reads', behaviour under delays (needs a model checker: a different technique family); only the protocol shape is decided: who sends/receives/closes what, how often, on which paths")
	r.assume("after a lexical failure or end of input the lexer goroutine stops receiving (rule lexer-stops); the parser consumes tokens up to a finaliser token (rule parser-drains; that every statement function returns to the toplevel loop is C06's parser-progress)")
}

// ruleFileHandedOver: InterpretFile and UnmarshalFile close their input by
// handing it to ParseFile. That must happen on every path: a return (a
// fail-fast check of the target, of an option) before the input was handed
// on leaves it open, and "Close exactly once" fails with zero.
func ruleFileHandedOver(c *Ctx, r *Report, rule string) {
	r.rule(rule, 2, "InterpretFile and UnmarshalFile hand their input to ParseFile (through the file variants and their helpers) before any statement that can return: on every path the input reaches the one place that closes it")
	_, pfd := c.find("ParseFile")
	if pfd == nil {
		r.bad(rule, "ParseFile", "function not found", "")
		return
	}
	// the function that does ParseFile's work when ParseFile itself only delegates: the protocol rules look at that one
	pfWork, _ := c.throughThinWrappers(pfd, 0)
	memo := map[string]string{}
	var handsOver func(fd *ast.FuncDecl, idx int, depth int) string // "" = yes, else why not
	handsOver = func(fd *ast.FuncDecl, idx int, depth int) string {
		if fd == pfd || fd == pfWork {
			return ""
		}
		if depth > 4 || fd == nil || fd.Body == nil {
			return "the chain of helpers is too deep to follow"
		}
		key := fmt.Sprintf("%p/%d", fd, idx)
		if v, ok := memo[key]; ok {
			return v
		}
		memo[key] = "recursive"
		po := c.paramObj(fd, idx)
		res := fmt.Sprintf("%s never hands its input on (%s)", fd.Name.Name, c.pos(fd.Pos()))
		for _, st := range fd.Body.List {
			// the statement that hands the input on: a call (not under a condition) with the input as an argument, or
			// with a function literal that uses it
			var found *ast.CallExpr
			var calleeIdx int
			viaLit := false
			var top ast.Node = st
			if ifs, isIf := st.(*ast.IfStmt); isIf {
				top = ifs.Init // if x, err := InterpretFile(f); err != nil {…}: the init runs unconditionally
			}
			if top != nil {
				ast.Inspect(top, func(n ast.Node) bool {
					switch x := n.(type) {
					case *ast.FuncLit, *ast.IfStmt, *ast.ForStmt, *ast.RangeStmt, *ast.SwitchStmt, *ast.TypeSwitchStmt, *ast.SelectStmt, *ast.GoStmt, *ast.DeferStmt:
						_ = x
						return n == top
					case *ast.BinaryExpr:
						if x.Op == token.LAND || x.Op == token.LOR {
							return false // the right operand is conditional
						}
					case *ast.CallExpr:
						if found != nil {
							return true
						}
						for k, a := range x.Args {
							if c.isObj(a, po) {
								found, calleeIdx = x, k
							} else if lit, isLit := stripParens(a).(*ast.FuncLit); isLit {
								uses := false
								ast.Inspect(lit.Body, func(y ast.Node) bool {
									if id, isID := y.(*ast.Ident); isID && c.objOf(id) == po {
										uses = true
									}
									return true
								})
								if uses {
									found, calleeIdx, viaLit = x, k, true
								}
							}
						}
					}
					return true
				})
			}
			if found != nil {
				fn, isFn := c.callee(found).(*types.Func)
				if !isFn || fn.Pkg() == nil || fn.Pkg().Path() != bclPath || c.funcDecls[fn] == nil {
					res = fmt.Sprintf("%s hands its input to %s, which is not a function of the module that can be followed (%s)", fd.Name.Name, types.ExprString(found.Fun), c.pos(found.Pos()))
					break
				}
				hd := c.funcDecls[fn]
				if viaLit {
					// the helper must call the function it was given before it can return, and the literal must hand the
					// input on in turn
					lit := stripParens(found.Args[calleeIdx]).(*ast.FuncLit)
					why := ""
					fo := c.paramObj(hd, calleeIdx)
					called := false
					for _, hs := range hd.Body.List {
						ast.Inspect(hs, func(y ast.Node) bool {
							if call, isC := y.(*ast.CallExpr); isC && c.isObj(call.Fun, fo) {
								called = true
							}
							return true
						})
						if called {
							break
						}
						if c.canReturn(hs) {
							why = fmt.Sprintf("%s can return before it calls the function it was handed (%s)", hd.Name.Name, c.pos(hs.Pos()))
							break
						}
					}
					if why == "" && !called {
						why = fmt.Sprintf("%s never calls the function it was handed", hd.Name.Name)
					}
					if why == "" {
						// inside the literal: the same rule, the literal's body standing for a function
						tmp := &ast.FuncDecl{Name: ast.NewIdent(fd.Name.Name + "$lit"), Type: &ast.FuncType{Params: fd.Type.Params}, Body: lit.Body}
						why = handsOver(tmp, idx, depth+1)
					}
					res = why
					break
				}
				res = handsOver(hd, calleeIdx, depth+1)
				break
			}
			if c.canReturn(st) {
				res = fmt.Sprintf("%s can return at %s before its input was handed to ParseFile: the input is never closed on that path", fd.Name.Name, c.pos(st.Pos()))
				break
			}
		}
		memo[key] = res
		return res
	}
	for _, name := range []string{"InterpretFile", "UnmarshalFile"} {
		_, fd := c.find(name)
		if fd == nil {
			r.bad(rule, name, "function not found", "")
			continue
		}
		idx := -1
		if fd.Type.Params != nil {
			k := 0
			for _, f := range fd.Type.Params.List {
				for range f.Names {
					if isNamed(c.typeOf(f.Type), bclPath, "FileInput") && idx < 0 {
						idx = k
					}
					k++
				}
			}
		}
		if idx < 0 {
			r.bad(rule, name, "no FileInput parameter", c.pos(fd.Pos()))
			continue
		}
		why := handsOver(fd, idx, 0)
		r.check(why == "", rule, name, "the input reaches ParseFile before any return", why, c.pos(fd.Pos()))
	}
}

// canReturn: the statement contains a return, a goto or a call that does not come back (outside function literals).
func (c *Ctx) canReturn(st ast.Stmt) bool {
	found := false
	ast.Inspect(st, func(n ast.Node) bool {
		switch x := n.(type) {
		case *ast.FuncLit:
			return false
		case *ast.ReturnStmt:
			found = true
		case *ast.BranchStmt:
			if x.Tok == token.GOTO {
				found = true
			}
		case *ast.CallExpr:
			switch c.calleeName(x) {
			case "panic", "os.Exit", "runtime.Goexit", "log.Fatal", "log.Fatalf", "log.Fatalln":
				found = true
			}
		}
		return true
	})
	return found
}
