package main

// E-REFL: guard facts for structured code, and the reflection rules.

import (
	"fmt"
	"go/ast"
	"go/token"
	"go/types"
)

// fact is a condition known to hold at a program point.
type fact struct {
	Cond ast.Expr
	Pos  bool            // the condition holds (true) or its negation holds (false)
	Init *ast.AssignStmt // `if k := x.Kind(); cond` — definitions the condition refers to
}

// factsAt collects, for structured code, the conditions that hold when
// `target` starts executing: enclosing if-conditions, and the negations of
// earlier `if c { ...return/goto/continue/break }` guards in the enclosing
// statement lists of the same function literal / declaration.
func (c *Ctx) factsAt(root ast.Node, target ast.Node) []fact {
	pm := parentMap(root)
	var facts []fact
	leaves := func(b *ast.BlockStmt) bool {
		if len(b.List) == 0 {
			return false
		}
		switch s := b.List[len(b.List)-1].(type) {
		case *ast.ReturnStmt:
			return true
		case *ast.BranchStmt:
			return s.Tok == token.GOTO || s.Tok == token.CONTINUE || s.Tok == token.BREAK
		case *ast.ExprStmt:
			if call, ok := s.X.(*ast.CallExpr); ok && c.calleeName(call) == "panic" {
				return true
			}
		}
		return false
	}
	var cur ast.Node = target
	for cur != nil && cur != root {
		par := pm[cur]
		switch p := par.(type) {
		case *ast.BlockStmt, *ast.CaseClause:
			var list []ast.Stmt
			if b, ok := p.(*ast.BlockStmt); ok {
				list = b.List
			} else {
				list = p.(*ast.CaseClause).Body
			}
			if cc, ok := p.(*ast.CaseClause); ok {
				// tagless switch: this clause's condition holds, earlier clauses' conditions do not
				if blk, ok := pm[cc].(*ast.BlockStmt); ok {
					if sw, ok := pm[blk].(*ast.SwitchStmt); ok && sw.Tag == nil {
						init, _ := sw.Init.(*ast.AssignStmt)
						for _, other := range blk.List {
							oc := other.(*ast.CaseClause)
							if oc == cc {
								if len(cc.List) == 1 {
									facts = append(facts, fact{cc.List[0], true, init})
								}
								break
							}
							for _, e := range oc.List {
								facts = append(facts, fact{e, false, init})
							}
						}
					}
				}
			}
			for _, s := range list {
				if s == cur {
					break
				}
				if ifs, ok := s.(*ast.IfStmt); ok && ifs.Else == nil && leaves(ifs.Body) {
					init, _ := ifs.Init.(*ast.AssignStmt)
					facts = append(facts, fact{ifs.Cond, false, init})
				}
			}
		case *ast.SwitchStmt:
			_ = p
		case *ast.IfStmt:
			init, _ := p.Init.(*ast.AssignStmt)
			if cur == ast.Node(p.Body) {
				facts = append(facts, fact{p.Cond, true, init})
			} else if p.Else != nil && cur == ast.Node(p.Else) {
				facts = append(facts, fact{p.Cond, false, init})
			}
		case *ast.FuncLit:
			// facts established before the closure was created do not carry over
			return facts
		}
		cur = par
	}
	return facts
}

// splitFacts flattens the facts into the atomic conditions that are known
// to hold (negation normal form; atoms under a disjunction are not known
// individually and are left out).
func splitFacts(fs []fact) []fact {
	var out []fact
	for _, f := range fs {
		n := curCtx.nnf(f.Cond, f.Pos, f.Init)
		for _, a := range n.knownAtoms() {
			out = append(out, fact{a.E, a.Pos, a.Init})
		}
	}
	return out
}

// factNFs gives each fact in negation normal form (for rules that accept disjunctions).
func factNFs(fs []fact) []*condNF {
	var out []*condNF
	for _, f := range fs {
		out = append(out, curCtx.nnf(f.Cond, f.Pos, f.Init))
	}
	return out
}

// initDef returns the expression an identifier is bound to in the if-header.
func (c *Ctx) initDef(f fact, e ast.Expr) ast.Expr {
	id, ok := stripParens(e).(*ast.Ident)
	if !ok || f.Init == nil {
		return e
	}
	for i, l := range f.Init.Lhs {
		if lid, ok := l.(*ast.Ident); ok && c.objOf(lid) == c.objOf(id) {
			if len(f.Init.Rhs) == len(f.Init.Lhs) {
				return f.Init.Rhs[i]
			}
			if len(f.Init.Rhs) == 1 {
				return f.Init.Rhs[0]
			}
		}
	}
	return e
}

// methodOn: e is recv.Method(args) with recv an identifier for obj; returns args.
func (c *Ctx) methodOn(e ast.Expr, obj types.Object, qualified string) ([]ast.Expr, bool) {
	call, ok := stripParens(e).(*ast.CallExpr)
	if !ok || c.calleeName(call) != qualified {
		return nil, false
	}
	sel, ok := call.Fun.(*ast.SelectorExpr)
	if !ok || !c.isObj(sel.X, obj) {
		return nil, false
	}
	return call.Args, true
}

// hasKindFact: facts imply obj.Kind() == reflect.<kind>.
func (c *Ctx) hasKindFact(facts []fact, obj types.Object, kinds ...string) bool {
	for _, f := range splitFacts(facts) {
		be, ok := f.Cond.(*ast.BinaryExpr)
		if !ok {
			continue
		}
		if !((be.Op == token.NEQ && !f.Pos) || (be.Op == token.EQL && f.Pos)) {
			continue
		}
		for _, side := range [][2]ast.Expr{{be.X, be.Y}, {be.Y, be.X}} {
			lhs := c.initDef(f, side[0])
			if _, ok := c.methodOn(lhs, obj, "reflect.Value.Kind"); !ok {
				continue
			}
			for _, k := range kinds {
				if qname(c.objOf(side[1])) == "reflect."+k {
					return true
				}
			}
		}
	}
	return false
}

// reflVar describes how a reflect.Value variable was obtained.
func (c *Ctx) singleDef(root ast.Node, obj types.Object) (ast.Expr, int) {
	var def ast.Expr
	n := 0
	ast.Inspect(root, func(x ast.Node) bool {
		if vs, isVS := x.(*ast.ValueSpec); isVS {
			for i, nm := range vs.Names {
				if c.infoFor(nm).Defs[nm] == obj && len(vs.Values) > 0 {
					n++
					if len(vs.Values) == len(vs.Names) {
						def = vs.Values[i]
					} else {
						def = vs.Values[0]
					}
				}
			}
			return true
		}
		as, ok := x.(*ast.AssignStmt)
		if !ok {
			return true
		}
		for i, l := range as.Lhs {
			if id, ok := l.(*ast.Ident); ok && c.objOf(id) == obj {
				n++
				if len(as.Rhs) == len(as.Lhs) {
					def = as.Rhs[i]
				} else if len(as.Rhs) == 1 {
					def = as.Rhs[0]
				}
			}
		}
		return true
	})
	return def, n
}

// forbidden reflect operations: coercion and in-place slice surgery.
var reflForbidden = map[string]string{
	"reflect.Value.Convert": "coerces the value to the field's type", "reflect.Value.SetInt": "numeric coercion", "reflect.Value.SetFloat": "numeric coercion",
	"reflect.Value.SetUint": "numeric coercion", "reflect.Value.SetString": "string coercion", "reflect.Value.SetBool": "coercion", "reflect.Value.SetComplex": "coercion",
	"reflect.Type.ConvertibleTo": "a convertibility test is the door to coercion", "reflect.Value.CanConvert": "a convertibility test is the door to coercion",
	"reflect.Append": "grows the caller's slice in place", "reflect.AppendSlice": "grows the caller's slice in place", "reflect.Copy": "writes into the caller's slice",
	"reflect.Value.SetLen": "re-slices the caller's slice in place", "reflect.Value.SetCap": "re-slices the caller's slice in place", "reflect.Value.Slice": "views the caller's backing array",
	"reflect.Value.Slice3": "views the caller's backing array", "reflect.Value.Grow": "grows the caller's slice in place", "reflect.Value.Field": "panics on non-structs and mis-addresses promoted fields (use FieldByIndexErr)",
	"reflect.Value.FieldByIndex": "panics through a nil embedded pointer (use FieldByIndexErr)", "reflect.Value.FieldByName": "panics on non-structs", "reflect.Value.SetZero": "clears data",
	"reflect.Value.Cap": "capacity-based reuse of the caller's slice", "reflect.NewAt": "unsafe construction", "reflect.Value.UnsafePointer": "unsafe", "reflect.Value.Pointer": "unsafe",
	"reflect.Value.Interface": "may panic on unexported fields", "reflect.Value.MapIndex": "panics on non-maps", "reflect.Value.SetMapIndex": "panics on non-maps",
	"reflect.Value.Call": "arbitrary call", "reflect.Indirect": "hides a nil pointer", "reflect.Zero": "replaces data by zero values", "reflect.New": "allocates behind the caller's back",
}

func (c *Ctx) bindFuncs() []*ast.FuncDecl {
	var out []*ast.FuncDecl
	for _, n := range []string{"copyBlocks", "copyBlock"} {
		if _, fd := c.find(n); fd != nil {
			out = append(out, fd)
		}
	}
	return out
}

func ruleNoCoercion(c *Ctx, r *Report, rule string) {
	r.rule(rule, 1, "the library uses no reflect operation that converts a value, re-slices / appends to / copies into the caller's slice, or panics on the wrong kind where an error-returning variant exists")
	n := 0
	for _, it := range c.sortedDecls() {
		obj, fd := it.obj, it.fd
		if obj.Pkg() == nil || obj.Pkg().Path() != bclPath || fd.Body == nil {
			continue
		}
		walkCalls(fd.Body, false, func(call *ast.CallExpr) {
			name := c.calleeName(call)
			if why, bad := reflForbidden[name]; bad {
				n++
				r.bad(rule, qname(obj)+"/"+name, fmt.Sprintf("%s calls %s: %s", qname(obj), name, why), c.pos(call.Pos()))
			}
		})
	}
	if n == 0 {
		r.ok(rule, "library", "none of the forbidden reflect operations is called")
	}
	r.Extra["reflect_forbidden_table_size"] = len(reflForbidden)
}

// ruleMapRange: every range over a map is order-insensitive.
func ruleMapRange(c *Ctx, r *Report, rule string) {
	r.rule(rule, 1, "every `range` over a map in the library only collects the keys into a slice that is sorted (sort.Strings) before use: no behaviour depends on map iteration order")
	n := 0
	for _, it := range c.sortedDecls() {
		obj, fd := it.obj, it.fd
		if obj.Pkg() == nil || (obj.Pkg().Path() != bclPath && obj.Pkg().Path() != cmdPath) || fd.Body == nil {
			continue
		}
		ast.Inspect(fd.Body, func(x ast.Node) bool {
			rs, ok := x.(*ast.RangeStmt)
			if !ok {
				return true
			}
			if _, isMap := c.typeOf(rs.X).Underlying().(*types.Map); !isMap {
				return true
			}
			n++
			key := fmt.Sprintf("%s/range#%d", qname(obj), n)
			// body: keys = append(keys, k) only
			okBody := rs.Value == nil && len(rs.Body.List) == 1
			var keysObj types.Object
			if okBody {
				as, isA := rs.Body.List[0].(*ast.AssignStmt)
				okBody = isA && len(as.Lhs) == 1 && len(as.Rhs) == 1
				if okBody {
					call, isC := as.Rhs[0].(*ast.CallExpr)
					okBody = isC && c.calleeName(call) == "append" && len(call.Args) == 2 && c.isObj(call.Args[1], c.objOf(rs.Key.(*ast.Ident)))
					keysObj = c.objOf(as.Lhs[0])
				}
			}
			// followed by sort.Strings(keys) before any other use
			sorted := false
			if okBody {
				pm := parentMap(fd.Body)
				if list, i := stmtListOf(pm, rs); list != nil && i+1 < len(list) {
					if es, isE := list[i+1].(*ast.ExprStmt); isE {
						if call, isC := es.X.(*ast.CallExpr); isC && (c.calleeName(call) == "sort.Strings" || c.calleeName(call) == "slices.Sort") && c.isObj(call.Args[0], keysObj) {
							sorted = true
						}
					}
				}
			}
			r.check(okBody && sorted, rule, key, "collect keys, sort.Strings, then iterate the slice", qname(obj)+" ranges over a map and does more than collect its keys for sorting with sort.Strings: the outcome depends on Go's random map order", c.pos(rs.Pos()))
			return true
		})
	}
	if n == 0 {
		r.ok(rule, "library", "no range over a map")
	}
}

// isFieldSetterCall: the call invokes a local closure of copyBlock with the
// shape of the field setter, func(name string, x any) error (whatever the
// variable is called).
func (c *Ctx) isFieldSetterCall(call *ast.CallExpr) bool {
	id, ok := call.Fun.(*ast.Ident)
	if !ok {
		return false
	}
	v, ok := c.objOf(id).(*types.Var)
	if !ok || v.IsField() || v.Parent() == nil || v.Parent() == v.Pkg().Scope() {
		return false
	}
	sig, ok := v.Type().Underlying().(*types.Signature)
	if !ok || sig.Params().Len() != 2 || sig.Results().Len() != 1 {
		return false
	}
	return types.TypeString(sig.Params().At(0).Type(), nil) == "string" && types.TypeString(sig.Results().At(0).Type(), nil) == "error"
}
