package main

// E-REFL: guard facts for structured code, and the reflection rules.

import (
	"fmt"
	"go/ast"
	"go/token"
	"go/types"
	"strings"
)

// fact is a condition known to hold at a program point.
type fact struct {
	Cond ast.Expr
	Pos  bool            // the condition holds (true) or its negation holds (false)
	Init *ast.AssignStmt // `if k := x.Kind(); cond` — definitions the condition refers to
}

// factsAt collects, for structured code, the conditions that hold when
// `target` starts executing: enclosing if-conditions, and the negations of
// earlier `if c { ...return/goto/continue/break }` guards in the enclosing
// statement lists of the same function literal / declaration.
func (c *Ctx) factsAt(root ast.Node, target ast.Node) []fact {
	pm := parentMap(root)
	var facts []fact
	leaves := func(b *ast.BlockStmt) bool {
		if len(b.List) == 0 {
			return false
		}
		switch s := b.List[len(b.List)-1].(type) {
		case *ast.ReturnStmt:
			return true
		case *ast.BranchStmt:
			return s.Tok == token.GOTO || s.Tok == token.CONTINUE || s.Tok == token.BREAK
		case *ast.ExprStmt:
			if call, ok := s.X.(*ast.CallExpr); ok && c.calleeName(call) == "panic" {
				return true
			}
		}
		return false
	}
	var cur ast.Node = target
	for cur != nil && cur != root {
		par := pm[cur]
		switch p := par.(type) {
		case *ast.BlockStmt, *ast.CaseClause:
			var list []ast.Stmt
			if b, ok := p.(*ast.BlockStmt); ok {
				list = b.List
			} else {
				list = p.(*ast.CaseClause).Body
			}
			if cc, ok := p.(*ast.CaseClause); ok {
				// tagless switch: this clause's condition holds, earlier clauses' conditions do not
				if blk, ok := pm[cc].(*ast.BlockStmt); ok {
					if sw, ok := pm[blk].(*ast.SwitchStmt); ok && sw.Tag == nil {
						init, _ := sw.Init.(*ast.AssignStmt)
						for _, other := range blk.List {
							oc := other.(*ast.CaseClause)
							if oc == cc {
								if len(cc.List) == 1 {
									facts = append(facts, fact{cc.List[0], true, init})
								}
								break
							}
							for _, e := range oc.List {
								facts = append(facts, fact{e, false, init})
							}
						}
					}
				}
			}
			for _, s := range list {
				if s == cur {
					break
				}
				if ifs, ok := s.(*ast.IfStmt); ok && ifs.Else == nil && leaves(ifs.Body) {
					init, _ := ifs.Init.(*ast.AssignStmt)
					facts = append(facts, fact{ifs.Cond, false, init})
				}
			}
		case *ast.SwitchStmt:
			_ = p
		case *ast.IfStmt:
			init, _ := p.Init.(*ast.AssignStmt)
			if cur == ast.Node(p.Body) {
				facts = append(facts, fact{p.Cond, true, init})
			} else if p.Else != nil && cur == ast.Node(p.Else) {
				facts = append(facts, fact{p.Cond, false, init})
			}
		case *ast.FuncLit:
			// facts established before the closure was created do not carry over
			return facts
		}
		cur = par
	}
	return facts
}

// splitFacts flattens the facts into the atomic conditions that are known
// to hold (negation normal form; atoms under a disjunction are not known
// individually and are left out).
func splitFacts(fs []fact) []fact {
	var out []fact
	for _, f := range fs {
		n := curCtx.nnf(f.Cond, f.Pos, f.Init)
		for _, a := range n.knownAtoms() {
			out = append(out, fact{a.E, a.Pos, a.Init})
		}
	}
	return out
}

// factNFs gives each fact in negation normal form (for rules that accept disjunctions).
func factNFs(fs []fact) []*condNF {
	var out []*condNF
	for _, f := range fs {
		out = append(out, curCtx.nnf(f.Cond, f.Pos, f.Init))
	}
	return out
}

// initDef returns the expression an identifier is bound to in the if-header.
func (c *Ctx) initDef(f fact, e ast.Expr) ast.Expr {
	id, ok := stripParens(e).(*ast.Ident)
	if !ok || f.Init == nil {
		return e
	}
	for i, l := range f.Init.Lhs {
		if lid, ok := l.(*ast.Ident); ok && c.objOf(lid) == c.objOf(id) {
			if len(f.Init.Rhs) == len(f.Init.Lhs) {
				return f.Init.Rhs[i]
			}
			if len(f.Init.Rhs) == 1 {
				return f.Init.Rhs[0]
			}
		}
	}
	return e
}

// methodOn: e is recv.Method(args) with recv an identifier for obj; returns args.
func (c *Ctx) methodOn(e ast.Expr, obj types.Object, qualified string) ([]ast.Expr, bool) {
	call, ok := stripParens(e).(*ast.CallExpr)
	if !ok || c.calleeName(call) != qualified {
		return nil, false
	}
	sel, ok := call.Fun.(*ast.SelectorExpr)
	if !ok || !c.isObj(sel.X, obj) {
		return nil, false
	}
	return call.Args, true
}

// hasKindFact: facts imply obj.Kind() == reflect.<kind>.
func (c *Ctx) hasKindFact(facts []fact, obj types.Object, kinds ...string) bool {
	for _, f := range splitFacts(facts) {
		be, ok := f.Cond.(*ast.BinaryExpr)
		if !ok {
			continue
		}
		if !((be.Op == token.NEQ && !f.Pos) || (be.Op == token.EQL && f.Pos)) {
			continue
		}
		for _, side := range [][2]ast.Expr{{be.X, be.Y}, {be.Y, be.X}} {
			lhs := c.initDef(f, side[0])
			if _, ok := c.methodOn(lhs, obj, "reflect.Value.Kind"); !ok {
				continue
			}
			for _, k := range kinds {
				if qname(c.objOf(side[1])) == "reflect."+k {
					return true
				}
			}
		}
	}
	return false
}

// reflVar describes how a reflect.Value variable was obtained.
func (c *Ctx) singleDef(root ast.Node, obj types.Object) (ast.Expr, int) {
	var def ast.Expr
	n := 0
	ast.Inspect(root, func(x ast.Node) bool {
		if vs, isVS := x.(*ast.ValueSpec); isVS {
			for i, nm := range vs.Names {
				if c.infoFor(nm).Defs[nm] == obj && len(vs.Values) > 0 {
					n++
					if len(vs.Values) == len(vs.Names) {
						def = vs.Values[i]
					} else {
						def = vs.Values[0]
					}
				}
			}
			return true
		}
		as, ok := x.(*ast.AssignStmt)
		if !ok {
			return true
		}
		for i, l := range as.Lhs {
			if id, ok := l.(*ast.Ident); ok && c.objOf(id) == obj {
				n++
				if len(as.Rhs) == len(as.Lhs) {
					def = as.Rhs[i]
				} else if len(as.Rhs) == 1 {
					def = as.Rhs[0]
				}
			}
		}
		return true
	})
	return def, n
}

// forbidden reflect operations: coercion and in-place slice surgery.
var reflForbidden = map[string]string{
	"reflect.Value.Convert": "coerces the value to the field's type", "reflect.Value.SetInt": "numeric coercion", "reflect.Value.SetFloat": "numeric coercion",
	"reflect.Value.SetUint": "numeric coercion", "reflect.Value.SetString": "string coercion", "reflect.Value.SetBool": "coercion", "reflect.Value.SetComplex": "coercion",
	"reflect.Type.ConvertibleTo": "a convertibility test is the door to coercion", "reflect.Value.CanConvert": "a convertibility test is the door to coercion",
	"reflect.Append": "grows the caller's slice in place", "reflect.AppendSlice": "grows the caller's slice in place", "reflect.Copy": "writes into the caller's slice",
	"reflect.Value.SetLen": "re-slices the caller's slice in place", "reflect.Value.SetCap": "re-slices the caller's slice in place", "reflect.Value.Slice": "views the caller's backing array",
	"reflect.Value.Slice3": "views the caller's backing array", "reflect.Value.Grow": "grows the caller's slice in place", "reflect.Value.Field": "panics on non-structs and mis-addresses promoted fields (use FieldByIndexErr)",
	"reflect.Value.FieldByIndex": "panics through a nil embedded pointer (use FieldByIndexErr)", "reflect.Value.FieldByName": "panics on non-structs", "reflect.Value.SetZero": "clears data",
	"reflect.Value.Cap": "capacity-based reuse of the caller's slice", "reflect.NewAt": "unsafe construction", "reflect.Value.UnsafePointer": "unsafe", "reflect.Value.Pointer": "unsafe",
	"reflect.Value.Interface": "may panic on unexported fields", "reflect.Value.MapIndex": "panics on non-maps", "reflect.Value.SetMapIndex": "panics on non-maps",
	"reflect.Value.Call": "arbitrary call", "reflect.Indirect": "hides a nil pointer", "reflect.Zero": "replaces data by zero values", "reflect.New": "allocates behind the caller's back",
}

func (c *Ctx) bindFuncs() []*ast.FuncDecl {
	var out []*ast.FuncDecl
	for _, n := range []string{"copyBlocks", "copyBlock"} {
		if _, fd := c.find(n); fd != nil {
			out = append(out, fd)
		}
	}
	return out
}

func ruleNoCoercion(c *Ctx, r *Report, rule string) {
	r.rule(rule, 1, "the library uses no reflect operation that converts a value, re-slices / appends to / copies into the caller's slice, or panics on the wrong kind where an error-returning variant exists")
	n := 0
	for _, it := range c.sortedDecls() {
		obj, fd := it.obj, it.fd
		if obj.Pkg() == nil || obj.Pkg().Path() != bclPath || fd.Body == nil {
			continue
		}
		walkCalls(fd.Body, false, func(call *ast.CallExpr) {
			name := c.calleeName(call)
			if why, bad := reflForbidden[name]; bad {
				n++
				r.bad(rule, qname(obj)+"/"+name, fmt.Sprintf("%s calls %s: %s", qname(obj), name, why), c.pos(call.Pos()))
			}
		})
	}
	if n == 0 {
		r.ok(rule, "library", "none of the forbidden reflect operations is called")
	}
	r.Extra["reflect_forbidden_table_size"] = len(reflForbidden)
}

// ruleReflectGuards: each partial reflect call in Bind's code is guarded.
func ruleReflectGuards(c *Ctx, r *Report, rule string) { ruleReflectGuardsMode(c, r, rule, false) }

// ruleReflectGuardsMode: with panicOnly, the fresh-slice obligations (which
// concern what the target holds after an error, not crashes) are left to C15/C05.
func ruleReflectGuardsMode(c *Ctx, r *Report, rule string, panicOnly bool) {
	min := 14
	if panicOnly {
		min = 11
	}
	r.rule(rule, min, "every reflect call in copyBlocks/copyBlock with a panicking precondition is dominated by the check that establishes it: Elem after Kind()==Pointer; Type().Elem() after Kind()==Slice; MakeSlice on that slice type; ValueOf(x).Type() after x != nil; Set after CanSet and AssignableTo; copyBlock (NumField, Field, FieldByNameFunc, FieldByIndexErr need a struct) only on values whose Kind()==Struct was checked; x.(Block) under AssignableTo(blockType)")
	funcs := c.bindFuncs()
	if len(funcs) != 2 {
		r.bad(rule, "anchors", "copyBlocks / copyBlock not found", "")
		return
	}
	copyBlocks, copyBlock := funcs[0], funcs[1]
	r.fn("copyBlocks", "copyBlock", "copyBlock$setField")
	site := 0
	check := func(ok bool, fn, what, okMsg, badMsg string, pos token.Pos) {
		site++
		r.Sites++
		r.check(ok, rule, fmt.Sprintf("%s/%s", fn, what), okMsg, badMsg, c.pos(pos))
	}
	recvObj := func(call *ast.CallExpr) types.Object {
		if sel, ok := call.Fun.(*ast.SelectorExpr); ok {
			if id, ok := stripParens(sel.X).(*ast.Ident); ok {
				return c.objOf(id)
			}
		}
		return nil
	}
	// ---- copyBlocks
	counts := map[string]int{}
	key := func(name string) string {
		counts[name]++
		if counts[name] == 1 {
			return name
		}
		return fmt.Sprintf("%s#%d", name, counts[name])
	}
	walkCalls(copyBlocks.Body, false, func(call *ast.CallExpr) {
		name := c.calleeName(call)
		facts := c.factsAt(copyBlocks.Body, call)
		switch name {
		case "reflect.Value.Elem":
			obj := recvObj(call)
			check(obj != nil && c.hasKindFact(facts, obj, "Pointer", "Ptr", "Interface"), "copyBlocks", key("Elem"), "after Kind() == Pointer", "Value.Elem() is reached without a dominating Kind() == Pointer check on the same value (panics for other kinds)", call.Pos())
		case "reflect.Type.Elem":
			// recv is X.Type() with X slice-kinded
			okk := false
			if sel, ok := call.Fun.(*ast.SelectorExpr); ok {
				if inner, ok := stripParens(sel.X).(*ast.CallExpr); ok && c.calleeName(inner) == "reflect.Value.Type" {
					if obj := recvObj(inner); obj != nil && c.hasKindFact(facts, obj, "Slice", "Array", "Pointer", "Ptr", "Map", "Chan") {
						okk = true
					}
				}
			}
			check(okk, "copyBlocks", key("Type.Elem"), "after Kind() == Slice", "Type.Elem() is reached without a dominating Kind() == Slice check (panics for struct, int, …)", call.Pos())
		case "reflect.MakeSlice":
			if panicOnly {
				return
			}
			okk := false
			if inner, ok := stripParens(call.Args[0]).(*ast.CallExpr); ok && c.calleeName(inner) == "reflect.Value.Type" {
				if obj := recvObj(inner); obj != nil && c.hasKindFact(facts, obj, "Slice") {
					okk = true
				}
			}
			// length and capacity: len(blocks), both
			lenOK := len(call.Args) == 3 && types.ExprString(call.Args[1]) == types.ExprString(call.Args[2])
			if lc, ok := stripParens(call.Args[1]).(*ast.CallExpr); !ok || c.calleeName(lc) != "len" {
				lenOK = false
			}
			check(okk && lenOK, "copyBlocks", key("MakeSlice"), "fresh slice of the target's type, len = cap = number of blocks", "reflect.MakeSlice must build a fresh slice of the (checked) slice type with length and capacity len(blocks)", call.Pos())
		case "reflect.Value.Index":
			if panicOnly {
				return
			}
			// newSlice.Index(i), i ranging over the blocks the slice was sized for
			obj := recvObj(call)
			def, n := c.singleDef(copyBlocks.Body, obj)
			okk := n == 1
			if dc, ok := def.(*ast.CallExpr); !ok || c.calleeName(dc) != "reflect.MakeSlice" {
				okk = false
			}
			check(okk, "copyBlocks", key("Index"), "index into the slice just made, within its length", "Value.Index is used on something other than the freshly made slice", call.Pos())
		case "reflect.Value.Set":
			if panicOnly {
				return
			}
			obj := recvObj(call)
			okk := obj != nil && c.hasKindFact(facts, obj, "Slice")
			if okk {
				// argument is the fresh slice; the call is not inside the fill loop
				aobj := c.objOfExpr(call.Args[0])
				def, n := c.singleDef(copyBlocks.Body, aobj)
				if dc, ok := def.(*ast.CallExpr); !ok || n != 1 || c.calleeName(dc) != "reflect.MakeSlice" {
					okk = false
				}
				pm := parentMap(copyBlocks.Body)
				for p := pm[call]; p != nil; p = pm[p] {
					if _, inLoop := p.(*ast.RangeStmt); inLoop {
						okk = false
					}
					if _, inLoop := p.(*ast.ForStmt); inLoop {
						okk = false
					}
				}
			}
			check(okk, "copyBlocks", key("Set"), "target slice replaced by the complete fresh slice, after the fill loop", "the target slice must be replaced once, by the freshly made slice, after every element was filled without error", call.Pos())
		case "copyBlock":
			// argument struct-kinded
			okk := false
			arg := stripParens(call.Args[0])
			if id, ok := arg.(*ast.Ident); ok {
				okk = c.hasKindFact(facts, c.objOf(id), "Struct")
			} else if ic, ok := arg.(*ast.CallExpr); ok && c.calleeName(ic) == "reflect.Value.Index" {
				// element kind checked through Type().Elem().Kind()
				for _, f := range splitFacts(facts) {
					be, ok := f.Cond.(*ast.BinaryExpr)
					if !ok || !((be.Op == token.NEQ && !f.Pos) || (be.Op == token.EQL && f.Pos)) || qname(c.objOf(be.Y)) != "reflect.Struct" {
						continue
					}
					lhs := c.initDef(f, be.X)
					if kc, ok := stripParens(lhs).(*ast.CallExpr); ok && c.calleeName(kc) == "reflect.Type.Kind" {
						if sel, ok := kc.Fun.(*ast.SelectorExpr); ok {
							if ec, ok := stripParens(sel.X).(*ast.CallExpr); ok && c.calleeName(ec) == "reflect.Type.Elem" {
								okk = true
							}
						}
					}
				}
			}
			check(okk, "copyBlocks", key("copyBlock-arg"), "argument's kind is Struct", "copyBlock is called with a value whose Kind() == Struct was not established", call.Pos())
		}
	})
	// binding nil check first
	okNil := false
	if len(copyBlocks.Body.List) > 0 {
		if ifs, ok := copyBlocks.Body.List[0].(*ast.IfStmt); ok {
			if be, ok := stripParens(ifs.Cond).(*ast.BinaryExpr); ok && be.Op == token.EQL && isNilIdent(be.Y) && c.isObj(be.X, c.paramObj(copyBlocks, 1)) {
				okNil = true
			}
		}
	}
	check(okNil, "copyBlocks", "nil-binding", "binding == nil -> error first", "copyBlocks must reject a nil binding before anything else", copyBlocks.Pos())
	// unknown binding type: default clause returns an error
	okDefault := false
	ast.Inspect(copyBlocks.Body, func(n ast.Node) bool {
		if ts, ok := n.(*ast.TypeSwitchStmt); ok {
			for _, cl := range ts.Body.List {
				cc := cl.(*ast.CaseClause)
				if cc.List == nil && len(cc.Body) == 1 {
					if rs, ok := cc.Body[0].(*ast.ReturnStmt); ok && len(rs.Results) == 1 && !isNilIdent(rs.Results[0]) {
						okDefault = true
					}
				}
			}
		}
		return true
	})
	check(okDefault, "copyBlocks", "unknown-binding", "other binding types -> error", "copyBlocks must return an error for a binding type it does not know", copyBlocks.Pos())

	// ---- copyBlock and its closure
	var setField *ast.FuncLit
	var setFieldObj types.Object
	ast.Inspect(copyBlock.Body, func(n ast.Node) bool {
		if as, ok := n.(*ast.AssignStmt); ok && len(as.Rhs) == 1 {
			if lit, ok := as.Rhs[0].(*ast.FuncLit); ok {
				setField = lit
				setFieldObj = c.objOf(as.Lhs[0])
			}
		}
		return true
	})
	vParam := c.paramObj(copyBlock, 0)
	counts = map[string]int{}
	var scan func(root ast.Node, fn string)
	scan = func(root ast.Node, fn string) {
		walkCalls(root, true, func(call *ast.CallExpr) {
			name := c.calleeName(call)
			facts := c.factsAt(root, call)
			switch name {
			case "reflect.Value.Type":
				obj := recvObj(call)
				if obj == vParam {
					check(true, fn, key("v.Type"), "v is struct-kinded by copyBlock's precondition (established at every call site)", "", call.Pos())
					return
				}
				// ValueOf(x).Type(): x != nil
				def, n := c.singleDef(root, obj)
				okk := false
				if dc, ok := def.(*ast.CallExpr); ok && n == 1 && c.calleeName(dc) == "reflect.ValueOf" {
					xobj := c.objOfExpr(dc.Args[0])
					for _, f := range splitFacts(facts) {
						if be, ok := f.Cond.(*ast.BinaryExpr); ok && isNilIdent(be.Y) && c.isObj(be.X, xobj) {
							if (be.Op == token.EQL && !f.Pos) || (be.Op == token.NEQ && f.Pos) {
								okk = true
							}
						}
					}
				}
				check(okk, fn, key("ValueOf(x).Type"), "after x != nil", "reflect.ValueOf(x).Type() is reached without a dominating x != nil check (panics on the zero Value)", call.Pos())
			case "reflect.Value.Set":
				obj := recvObj(call)
				canSet, assignable := false, false
				for _, f := range splitFacts(facts) {
					if _, ok := c.methodOn(f.Cond, obj, "reflect.Value.CanSet"); ok && f.Pos {
						canSet = true
					}
					if ac, ok := stripParens(f.Cond).(*ast.CallExpr); ok && c.calleeName(ac) == "reflect.Type.AssignableTo" && f.Pos {
						// bt.AssignableTo(st): bt is the value's type, st the field's type
						sel := ac.Fun.(*ast.SelectorExpr)
						bt := c.initDef(f, sel.X)
						st := c.initDef(f, ac.Args[0])
						vobj := c.objOfExpr(call.Args[0])
						if tc, ok := stripParens(bt).(*ast.CallExpr); ok && c.calleeName(tc) == "reflect.Value.Type" && recvObj(tc) == vobj {
							if ss, ok := stripParens(st).(*ast.SelectorExpr); ok && ss.Sel.Name == "Type" {
								assignable = true
							}
						}
					}
				}
				check(canSet && assignable, fn, key("dest.Set"), "after CanSet() and value.Type().AssignableTo(field type)", fmt.Sprintf("Value.Set is reached without both dominating checks: CanSet %v, AssignableTo(field type) %v", canSet, assignable), call.Pos())
			case "reflect.Value.FieldByIndexErr":
				obj := recvObj(call)
				check(obj == vParam, fn, key("FieldByIndexErr"), "on the struct value, error-returning", "FieldByIndexErr must be applied to copyBlock's struct value", call.Pos())
			case "reflect.Type.Field", "reflect.Type.NumField", "reflect.Type.FieldByNameFunc":
				// t := v.Type()
				obj := recvObj(call)
				def, n := c.singleDef(copyBlock.Body, obj)
				okk := false
				if dc, ok := def.(*ast.CallExpr); ok && n == 1 && c.calleeName(dc) == "reflect.Value.Type" && recvObj(dc) == vParam {
					okk = true
				}
				check(okk, fn, key(strings.TrimPrefix(name, "reflect.")), "on the type of the struct value", name+" must be applied to the type of copyBlock's (struct-kinded) value", call.Pos())
			case "copyBlock":
				okk := false
				if id, ok := stripParens(call.Args[0]).(*ast.Ident); ok {
					okk = c.hasKindFact(facts, c.objOf(id), "Struct")
				}
				check(okk, fn, key("copyBlock-arg"), "destination's Kind() == Struct", "the recursive copyBlock is called with a destination whose Kind() == Struct was not established (a pointer, interface or scalar field for a nested block panics in NumField)", call.Pos())
			}
		})
		// type assertions x.(Block)
		ast.Inspect(root, func(n ast.Node) bool {
			if lit, ok := n.(*ast.FuncLit); ok && ast.Node(lit) != root {
				return false
			}
			ta, ok := n.(*ast.TypeAssertExpr)
			if !ok || ta.Type == nil {
				return true
			}
			// comma-ok form is safe
			if as, ok := parentMap(root)[ta].(*ast.AssignStmt); ok && len(as.Lhs) == 2 {
				return true
			}
			if !isNamed(c.typeOf(ta.Type), bclPath, "Block") {
				return true
			}
			okk := false
			for _, f := range splitFacts(c.factsAt(root, ta)) {
				if ac, ok := stripParens(f.Cond).(*ast.CallExpr); ok && f.Pos && c.calleeName(ac) == "reflect.Type.AssignableTo" && len(ac.Args) == 1 {
					if id, ok := stripParens(ac.Args[0]).(*ast.Ident); ok && id.Name == "blockType" {
						okk = true
					}
				}
			}
			check(okk, fn, key("x.(Block)"), "under Type().AssignableTo(blockType)", "the unchecked assertion x.(Block) is not under the assignability test against the Block type", ta.Pos())
			return true
		})
	}
	scan(copyBlock.Body, "copyBlock")
	if setField != nil {
		scan(setField.Body, "setField")
	}
	_ = setFieldObj
}

// ruleErrorsPropagate: results of setField / copyBlock are never dropped; every field is visited.
func ruleErrorsPropagate(c *Ctx, r *Report, rule string) {
	r.rule(rule, 4, "every result of setField and copyBlock is returned or tested; the only tolerated failure is a missing Name field for an unnamed block; the field loop visits every key (no continue/break) and stops at the first error")
	funcs := c.bindFuncs()
	if len(funcs) != 2 {
		r.bad(rule, "anchors", "copyBlocks / copyBlock not found", "")
		return
	}
	type errSite struct {
		call *ast.CallExpr
		ifs  *ast.IfStmt
		fd   *ast.FuncDecl
	}
	var errIfs []errSite
	for _, fd := range funcs {
		pm := parentMap(fd.Body)
		idx := 0
		walkCalls(fd.Body, false, func(call *ast.CallExpr) {
			name := c.calleeName(call)
			isSetField := false
			if c.isFieldSetterCall(call) {
				isSetField = true
			}
			if name != "copyBlock" && !isSetField {
				return
			}
			idx++
			key := fmt.Sprintf("%s/call#%d", fd.Name.Name, idx)
			switch p := pm[call].(type) {
			case *ast.ReturnStmt:
				r.ok(rule, key, "returned")
			case *ast.AssignStmt:
				// err = f(...); next statement tests err and returns it — or the same in an if header
				var ifs *ast.IfStmt
				if parentIf, isInit := pm[p].(*ast.IfStmt); isInit && parentIf.Init == ast.Stmt(p) {
					ifs = parentIf
				} else if list, i := stmtListOf(pm, p); list != nil && i+1 < len(list) {
					ifs, _ = list[i+1].(*ast.IfStmt)
				}
				ok := false
				if ifs != nil {
					if atoms, pure := c.nnf(ifs.Cond, true, nil).conjuncts(); pure && len(atoms) == 1 {
						if be, isB := atoms[0].E.(*ast.BinaryExpr); isB && ((be.Op == token.NEQ) == atoms[0].Pos) && isNilIdent(be.Y) && c.isObj(be.X, c.objOf(p.Lhs[0])) {
							// the body returns err on every path except the documented Name tolerance (judged below)
							ast.Inspect(ifs.Body, func(n ast.Node) bool {
								if rs, isR := n.(*ast.ReturnStmt); isR && len(rs.Results) == 1 && c.isObj(rs.Results[0], c.objOf(p.Lhs[0])) {
									ok = true
								}
								return true
							})
							if ok {
								errIfs = append(errIfs, errSite{call, ifs, fd})
							}
						}
					}
				}
				r.check(ok, rule, key, "error tested and returned", "the error of a setField/copyBlock call is not tested and returned right after the call", c.pos(call.Pos()))
			default:
				r.bad(rule, key, "the result of a setField/copyBlock call is dropped", c.pos(call.Pos()))
			}
		})
	}
	// the Name tolerance: the only place where an error is looked at and not returned
	copyBlock := funcs[1]
	tolerated, okTol := 0, true
	whyTol := ""
	judge := func(facts []fact, site errSite) {
		tolerated++
		emptyName, mapErr := false, false
		for _, f := range facts {
			a := condAtom{E: stripParens(f.Cond), Pos: f.Pos, Init: f.Init}
			if x, isEmpty, ok := c.emptyStringCmp(a); ok && isEmpty && c.fieldPath(x) == "<Block>.Name" {
				emptyName = true
			}
			// the comma-ok result of err.(fieldMappingErr)
			if id, ok := a.E.(*ast.Ident); ok && a.Pos {
				def := c.initDef(f, id)
				if def == ast.Expr(id) {
					if d, n := c.singleDef(copyBlock.Body, c.objOf(id)); n == 1 {
						def = d
					}
				}
				if ta, ok := stripParens(def).(*ast.TypeAssertExpr); ok && ta.Type != nil && typeShort(c.typeOf(ta.Type)) == "fieldMappingErr" {
					mapErr = true
				}
			}
		}
		isName := false
		if len(site.call.Args) == 2 {
			if s0, isS := c.strConst(site.call.Args[0]); isS && s0 == "Name" {
				isName = true
			}
		}
		if !emptyName || !mapErr || !isName {
			okTol = false
			whyTol = fmt.Sprintf("at %s (empty block name known: %v, field-mapping error known: %v, the Name call: %v)", c.pos(site.ifs.Pos()), emptyName, mapErr, isName)
		}
	}
	for _, site := range errIfs {
		if site.fd != copyBlock {
			// copyBlocks: every tested error must be returned unconditionally
			if n := len(site.ifs.Body.List); n == 0 {
				okTol, whyTol = false, "empty error branch at "+c.pos(site.ifs.Pos())
			} else if _, isR := site.ifs.Body.List[n-1].(*ast.ReturnStmt); !isR {
				okTol, whyTol = false, "an error is not returned at "+c.pos(site.ifs.Pos())
			}
			continue
		}
		// gotos out of the error branch
		hasGoto := false
		ast.Inspect(site.ifs.Body, func(n ast.Node) bool {
			if bs, ok := n.(*ast.BranchStmt); ok && bs.Tok == token.GOTO {
				hasGoto = true
				judge(splitFacts(c.factsAt(copyBlock.Body, bs)), site)
			}
			return true
		})
		// falling off the end of the error branch
		n := len(site.ifs.Body.List)
		if n > 0 {
			if _, isR := site.ifs.Body.List[n-1].(*ast.ReturnStmt); isR {
				continue
			}
			if bs, isB := site.ifs.Body.List[n-1].(*ast.BranchStmt); isB && bs.Tok == token.GOTO && hasGoto {
				continue
			}
		}
		// facts at the end of the branch: negations of its leaving guards
		var facts []fact
		pure := true
		for _, st := range site.ifs.Body.List {
			if as, isA := st.(*ast.AssignStmt); isA && as.Tok == token.DEFINE && len(as.Rhs) == 1 {
				if _, isTA := stripParens(as.Rhs[0]).(*ast.TypeAssertExpr); isTA {
					continue // _, ok := err.(T): a pure definition
				}
			}
			inner, isIf := st.(*ast.IfStmt)
			if !isIf || inner.Else != nil || len(inner.Body.List) == 0 {
				pure = false
				continue
			}
			if _, isR := inner.Body.List[len(inner.Body.List)-1].(*ast.ReturnStmt); !isR {
				pure = false
				continue
			}
			init, _ := inner.Init.(*ast.AssignStmt)
			facts = append(facts, fact{inner.Cond, false, init})
		}
		if !pure {
			okTol, whyTol = false, "the error branch at "+c.pos(site.ifs.Pos())+" can end without returning the error"
			continue
		}
		judge(splitFacts(facts), site)
	}
	r.check(tolerated <= 1 && okTol, rule, "name-tolerance", "a failed Name mapping is ignored only for an unnamed block and only for the field-mapping error", "copyBlock skips an error outside the single documented case (missing Name field while block.Name is empty) "+whyTol, c.pos(copyBlock.Pos()))
	// field loop: range over the sorted keys slice, single setField, no continue/break
	okLoop := false
	ast.Inspect(copyBlock.Body, func(n ast.Node) bool {
		rs, ok := n.(*ast.RangeStmt)
		if !ok {
			return true
		}
		calls, jumps := 0, 0
		ast.Inspect(rs.Body, func(x ast.Node) bool {
			if call, ok := x.(*ast.CallExpr); ok {
				if c.isFieldSetterCall(call) {
					calls++
				}
			}
			if bs, ok := x.(*ast.BranchStmt); ok && (bs.Tok == token.CONTINUE || bs.Tok == token.BREAK) {
				jumps++
			}
			return true
		})
		if calls == 1 && jumps == 0 {
			okLoop = true
		}
		return true
	})
	r.check(okLoop, rule, "all-fields-visited", "one setField per key, no continue/break", "the field loop must call setField for every key of the block and must not skip or stop early except on error", c.pos(copyBlock.Pos()))
}

// ruleMapRange: every range over a map is order-insensitive.
func ruleMapRange(c *Ctx, r *Report, rule string) {
	r.rule(rule, 1, "every `range` over a map in the library only collects the keys into a slice that is sorted (sort.Strings) before use: no behaviour depends on map iteration order")
	n := 0
	for _, it := range c.sortedDecls() {
		obj, fd := it.obj, it.fd
		if obj.Pkg() == nil || (obj.Pkg().Path() != bclPath && obj.Pkg().Path() != cmdPath) || fd.Body == nil {
			continue
		}
		ast.Inspect(fd.Body, func(x ast.Node) bool {
			rs, ok := x.(*ast.RangeStmt)
			if !ok {
				return true
			}
			if _, isMap := c.typeOf(rs.X).Underlying().(*types.Map); !isMap {
				return true
			}
			n++
			key := fmt.Sprintf("%s/range#%d", qname(obj), n)
			// body: keys = append(keys, k) only
			okBody := rs.Value == nil && len(rs.Body.List) == 1
			var keysObj types.Object
			if okBody {
				as, isA := rs.Body.List[0].(*ast.AssignStmt)
				okBody = isA && len(as.Lhs) == 1 && len(as.Rhs) == 1
				if okBody {
					call, isC := as.Rhs[0].(*ast.CallExpr)
					okBody = isC && c.calleeName(call) == "append" && len(call.Args) == 2 && c.isObj(call.Args[1], c.objOf(rs.Key.(*ast.Ident)))
					keysObj = c.objOf(as.Lhs[0])
				}
			}
			// followed by sort.Strings(keys) before any other use
			sorted := false
			if okBody {
				pm := parentMap(fd.Body)
				if list, i := stmtListOf(pm, rs); list != nil && i+1 < len(list) {
					if es, isE := list[i+1].(*ast.ExprStmt); isE {
						if call, isC := es.X.(*ast.CallExpr); isC && (c.calleeName(call) == "sort.Strings" || c.calleeName(call) == "slices.Sort") && c.isObj(call.Args[0], keysObj) {
							sorted = true
						}
					}
				}
			}
			r.check(okBody && sorted, rule, key, "collect keys, sort.Strings, then iterate the slice", qname(obj)+" ranges over a map and does more than collect its keys for sorting with sort.Strings: the outcome depends on Go's random map order", c.pos(rs.Pos()))
			return true
		})
	}
	if n == 0 {
		r.ok(rule, "library", "no range over a map")
	}
}

// isFieldSetterCall: the call invokes a local closure of copyBlock with the
// shape of the field setter, func(name string, x any) error (whatever the
// variable is called).
func (c *Ctx) isFieldSetterCall(call *ast.CallExpr) bool {
	id, ok := call.Fun.(*ast.Ident)
	if !ok {
		return false
	}
	v, ok := c.objOf(id).(*types.Var)
	if !ok || v.IsField() || v.Parent() == nil || v.Parent() == v.Pkg().Scope() {
		return false
	}
	sig, ok := v.Type().Underlying().(*types.Signature)
	if !ok || sig.Params().Len() != 2 || sig.Results().Len() != 1 {
		return false
	}
	return types.TypeString(sig.Params().At(0).Type(), nil) == "string" && types.TypeString(sig.Results().At(0).Type(), nil) == "error"
}
