package main

// E-SER model: Prog.Dump and Prog.Load are interpreted abstractly (helpers, methods and closures of the module
// are interpreted in place) and the ordered write / read events of the file format are collected.
//
// Dump: every write to the destination is an event. What is written is described by the abstract value of the
// argument: the bytes an encoder put into a scratch buffer (uvarintToBytes / valueToBytes, named by what they
// were given: len(field), elem(field)), the bytes of a Prog field, or the header constants.
//
// Load: the reads of the *successful* path are collected: every error-typed value is taken to be nil and every
// byte count returned by a read to be the full count (the rules on short reads and error handling are separate
// rules). uvarintFromBuf / valueFromBuf are the decoding primitives; a decoded value is named by where it ends up:
// the size given to make() for a Prog field, the element stored into a Prog field, the count of raw bytes that
// become a Prog field.

import (
	"fmt"
	"go/ast"
	"go/constant"
	"go/token"
	"go/types"
	"sort"
	"strconv"
	"strings"
)

type serPay struct {
	frames   [][]serEvent
	names    map[int]string // event id -> what it carries
	sized    map[string]int // Prog field -> id of the varint that sized it
	rawCount map[int]int    // RAW event id -> id of the varint that counted it
	loopFld  []string       // per frame: the Prog field whose elements were stored
	next     int
	pending  int // id of the varint used by the last make() that was not stored yet (0: none)
	problems []string

	reads      int    // read primitives met so far on this path
	failedAt   string // position of the read that was made to fail ("" : none)
	failedSite token.Pos
	fields     map[string]Value     // other struct fields assigned on this path (a sticky error, a reader wrapper)
	bufRead    map[types.Object]int // local buffer -> id of the header read that filled it last
	decisions  []serDecision

	// Dump: scratch buffer bookkeeping
	typeFacts map[string]string // value -> "string" / "!string" as tested on this path
	bufIssues []string          // "scalar: …" / "string: …"
	encSites  int               // encoder calls whose buffer was checked
	strSites  int               // … of which for a value known to be a string
}

// serDecision is an undecided condition and the way this path went.
type serDecision struct {
	Pos    token.Pos
	Cond   string
	Taken  bool
	NEv    int    // number of events before it
	Header string // "<const> <relation that holds on this path> hdr#<k>[i]" for a comparison of header bytes with a format constant
}

func (d serDecision) key() string { return fmt.Sprintf("%d/%v", d.Pos, d.Taken) }

func newSerPay() *serPay {
	return &serPay{frames: [][]serEvent{nil}, names: map[int]string{}, sized: map[string]int{}, rawCount: map[int]int{}, loopFld: []string{""},
		fields: map[string]Value{}, bufRead: map[types.Object]int{}, typeFacts: map[string]string{}}
}

func (p *serPay) Clone() Payload {
	q := &serPay{names: map[int]string{}, sized: map[string]int{}, rawCount: map[int]int{}, next: p.next, pending: p.pending,
		reads: p.reads, failedAt: p.failedAt, failedSite: p.failedSite, fields: map[string]Value{}, bufRead: map[types.Object]int{}}
	for k, v := range p.fields {
		q.fields[k] = v
	}
	for k, v := range p.bufRead {
		q.bufRead[k] = v
	}
	q.decisions = append([]serDecision(nil), p.decisions...)
	q.typeFacts = map[string]string{}
	for k, v := range p.typeFacts {
		q.typeFacts[k] = v
	}
	q.bufIssues = append([]string(nil), p.bufIssues...)
	q.encSites, q.strSites = p.encSites, p.strSites
	for _, f := range p.frames {
		q.frames = append(q.frames, append([]serEvent(nil), f...))
	}
	for k, v := range p.names {
		q.names[k] = v
	}
	for k, v := range p.sized {
		q.sized[k] = v
	}
	for k, v := range p.rawCount {
		q.rawCount[k] = v
	}
	q.loopFld = append([]string(nil), p.loopFld...)
	q.problems = append([]string(nil), p.problems...)
	return q
}

func (p *serPay) add(kind, what string, pos token.Pos) int {
	p.next++
	p.frames[len(p.frames)-1] = append(p.frames[len(p.frames)-1], serEvent{Kind: kind, What: what, Pos: pos, id: p.next})
	return p.next
}

func (p *serPay) push() {
	p.frames = append(p.frames, nil)
	p.loopFld = append(p.loopFld, "")
}

func (p *serPay) pop(field string, pos token.Pos) {
	inner := p.frames[len(p.frames)-1]
	p.frames = p.frames[:len(p.frames)-1]
	p.loopFld = p.loopFld[:len(p.loopFld)-1]
	p.next++
	p.frames[len(p.frames)-1] = append(p.frames[len(p.frames)-1], serEvent{Kind: "LOOP", What: field, Inner: inner, Pos: pos, id: p.next})
}

func (p *serPay) problem(s string) {
	for _, q := range p.problems {
		if q == s {
			return
		}
	}
	p.problems = append(p.problems, s)
}

// resolved gives the top-level events with the names found later filled in.
func (p *serPay) resolved() []serEvent {
	subst := func(w string) string {
		if !strings.Contains(w, "sized#") {
			return w
		}
		for f, id := range p.sized {
			w = strings.ReplaceAll(w, fmt.Sprintf("sized#%d", id), f)
		}
		return w
	}
	var fix func(ev []serEvent) []serEvent
	fix = func(ev []serEvent) []serEvent {
		var out []serEvent
		for _, e := range ev {
			if n, ok := p.names[e.id]; ok {
				e.What = n
			}
			e.What = subst(e.What)
			e.Inner = fix(e.Inner)
			// consecutive header writes are one header
			if e.Kind == "HDR" && len(out) > 0 && out[len(out)-1].Kind == "HDR" && !isDigits(e.What) {
				out[len(out)-1].What += "," + e.What
				continue
			}
			out = append(out, e)
		}
		return out
	}
	return fix(p.frames[0])
}

func isDigits(s string) bool {
	_, err := strconv.Atoi(s)
	return err == nil
}

func serPayOf(st *State) *serPay { return st.P.(*serPay) }

// serScalarNeed: the bytes a scalar constant takes at most — the type code and a 9-byte varint.
const serScalarNeed = 10

// bufHolds: one of the known lower bounds of the buffer's length is at least need (lengths are non-negative).
func bufHolds(lows []*Lin, need *Lin) bool {
	for _, l := range lows {
		d := l.sub(need)
		ok := d.C >= 0
		for _, k := range d.T {
			if k < 0 {
				ok = false
			}
		}
		if ok {
			return true
		}
	}
	return false
}

func boundsString(lows []*Lin) string {
	var s []string
	for _, l := range lows {
		s = append(s, l.String())
	}
	return "[" + strings.Join(s, " | ") + "]"
}

var serPrimitives = map[string]bool{"uvarintFromBuf": true, "valueFromBuf": true, "uvarintToBytes": true, "valueToBytes": true}

// progFieldLoose is progField that also sees the line table through a *lineCalc variable.
func (c *Ctx) progFieldLoose(e ast.Expr) string {
	if f := c.progField(e); f != "" {
		return f
	}
	fp := c.fieldPath(e)
	if strings.HasPrefix(fp, "<lineCalc>.") && !strings.Contains(fp, "[]") {
		parts := strings.Split(fp, ".")
		return parts[len(parts)-1]
	}
	return ""
}

func isErrorType(t types.Type) bool {
	if t == nil {
		return false
	}
	n, ok := t.(*types.Named)
	return ok && n.Obj().Pkg() == nil && n.Obj().Name() == "error"
}

// serMode: what is interpreted. failAt > 0 makes the failAt-th read primitive of every path fail (a short read with
// a non-nil error) while all others succeed.
type serMode struct {
	load   bool
	failAt int
}

// readSize describes the number of bytes a read was asked for.
type readSize struct {
	K     int64  // constant size (-1: not constant)
	UV    int    // id of the varint that gives the size (0: none)
	Field string // the Prog field read into ("" : none)
	Short bool   // the read came up short
}

func (c *Ctx) serHooks(mode serMode) Hooks {
	load := mode.load
	var h Hooks
	bufKeys := map[string]ast.Expr{} // symbol of a buffer's length -> the expression it is the length of
	describe := func(v Value) string {
		if v.K == vTag {
			switch v.Tag {
			case "len":
				return "len(" + v.Data.(string) + ")"
			case "elem":
				return "elem(" + v.Data.(string) + ")"
			}
		}
		return "?" + v.String()
	}
	h.StructLit = func(in *Interp, st *State, e *ast.CompositeLit, names []string, vals []Value) {
		tn := "<" + typeShort(c.typeOf(e)) + ">"
		for i, n := range names {
			if n != "" && i < len(vals) {
				serPayOf(st).fields[tn+"."+n] = vals[i]
			}
		}
	}
	h.Inline = func(fn *types.Func) bool {
		return fn.Pkg() != nil && fn.Pkg().Path() == bclPath && c.serRoleOf(fn) == ""
	}
	h.SameEffect = func(a, b *State) bool {
		return seqString(serPayOf(a).resolved()) == seqString(serPayOf(b).resolved()) && len(serPayOf(a).frames) == len(serPayOf(b).frames) &&
			seqString(serPayOf(a).frames[len(serPayOf(a).frames)-1]) == seqString(serPayOf(b).frames[len(serPayOf(b).frames)-1])
	}
	h.Load = func(in *Interp, st *State, e ast.Expr) (Value, bool) {
		switch e := e.(type) {
		case *ast.SelectorExpr:
			if o, ok := c.objOf(e).(*types.Var); ok && o.Pkg() != nil && o.Pkg().Path() == "io" && o.Name() == "EOF" {
				return tagV("ioEOF", nil), true
			}
			if o, ok := c.objOf(e).(*types.Var); ok && o.Pkg() != nil && o.Pkg().Path() == "io" && isErrorType(o.Type()) {
				return tagV("err", nil), true // io.ErrUnexpectedEOF and the like
			}
			if o, ok := c.objOf(e).(*types.Var); ok && o.IsField() {
				if f := c.progFieldLoose(e); f != "" {
					if _, isStruct := derefType(o.Type()).Underlying().(*types.Struct); isStruct {
						return Value{}, false // prog.linePos: the fields below it are what is serialised
					}
					return tagV("field", f), true
				}
				if fp := c.fieldPath(e); fp != "" {
					if v, ok := serPayOf(st).fields[fp]; ok {
						return v, true
					}
				}
			}
		case *ast.CompositeLit:
			// a struct literal sets its fields (dumpWriter{out: …, scratch: make([]byte, n)})
			return Value{}, false
		case *ast.SliceExpr:
			if !load && e.Low == nil && e.High == nil {
				// b[:] of a fixed array: a buffer of that many bytes
				if arr, ok := derefType(c.typeOf(e.X)).Underlying().(*types.Array); ok {
					return tagV("buf", []*Lin{linConst(arr.Len())}), true
				}
			}
			if load {
				if id, ok := stripParens(e.X).(*ast.Ident); ok {
					if ev, ok := serPayOf(st).bufRead[c.objOf(id)]; ok {
						lo, hi := int64(0), int64(-1)
						okB := true
						if e.Low != nil {
							lo, okB = c.intConst(e.Low)
						}
						if e.High != nil && okB {
							hi, okB = c.intConst(e.High)
						} else if arr, isArr := derefType(c.typeOf(e.X)).Underlying().(*types.Array); isArr {
							hi = arr.Len()
						}
						if okB && hi >= 0 {
							return tagV("hdrbytes", fmt.Sprintf("hdr#%d[%d:%d]", ev, lo, hi)), true
						}
					}
				}
			}
			if e.High != nil && !load {
				hv := in.eval(st, e.High)
				if len(hv) == 1 && hv[0].v.K == vTag && hv[0].v.Tag == "encn" {
					if e.Low != nil {
						if k, ok := c.intConst(e.Low); !ok || k != 0 {
							serPayOf(st).problem(c.pos(e.Pos()) + ": the encoded bytes are written from an offset other than 0")
						}
					}
					return tagV("encbuf", hv[0].v.Data), true
				}
			}
			// slicing a Prog field keeps denoting the field's bytes when it is the whole of it
			if e.Low == nil && e.High == nil {
				xv := in.eval(st, e.X)
				if len(xv) == 1 && xv[0].v.K == vTag && (xv[0].v.Tag == "field" || xv[0].v.Tag == "sized" || xv[0].v.Tag == "buf") {
					return xv[0].v, true
				}
			}
		}
		return Value{}, false
	}
	h.Index = func(in *Interp, st *State, e *ast.IndexExpr, x, idx Value) (Value, bool) {
		if x.K == vTag && x.Tag == "field" {
			return tagV("elem", x.Data), true
		}
		if load {
			if id, ok := stripParens(e.X).(*ast.Ident); ok {
				if ev, ok := serPayOf(st).bufRead[c.objOf(id)]; ok && idx.K == vConst {
					if k, ok := constant.Int64Val(idx.C); ok {
						return tagV("hdrbytes", fmt.Sprintf("hdr#%d[%d]", ev, k)), true
					}
				}
			}
		}
		return Value{}, false
	}
	h.BinOp = func(l Value, op token.Token, r Value) (Value, bool) {
		isCmp := op == token.EQL || op == token.NEQ || op == token.LSS || op == token.LEQ || op == token.GTR || op == token.GEQ
		if !isCmp {
			return Value{}, false
		}
		b := func(x bool) (Value, bool) { return constV(constant.MakeBool(x)), true }
		tag := func(v Value, t string) bool { return v.K == vTag && v.Tag == t }
		// the byte count of a read against what was asked for
		if tag(l, "readn") || tag(r, "readn") {
			n, o := l, r
			if tag(r, "readn") {
				n, o = r, l
				switch op {
				case token.LSS:
					op = token.GTR
				case token.GTR:
					op = token.LSS
				case token.LEQ:
					op = token.GEQ
				case token.GEQ:
					op = token.LEQ
				}
			}
			sz, _ := n.Data.(readSize)
			// is the other operand the size that was asked for (0), more (+1), less (-1) or unrelated (2)?
			rel := 2
			switch {
			case o.K == vConst && o.C.Kind() == constant.Int && sz.K >= 0:
				k, _ := constant.Int64Val(o.C)
				switch {
				case k == sz.K:
					rel = 0
				case k > sz.K:
					rel = 1
				default:
					rel = -1
				}
			case tag(o, "uv") && sz.UV != 0 && o.Data.(int) == sz.UV:
				rel = 0
			case tag(o, "len") && sz.Field != "" && o.Data.(string) == sz.Field:
				rel = 0
			}
			if rel == 2 {
				return Value{}, false
			}
			if !sz.Short {
				// n == asked
				switch op {
				case token.EQL:
					return b(rel == 0)
				case token.NEQ:
					return b(rel != 0)
				case token.LSS:
					return b(rel > 0)
				case token.LEQ:
					return b(rel >= 0)
				case token.GTR:
					return b(rel < 0)
				case token.GEQ:
					return b(rel <= 0)
				}
			}
			// 0 <= n < asked: decided only when it does not depend on how short the read was
			switch op {
			case token.EQL:
				if rel >= 0 {
					return b(false)
				}
			case token.NEQ:
				if rel >= 0 {
					return b(true)
				}
			case token.LSS:
				if rel >= 0 {
					return b(true)
				}
			case token.LEQ:
				if rel >= 0 {
					return b(true)
				}
			case token.GTR, token.GEQ:
				if rel >= 0 {
					return b(false)
				}
			}
			return Value{}, false
		}
		if op != token.EQL && op != token.NEQ {
			return Value{}, false
		}
		eq := func(same bool) (Value, bool) { return b(same == (op == token.EQL)) }
		nilLike := func(v Value) bool {
			return tag(v, "nil") || (v.K == vUnknown && isErrorType(v.T))
		}
		switch {
		case tag(l, "eof") && tag(r, "ioEOF"), tag(r, "eof") && tag(l, "ioEOF"):
			return eq(true)
		case tag(l, "eof") && tag(r, "nil"), tag(r, "eof") && tag(l, "nil"):
			return eq(false)
		case tag(l, "err") && tag(r, "nil"), tag(r, "err") && tag(l, "nil"):
			return eq(false)
		case tag(l, "rerr") && tag(r, "nil"), tag(r, "rerr") && tag(l, "nil"):
			return eq(false)
		case tag(l, "err") && tag(r, "ioEOF"), tag(r, "err") && tag(l, "ioEOF"):
			return eq(false)
		case tag(l, "nil") && nilLike(r), tag(r, "nil") && nilLike(l):
			return eq(true)
		case nilLike(l) && tag(r, "ioEOF"), nilLike(r) && tag(l, "ioEOF"):
			return eq(false)
		}
		return Value{}, false
	}
	h.Decide = func(in *Interp, st *State, cond ast.Expr) tri {
		// an error-typed expression compared with nil: the successful path
		be, ok := stripParens(cond).(*ast.BinaryExpr)
		if !ok || (be.Op != token.EQL && be.Op != token.NEQ) {
			return triUnknown
		}
		var other ast.Expr
		switch {
		case isNilIdent(be.Y):
			other = be.X
		case isNilIdent(be.X):
			other = be.Y
		default:
			return triUnknown
		}
		if !isErrorType(c.typeOf(other)) {
			return triUnknown
		}
		vs := in.eval(st.clone(), other)
		if len(vs) == 1 && vs[0].v.K == vTag && (vs[0].v.Tag == "err" || vs[0].v.Tag == "eof" || vs[0].v.Tag == "rerr") {
			if be.Op == token.NEQ {
				return triTrue
			}
			return triFalse
		}
		if be.Op == token.EQL {
			return triTrue
		}
		return triFalse
	}
	nilErr := tagV("nil", nil)
	h.Call = func(in *Interp, st *State, call *ast.CallExpr, callee types.Object, args []Value) ([]valState, bool) {
		p := serPayOf(st)
		name := ""
		if callee != nil {
			name = qname(callee)
			if fn, ok := callee.(*types.Func); ok {
				if role := c.serRoleOf(fn); role != "" {
					name = role
				}
			}
		}
		// io.ReadFull behind a method of the reader struct (`func (r dumpReader) full(p []byte) (int, error) { return
		// io.ReadFull(r.src, p) }`): the call is that read, of the buffer handed to it
		if fn, ok := callee.(*types.Func); ok && name != "io.ReadFull" {
			if k := c.readFullWrapper(fn); k >= 0 && k < len(call.Args) && k < len(args) {
				name = "io.ReadFull"
				call = &ast.CallExpr{Fun: call.Fun, Lparen: call.Lparen, Args: []ast.Expr{call.Args[k], call.Args[k]}, Rparen: call.Rparen}
				args = []Value{unknownV(), args[k]}
			}
		}
		arg := func(i int) Value {
			if i < len(args) {
				return args[i]
			}
			return unknownV()
		}
		isTag := func(v Value, t string) bool { return v.K == vTag && v.Tag == t }
		failing := func() bool {
			p.reads++
			if mode.failAt == p.reads {
				p.failedAt = c.pos(call.Pos())
				p.failedSite = call.Pos()
				return true
			}
			return false
		}
		switch name {
		case "len":
			a := arg(0)
			switch {
			case isTag(a, "field"):
				return one(st, tagV("len", a.Data)), true
			case isTag(a, "sized"):
				return one(st, tagV("uv", a.Data)), true
			case !load && a.K == vTag && a.Tag == "buf" && len(call.Args) == 1:
				// the length of a scratch buffer is a symbol of its own, so that a test on it can be used
				k := "buflen:" + types.ExprString(call.Args[0]) + "@" + c.pos(call.Args[0].Pos())
				if fp := c.fieldPath(call.Args[0]); fp != "" {
					if _, isID := stripParens(call.Args[0]).(*ast.Ident); !isID {
						k = "buflen:" + fp
					}
				}
				bufKeys[k] = stripParens(call.Args[0])
				return one(st, linV(linSym(k))), true
			case !load && a.K == vTag && a.Tag != "buf":
				return one(st, linV(linSym("len:"+a.String()))), true // the length of a value being written
			}
			return one(st, unknownV()), true
		case "make":
			if !load && len(args) >= 2 {
				if l, ok := args[1].asLin(); ok {
					return one(st, tagV("buf", []*Lin{l})), true
				}
				return one(st, unknownV()), true
			}
			if len(args) >= 2 && isTag(args[1], "uv") {
				p.pending = args[1].Data.(int)
				return one(st, tagV("sized", args[1].Data)), true
			}
			if load && len(args) >= 2 {
				if isTag(args[1], "len") {
					return one(st, unknownV()), true
				}
				if _, isConst := c.intConst(call.Args[1]); !isConst {
					// remembered: a Prog field made with a size that is not a varint read from the stream
					return one(st, tagV("unsized", c.pos(call.Pos()))), true
				}
			}
			return one(st, unknownV()), true
		case "append":
			if !load && len(args) >= 1 {
				var parts []string
				for _, x := range call.Args {
					x = c.stripConv(x)
					if id, ok := x.(*ast.Ident); ok {
						if _, isConst := c.objOf(id).(*types.Const); isConst {
							parts = append(parts, id.Name)
							continue
						}
					}
					parts = nil
					break
				}
				if len(parts) == len(call.Args) && len(parts) > 0 {
					return one(st, tagV("hdr", strings.Join(parts, ","))), true
				}
			}
			return one(st, unknownV()), true
		case "uvarintToBytes", "valueToBytes":
			kind := "U"
			if name == "valueToBytes" {
				kind = "VALUE"
			}
			if !load {
				// the scratch buffer must hold what is encoded: 9 bytes for a varint, type code + 9 for a scalar
				// value, type code + 9 + len(s) for a string
				need := linConst(9)
				what := "scalar"
				if name == "valueToBytes" {
					need = linConst(serScalarNeed)
					vd := arg(1).String()
					switch p.typeFacts[vd] {
					case "!string":
					case "string":
						need = need.add(linSym("len:" + vd))
						what = "string"
						p.strSites++
					default:
						need = need.add(linSym("len:" + vd))
						what = "string"
					}
				}
				p.encSites++
				buf := arg(0)
				switch {
				case !isTag(buf, "buf"):
					p.bufIssues = append(p.bufIssues, fmt.Sprintf("%s: %s: the size of the buffer handed to %s is not known", what, c.pos(call.Pos()), name))
				case !bufHolds(buf.Data.([]*Lin), need):
					p.bufIssues = append(p.bufIssues, fmt.Sprintf("%s: %s: %s needs %s bytes; the buffer is only known to hold %s", what, c.pos(call.Pos()), name, need, boundsString(buf.Data.([]*Lin))))
				}
			}
			return one(st, tagV("encn", serEvent{Kind: kind, What: describe(arg(1)), Pos: call.Pos()})), true
		case "uvarintFromBuf":
			id := p.add("U", "?", call.Pos())
			if failing() {
				return one(st, Value{K: vTuple, Tup: []Value{unknownV(), tagV("rerr", nil)}}), true
			}
			return one(st, Value{K: vTuple, Tup: []Value{tagV("uv", id), nilErr}}), true
		case "valueFromBuf":
			id := p.add("VALUE", "?", call.Pos())
			if failing() {
				return one(st, Value{K: vTuple, Tup: []Value{unknownV(), tagV("rerr", nil)}}), true
			}
			return one(st, Value{K: vTuple, Tup: []Value{tagV("val", id), nilErr}}), true
		case "bufio.NewReaderSize", "bufio.NewReader":
			return one(st, tagV("reader", nil)), true
		case "bufio.NewWriterSize", "bufio.NewWriter":
			return one(st, tagV("writer", nil)), true
		case "io.ReadFull":
			buf := arg(1)
			sz := readSize{K: -1}
			switch {
			case isTag(buf, "field"):
				f := buf.Data.(string)
				id := p.add("RAW", f, call.Pos())
				sz.Field = f
				if uv, ok := p.sized[f]; ok {
					p.rawCount[id] = uv
					sz.UV = uv
				} else {
					p.problem(c.pos(call.Pos()) + ": " + f + " is read without having been sized from the stream")
				}
			case isTag(buf, "sized"):
				id := p.add("RAW", "?", call.Pos())
				p.rawCount[id] = buf.Data.(int)
				sz.UV = buf.Data.(int)
			case isTag(buf, "unsized"):
				p.add("RAW", "?unsized", call.Pos())
				p.problem(c.pos(call.Pos()) + ": bytes are read into a buffer whose size is not the varint read from the stream")
			default:
				n := c.sliceLen(call.Args[1])
				p.add("HDR", n, call.Pos())
				id := 0 // ordinal of the header read
				for _, e := range p.frames[0] {
					if e.Kind == "HDR" {
						id++
					}
				}
				if k, err := strconv.ParseInt(n, 10, 64); err == nil {
					sz.K = k
				}
				// the local buffer now holds these bytes
				root := stripParens(call.Args[1])
				if se, ok := root.(*ast.SliceExpr); ok {
					root = stripParens(se.X)
				}
				if rid, ok := root.(*ast.Ident); ok {
					p.bufRead[c.objOf(rid)] = id
				}
			}
			if failing() {
				sz.Short = true
				return one(st, Value{K: vTuple, Tup: []Value{tagV("readn", sz), tagV("rerr", nil)}}), true
			}
			return one(st, Value{K: vTuple, Tup: []Value{tagV("readn", sz), nilErr}}), true
		}
		fn, _ := callee.(*types.Func)
		if fn != nil && (fn.Pkg() == nil || fn.Pkg().Path() != bclPath) {
			sig := fn.Type().(*types.Signature)
			if sig.Recv() != nil {
				switch fn.Name() {
				case "Write", "WriteString", "WriteByte":
					if !load {
						a := arg(0)
						switch {
						case isTag(a, "encbuf"):
							ev := a.Data.(serEvent)
							p.add(ev.Kind, ev.What, call.Pos())
						case isTag(a, "field"):
							p.add("RAW", a.Data.(string), call.Pos())
						case isTag(a, "hdr"):
							p.add("HDR", a.Data.(string), call.Pos())
						case a.K == vConst:
							what := "?"
							if id, ok := c.stripConv(call.Args[0]).(*ast.Ident); ok {
								what = id.Name
							}
							p.add("HDR", what, call.Pos())
						default:
							p.add("?", a.String(), call.Pos())
							p.problem(c.pos(call.Pos()) + ": write of an unrecognised value")
						}
						if fn.Name() == "WriteByte" {
							return one(st, nilErr), true
						}
						return one(st, Value{K: vTuple, Tup: []Value{unknownV(), nilErr}}), true
					}
				case "Flush":
					if !load {
						p.add("FLUSH", "", call.Pos())
						return one(st, tagV("flusherr", nil)), true
					}
				case "Read", "ReadByte":
					if load && fn.Name() == "Read" && len(call.Args) == 1 && c.sliceLen(call.Args[0]) != "1" {
						// a plain Read used to fetch data (the read-primitive rule refuses it): modelled as the
						// header read it stands for so that the other rules keep their bearings
						n := c.sliceLen(call.Args[0])
						p.add("HDR", n, call.Pos())
						id := 0
						for _, e := range p.frames[0] {
							if e.Kind == "HDR" {
								id++
							}
						}
						root := stripParens(call.Args[0])
						if se, ok := root.(*ast.SliceExpr); ok {
							root = stripParens(se.X)
						}
						if rid, ok := root.(*ast.Ident); ok {
							p.bufRead[c.objOf(rid)] = id
						}
						sz := readSize{K: -1}
						if k, err := strconv.ParseInt(n, 10, 64); err == nil {
							sz.K = k
						}
						if failing() {
							sz.Short = true
							return one(st, Value{K: vTuple, Tup: []Value{tagV("readn", sz), tagV("rerr", nil)}}), true
						}
						return one(st, Value{K: vTuple, Tup: []Value{tagV("readn", sz), nilErr}}), true
					}
					if load {
						p.add("TRAIL", "", call.Pos())
						if fn.Name() == "ReadByte" {
							return one(st, Value{K: vTuple, Tup: []Value{unknownV(), tagV("eof", nil)}}), true
						}
						return one(st, Value{K: vTuple, Tup: []Value{unknownV(), tagV("eof", nil)}}), true
					}
				}
			}
			// constructors of errors
			if res := sig.Results(); res.Len() == 1 && isErrorType(res.At(0).Type()) {
				return one(st, tagV("err", nil)), true
			}
		}
		return nil, false
	}
	h.Store = func(in *Interp, st *State, lhs ast.Expr, op token.Token, v Value) bool {
		if !load {
			if sel, ok := lhs.(*ast.SelectorExpr); ok && op == token.ASSIGN {
				if fp := c.fieldPath(sel); fp != "" && !strings.HasPrefix(fp, "<Prog>.") {
					serPayOf(st).fields[fp] = v
					return true
				}
			}
			return false
		}
		p := serPayOf(st)
		isTag := func(v Value, t string) bool { return v.K == vTag && v.Tag == t }
		nameRaws := func(uv int, f string) {
			var walk func(ev []serEvent)
			walk = func(ev []serEvent) {
				for _, e := range ev {
					if e.Kind == "RAW" && p.rawCount[e.id] == uv {
						if _, named := p.names[e.id]; !named && e.What == "?" {
							p.names[e.id] = f
						}
					}
					walk(e.Inner)
				}
			}
			for _, fr := range p.frames {
				walk(fr)
			}
		}
		switch l := lhs.(type) {
		case *ast.SelectorExpr:
			o, ok := c.objOf(l).(*types.Var)
			if !ok || !o.IsField() {
				return false
			}
			f := c.progFieldLoose(l)
			if f == "" {
				if fp := c.fieldPath(l); fp != "" && op == token.ASSIGN {
					p.fields[fp] = v
					return true
				}
				return false
			}
			if _, isStruct := derefType(o.Type()).Underlying().(*types.Struct); isStruct {
				// prog.linePos = &lineCalc{lfs: make([]int, m)}: the size goes to the slice field(s) of the struct
				if p.pending != 0 {
					st := derefType(o.Type()).Underlying().(*types.Struct)
					for i := 0; i < st.NumFields(); i++ {
						if _, isSlice := st.Field(i).Type().Underlying().(*types.Slice); isSlice {
							p.sized[st.Field(i).Name()] = p.pending
							if _, named := p.names[p.pending]; !named {
								p.names[p.pending] = "len(" + st.Field(i).Name() + ")"
							}
						}
					}
					p.pending = 0
				}
				return true
			}
			switch {
			case isTag(v, "sized"):
				uv := v.Data.(int)
				p.sized[f] = uv
				if _, named := p.names[uv]; !named {
					p.names[uv] = "len(" + f + ")"
				}
				nameRaws(uv, f)
				p.pending = 0
			case isTag(v, "unsized"):
				p.problem(v.Data.(string) + ": " + f + " is sized by something other than a varint read from the stream")
			case isTag(v, "uv"), isTag(v, "val"):
				// a scalar Prog field carried by the stream
				if _, named := p.names[v.Data.(int)]; !named {
					p.names[v.Data.(int)] = f
				}
			}
			return true
		case *ast.IndexExpr:
			xv := in.eval(st.clone(), l.X)
			if len(xv) != 1 || !(isTag(xv[0].v, "field") || isTag(xv[0].v, "sized")) {
				return false
			}
			f := ""
			if isTag(xv[0].v, "sized") {
				// a local slice sized by a varint of the stream: it stands for the Prog field it is (or will be) stored in
				f = fmt.Sprintf("sized#%d", xv[0].v.Data.(int))
			} else {
				f = xv[0].v.Data.(string)
			}
			if isTag(v, "uv") || isTag(v, "val") {
				if _, named := p.names[v.Data.(int)]; !named {
					p.names[v.Data.(int)] = "elem(" + f + ")"
				}
			}
			p.loopFld[len(p.loopFld)-1] = f
			return true
		}
		return false
	}
	h.Assume = func(in *Interp, st *State, cond ast.Expr, branch bool) bool {
		if load {
			return true
		}
		be, ok := stripParens(cond).(*ast.BinaryExpr)
		if !ok {
			return true
		}
		op := be.Op
		switch op {
		case token.LSS, token.LEQ, token.GTR, token.GEQ, token.EQL:
		default:
			return true
		}
		xv, yv := in.eval(st.clone(), be.X), in.eval(st.clone(), be.Y)
		if len(xv) != 1 || len(yv) != 1 {
			return true
		}
		xl, ok1 := xv[0].v.asLin()
		yl, ok2 := yv[0].v.asLin()
		if !ok1 || !ok2 {
			return true
		}
		// X op Y  <=>  d op 0 with d = X - Y; solve for the one buffer length in it
		d := xl.sub(yl)
		var sym string
		for k := range d.T {
			if strings.HasPrefix(k, "buflen:") {
				if sym != "" {
					return true
				}
				sym = k
			}
		}
		if sym == "" {
			return true
		}
		coef := d.coef(sym)
		if coef != 1 && coef != -1 {
			return true
		}
		rest := d.without(sym) // coef*L + rest op 0
		if !branch {
			switch op {
			case token.LSS:
				op = token.GEQ
			case token.GEQ:
				op = token.LSS
			case token.GTR:
				op = token.LEQ
			case token.LEQ:
				op = token.GTR
			case token.EQL:
				return true
			}
		}
		// L op' bound
		bound := rest.scale(-1) // coef = 1:  L op -rest
		if coef == -1 {
			bound = rest // -L + rest op 0  <=>  L (flipped op) rest
			switch op {
			case token.LSS:
				op = token.GTR
			case token.GTR:
				op = token.LSS
			case token.LEQ:
				op = token.GEQ
			case token.GEQ:
				op = token.LEQ
			}
		}
		switch op {
		case token.GEQ, token.EQL:
		case token.GTR:
			bound = bound.add(linConst(1))
		default:
			return true
		}
		// len(x) >= bound holds from here on
		add := func(cur Value) Value {
			var lows []*Lin
			if cur.K == vTag && cur.Tag == "buf" {
				lows = append(lows, cur.Data.([]*Lin)...)
			}
			return tagV("buf", append(lows, bound))
		}
		switch x := bufKeys[sym].(type) {
		case *ast.Ident:
			if obj := c.objOf(x); obj != nil {
				st.Env[obj] = add(st.Env[obj])
			}
		case *ast.SelectorExpr:
			if fp := c.fieldPath(x); fp != "" {
				p := serPayOf(st)
				p.fields[fp] = add(p.fields[fp])
			}
		}
		return true
	}
	h.Decision = func(in *Interp, st *State, cond ast.Expr, v Value, branch bool) {
		p := serPayOf(st)
		d := serDecision{Pos: cond.Pos(), Cond: types.ExprString(cond), Taken: branch, NEv: p.next}
		if v.K == vTag && v.Tag == "typeok" {
			tt := v.Data.(typeTest)
			if tt.Type == "string" {
				if branch {
					p.typeFacts[tt.Val] = "string"
				} else {
					p.typeFacts[tt.Val] = "!string"
				}
			}
		}
		if be, ok := stripParens(cond).(*ast.BinaryExpr); ok && load {
			// header bytes against a format constant
			constName := func(e ast.Expr) string {
				if id, ok := c.stripConv(e).(*ast.Ident); ok {
					if k, ok := c.objOf(id).(*types.Const); ok && k.Pkg() != nil && k.Pkg().Path() == bclPath {
						return k.Name()
					}
				}
				return ""
			}
			hdrOf := func(e ast.Expr) string {
				vs := in.eval(st.clone(), e)
				if len(vs) == 1 && vs[0].v.K == vTag && vs[0].v.Tag == "hdrbytes" {
					return vs[0].v.Data.(string)
				}
				return ""
			}
			op := be.Op
			k, hb := constName(be.Y), hdrOf(be.X)
			if k == "" || hb == "" {
				k, hb = constName(be.X), hdrOf(be.Y)
				switch op { // the header bytes go on the left
				case token.LSS:
					op = token.GTR
				case token.GTR:
					op = token.LSS
				case token.LEQ:
					op = token.GEQ
				case token.GEQ:
					op = token.LEQ
				}
			}
			if k != "" && hb != "" {
				if !branch {
					switch op {
					case token.EQL:
						op = token.NEQ
					case token.NEQ:
						op = token.EQL
					case token.LSS:
						op = token.GEQ
					case token.GEQ:
						op = token.LSS
					case token.GTR:
						op = token.LEQ
					case token.LEQ:
						op = token.GTR
					}
				}
				d.Header = fmt.Sprintf("%s %s %s", hb, op, k)
			}
		}
		p.decisions = append(p.decisions, d)
	}
	h.Loop = func(in *Interp, st *State, loop ast.Stmt, body func(*State) []*State) ([]*State, bool) {
		isTag := func(v Value, t string) bool { return v.K == vTag && v.Tag == t }
		var rangeField string
		boundUV := 0
		sts := []*State{st}
		switch s := loop.(type) {
		case *ast.RangeStmt:
			xv := in.eval(st, s.X)
			if len(xv) != 1 {
				return nil, false
			}
			st = xv[0].st
			switch {
			case isTag(xv[0].v, "field"):
				rangeField = xv[0].v.Data.(string)
			case isTag(xv[0].v, "len"):
				rangeField = xv[0].v.Data.(string)
			case isTag(xv[0].v, "uv"):
				boundUV = xv[0].v.Data.(int)
			case isTag(xv[0].v, "sized"):
				boundUV = xv[0].v.Data.(int)
			default:
				return nil, false
			}
			if s.Key != nil {
				in.store(st, s.Key, token.ASSIGN, unknownV())
			}
			if s.Value != nil {
				if rangeField != "" {
					in.store(st, s.Value, token.ASSIGN, tagV("elem", rangeField))
				} else {
					in.store(st, s.Value, token.ASSIGN, unknownV())
				}
			}
			sts = []*State{st}
		case *ast.ForStmt:
			if s.Cond == nil {
				return nil, false
			}
			if s.Init != nil {
				sts = in.exec(st, s.Init)
			}
			if len(sts) != 1 {
				return nil, false
			}
			st = sts[0]
			in.havoc(st, s.Body)
			if s.Post != nil {
				in.havoc(st, s.Post)
			}
			for _, cj := range conjunctsOf(s.Cond) {
				be, ok := stripParens(cj).(*ast.BinaryExpr)
				if !ok {
					continue
				}
				var bound ast.Expr
				switch be.Op {
				case token.LSS, token.NEQ:
					bound = be.Y
				case token.GTR:
					bound = be.X
				default:
					continue
				}
				bv := in.eval(st.clone(), bound)
				if len(bv) != 1 {
					continue
				}
				switch {
				case isTag(bv[0].v, "len"):
					rangeField = bv[0].v.Data.(string)
				case isTag(bv[0].v, "uv"):
					boundUV = bv[0].v.Data.(int)
				}
			}
			if rangeField == "" && boundUV == 0 {
				return nil, false
			}
		default:
			return nil, false
		}
		// Dump: what is known about a scratch buffer at the head of the loop must hold again at its end; the
		// invariant tried is "holds a scalar" (type code + 9 bytes)
		var bufVars []types.Object
		var bufFields []string
		if !load {
			inv := []*Lin{linConst(serScalarNeed)}
			for obj, v := range st.Env {
				if v.K == vTag && v.Tag == "buf" && bufHolds(v.Data.([]*Lin), inv[0]) {
					st.Env[obj] = tagV("buf", inv)
					bufVars = append(bufVars, obj)
				}
			}
			pf := serPayOf(st).fields
			for k, v := range pf {
				if v.K == vTag && v.Tag == "buf" && bufHolds(v.Data.([]*Lin), inv[0]) {
					pf[k] = tagV("buf", inv)
					bufFields = append(bufFields, k)
				}
			}
		}
		serPayOf(st).push()
		var out []*State
		var cont []*State
		for _, r := range body(st) {
			switch {
			case r.Term == tReturn, r.Term == tGoto, (r.Term == tBreak || r.Term == tContinue) && r.Label != "":
				out = append(out, r) // leaves the loop for good (error paths)
			default:
				r.Term = tNone
				cont = append(cont, r)
			}
		}
		seen := map[string]bool{}
		for _, r := range cont {
			p := serPayOf(r)
			for _, obj := range bufVars {
				if v := r.Env[obj]; !(v.K == vTag && v.Tag == "buf" && bufHolds(v.Data.([]*Lin), linConst(serScalarNeed))) {
					p.bufIssues = append(p.bufIssues, fmt.Sprintf("scalar: %s: after an iteration the scratch buffer %s is no longer known to hold %d bytes", c.pos(loop.Pos()), obj.Name(), serScalarNeed))
				}
			}
			for _, k := range bufFields {
				if v := p.fields[k]; !(v.K == vTag && v.Tag == "buf" && bufHolds(v.Data.([]*Lin), linConst(serScalarNeed))) {
					p.bufIssues = append(p.bufIssues, fmt.Sprintf("scalar: %s: after an iteration the scratch buffer %s is no longer known to hold %d bytes", c.pos(loop.Pos()), k, serScalarNeed))
				}
			}
			field := p.loopFld[len(p.loopFld)-1]
			if field == "" {
				field = rangeField
			}
			if load {
				switch {
				case field == "":
					p.problem(c.pos(loop.Pos()) + ": a section loop does not decode into a Prog field")
				case rangeField != "" && rangeField != field:
					p.problem(c.pos(loop.Pos()) + ": section " + field + " is decoded in a loop over " + rangeField)
				case rangeField != "":
					if _, ok := p.sized[rangeField]; !ok {
						p.problem(c.pos(loop.Pos()) + ": a section loop ranges over " + rangeField + ", which was not sized by a count read from the stream")
					}
				case boundUV != 0 && strings.HasPrefix(field, "sized#"):
					if field != fmt.Sprintf("sized#%d", boundUV) {
						p.problem(c.pos(loop.Pos()) + ": a section is decoded in a loop bounded by a different count than the one that sized it")
					}
				case boundUV != 0:
					if uv, ok := p.sized[field]; !ok || uv != boundUV {
						p.problem(c.pos(loop.Pos()) + ": section " + field + " is decoded in a loop bounded by a different count than the one that sized it")
					}
				}
			} else if rangeField == "" {
				p.problem(c.pos(loop.Pos()) + ": loop over something that is not a Prog field")
			}
			p.pop(field, loop.Pos())
			k := seqString(p.resolved()) + "|" + strings.Join(p.problems, ";") + "|" + strings.Join(p.bufIssues, ";")
			if seen[k] {
				continue
			}
			seen[k] = true
			out = append(out, r)
		}
		return out, true
	}
	return h
}

func derefType(t types.Type) types.Type {
	if p, ok := t.Underlying().(*types.Pointer); ok {
		return p.Elem()
	}
	return t
}

func conjunctsOf(e ast.Expr) []ast.Expr {
	e = stripParens(e)
	if be, ok := e.(*ast.BinaryExpr); ok && be.Op == token.LAND {
		return append(conjunctsOf(be.X), conjunctsOf(be.Y)...)
	}
	return []ast.Expr{e}
}

// sliceLen gives the constant length of b[:k] / arr[:] as a string ("?" when it is not constant).
func (c *Ctx) sliceLen(e ast.Expr) string {
	e = stripParens(e)
	if se, ok := e.(*ast.SliceExpr); ok {
		lo := int64(0)
		if se.Low != nil {
			k, ok := c.intConst(se.Low)
			if !ok {
				return "?"
			}
			lo = k
		}
		if se.High != nil {
			if k, ok := c.intConst(se.High); ok {
				return strconv.FormatInt(k-lo, 10)
			}
			return "?"
		}
		if arr, ok := derefType(c.typeOf(se.X)).Underlying().(*types.Array); ok {
			return strconv.FormatInt(arr.Len()-lo, 10)
		}
	}
	return "?"
}

type serModel struct {
	Events   []serEvent
	Problems []string
	Good     []serPath // paths on which the function succeeds (Load returns nil; Dump always)
	Bad      []serPath // paths on which Load returns an error although every read succeeded
}

// serPath is one interpreted path.
type serPath struct {
	Result             string // nil, err (an error constructed or passed on), eof, unknown, flush
	Events             []serEvent
	Decisions          []serDecision
	Problems           []string
	FailedAt           string
	FailedSite         token.Pos
	Reads              int
	BufIssues          []string
	EncSites, StrSites int
}

// serRun interprets fd under the mode and gives every path with its result.
func (c *Ctx) serRun(fd *ast.FuncDecl, mode serMode) (paths []serPath, undecided []string) {
	in := newInterp(c, c.serHooks(mode))
	st := &State{Env: map[types.Object]Value{}, P: newSerPay()}
	var args []Value
	if fd.Type.Params != nil {
		for _, f := range fd.Type.Params.List {
			for range f.Names {
				args = append(args, unknownV())
			}
		}
	}
	recv := unknownV()
	res := in.inlineBody(st, fd.Type, fd.Body, fd.Recv, args, recvOpt{&recv})
	for _, vs := range res {
		p := serPayOf(vs.st)
		v := vs.v
		if v.K == vTuple && len(v.Tup) > 0 {
			v = v.Tup[len(v.Tup)-1]
		}
		kind := "unknown"
		if v.K == vTag {
			switch v.Tag {
			case "nil":
				kind = "nil"
			case "err", "rerr":
				kind = "err"
			case "eof":
				kind = "eof"
			case "flusherr":
				kind = "flush"
			}
		}
		if len(p.frames) != 1 {
			p.problem(c.pos(fd.Pos()) + ": the function returns from inside a section loop")
			for len(p.frames) > 1 {
				p.pop("?", fd.Pos())
			}
		}
		paths = append(paths, serPath{Result: kind, Events: p.resolved(), Decisions: p.decisions, Problems: p.problems, FailedAt: p.failedAt, FailedSite: p.failedSite, Reads: p.reads, BufIssues: p.bufIssues, EncSites: p.encSites, StrSites: p.strSites})
	}
	return paths, in.Undecided
}

// serModelOf interprets Prog.Dump (load=false) or Prog.Load (load=true) with every read succeeding.
func (c *Ctx) serModelOf(fd *ast.FuncDecl, load bool) *serModel {
	key := fmt.Sprintf("ser:%v:%p", load, fd)
	if c.memoTab == nil {
		c.memoTab = map[string]any{}
	}
	if m, ok := c.memoTab[key]; ok {
		return m.(*serModel)
	}
	m := &serModel{}
	c.memoTab[key] = m
	paths, und := c.serRun(fd, serMode{load: load})
	m.Problems = append(m.Problems, und...)
	for _, p := range paths {
		switch {
		case !load:
			if p.Result != "flush" {
				p.Problems = append(p.Problems, c.pos(fd.Pos())+": Dump returns something other than the buffered writer's Flush()")
			}
			m.Good = append(m.Good, p)
		case p.Result == "nil":
			m.Good = append(m.Good, p)
		case p.Result == "unknown":
			m.Problems = append(m.Problems, c.pos(fd.Pos())+": a path of Load returns a value the model cannot classify as nil or an error")
		default:
			m.Bad = append(m.Bad, p)
		}
	}
	if len(m.Good) == 0 {
		m.Problems = append(m.Problems, c.pos(fd.Pos())+": no successful path found")
		return m
	}
	sort.SliceStable(m.Good, func(i, j int) bool { return seqString(m.Good[i].Events) < seqString(m.Good[j].Events) })
	m.Events = m.Good[0].Events
	first := seqString(m.Events)
	for _, g := range m.Good {
		if s := seqString(g.Events); s != first {
			m.Problems = append(m.Problems, fmt.Sprintf("%s: the layout depends on the data: [%s] on one path, [%s] on another", c.pos(fd.Pos()), first, s))
			break
		}
	}
	seenP := map[string]bool{}
	for _, g := range m.Good {
		for _, p := range g.Problems {
			if !seenP[p] {
				seenP[p] = true
				m.Problems = append(m.Problems, p)
			}
		}
	}
	return m
}

// rejecting gives the decision on which a failing path leaves the successful ones: the first decision of the path
// that no successful path takes the same way.
func (m *serModel) rejecting(p serPath) *serDecision {
	good := map[string]bool{}
	for _, g := range m.Good {
		for _, d := range g.Decisions {
			good[d.key()] = true
		}
	}
	for i := range p.Decisions {
		if !good[p.Decisions[i].key()] {
			return &p.Decisions[i]
		}
	}
	return nil
}

// serFailure is the outcome of making the read at one call site fail.
type serFailure struct {
	Site  token.Pos
	At    string
	Nil   []string // descriptions of paths that still return nil (the failure is tolerated)
	Other []string // paths with a result the model cannot classify
	Paths int
}

// readFailures makes each read primitive met on the paths of fd fail in turn (the k-th read of every path, for
// every k) and groups the outcomes by the call site of the failed read.
func (c *Ctx) readFailures(fd *ast.FuncDecl) (out []serFailure, undecided []string) {
	key := fmt.Sprintf("serfail:%p", fd)
	if c.memoTab == nil {
		c.memoTab = map[string]any{}
	}
	if m, ok := c.memoTab[key]; ok {
		return m.([]serFailure), nil
	}
	base, und := c.serRun(fd, serMode{load: true})
	undecided = append(undecided, und...)
	maxReads := 0
	for _, p := range base {
		if p.Reads > maxReads {
			maxReads = p.Reads
		}
	}
	bySite := map[token.Pos]*serFailure{}
	for k := 1; k <= maxReads; k++ {
		paths, und := c.serRun(fd, serMode{load: true, failAt: k})
		undecided = append(undecided, und...)
		for _, p := range paths {
			if p.FailedSite == token.NoPos {
				continue // the path ended before its k-th read
			}
			f := bySite[p.FailedSite]
			if f == nil {
				f = &serFailure{Site: p.FailedSite, At: p.FailedAt}
				bySite[p.FailedSite] = f
			}
			f.Paths++
			desc := func() string {
				var ds []string
				for _, d := range p.Decisions {
					pol := ""
					if !d.Taken {
						pol = "!"
					}
					ds = append(ds, pol+"("+d.Cond+")")
				}
				if len(ds) > 4 {
					ds = ds[len(ds)-4:]
				}
				return strings.Join(ds, " ")
			}
			switch p.Result {
			case "nil":
				f.Nil = append(f.Nil, desc())
			case "unknown":
				f.Other = append(f.Other, desc())
			}
		}
	}
	var sites []token.Pos
	for s := range bySite {
		sites = append(sites, s)
	}
	sort.Slice(sites, func(i, j int) bool { return sites[i] < sites[j] })
	for _, s := range sites {
		out = append(out, *bySite[s])
	}
	c.memoTab[key] = out
	return out, undecided
}

// serRoleOf names the codec primitive a module function is — by its name when it has the original one, otherwise by
// its signature: uvarintToBytes func([]byte, uint64) int; valueToBytes func([]byte, value) int; uvarintFromBuf
// (…) (uint64, error) reading from a reader; valueFromBuf (…) (value, error), the outermost of those with that
// result shape.
func (c *Ctx) serRoleOf(fn *types.Func) string {
	if fn == nil || fn.Pkg() == nil || fn.Pkg().Path() != bclPath {
		return ""
	}
	if serPrimitives[funcName(fn)] {
		return funcName(fn)
	}
	if c.memoTab == nil {
		c.memoTab = map[string]any{}
	}
	roles, ok := c.memoTab["serRoles"].(map[*types.Func]string)
	if !ok {
		roles = map[*types.Func]string{}
		c.memoTab["serRoles"] = roles
		taken := map[string]bool{}
		for _, it := range c.sortedDecls() {
			if f, ok := it.obj.(*types.Func); ok && serPrimitives[funcName(f)] {
				taken[funcName(f)] = true
			}
		}
		isValueT := func(t types.Type) bool { return isNamed(t, bclPath, "value") }
		isBytes := func(t types.Type) bool { return types.TypeString(t, nil) == "[]byte" }
		isU64 := func(t types.Type) bool { return types.TypeString(t, nil) == "uint64" }
		readerish := func(sig *types.Signature) bool {
			check := func(t types.Type) bool {
				s := types.TypeString(t, nil)
				if strings.Contains(s, "bufio.Reader") || s == "io.Reader" {
					return true
				}
				if st, ok := derefType(t).Underlying().(*types.Struct); ok {
					for i := 0; i < st.NumFields(); i++ {
						if strings.Contains(types.TypeString(st.Field(i).Type(), nil), "bufio.Reader") {
							return true
						}
					}
				}
				return false
			}
			if sig.Recv() != nil && check(sig.Recv().Type()) {
				return true
			}
			for i := 0; i < sig.Params().Len(); i++ {
				if check(sig.Params().At(i).Type()) {
					return true
				}
			}
			return false
		}
		cand := map[string][]*types.Func{}
		for _, it := range c.sortedDecls() {
			f, ok := it.obj.(*types.Func)
			if !ok || f.Pkg() == nil || f.Pkg().Path() != bclPath || it.fd.Body == nil {
				continue
			}
			sig := f.Type().(*types.Signature)
			ps, rs := sig.Params(), sig.Results()
			switch {
			case ps.Len() == 2 && rs.Len() == 1 && isBytes(ps.At(0).Type()) && isU64(ps.At(1).Type()) && isInt(rs.At(0).Type()):
				cand["uvarintToBytes"] = append(cand["uvarintToBytes"], f)
			case ps.Len() == 2 && rs.Len() == 1 && isBytes(ps.At(0).Type()) && isValueT(ps.At(1).Type()) && isInt(rs.At(0).Type()):
				cand["valueToBytes"] = append(cand["valueToBytes"], f)
			case rs.Len() == 2 && isU64(rs.At(0).Type()) && isErrorType(rs.At(1).Type()) && readerish(sig):
				cand["uvarintFromBuf"] = append(cand["uvarintFromBuf"], f)
			case rs.Len() == 2 && isValueT(rs.At(0).Type()) && isErrorType(rs.At(1).Type()) && readerish(sig):
				cand["valueFromBuf"] = append(cand["valueFromBuf"], f)
			}
		}
		// the outermost of several same-shaped decoders: the one none of the others calls… is called by none of them
		callers, _ := c.callersByName()
		for role, fs := range cand {
			if taken[role] {
				continue
			}
			var roots []*types.Func
			for _, f := range fs {
				inner := false
				for _, g := range fs {
					if g != f && callers[funcName(f)][funcName(g)] {
						inner = true
					}
				}
				if !inner {
					roots = append(roots, f)
				}
			}
			if len(roots) == 1 {
				roles[roots[0]] = role
			}
		}
	}
	return roles[fn]
}

// serPrim finds the function playing the role of a codec primitive.
func (c *Ctx) serPrim(role string) (*types.Func, *ast.FuncDecl) {
	if obj, fd := c.find(role); fd != nil {
		return obj, fd
	}
	for _, it := range c.sortedDecls() {
		if f, ok := it.obj.(*types.Func); ok && c.serRoleOf(f) == role {
			return f, it.fd
		}
	}
	return nil, nil
}

// readFullWrapper: fn's body is the single statement `return io.ReadFull(<its reader>, p)` with p one of its
// parameters; the index of p, or -1.
func (c *Ctx) readFullWrapper(fn *types.Func) int {
	if fn == nil || fn.Pkg() == nil || fn.Pkg().Path() != bclPath {
		return -1
	}
	fd := c.funcDecls[fn]
	if fd == nil || fd.Body == nil || len(fd.Body.List) != 1 {
		return -1
	}
	rs, ok := fd.Body.List[0].(*ast.ReturnStmt)
	if !ok || len(rs.Results) != 1 {
		return -1
	}
	call, ok := stripParens(rs.Results[0]).(*ast.CallExpr)
	if !ok || len(call.Args) != 2 {
		return -1
	}
	if cal, ok := c.callee(call).(*types.Func); !ok || qname(cal) != "io.ReadFull" {
		return -1
	}
	k := 0
	if fd.Type.Params != nil {
		for _, f := range fd.Type.Params.List {
			for _, nm := range f.Names {
				if c.isObj(call.Args[1], c.objOf(nm)) {
					return k
				}
				k++
			}
		}
	}
	return -1
}
