package main

// E-SER model: Prog.Dump and Prog.Load are interpreted abstractly (helpers, methods and closures of the module
// are interpreted in place) and the ordered write / read events of the file format are collected.
//
// Dump: every write to the destination is an event. What is written is described by the abstract value of the
// argument: the bytes an encoder put into a scratch buffer (uvarintToBytes / valueToBytes, named by what they
// were given: len(field), elem(field)), the bytes of a Prog field, or the header constants.
//
// Load: the reads of the *successful* path are collected: every error-typed value is taken to be nil and every
// byte count returned by a read to be the full count (the rules on short reads and error handling are separate
// rules). uvarintFromBuf / valueFromBuf are the decoding primitives; a decoded value is named by where it ends up:
// the size given to make() for a Prog field, the element stored into a Prog field, the count of raw bytes that
// become a Prog field.

import (
	"fmt"
	"go/ast"
	"go/constant"
	"go/token"
	"go/types"
	"sort"
	"strconv"
	"strings"
)

type serPay struct {
	frames   [][]serEvent
	names    map[int]string // event id -> what it carries
	sized    map[string]int // Prog field -> id of the varint that sized it
	rawCount map[int]int    // RAW event id -> id of the varint that counted it
	loopFld  []string       // per frame: the Prog field whose elements were stored
	next     int
	pending  int // id of the varint used by the last make() that was not stored yet (0: none)
	problems []string
}

func newSerPay() *serPay {
	return &serPay{frames: [][]serEvent{nil}, names: map[int]string{}, sized: map[string]int{}, rawCount: map[int]int{}, loopFld: []string{""}}
}

func (p *serPay) Clone() Payload {
	q := &serPay{names: map[int]string{}, sized: map[string]int{}, rawCount: map[int]int{}, next: p.next, pending: p.pending}
	for _, f := range p.frames {
		q.frames = append(q.frames, append([]serEvent(nil), f...))
	}
	for k, v := range p.names {
		q.names[k] = v
	}
	for k, v := range p.sized {
		q.sized[k] = v
	}
	for k, v := range p.rawCount {
		q.rawCount[k] = v
	}
	q.loopFld = append([]string(nil), p.loopFld...)
	q.problems = append([]string(nil), p.problems...)
	return q
}

func (p *serPay) add(kind, what string, pos token.Pos) int {
	p.next++
	p.frames[len(p.frames)-1] = append(p.frames[len(p.frames)-1], serEvent{Kind: kind, What: what, Pos: pos, id: p.next})
	return p.next
}

func (p *serPay) push() {
	p.frames = append(p.frames, nil)
	p.loopFld = append(p.loopFld, "")
}

func (p *serPay) pop(field string, pos token.Pos) {
	inner := p.frames[len(p.frames)-1]
	p.frames = p.frames[:len(p.frames)-1]
	p.loopFld = p.loopFld[:len(p.loopFld)-1]
	p.next++
	p.frames[len(p.frames)-1] = append(p.frames[len(p.frames)-1], serEvent{Kind: "LOOP", What: field, Inner: inner, Pos: pos, id: p.next})
}

func (p *serPay) problem(s string) {
	for _, q := range p.problems {
		if q == s {
			return
		}
	}
	p.problems = append(p.problems, s)
}

// resolved gives the top-level events with the names found later filled in.
func (p *serPay) resolved() []serEvent {
	var fix func(ev []serEvent) []serEvent
	fix = func(ev []serEvent) []serEvent {
		var out []serEvent
		for _, e := range ev {
			if n, ok := p.names[e.id]; ok {
				e.What = n
			}
			e.Inner = fix(e.Inner)
			// consecutive header writes are one header
			if e.Kind == "HDR" && len(out) > 0 && out[len(out)-1].Kind == "HDR" && !isDigits(e.What) {
				out[len(out)-1].What += "," + e.What
				continue
			}
			out = append(out, e)
		}
		return out
	}
	return fix(p.frames[0])
}

func isDigits(s string) bool {
	_, err := strconv.Atoi(s)
	return err == nil
}

func serPayOf(st *State) *serPay { return st.P.(*serPay) }

var serPrimitives = map[string]bool{"uvarintFromBuf": true, "valueFromBuf": true, "uvarintToBytes": true, "valueToBytes": true}

// progFieldLoose is progField that also sees the line table through a *lineCalc variable.
func (c *Ctx) progFieldLoose(e ast.Expr) string {
	if f := c.progField(e); f != "" {
		return f
	}
	fp := c.fieldPath(e)
	if strings.HasPrefix(fp, "<lineCalc>.") && !strings.Contains(fp, "[]") {
		parts := strings.Split(fp, ".")
		return parts[len(parts)-1]
	}
	return ""
}

func isErrorType(t types.Type) bool {
	if t == nil {
		return false
	}
	n, ok := t.(*types.Named)
	return ok && n.Obj().Pkg() == nil && n.Obj().Name() == "error"
}

func (c *Ctx) serHooks(load bool) Hooks {
	var h Hooks
	describe := func(v Value) string {
		if v.K == vTag {
			switch v.Tag {
			case "len":
				return "len(" + v.Data.(string) + ")"
			case "elem":
				return "elem(" + v.Data.(string) + ")"
			}
		}
		return "?" + v.String()
	}
	h.Inline = func(fn *types.Func) bool {
		return fn.Pkg() != nil && fn.Pkg().Path() == bclPath && !serPrimitives[funcName(fn)]
	}
	h.SameEffect = func(a, b *State) bool {
		return seqString(serPayOf(a).resolved()) == seqString(serPayOf(b).resolved()) && len(serPayOf(a).frames) == len(serPayOf(b).frames) &&
			seqString(serPayOf(a).frames[len(serPayOf(a).frames)-1]) == seqString(serPayOf(b).frames[len(serPayOf(b).frames)-1])
	}
	h.Load = func(in *Interp, st *State, e ast.Expr) (Value, bool) {
		switch e := e.(type) {
		case *ast.SelectorExpr:
			if o, ok := c.objOf(e).(*types.Var); ok && o.Pkg() != nil && o.Pkg().Path() == "io" && o.Name() == "EOF" {
				return tagV("ioEOF", nil), true
			}
			if o, ok := c.objOf(e).(*types.Var); ok && o.IsField() {
				if f := c.progFieldLoose(e); f != "" {
					if _, isStruct := derefType(o.Type()).Underlying().(*types.Struct); isStruct {
						return Value{}, false // prog.linePos: the fields below it are what is serialised
					}
					return tagV("field", f), true
				}
			}
		case *ast.SliceExpr:
			if e.High != nil && !load {
				hv := in.eval(st, e.High)
				if len(hv) == 1 && hv[0].v.K == vTag && hv[0].v.Tag == "encn" {
					if e.Low != nil {
						if k, ok := c.intConst(e.Low); !ok || k != 0 {
							serPayOf(st).problem(c.pos(e.Pos()) + ": the encoded bytes are written from an offset other than 0")
						}
					}
					return tagV("encbuf", hv[0].v.Data), true
				}
			}
			// slicing a Prog field keeps denoting the field's bytes when it is the whole of it
			if e.Low == nil && e.High == nil {
				xv := in.eval(st, e.X)
				if len(xv) == 1 && xv[0].v.K == vTag && (xv[0].v.Tag == "field" || xv[0].v.Tag == "sized") {
					return xv[0].v, true
				}
			}
		}
		return Value{}, false
	}
	h.Index = func(in *Interp, st *State, e *ast.IndexExpr, x, idx Value) (Value, bool) {
		if x.K == vTag && x.Tag == "field" {
			return tagV("elem", x.Data), true
		}
		return Value{}, false
	}
	h.BinOp = func(l Value, op token.Token, r Value) (Value, bool) {
		isCmp := op == token.EQL || op == token.NEQ || op == token.LSS || op == token.LEQ || op == token.GTR || op == token.GEQ
		if !isCmp {
			return Value{}, false
		}
		b := func(x bool) (Value, bool) { return constV(constant.MakeBool(x)), true }
		tag := func(v Value, t string) bool { return v.K == vTag && v.Tag == t }
		// a read returned the full count
		if tag(l, "readn") || tag(r, "readn") {
			if tag(r, "readn") {
				switch op {
				case token.LSS:
					op = token.GTR
				case token.GTR:
					op = token.LSS
				case token.LEQ:
					op = token.GEQ
				case token.GEQ:
					op = token.LEQ
				}
			}
			return b(op == token.EQL || op == token.GEQ || op == token.LEQ)
		}
		if op != token.EQL && op != token.NEQ {
			return Value{}, false
		}
		eq := func(same bool) (Value, bool) { return b(same == (op == token.EQL)) }
		nilLike := func(v Value) bool {
			return tag(v, "nil") || (v.K == vUnknown && isErrorType(v.T))
		}
		switch {
		case tag(l, "eof") && tag(r, "ioEOF"), tag(r, "eof") && tag(l, "ioEOF"):
			return eq(true)
		case tag(l, "eof") && tag(r, "nil"), tag(r, "eof") && tag(l, "nil"):
			return eq(false)
		case tag(l, "err") && tag(r, "nil"), tag(r, "err") && tag(l, "nil"):
			return eq(false)
		case tag(l, "nil") && nilLike(r), tag(r, "nil") && nilLike(l):
			return eq(true)
		case nilLike(l) && tag(r, "ioEOF"), nilLike(r) && tag(l, "ioEOF"):
			return eq(false)
		}
		return Value{}, false
	}
	h.Decide = func(in *Interp, st *State, cond ast.Expr) tri {
		// an error-typed expression compared with nil: the successful path
		be, ok := stripParens(cond).(*ast.BinaryExpr)
		if !ok || (be.Op != token.EQL && be.Op != token.NEQ) {
			return triUnknown
		}
		var other ast.Expr
		switch {
		case isNilIdent(be.Y):
			other = be.X
		case isNilIdent(be.X):
			other = be.Y
		default:
			return triUnknown
		}
		if !isErrorType(c.typeOf(other)) {
			return triUnknown
		}
		vs := in.eval(st.clone(), other)
		if len(vs) == 1 && vs[0].v.K == vTag && (vs[0].v.Tag == "err" || vs[0].v.Tag == "eof") {
			if be.Op == token.NEQ {
				return triTrue
			}
			return triFalse
		}
		if be.Op == token.EQL {
			return triTrue
		}
		return triFalse
	}
	nilErr := tagV("nil", nil)
	h.Call = func(in *Interp, st *State, call *ast.CallExpr, callee types.Object, args []Value) ([]valState, bool) {
		p := serPayOf(st)
		name := ""
		if callee != nil {
			name = qname(callee)
		}
		arg := func(i int) Value {
			if i < len(args) {
				return args[i]
			}
			return unknownV()
		}
		isTag := func(v Value, t string) bool { return v.K == vTag && v.Tag == t }
		switch name {
		case "len":
			a := arg(0)
			switch {
			case isTag(a, "field"):
				return one(st, tagV("len", a.Data)), true
			case isTag(a, "sized"):
				return one(st, tagV("uv", a.Data)), true
			}
			return one(st, unknownV()), true
		case "make":
			if len(args) >= 2 && isTag(args[1], "uv") {
				p.pending = args[1].Data.(int)
				return one(st, tagV("sized", args[1].Data)), true
			}
			if load && len(args) >= 2 {
				if isTag(args[1], "len") {
					return one(st, unknownV()), true
				}
				if _, isConst := c.intConst(call.Args[1]); !isConst {
					// remembered: a Prog field made with a size that is not a varint read from the stream
					return one(st, tagV("unsized", c.pos(call.Pos()))), true
				}
			}
			return one(st, unknownV()), true
		case "append":
			if !load && len(args) >= 1 {
				var parts []string
				for _, x := range call.Args {
					x = c.stripConv(x)
					if id, ok := x.(*ast.Ident); ok {
						if _, isConst := c.objOf(id).(*types.Const); isConst {
							parts = append(parts, id.Name)
							continue
						}
					}
					parts = nil
					break
				}
				if len(parts) == len(call.Args) && len(parts) > 0 {
					return one(st, tagV("hdr", strings.Join(parts, ","))), true
				}
			}
			return one(st, unknownV()), true
		case "uvarintToBytes", "valueToBytes":
			kind := "U"
			if name == "valueToBytes" {
				kind = "VALUE"
			}
			return one(st, tagV("encn", serEvent{Kind: kind, What: describe(arg(1)), Pos: call.Pos()})), true
		case "uvarintFromBuf":
			id := p.add("U", "?", call.Pos())
			return one(st, Value{K: vTuple, Tup: []Value{tagV("uv", id), nilErr}}), true
		case "valueFromBuf":
			id := p.add("VALUE", "?", call.Pos())
			return one(st, Value{K: vTuple, Tup: []Value{tagV("val", id), nilErr}}), true
		case "bufio.NewReaderSize", "bufio.NewReader":
			return one(st, tagV("reader", nil)), true
		case "bufio.NewWriterSize", "bufio.NewWriter":
			return one(st, tagV("writer", nil)), true
		case "io.ReadFull", "io.ReadAtLeast":
			buf := arg(1)
			switch {
			case isTag(buf, "field"):
				f := buf.Data.(string)
				id := p.add("RAW", f, call.Pos())
				if uv, ok := p.sized[f]; ok {
					p.rawCount[id] = uv
				} else {
					p.problem(c.pos(call.Pos()) + ": " + f + " is read without having been sized from the stream")
				}
			case isTag(buf, "sized"):
				id := p.add("RAW", "?", call.Pos())
				p.rawCount[id] = buf.Data.(int)
			case isTag(buf, "unsized"):
				p.add("RAW", "?unsized", call.Pos())
				p.problem(c.pos(call.Pos()) + ": bytes are read into a buffer whose size is not the varint read from the stream")
			default:
				p.add("HDR", c.sliceLen(call.Args[1]), call.Pos())
			}
			return one(st, Value{K: vTuple, Tup: []Value{tagV("readn", nil), nilErr}}), true
		}
		fn, _ := callee.(*types.Func)
		if fn != nil && (fn.Pkg() == nil || fn.Pkg().Path() != bclPath) {
			sig := fn.Type().(*types.Signature)
			if sig.Recv() != nil {
				switch fn.Name() {
				case "Write", "WriteString", "WriteByte":
					if !load {
						a := arg(0)
						switch {
						case isTag(a, "encbuf"):
							ev := a.Data.(serEvent)
							p.add(ev.Kind, ev.What, call.Pos())
						case isTag(a, "field"):
							p.add("RAW", a.Data.(string), call.Pos())
						case isTag(a, "hdr"):
							p.add("HDR", a.Data.(string), call.Pos())
						case a.K == vConst:
							what := "?"
							if id, ok := c.stripConv(call.Args[0]).(*ast.Ident); ok {
								what = id.Name
							}
							p.add("HDR", what, call.Pos())
						default:
							p.add("?", a.String(), call.Pos())
							p.problem(c.pos(call.Pos()) + ": write of an unrecognised value")
						}
						if fn.Name() == "WriteByte" {
							return one(st, nilErr), true
						}
						return one(st, Value{K: vTuple, Tup: []Value{tagV("readn", nil), nilErr}}), true
					}
				case "Flush":
					if !load {
						p.add("FLUSH", "", call.Pos())
						return one(st, tagV("flusherr", nil)), true
					}
				case "Read", "ReadByte":
					if load {
						p.add("TRAIL", "", call.Pos())
						if fn.Name() == "ReadByte" {
							return one(st, Value{K: vTuple, Tup: []Value{unknownV(), tagV("eof", nil)}}), true
						}
						return one(st, Value{K: vTuple, Tup: []Value{tagV("readn0", nil), tagV("eof", nil)}}), true
					}
				}
			}
			// constructors of errors
			if res := sig.Results(); res.Len() == 1 && isErrorType(res.At(0).Type()) {
				return one(st, tagV("err", nil)), true
			}
		}
		return nil, false
	}
	h.Store = func(in *Interp, st *State, lhs ast.Expr, op token.Token, v Value) bool {
		if !load {
			return false
		}
		p := serPayOf(st)
		isTag := func(v Value, t string) bool { return v.K == vTag && v.Tag == t }
		nameRaws := func(uv int, f string) {
			var walk func(ev []serEvent)
			walk = func(ev []serEvent) {
				for _, e := range ev {
					if e.Kind == "RAW" && p.rawCount[e.id] == uv {
						if _, named := p.names[e.id]; !named && e.What == "?" {
							p.names[e.id] = f
						}
					}
					walk(e.Inner)
				}
			}
			for _, fr := range p.frames {
				walk(fr)
			}
		}
		switch l := lhs.(type) {
		case *ast.SelectorExpr:
			o, ok := c.objOf(l).(*types.Var)
			if !ok || !o.IsField() {
				return false
			}
			f := c.progFieldLoose(l)
			if f == "" {
				return false
			}
			if _, isStruct := derefType(o.Type()).Underlying().(*types.Struct); isStruct {
				// prog.linePos = &lineCalc{lfs: make([]int, m)}: the size goes to the slice field(s) of the struct
				if p.pending != 0 {
					st := derefType(o.Type()).Underlying().(*types.Struct)
					for i := 0; i < st.NumFields(); i++ {
						if _, isSlice := st.Field(i).Type().Underlying().(*types.Slice); isSlice {
							p.sized[st.Field(i).Name()] = p.pending
							if _, named := p.names[p.pending]; !named {
								p.names[p.pending] = "len(" + st.Field(i).Name() + ")"
							}
						}
					}
					p.pending = 0
				}
				return true
			}
			switch {
			case isTag(v, "sized"):
				uv := v.Data.(int)
				p.sized[f] = uv
				if _, named := p.names[uv]; !named {
					p.names[uv] = "len(" + f + ")"
				}
				nameRaws(uv, f)
				p.pending = 0
			case isTag(v, "unsized"):
				p.problem(v.Data.(string) + ": " + f + " is sized by something other than a varint read from the stream")
			case isTag(v, "uv"), isTag(v, "val"):
				// a scalar Prog field carried by the stream
				if _, named := p.names[v.Data.(int)]; !named {
					p.names[v.Data.(int)] = f
				}
			}
			return true
		case *ast.IndexExpr:
			xv := in.eval(st.clone(), l.X)
			if len(xv) != 1 || !isTag(xv[0].v, "field") {
				return false
			}
			f := xv[0].v.Data.(string)
			if isTag(v, "uv") || isTag(v, "val") {
				if _, named := p.names[v.Data.(int)]; !named {
					p.names[v.Data.(int)] = "elem(" + f + ")"
				}
			}
			p.loopFld[len(p.loopFld)-1] = f
			return true
		}
		return false
	}
	h.Loop = func(in *Interp, st *State, loop ast.Stmt, body func(*State) []*State) ([]*State, bool) {
		isTag := func(v Value, t string) bool { return v.K == vTag && v.Tag == t }
		var rangeField string
		boundUV := 0
		sts := []*State{st}
		switch s := loop.(type) {
		case *ast.RangeStmt:
			xv := in.eval(st, s.X)
			if len(xv) != 1 {
				return nil, false
			}
			st = xv[0].st
			switch {
			case isTag(xv[0].v, "field"):
				rangeField = xv[0].v.Data.(string)
			case isTag(xv[0].v, "len"):
				rangeField = xv[0].v.Data.(string)
			case isTag(xv[0].v, "uv"):
				boundUV = xv[0].v.Data.(int)
			case isTag(xv[0].v, "sized"):
				boundUV = xv[0].v.Data.(int)
			default:
				return nil, false
			}
			if s.Key != nil {
				in.store(st, s.Key, token.ASSIGN, unknownV())
			}
			if s.Value != nil {
				if rangeField != "" {
					in.store(st, s.Value, token.ASSIGN, tagV("elem", rangeField))
				} else {
					in.store(st, s.Value, token.ASSIGN, unknownV())
				}
			}
			sts = []*State{st}
		case *ast.ForStmt:
			if s.Cond == nil {
				return nil, false
			}
			if s.Init != nil {
				sts = in.exec(st, s.Init)
			}
			if len(sts) != 1 {
				return nil, false
			}
			st = sts[0]
			in.havoc(st, s.Body)
			if s.Post != nil {
				in.havoc(st, s.Post)
			}
			for _, cj := range conjunctsOf(s.Cond) {
				be, ok := stripParens(cj).(*ast.BinaryExpr)
				if !ok {
					continue
				}
				var bound ast.Expr
				switch be.Op {
				case token.LSS, token.NEQ:
					bound = be.Y
				case token.GTR:
					bound = be.X
				default:
					continue
				}
				bv := in.eval(st.clone(), bound)
				if len(bv) != 1 {
					continue
				}
				switch {
				case isTag(bv[0].v, "len"):
					rangeField = bv[0].v.Data.(string)
				case isTag(bv[0].v, "uv"):
					boundUV = bv[0].v.Data.(int)
				}
			}
			if rangeField == "" && boundUV == 0 {
				return nil, false
			}
		default:
			return nil, false
		}
		serPayOf(st).push()
		var out []*State
		var cont []*State
		for _, r := range body(st) {
			switch {
			case r.Term == tReturn, r.Term == tGoto, (r.Term == tBreak || r.Term == tContinue) && r.Label != "":
				out = append(out, r) // leaves the loop for good (error paths)
			default:
				r.Term = tNone
				cont = append(cont, r)
			}
		}
		seen := map[string]bool{}
		for _, r := range cont {
			p := serPayOf(r)
			field := p.loopFld[len(p.loopFld)-1]
			if field == "" {
				field = rangeField
			}
			if load {
				switch {
				case field == "":
					p.problem(c.pos(loop.Pos()) + ": a section loop does not decode into a Prog field")
				case rangeField != "" && rangeField != field:
					p.problem(c.pos(loop.Pos()) + ": section " + field + " is decoded in a loop over " + rangeField)
				case rangeField != "":
					if _, ok := p.sized[rangeField]; !ok {
						p.problem(c.pos(loop.Pos()) + ": a section loop ranges over " + rangeField + ", which was not sized by a count read from the stream")
					}
				case boundUV != 0:
					if uv, ok := p.sized[field]; !ok || uv != boundUV {
						p.problem(c.pos(loop.Pos()) + ": section " + field + " is decoded in a loop bounded by a different count than the one that sized it")
					}
				}
			} else if rangeField == "" {
				p.problem(c.pos(loop.Pos()) + ": loop over something that is not a Prog field")
			}
			p.pop(field, loop.Pos())
			k := seqString(p.resolved()) + "|" + strings.Join(p.problems, ";")
			if seen[k] {
				continue
			}
			seen[k] = true
			out = append(out, r)
		}
		return out, true
	}
	return h
}

func derefType(t types.Type) types.Type {
	if p, ok := t.Underlying().(*types.Pointer); ok {
		return p.Elem()
	}
	return t
}

func conjunctsOf(e ast.Expr) []ast.Expr {
	e = stripParens(e)
	if be, ok := e.(*ast.BinaryExpr); ok && be.Op == token.LAND {
		return append(conjunctsOf(be.X), conjunctsOf(be.Y)...)
	}
	return []ast.Expr{e}
}

// sliceLen gives the constant length of b[:k] / arr[:] as a string ("?" when it is not constant).
func (c *Ctx) sliceLen(e ast.Expr) string {
	e = stripParens(e)
	if se, ok := e.(*ast.SliceExpr); ok {
		lo := int64(0)
		if se.Low != nil {
			k, ok := c.intConst(se.Low)
			if !ok {
				return "?"
			}
			lo = k
		}
		if se.High != nil {
			if k, ok := c.intConst(se.High); ok {
				return strconv.FormatInt(k-lo, 10)
			}
			return "?"
		}
		if arr, ok := derefType(c.typeOf(se.X)).Underlying().(*types.Array); ok {
			return strconv.FormatInt(arr.Len()-lo, 10)
		}
	}
	return "?"
}

type serModel struct {
	Events   []serEvent
	Problems []string
}

// serModelOf interprets Prog.Dump (load=false) or Prog.Load (load=true).
func (c *Ctx) serModelOf(fd *ast.FuncDecl, load bool) *serModel {
	key := fmt.Sprintf("ser:%v:%p", load, fd)
	if c.memoTab == nil {
		c.memoTab = map[string]any{}
	}
	if m, ok := c.memoTab[key]; ok {
		return m.(*serModel)
	}
	m := &serModel{}
	c.memoTab[key] = m
	in := newInterp(c, c.serHooks(load))
	st := &State{Env: map[types.Object]Value{}, P: newSerPay()}
	var args []Value
	if fd.Type.Params != nil {
		for _, f := range fd.Type.Params.List {
			for range f.Names {
				args = append(args, unknownV())
			}
		}
	}
	recv := unknownV()
	res := in.inlineBody(st, fd.Type, fd.Body, fd.Recv, args, recvOpt{&recv})
	for _, u := range in.Undecided {
		m.Problems = append(m.Problems, u)
	}
	type outcome struct {
		seq   string
		ev    []serEvent
		probs []string
	}
	var good []outcome
	nFail := 0
	for _, vs := range res {
		p := serPayOf(vs.st)
		v := vs.v
		ok := false
		switch {
		case load:
			ok = v.K == vTag && v.Tag == "nil"
			if v.K == vUnknown {
				// an error value the model could not follow: it is the successful path under the model's assumption
				ok = true
			}
		default:
			ok = true
			if !(v.K == vTag && v.Tag == "flusherr") {
				p.problem(c.pos(fd.Pos()) + ": Dump returns something other than the buffered writer's Flush()")
			}
		}
		if !ok {
			nFail++
			continue
		}
		if len(p.frames) != 1 {
			p.problem(c.pos(fd.Pos()) + ": the function returns from inside a section loop on the successful path")
		}
		ev := p.resolved()
		good = append(good, outcome{seqString(ev), ev, p.problems})
	}
	if len(good) == 0 {
		m.Problems = append(m.Problems, c.pos(fd.Pos())+": no successful path found")
		return m
	}
	sort.SliceStable(good, func(i, j int) bool { return good[i].seq < good[j].seq })
	m.Events = good[0].ev
	seenP := map[string]bool{}
	for _, g := range good {
		if g.seq != good[0].seq {
			m.Problems = append(m.Problems, fmt.Sprintf("%s: the layout depends on the data: [%s] on one path, [%s] on another", c.pos(fd.Pos()), good[0].seq, g.seq))
			break
		}
	}
	for _, g := range good {
		for _, p := range g.probs {
			if !seenP[p] {
				seenP[p] = true
				m.Problems = append(m.Problems, p)
			}
		}
	}
	return m
}
