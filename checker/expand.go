package main

// Statement-level expansion of calls to the methods of scopeCompiler.
//
// The scope rules read the bodies of the parser's scope helpers (beginScope, endScope, declVar, addLocal,
// markInitialized). When the bookkeeping was moved into methods of scopeCompiler that return what the parser then
// turns into diagnostics and POPs (`p.popN(p.scope.leave())`, `if !p.scope.add(name) { … }`,
// `for n := p.scope.clashes(name); n > 0; n-- { p.error(…) }`), the rules look at the helper with those calls
// expanded: the callee's own statements (its real syntax nodes, so every type fact stays available) are spliced in
// front of the statement that used the call, and the call is replaced by what the callee returns. Only the forms
// below are expanded; anything else is left as it is (and the rule then reports the shape as before).

import (
	"go/ast"
	"go/token"
	"go/types"
)

func (c *Ctx) isScopeMethodCall(e ast.Expr) (*ast.CallExpr, *ast.FuncDecl) {
	call, ok := stripParens(e).(*ast.CallExpr)
	if !ok {
		return nil, nil
	}
	fn, ok := c.callee(call).(*types.Func)
	if !ok || fn.Pkg() == nil || fn.Pkg().Path() != bclPath {
		return nil, nil
	}
	sig := fn.Type().(*types.Signature)
	if sig.Recv() == nil || !isNamed(derefType(sig.Recv().Type()), bclPath, "scopeCompiler") {
		return nil, nil
	}
	fd := c.funcDecls[fn]
	if fd == nil || fd.Body == nil {
		return nil, nil
	}
	return call, fd
}

// calleeParts splits a callee body into its statements before the final return and the expression it returns
// (nil for no result). ok=false when the body has another return somewhere.
func (c *Ctx) calleeParts(fd *ast.FuncDecl) (stmts []ast.Stmt, ret ast.Expr, ok bool) {
	list := fd.Body.List
	var namedRes ast.Expr
	if fd.Type.Results != nil && len(fd.Type.Results.List) == 1 && len(fd.Type.Results.List[0].Names) == 1 {
		namedRes = fd.Type.Results.List[0].Names[0]
	}
	if n := len(list); n > 0 {
		if rs, isRet := list[n-1].(*ast.ReturnStmt); isRet {
			switch len(rs.Results) {
			case 0:
				ret = namedRes
			case 1:
				ret = rs.Results[0]
			default:
				return nil, nil, false
			}
			list = list[:n-1]
		}
	}
	nested := false
	for _, s := range list {
		ast.Inspect(s, func(n ast.Node) bool {
			switch n.(type) {
			case *ast.ReturnStmt:
				nested = true
			case *ast.FuncLit:
				return false
			}
			return true
		})
	}
	if nested {
		return nil, nil, false
	}
	return list, ret, true
}

// expandedStmts: the statement list of fd with scope-method calls expanded (one level).
func (c *Ctx) expandedStmts(fd *ast.FuncDecl) []ast.Stmt {
	if fd == nil || fd.Body == nil {
		return nil
	}
	var out []ast.Stmt
	for _, s := range fd.Body.List {
		out = append(out, c.expandStmt(s)...)
	}
	return out
}

func (c *Ctx) expandStmt(s ast.Stmt) []ast.Stmt {
	// replaceIn finds one scope-method call among the operands of e (e itself, or an argument of a call, one
	// level) and returns the callee parts with e rebuilt around the returned expression
	replaceIn := func(e ast.Expr) ([]ast.Stmt, ast.Expr, bool) {
		if _, cd := c.isScopeMethodCall(e); cd != nil {
			if stmts, ret, ok := c.calleeParts(cd); ok && ret != nil {
				return stmts, ret, true
			}
			return nil, nil, false
		}
		if outer, ok := stripParens(e).(*ast.CallExpr); ok {
			for i, a := range outer.Args {
				if _, cd := c.isScopeMethodCall(a); cd != nil {
					stmts, ret, ok := c.calleeParts(cd)
					if !ok || ret == nil {
						return nil, nil, false
					}
					nc := *outer
					nc.Args = append([]ast.Expr(nil), outer.Args...)
					nc.Args[i] = ret
					return stmts, &nc, true
				}
			}
		}
		return nil, nil, false
	}
	switch s := s.(type) {
	case *ast.ExprStmt:
		// recv.m(args) on its own
		if _, cd := c.isScopeMethodCall(s.X); cd != nil {
			if stmts, _, ok := c.calleeParts(cd); ok {
				return stmts
			}
			return []ast.Stmt{s}
		}
		if stmts, ne, ok := replaceIn(s.X); ok {
			return append(append([]ast.Stmt(nil), stmts...), &ast.ExprStmt{X: ne})
		}
	case *ast.AssignStmt:
		if len(s.Rhs) == 1 {
			if stmts, ne, ok := replaceIn(s.Rhs[0]); ok {
				na := *s
				na.Rhs = []ast.Expr{ne}
				return append(append([]ast.Stmt(nil), stmts...), &na)
			}
		}
	case *ast.ForStmt:
		// for n := recv.m(args); …
		if as, ok := s.Init.(*ast.AssignStmt); ok && len(as.Rhs) == 1 {
			if stmts, ne, ok := replaceIn(as.Rhs[0]); ok {
				na := *as
				na.Rhs = []ast.Expr{ne}
				nf := *s
				nf.Init = &na
				return append(append([]ast.Stmt(nil), stmts...), &nf)
			}
		}
	case *ast.IfStmt:
		// if !recv.m(args) { A }   with   m: if COND { return false }; S…; return true
		// becomes                  if COND { A }; S…
		cond := stripParens(s.Cond)
		neg := false
		if ue, ok := cond.(*ast.UnaryExpr); ok && ue.Op == token.NOT {
			cond, neg = stripParens(ue.X), true
		}
		if _, cd := c.isScopeMethodCall(cond); cd != nil && s.Init == nil && s.Else == nil && neg {
			list := cd.Body.List
			if len(list) >= 2 {
				first, isIf := list[0].(*ast.IfStmt)
				last, isRet := list[len(list)-1].(*ast.ReturnStmt)
				if isIf && isRet && first.Else == nil && first.Init == nil && len(first.Body.List) == 1 && len(last.Results) == 1 {
					fr, isFR := first.Body.List[0].(*ast.ReturnStmt)
					if isFR && len(fr.Results) == 1 && c.isBoolConst(fr.Results[0], false) && c.isBoolConst(last.Results[0], true) {
						mid := list[1 : len(list)-1]
						clean := true
						for _, m := range mid {
							ast.Inspect(m, func(n ast.Node) bool {
								if _, isR := n.(*ast.ReturnStmt); isR {
									clean = false
								}
								return true
							})
						}
						if clean {
							ni := &ast.IfStmt{If: s.If, Cond: first.Cond, Body: s.Body}
							return append([]ast.Stmt{ni}, mid...)
						}
					}
				}
			}
		}
	}
	return []ast.Stmt{s}
}

func (c *Ctx) isBoolConst(e ast.Expr, want bool) bool {
	id, ok := stripParens(e).(*ast.Ident)
	if !ok {
		return false
	}
	return (want && id.Name == "true") || (!want && id.Name == "false")
}
