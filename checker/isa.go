package main

// E-ISA: the instruction format as seen by the disassembler and by the
// emission primitives; u16 helpers; jump arithmetic.

import (
	"fmt"
	"go/ast"
	"go/constant"
	"go/token"
	"go/types"
	"strings"
)

// ---------------------------------------------------------------- disassembler

type disRead struct {
	Kind string
	At   *Lin
	Size *Lin
	Pos  token.Pos
}

type disPay struct {
	reads    []disRead
	consts   []string // constant pool indices used (provenance)
	problems []string
	walk     []string
	forced   *int64 // the opcode the byte at the instruction offset is taken to be
	unknown  bool   // the path lists the instruction as unknown
}

func (p *disPay) Clone() Payload {
	q := *p
	q.reads = append([]disRead(nil), p.reads...)
	q.consts = append([]string(nil), p.consts...)
	q.problems = append([]string(nil), p.problems...)
	return &q
}

func (p *disPay) key() string {
	var s []string
	for _, r := range p.reads {
		s = append(s, r.Kind+"@"+r.At.String())
	}
	return strings.Join(s, ",") + "|" + strings.Join(p.consts, ",") + "|" + strings.Join(p.problems, ";")
}

type disArm struct {
	Op       string
	Shape    string
	OK       bool
	Why      string
	Consts   []string
	Ret      string
	Fallback bool // handled by the default clause
	Relative bool // the decoder returns the instruction length
	Absolute bool // the decoder returns the next offset
}

type disModel struct {
	Func      *ast.FuncDecl
	FuncName  string
	Arms      map[string]*disArm
	Undecided []string
	Relative  int // arms returning the instruction length
	Absolute  int // arms returning the next offset
}

func (c *Ctx) findDisasm() (*ast.FuncDecl, *ast.SwitchStmt) {
	vmfd, _, _ := c.findDispatch()
	var tableForm *ast.FuncDecl
	for _, f := range c.Bcl.Syntax {
		for _, d := range f.Decls {
			fd, ok := d.(*ast.FuncDecl)
			if !ok || fd.Body == nil || fd == vmfd {
				continue
			}
			obj, _ := c.Bcl.TypesInfo.Defs[fd.Name].(*types.Func)
			if obj == nil {
				continue
			}
			sig := obj.Type().(*types.Signature)
			if sig.Results().Len() != 1 || !isInt(sig.Results().At(0).Type()) {
				// the dispatch in a function that returns the text and the width: the decoder is its caller that
				// turns them into the next offset
				if sig.Results().Len() == 2 && isInt(sig.Results().At(1).Type()) {
					for _, s := range fd.Body.List {
						if sw, ok := s.(*ast.SwitchStmt); ok && sw.Tag != nil && isNamed(c.typeOf(sw.Tag), bclPath, "opcode") {
							for _, f2 := range c.Bcl.Syntax {
								for _, d2 := range f2.Decls {
									cd, ok := d2.(*ast.FuncDecl)
									if !ok || cd.Body == nil || cd == fd || cd == vmfd {
										continue
									}
									co, _ := c.Bcl.TypesInfo.Defs[cd.Name].(*types.Func)
									if co == nil {
										continue
									}
									cs := co.Type().(*types.Signature)
									if cs.Results().Len() != 1 || !isInt(cs.Results().At(0).Type()) {
										continue
									}
									calls := false
									walkCalls(cd.Body, false, func(call *ast.CallExpr) {
										if c.callee(call) == types.Object(obj) {
											calls = true
										}
									})
									if calls {
										return cd, sw
									}
								}
							}
						}
					}
				}
				continue
			}
			hasIntParam := false
			for i := 0; i < sig.Params().Len(); i++ {
				if isInt(sig.Params().At(i).Type()) {
					hasIntParam = true
				}
			}
			for _, s := range fd.Body.List {
				if sw, ok := s.(*ast.SwitchStmt); ok && sw.Tag != nil && isNamed(c.typeOf(sw.Tag), bclPath, "opcode") {
					tagIsParam := false
					for i := 0; i < sig.Params().Len(); i++ {
						if c.isObj(sw.Tag, sig.Params().At(i)) {
							tagIsParam = true // handed the opcode already fetched: the decoder is its caller
						}
					}
					if hasIntParam && !tagIsParam {
						return fd, sw
					}
					// the dispatch is a method of a value that carries the offset (it returns the size): the decoder is
					// its caller that is given the offset and returns the next one
					for _, it := range c.sortedDecls() {
						cd := it.fd
						co, isF := it.obj.(*types.Func)
						if !isF || cd.Body == nil || cd == fd || cd == vmfd || co.Pkg() == nil || co.Pkg().Path() != bclPath {
							continue
						}
						cs := co.Type().(*types.Signature)
						if cs.Results().Len() != 1 || !isInt(cs.Results().At(0).Type()) {
							continue
						}
						okParam := false
						for i := 0; i < cs.Params().Len(); i++ {
							if isInt(cs.Params().At(i).Type()) {
								okParam = true
							}
						}
						calls := false
						walkCalls(cd.Body, false, func(call *ast.CallExpr) {
							if c.callee(call) == types.Object(obj) {
								calls = true
							}
						})
						if okParam && calls {
							return cd, sw
						}
					}
				}
			}
			// table form: the opcode fetched from Prog.code at the int parameter indexes a package-level table
			// (of operand kinds, of per-instruction functions)
			fetches, indexes := false, false
			ast.Inspect(fd.Body, func(n ast.Node) bool {
				ix, ok := n.(*ast.IndexExpr)
				if !ok {
					return true
				}
				if c.fieldPath(ix.X) == "<Prog>.code" {
					fetches = true
				}
				if id, ok := stripParens(ix.X).(*ast.Ident); ok && isNamed(c.typeOf(ix.Index), bclPath, "opcode") {
					if v, ok := c.objOf(id).(*types.Var); ok && v.Parent() == c.Bcl.Types.Scope() {
						indexes = true
					}
				}
				return true
			})
			if fetches && indexes && tableForm == nil {
				tableForm = fd
			}
		}
	}
	return tableForm, nil
}

func isInt(t types.Type) bool {
	b, ok := t.Underlying().(*types.Basic)
	return ok && b.Kind() == types.Int
}

var disModelCache = map[*Ctx]*disModel{}

func (c *Ctx) disModel() (*disModel, error) {
	if m, ok := disModelCache[c]; ok {
		return m, nil
	}
	fd, _ := c.findDisasm()
	if fd == nil {
		return nil, fmt.Errorf("disassembler (a function returning int that fetches an opcode from Prog.code and dispatches on it by a switch or a table) not found")
	}
	m := &disModel{Func: fd, Arms: map[string]*disArm{}}
	if obj, ok := c.Bcl.TypesInfo.Defs[fd.Name].(*types.Func); ok {
		m.FuncName = funcName(obj)
	}
	jumpLen, _ := pkgConstInt(c.Bcl, "jumpByteLength")
	pay := func(st *State) *disPay { return st.P.(*disPay) }
	var h Hooks
	h.SameEffect = func(a, b *State) bool { return pay(a).key() == pay(b).key() }
	h.Inline = func(fn *types.Func) bool {
		if fn.Pkg() == nil || fn.Pkg().Path() != bclPath {
			return false
		}
		return !strings.HasPrefix(funcName(fn), "lineCalc.")
	}
	codeRead := func(in *Interp, st *State, kind string, at ast.Expr, pos token.Pos) *Lin {
		p := pay(st)
		var l *Lin
		for _, vs := range in.eval(st, at) {
			l, _ = vs.v.asLin()
			break
		}
		if l == nil {
			p.problems = append(p.problems, c.pos(pos)+": code is read at an offset that is not linear in the instruction offset")
			l = linSym("?")
		}
		var size *Lin
		switch kind {
		case "B":
			size = linConst(1)
		case "H":
			size = linConst(jumpLen)
		default:
			size = linSym(in.freshSym("n"))
		}
		p.reads = append(p.reads, disRead{kind, l, size, pos})
		return size
	}
	// the program's tables, also when the program is held in a field of a small struct (i.prog.code)
	progPath := func(e ast.Expr) string {
		fp := c.fieldPath(e)
		if strings.HasPrefix(fp, "<Prog>.") {
			return fp
		}
		if f := c.progField(e); f == "code" || f == "constants" {
			return "<Prog>." + f
		}
		// a local standing for one of the tables: code, consts := in.prog.code, in.prog.constants
		if id, ok := stripParens(e).(*ast.Ident); ok {
			if v, isVar := c.objOf(id).(*types.Var); isVar && !v.IsField() && v.Parent() != nil && v.Parent() != v.Pkg().Scope() {
				for _, it := range c.sortedDecls() {
					if it.fd.Body == nil || v.Pos() < it.fd.Pos() || v.Pos() > it.fd.End() {
						continue
					}
					if def, k := c.singleDef(it.fd.Body, v); k == 1 && def != nil {
						dfp := c.fieldPath(def)
						if strings.HasPrefix(dfp, "<Prog>.") {
							return dfp
						}
						if f := c.progField(def); f == "code" || f == "constants" {
							return "<Prog>." + f
						}
					}
				}
			}
		}
		return fp
	}
	isCode := func(e ast.Expr) bool { return progPath(e) == "<Prog>.code" }
	h.Index = func(in *Interp, st *State, e *ast.IndexExpr, x, idx Value) (Value, bool) {
		switch progPath(e.X) {
		case "<Prog>.code":
			codeRead(in, st, "B", e.Index, e.Pos())
			// the byte at the instruction offset is the opcode being listed
			if p := pay(st); len(p.reads) > 0 && p.reads[len(p.reads)-1].At.equal(linSym("offset")) && p.forced != nil {
				v := constV(constant.MakeInt64(*p.forced))
				return v, true
			}
			return tagV("operand", "byte"), true
		case "<Prog>.constants":
			pay(st).consts = append(pay(st).consts, idx.String())
			return unknownV(), true
		}
		return Value{}, false
	}
	h.Call = func(in *Interp, st *State, call *ast.CallExpr, callee types.Object, args []Value) ([]valState, bool) {
		name := qname(callee)
		// the listing of an opcode the disassembler does not know says so
		for _, a := range call.Args {
			if sv, ok := c.strConst(a); ok && strings.Contains(sv, "unknown") {
				pay(st).unknown = true
			}
		}
		if (name == "uvarintFromBytes" || name == "u16FromBytes") && len(call.Args) == 1 {
			se, ok := stripParens(call.Args[0]).(*ast.SliceExpr)
			if !ok || !isCode(se.X) || se.Low == nil {
				return nil, false
			}
			if name == "u16FromBytes" {
				codeRead(in, st, "H", se.Low, call.Pos())
				return one(st, linV(linSym(in.freshSym("u16")))), true
			}
			n := codeRead(in, st, "v", se.Low, call.Pos())
			return one(st, Value{K: vTuple, Tup: []Value{linV(linSym(in.freshSym("uv"))), linV(n)}}), true
		}
		return nil, false
	}
	in := newInterp(c, h)
	ops := constsOfType(c.Bcl, "opcode")
	info := c.Bcl.TypesInfo
	for _, op := range ops {
		val := op.Val
		st := &State{Env: map[types.Object]Value{}, P: &disPay{forced: &val}}
		// bind the int parameter (the instruction offset)
		for _, f := range fd.Type.Params.List {
			for _, n := range f.Names {
				if obj := info.Defs[n]; obj != nil && isInt(obj.Type()) {
					st.Env[obj] = linV(linSym("offset"))
				}
			}
		}
		arm := &disArm{Op: op.Name}
		var keys = map[string]bool{}
		first := true
		for _, r := range in.execBlock([]*State{st}, fd.Body.List) {
			p := pay(r)
			if keys[p.key()] {
				continue
			}
			keys[p.key()] = true
			if p.unknown {
				arm.Fallback = true
			}
			shape, why := disShape(p, r)
			if strings.HasSuffix(shape, "|len") {
				shape = strings.TrimSuffix(shape, "|len")
				arm.Relative = true
			} else if why == "" {
				arm.Absolute = true
			}
			if why != "" {
				arm.Why = why
			} else if first {
				arm.Shape, arm.OK = shape, true
				arm.Consts = p.consts
				first = false
			} else if arm.Shape != shape {
				arm.OK, arm.Why = false, fmt.Sprintf("paths disagree on the operand shape: %q vs %q", arm.Shape, shape)
			}
		}
		if arm.Relative && arm.Absolute {
			arm.Why = "some paths return the next offset and others the instruction length"
		}
		if arm.Why != "" {
			arm.OK = false
		}
		if arm.Relative {
			m.Relative++
		} else if arm.OK {
			m.Absolute++
		}
		m.Arms[op.Name] = arm
	}
	m.Undecided = in.Undecided
	disModelCache[c] = m
	return m, nil
}

// disShape validates one path: the opcode byte at offset, operands read
// contiguously after it, and the returned next offset equal to the end of
// the last operand.
func disShape(p *disPay, r *State) (string, string) {
	if len(p.problems) > 0 {
		return "", strings.Join(p.problems, "; ")
	}
	if r.Term != tReturn || len(r.Ret) != 1 {
		return "", "path does not end in a return of the next offset"
	}
	ret, ok := r.Ret[0].asLin()
	if !ok {
		return "", "returned next offset is not linear in the instruction offset"
	}
	if len(p.reads) == 0 || p.reads[0].Kind != "B" || !p.reads[0].At.equal(linSym("offset")) {
		return "", "the opcode byte is not read at the instruction offset"
	}
	at := linSym("offset").add(linConst(1))
	shape := ""
	for _, rd := range p.reads[1:] {
		if !rd.At.equal(at) {
			return "", fmt.Sprintf("operand %s is decoded at %s, but the previous field ends at %s", rd.Kind, rd.At, at)
		}
		at = at.add(rd.Size)
		shape += rd.Kind
	}
	switch {
	case ret.equal(at):
	case ret.equal(at.sub(linSym("offset"))):
		// the decoder gives the length of the instruction instead of the next offset (the walk adds it)
		shape += "|len"
	default:
		return "", fmt.Sprintf("returns %s as the next offset, but the decoded fields end at %s", ret, at)
	}
	return shape, ""
}

// ---------------------------------------------------------------- helpers

type callSite struct {
	Call   *ast.CallExpr
	Name   string
	Direct bool // the call is an expression statement directly in the function body
}

func (c *Ctx) callsOf(fd *ast.FuncDecl) []callSite {
	var out []callSite
	direct := map[*ast.CallExpr]bool{}
	for _, s := range fd.Body.List {
		if es, ok := s.(*ast.ExprStmt); ok {
			if call, ok := es.X.(*ast.CallExpr); ok {
				direct[call] = true
			}
		}
	}
	walkCalls(fd.Body, false, func(call *ast.CallExpr) {
		if tv, ok := c.infoFor(call).Types[call.Fun]; ok && tv.IsType() {
			return
		}
		out = append(out, callSite{call, c.calleeName(call), direct[call]})
	})
	return out
}

// paramObj returns the i-th parameter object of fd.
func (c *Ctx) paramObj(fd *ast.FuncDecl, i int) types.Object {
	k := 0
	for _, f := range fd.Type.Params.List {
		for _, n := range f.Names {
			if k == i {
				return c.infoFor(fd).Defs[n]
			}
			k++
		}
	}
	return nil
}

func (c *Ctx) isObj(e ast.Expr, obj types.Object) bool {
	id, ok := c.stripConv(e).(*ast.Ident)
	return ok && obj != nil && c.objOf(id) == obj
}

// checkEmitPrimitives verifies that the emission primitives write what the
// interpretation assumes. Each finding is an obligation of `rule`.
func checkEmitPrimitives(c *Ctx, r *Report, rule string) {
	emitters := []string{"parser.emitOp", "parser.emitByte", "parser.emitBytes", "parser.emitUvarint", "parser.emitJump", "parser.patchJump", "parser.emitOps", "parser.emitConst"}
	isEmitter := func(n string) bool {
		for _, e := range emitters {
			if e == n {
				return true
			}
		}
		return n == "Prog.write"
	}
	get := func(name string) *ast.FuncDecl {
		_, fd := c.find(name)
		if fd == nil || fd.Body == nil {
			r.bad(rule, name, "function not found", "")
			return nil
		}
		r.fn(name)
		return fd
	}
	prevPos := func(e ast.Expr) bool { return c.fieldPath(e) == "<parser>.prev.pos" }

	// emitOp / emitByte: exactly one direct write of the parameter at p.prev.pos
	for _, name := range []string{"parser.emitOp", "parser.emitByte"} {
		fd := get(name)
		if fd == nil {
			continue
		}
		writes, others := 0, 0
		okArgs := false
		for _, cs := range c.callsOf(fd) {
			switch {
			case cs.Name == "Prog.write":
				writes++
				okArgs = cs.Direct && len(cs.Call.Args) == 2 && c.isObj(cs.Call.Args[0], c.paramObj(fd, 0)) && prevPos(cs.Call.Args[1])
			case isEmitter(cs.Name):
				others++
			}
		}
		if !(writes == 1 && others == 0 && okArgs) {
			// written through another primitive: decided on the interpreted body
			if ok, _ := c.emitPrimOK(fd, func(p string) bool { return p == "w(param(0))@prevpos" }); ok {
				r.ok(rule, name, "interpreted: exactly one write of the parameter at p.prev.pos")
				continue
			}
		}
		r.check(writes == 1 && others == 0 && okArgs, rule, name, "one unconditional write(param, p.prev.pos)",
			fmt.Sprintf("%s must write exactly its parameter once, unconditionally, at p.prev.pos (writes=%d, other emitters=%d, args ok=%v)", name, writes, others, okArgs), c.pos(fd.Pos()))
	}
	// emitBytes: range over the variadic parameter, one write per element
	if fd := get("parser.emitBytes"); fd != nil {
		ok := false
		nLoops, nWrites := 0, 0
		for _, s := range fd.Body.List {
			if rs, isR := s.(*ast.RangeStmt); isR {
				nLoops++
				if c.isObj(rs.X, c.paramObj(fd, 0)) && rs.Value != nil && len(rs.Body.List) == 1 {
					if es, isE := rs.Body.List[0].(*ast.ExprStmt); isE {
						if call, isC := es.X.(*ast.CallExpr); isC && c.calleeName(call) == "Prog.write" && len(call.Args) == 2 {
							vobj := c.objOf(rs.Value.(*ast.Ident))
							ok = c.isObj(call.Args[0], vobj) && prevPos(call.Args[1])
						}
					}
				}
			}
		}
		for _, cs := range c.callsOf(fd) {
			if cs.Name == "Prog.write" || isEmitter(cs.Name) {
				nWrites++
			}
		}
		if !(ok && nLoops == 1 && nWrites == 1) {
			if okm, _ := c.emitPrimOK(fd, func(p string) bool { return p == "each(param(0)):w(elem(param(0)))@prevpos" }); okm {
				ok, nLoops, nWrites = true, 1, 1
			}
		}
		r.check(ok && nLoops == 1 && nWrites == 1, rule, "parser.emitBytes", "writes each element of its argument once, in order, at p.prev.pos",
			"emitBytes must be a single range over its parameter with one write(element, p.prev.pos) per element", c.pos(fd.Pos()))
	}
	// emitUvarint: uvarintToBytes(buf[:], uint64(x)) then emitBytes(buf[:n]...)
	if fd := get("parser.emitUvarint"); fd != nil {
		var enc, eb *ast.CallExpr
		extra := 0
		for _, cs := range c.callsOf(fd) {
			switch {
			case cs.Name == "uvarintToBytes":
				if enc != nil {
					extra++
				}
				enc = cs.Call
			case cs.Name == "parser.emitBytes":
				if eb != nil {
					extra++
				}
				eb = cs.Call
			case isEmitter(cs.Name):
				extra++
			}
		}
		ok := enc != nil && eb != nil && extra == 0 && len(fd.Body.List) <= 4
		why := "must be: n := uvarintToBytes(buf[:], uint64(x)); emitBytes(buf[:n]...)"
		if ok {
			// the buffer: local array of at least 9 bytes
			bufOK, nOK := false, false
			if se, isS := stripParens(enc.Args[0]).(*ast.SliceExpr); isS && se.Low == nil && se.High == nil {
				if arr, isA := c.typeOf(se.X).Underlying().(*types.Array); isA && arr.Len() >= 9 {
					bufOK = true
					if se2, isS2 := stripParens(eb.Args[0]).(*ast.SliceExpr); isS2 && eb.Ellipsis.IsValid() && se2.Low == nil && se2.High != nil &&
						c.objOf(se2.X.(*ast.Ident)) == c.objOf(se.X.(*ast.Ident)) {
						// High must be the result of the encode call
						if id, isI := se2.High.(*ast.Ident); isI {
							nOK = c.assignedFromCall(fd, c.objOf(id), enc)
						}
					}
				}
			}
			ok = bufOK && nOK && c.isObj(enc.Args[1], c.paramObj(fd, 0))
			// every statement must be one of: var decl, the assignment, the emit call
			for _, s := range fd.Body.List {
				switch s.(type) {
				case *ast.DeclStmt, *ast.AssignStmt, *ast.ExprStmt:
				default:
					ok = false
					why = "contains control flow; " + why
				}
			}
		}
		if !ok {
			// enc(param)>buf/N ; each(bufslice(buf[:n(buf)])):w(elem(bufslice(buf[:n(buf)])))@prevpos   with N >= 9
			if okm, _ := c.emitPrimOK(fd, func(p string) bool {
				parts := strings.Split(p, " ; ")
				if len(parts) != 2 || !strings.HasPrefix(parts[0], "enc(param(0))>") {
					return false
				}
				bn := strings.SplitN(strings.TrimPrefix(parts[0], "enc(param(0))>"), "/", 2)
				if len(bn) != 2 {
					return false
				}
				var n int
				if _, err := fmt.Sscanf(bn[1], "%d", &n); err != nil || n < 9 {
					return false
				}
				sl := "bufslice(" + bn[0] + "[:n(" + bn[0] + ")])"
				return parts[1] == "each("+sl+"):w(elem("+sl+"))@prevpos"
			}); okm {
				ok = true
			}
		}
		r.check(ok, rule, "parser.emitUvarint", "encodes its argument with uvarintToBytes into a >=9-byte buffer and emits exactly the encoded bytes", "emitUvarint "+why, c.pos(fd.Pos()))
	}
	// Prog.write: one append to code, one append to positions
	if fd := get("Prog.write"); fd != nil {
		codeApp, posApp, other := 0, 0, 0
		for _, s := range fd.Body.List {
			as, ok := s.(*ast.AssignStmt)
			if !ok || len(as.Lhs) != 1 || len(as.Rhs) != 1 {
				other++
				continue
			}
			call, ok := as.Rhs[0].(*ast.CallExpr)
			if !ok || c.calleeName(call) != "append" || len(call.Args) != 2 {
				other++
				continue
			}
			l, a0 := c.fieldPath(as.Lhs[0]), c.fieldPath(call.Args[0])
			switch {
			case l == "<Prog>.code" && a0 == l && c.isObj(call.Args[1], c.paramObj(fd, 0)):
				codeApp++
			case l == "<Prog>.positions" && a0 == l && c.isObj(call.Args[1], c.paramObj(fd, 1)):
				posApp++
			default:
				other++
			}
		}
		r.check(codeApp == 1 && posApp == 1 && other == 0, rule, "Prog.write", "appends its byte to code and its position to positions, once each",
			fmt.Sprintf("Prog.write must append exactly one byte to code and one position to positions (code appends %d, position appends %d, other statements %d)", codeApp, posApp, other), c.pos(fd.Pos()))
	}
	// Prog.addConst: one append of the argument; the result is the index it got (the length before the append)
	if fd := get("Prog.addConst"); fd != nil {
		ok := c.addConstModel(fd)
		r.check(ok, rule, "Prog.addConst", "appends the value and returns its index (len-1)", "addConst must append its argument to constants and return len(constants)-1", c.pos(fd.Pos()))
	}
}

// assignedFromCall: obj is defined as (one of) the results of call.
func (c *Ctx) assignedFromCall(fd *ast.FuncDecl, obj types.Object, call *ast.CallExpr) bool {
	found := false
	ast.Inspect(fd.Body, func(n ast.Node) bool {
		as, ok := n.(*ast.AssignStmt)
		if !ok || len(as.Rhs) != 1 || as.Rhs[0] != ast.Expr(call) {
			return true
		}
		for _, l := range as.Lhs {
			if id, ok := l.(*ast.Ident); ok && c.objOf(id) == obj {
				found = true
			}
		}
		return true
	})
	return found
}

// ---------------------------------------------------------------- jump arithmetic

type bytePay struct {
	count    *Lin
	patches  []struct{ At, Val *Lin }
	guards   []string
	problems []string
	ops      int
}

func (p *bytePay) Clone() Payload {
	q := *p
	q.patches = append(q.patches[:0:0], p.patches...)
	q.guards = append([]string(nil), p.guards...)
	q.problems = append([]string(nil), p.problems...)
	return &q
}

// checkJumpArith verifies, with linear forms, that emitJump returns the
// offset of the operand, that patchJump stores (count - offset - width) at
// that offset after range checks, and hence that the VM's pc after the
// jump equals the code length at patch time.
func checkJumpArith(c *Ctx, r *Report, rule string) {
	r.rule(rule, 4, "emitJump, at code length c0, emits one opcode and jumpByteLength placeholder bytes and returns a reference (an offset, or a small struct of offsets); patchJump, given that reference when the code length is c1, stores at c0+1 — the placeholder — a distance d with (c0+1) + jumpByteLength + d = c1, after rejecting d < 0 and d > 65535: the VM, which adds the operand after reading it, lands at the code length at the patch")
	jumpLen, _ := pkgConstInt(c.Bcl, "jumpByteLength")
	var h Hooks
	pay := func(st *State) *bytePay { return st.P.(*bytePay) }
	h.SameEffect = func(a, b *State) bool {
		return pay(a).count.equal(pay(b).count) && len(pay(a).patches) == len(pay(b).patches)
	}
	h.Inline = func(fn *types.Func) bool {
		// small helpers of the module (an offset computed by a method of Prog) are read through
		return fn.Pkg() != nil && fn.Pkg().Path() == bclPath
	}
	h.Call = func(in *Interp, st *State, call *ast.CallExpr, callee types.Object, args []Value) ([]valState, bool) {
		p := pay(st)
		switch qname(callee) {
		case "len":
			if len(call.Args) == 1 && strings.HasSuffix(c.fieldPath(call.Args[0]), ".code") {
				return one(st, linV(p.count)), true
			}
		case "parser.emitOp":
			p.count = p.count.add(linConst(1))
			p.ops++
			return one(st, unknownV()), true
		case "parser.emitBytes":
			if len(args) == 1 && args[0].K == vList {
				p.count = p.count.add(linConst(int64(len(args[0].Tup))))
			} else {
				p.problems = append(p.problems, "emitBytes with an unknown number of bytes")
			}
			return one(st, unknownV()), true
		case "parser.emitByte":
			p.count = p.count.add(linConst(1))
			return one(st, unknownV()), true
		case "Prog.count":
			return one(st, linV(p.count)), true
		case "parser.currentProg":
			return one(st, unknownV()), true
		case "parser.error", "parser.errorAtCurrent", "parser.errorAt":
			return []valState{}, true
		case "u16ToBytes":
			se, ok := stripParens(call.Args[0]).(*ast.SliceExpr)
			if !ok || !strings.HasSuffix(c.fieldPath(se.X), ".code") || se.Low == nil {
				p.problems = append(p.problems, "u16ToBytes target is not code[offset:]")
				return one(st, unknownV()), true
			}
			var at *Lin
			for _, vs := range in.eval(st, se.Low) {
				at, _ = vs.v.asLin()
				break
			}
			val, ok2 := args[1].asLin()
			if at == nil || !ok2 {
				p.problems = append(p.problems, "patch offset or value is not linear")
				return one(st, unknownV()), true
			}
			p.patches = append(p.patches, struct{ At, Val *Lin }{at, val})
			return one(st, unknownV()), true
		}
		return nil, false
	}
	h.Assume = func(in *Interp, st *State, cond ast.Expr, branch bool) bool {
		be, ok := stripParens(cond).(*ast.BinaryExpr)
		if !ok {
			return true
		}
		var form *Lin
		for _, vs := range in.eval(st, be.X) {
			form, _ = vs.v.asLin()
			break
		}
		if _, isC := c.intConst(be.Y); form == nil || !isC {
			return true
		}
		// record the bound established on this branch about `form`
		if b, ok := c.boundOf(condAtom{E: be, Pos: branch}); ok {
			if b.Lo != nil {
				pay(st).guards = append(pay(st).guards, fmt.Sprintf("%s >= %d", form, *b.Lo))
			}
			if b.Hi != nil {
				pay(st).guards = append(pay(st).guards, fmt.Sprintf("%s <= %d", form, *b.Hi))
			}
		}
		return true
	}
	in := newInterp(c, h)

	// emitJump
	_, ej := c.find("parser.emitJump")
	if ej == nil {
		r.bad(rule, "parser.emitJump", "function not found", "")
		return
	}
	st := &State{Env: map[types.Object]Value{}, P: &bytePay{count: linSym("c0")}}
	res := in.inlineBody(st, ej.Type, ej.Body, ej.Recv, []Value{unknownV()})
	okEJ := len(res) == 1
	detail := ""
	ref := unknownV()
	if okEJ {
		p := pay(res[0].st)
		ref = res[0].v
		end := linSym("c0").add(linConst(1 + jumpLen))
		known := ref.K == vLin || ref.K == vStruct
		okEJ = known && p.count.equal(end) && p.ops == 1 && len(p.problems) == 0
		detail = fmt.Sprintf("returns %v, code grows to %s (expected a reference made of offsets, growth to %s, one opcode)", ref, p.count, end)
	} else {
		detail = fmt.Sprintf("%d paths", len(res))
	}
	r.check(okEJ, rule, "parser.emitJump", "emits one opcode and jumpByteLength placeholder bytes; returns a reference made of code offsets: "+ref.String(), "emitJump: "+detail, c.pos(ej.Pos()))

	// patchJump
	_, pj := c.find("parser.patchJump")
	if pj == nil {
		r.bad(rule, "parser.patchJump", "function not found", "")
		return
	}
	// patchJump is given what emitJump returned, at a later code length c1
	st = &State{Env: map[types.Object]Value{}, P: &bytePay{count: linSym("c1")}}
	res = in.inlineBody(st, pj.Type, pj.Body, pj.Recv, []Value{ref})
	placeholder := linSym("c0").add(linConst(1))
	nPatch := 0
	okArith, okLo, okHi := true, true, true
	why := ""
	for _, vs := range res {
		p := pay(vs.st)
		if len(p.problems) > 0 {
			okArith, why = false, strings.Join(p.problems, "; ")
		}
		for _, pt := range p.patches {
			nPatch++
			// landing pc = at + width + val must be the code length now
			land := pt.At.add(linConst(jumpLen)).add(pt.Val)
			if !pt.At.equal(placeholder) || !land.equal(p.count) {
				okArith = false
				why = fmt.Sprintf("stores %s at %s (the placeholder is at %s): the VM would land at %s, the code length at the patch is %s", pt.Val, pt.At, placeholder, land, p.count)
			}
			lo, hi := false, false
			for _, g := range p.guards {
				var k int64
				if n, _ := fmt.Sscanf(strings.TrimPrefix(g, pt.Val.String()+" >= "), "%d", &k); n == 1 && strings.HasPrefix(g, pt.Val.String()+" >= ") && k >= 0 {
					lo = true
				}
				if n, _ := fmt.Sscanf(strings.TrimPrefix(g, pt.Val.String()+" <= "), "%d", &k); n == 1 && strings.HasPrefix(g, pt.Val.String()+" <= ") && k <= 65535 {
					hi = true
				}
			}
			okLo = okLo && lo
			okHi = okHi && hi
		}
		if !p.count.equal(linSym("c1")) {
			okArith, why = false, "patchJump changes the code length"
		}
	}
	r.check(nPatch >= 1 && okArith, rule, "parser.patchJump/arith", "operand offset + width + stored distance = code length at the patch", "patchJump: "+why+fmt.Sprintf(" (%d patch sites)", nPatch), c.pos(pj.Pos()))
	r.check(nPatch >= 1 && okLo, rule, "parser.patchJump/non-negative", "the store is dominated by a check that the distance is >= 0", "patchJump narrows the distance to uint16 without a dominating distance >= 0 check", c.pos(pj.Pos()))
	r.check(nPatch >= 1 && okHi, rule, "parser.patchJump/fits-u16", "the store is dominated by a check that the distance is <= 65535", "patchJump narrows the distance to uint16 without a dominating distance <= 65535 check", c.pos(pj.Pos()))
	for _, u := range in.Undecided {
		r.undecided(rule, "interp", u, "")
	}
}

// checkU16 verifies the big-endian pair.
func checkU16(c *Ctx, r *Report, rule string) {
	r.rule(rule, 2, "u16ToBytes stores the high byte first; u16FromBytes reads b[0]<<8 | b[1]")
	_, enc := c.find("u16ToBytes")
	_, dec := c.find("u16FromBytes")
	if enc == nil || dec == nil {
		r.bad(rule, "u16", "u16ToBytes/u16FromBytes not found", "")
		return
	}
	r.fn("u16ToBytes", "u16FromBytes")
	// encoder: p[0] = byte(x >> 8) ; p[1] = byte(x & 0xff) or byte(x)
	got := map[int64]string{}
	okEnc := len(enc.Body.List) == 2
	for _, s := range enc.Body.List {
		as, ok := s.(*ast.AssignStmt)
		if !ok || len(as.Lhs) != 1 {
			okEnc = false
			continue
		}
		ix, ok := as.Lhs[0].(*ast.IndexExpr)
		if !ok || !c.isObj(ix.X, c.paramObj(enc, 0)) {
			okEnc = false
			continue
		}
		i, _ := c.intConst(ix.Index)
		got[i] = c.byteOf(as.Rhs[0], c.paramObj(enc, 1))
	}
	r.check(okEnc && got[0] == "hi" && got[1] == "lo", rule, "u16ToBytes", "byte 0 = x>>8, byte 1 = low byte",
		fmt.Sprintf("u16ToBytes must store the high byte at index 0 and the low byte at index 1 (found [0]=%s [1]=%s)", got[0], got[1]), c.pos(enc.Pos()))
	// decoder: return uint16(b[0])<<8 | uint16(b[1])
	okDec := false
	if len(dec.Body.List) == 1 {
		if rs, ok := dec.Body.List[0].(*ast.ReturnStmt); ok && len(rs.Results) == 1 {
			if be, ok := stripParens(rs.Results[0]).(*ast.BinaryExpr); ok && (be.Op == token.OR || be.Op == token.ADD) {
				idxOf := func(e ast.Expr) (int64, int64, bool) { // (index, shift)
					e = stripParens(e)
					shift := int64(0)
					if sh, ok := e.(*ast.BinaryExpr); ok && sh.Op == token.SHL {
						shift, _ = c.intConst(sh.Y)
						e = sh.X
					}
					ix, ok := c.stripConv(e).(*ast.IndexExpr)
					if !ok || !c.isObj(ix.X, c.paramObj(dec, 0)) {
						return 0, 0, false
					}
					i, ok := c.intConst(ix.Index)
					return i, shift, ok
				}
				i1, s1, ok1 := idxOf(be.X)
				i2, s2, ok2 := idxOf(be.Y)
				if ok1 && ok2 {
					m := map[int64]int64{i1: s1, i2: s2}
					okDec = len(m) == 2 && m[0] == 8 && m[1] == 0
				}
			}
		}
	}
	r.check(okDec, rule, "u16FromBytes", "b[0]<<8 | b[1]", "u16FromBytes must combine b[0] as the high byte and b[1] as the low byte", c.pos(dec.Pos()))
}

// byteOf classifies byte(x>>8) as "hi", byte(x), byte(x&0xff) as "lo".
func (c *Ctx) byteOf(e ast.Expr, x types.Object) string {
	e = c.stripConv(e)
	if c.isObj(e, x) {
		return "lo"
	}
	be, ok := e.(*ast.BinaryExpr)
	if !ok || !c.isObj(be.X, x) {
		return "?"
	}
	k, ok := c.intConst(be.Y)
	switch {
	case ok && be.Op == token.SHR && k == 8:
		return "hi"
	case ok && be.Op == token.AND && k == 0xff:
		return "lo"
	}
	return "?"
}

type countPay struct{ appends, other int }

func (p *countPay) Clone() Payload { q := *p; return &q }

// addConstModel interprets addConst with len(constants) = L + (appends so far): every path appends the parameter
// exactly once to Prog.constants, stores nothing else, and returns L — the index of the appended element —
// however that is spelled (len-1 after the append, the length taken before it).
func (c *Ctx) addConstModel(fd *ast.FuncDecl) bool {
	param := c.paramObj(fd, 0)
	var h Hooks
	h.Call = func(in *Interp, st *State, call *ast.CallExpr, callee types.Object, args []Value) ([]valState, bool) {
		p := st.P.(*countPay)
		switch c.calleeName(call) {
		case "len":
			if len(call.Args) == 1 && c.fieldPath(call.Args[0]) == "<Prog>.constants" {
				return one(st, linV(linSym("L").add(linConst(int64(p.appends))))), true
			}
		case "append":
			if len(call.Args) == 2 && c.fieldPath(call.Args[0]) == "<Prog>.constants" && c.isObj(call.Args[1], param) && !call.Ellipsis.IsValid() {
				return one(st, tagV("appended", nil)), true
			}
			return one(st, tagV("otherappend", nil)), true
		}
		return nil, false
	}
	h.Store = func(in *Interp, st *State, lhs ast.Expr, op token.Token, v Value) bool {
		if _, isIdent := lhs.(*ast.Ident); isIdent {
			return false
		}
		p := st.P.(*countPay)
		if c.fieldPath(lhs) == "<Prog>.constants" && op == token.ASSIGN && v.K == vTag && v.Tag == "appended" {
			p.appends++
		} else {
			p.other++
		}
		return true
	}
	in := newInterp(c, h)
	st := &State{Env: map[types.Object]Value{}, P: &countPay{}}
	recv := unknownV()
	res := in.inlineBody(st, fd.Type, fd.Body, fd.Recv, []Value{unknownV()}, recvOpt{&recv})
	if len(res) == 0 || len(in.Undecided) > 0 {
		return false
	}
	for _, vs := range res {
		p := vs.st.P.(*countPay)
		l, isLin := vs.v.asLin()
		if p.appends != 1 || p.other != 0 || !isLin || !l.equal(linSym("L")) {
			return false
		}
	}
	return true
}
