package main

import (
	"fmt"
	"go/ast"
	"go/constant"
	"go/token"
	"go/types"
	"sort"
	"strings"
)

type langSpec struct {
	Prec        [][]string          `json:"precedence_weakest_first"`
	LeftAssoc   []string            `json:"left_assoc"`
	EitherAssoc []string            `json:"either_assoc"`
	BinaryOps   map[string][]string `json:"binary_ops"`
	UnaryOps    map[string][]string `json:"unary_ops"`
	LiteralOps  map[string][]string `json:"literal_ops"`
	IntFast     map[string]string   `json:"int_fast_paths"`
	LitConv     map[string]struct {
		Func string  `json:"func"`
		Base *int64  `json:"base"`
		Bits []int64 `json:"bits"`
	} `json:"literal_conversions"`
	Falsey       map[string]string `json:"falsey"`
	Whitespace   []int64           `json:"whitespace"`
	Eol          []int64           `json:"eol"`
	CommentStart int64             `json:"comment_start"`
	Keywords     map[string]string `json:"keywords"`
	OneRune      map[string]string `json:"one_rune_tokens"`
	TwoRune      map[string]string `json:"two_rune_tokens"`
	StmtKeywords map[string]string `json:"statement_keywords"`
	SyncSet      []string          `json:"sync_set"`
	BindSel      map[string]string `json:"bind_selectors"`
	BindTgt      map[string]string `json:"bind_targets"`
}

func loadLangSpec() (*langSpec, error) {
	var s langSpec
	if err := readSpec("language.json", &s); err != nil {
		return nil, err
	}
	return &s, nil
}

func init() { register("C01", "other", checkC01) }

// tokenOfLexeme maps a source spelling to its token constant name.
func tokenOfLexeme(lt *lexTables, lex string) string {
	if t, ok := lt.TwoRune[lex]; ok {
		return t
	}
	if t, ok := lt.OneRune[lex]; ok {
		return t
	}
	return lt.Keywords[lex]
}

// opsOfTrace keeps the opcodes of a trace, dropping token handling.
func opsOfTrace(tr []string) (ops []string, subs []string) {
	for _, t := range tr {
		switch {
		case t == "adv", t == "semi", t == "v", t == "B", t == "H", t == "loop{", t == "}", t == "local+", t == "scope+", t == "scope-", t == "init":
		case strings.HasPrefix(t, "sub:"):
			subs = append(subs, strings.TrimPrefix(t, "sub:"))
		default:
			ops = append(ops, t)
		}
	}
	return
}

func rulePrecOrder(c *Ctx, r *Report, rule string, spec *langSpec) {
	r.rule(rule, 19, "the Pratt table orders the operators as documented (or < and < not < equality < ordering < additive < multiplicative < unary sign), binary operators recurse one level above their own (left-associative), not/unary/parentheses recurse at the documented levels, assignment is enabled exactly at the lowest level")
	rows, _, err := c.rulesTable()
	if err != nil {
		r.bad(rule, "rules-table", err.Error(), "")
		return
	}
	lt, err := c.lexTables()
	if err != nil {
		r.bad(rule, "lexer-tables", err.Error(), "")
		return
	}
	m, err := c.emitModel()
	if err != nil {
		r.bad(rule, "model", err.Error(), "")
		return
	}
	byTok := map[string]ruleRow{}
	for _, row := range rows {
		byTok[row.Token] = row
	}
	precVal := map[string]int64{}
	for _, p := range m.precs {
		precVal[p.Name] = p.Val
	}
	// level of the sub-expression a rule function parses, from its trace
	subLevel := func(key string) (int64, string, bool) {
		e := m.Entries[key]
		if e == nil || len(e.Outcomes) == 0 {
			return 0, "", false
		}
		lvl := int64(-1)
		name := ""
		for _, o := range e.Outcomes {
			_, subs := opsOfTrace(o.Trace)
			for _, s := range subs {
				if strings.HasPrefix(s, "E(") {
					n := strings.TrimSuffix(strings.TrimPrefix(s, "E("), ")")
					v, ok := precVal[n]
					if !ok {
						return 0, n, false
					}
					if lvl >= 0 && lvl != v {
						return 0, n, false
					}
					lvl, name = v, n
				}
			}
		}
		return lvl, name, lvl >= 0
	}
	// infix classes
	var classLevel []int64
	infixClasses := [][]string{}
	for _, class := range spec.Prec {
		if class[0] == "=" || class[0] == "not" || strings.HasPrefix(class[0], "unary") {
			continue
		}
		infixClasses = append(infixClasses, class)
	}
	maxInfix := int64(0)
	for _, class := range infixClasses {
		lvl := int64(-1)
		for _, lex := range class {
			tok := tokenOfLexeme(lt, lex)
			row, ok := byTok[tok]
			key := "infix/" + lex
			switch {
			case tok == "" || !ok || row.Infix == "":
				r.bad(rule, key, fmt.Sprintf("operator %q has no infix rule in the table", lex), "")
				continue
			case lvl >= 0 && row.PrecV != lvl:
				r.bad(rule, key, fmt.Sprintf("operator %q binds at level %s, its documented peers %v at another level", lex, row.Prec, class), c.pos(row.Pos))
				continue
			}
			lvl = row.PrecV
			// associativity
			sub, subName, okSub := subLevel(row.Infix + "@" + tok)
			left := contains(spec.LeftAssoc, lex)
			switch {
			case !okSub:
				r.bad(rule, key, "cannot determine the level at which the right operand is parsed", c.pos(row.Pos))
			case left && sub != row.PrecV+1:
				r.bad(rule, key, fmt.Sprintf("right operand of %q is parsed at level %s (%d); left-associativity needs own level + 1 = %d", lex, subName, sub, row.PrecV+1), c.pos(row.Pos))
			case !left && sub != row.PrecV && sub != row.PrecV+1:
				r.bad(rule, key, fmt.Sprintf("right operand of %q is parsed at level %s (%d); must be its own level %d or one above", lex, subName, sub, row.PrecV), c.pos(row.Pos))
			default:
				r.ok(rule, key, fmt.Sprintf("level %s, right operand at %s", row.Prec, subName))
			}
			if row.PrecV > maxInfix {
				maxInfix = row.PrecV
			}
		}
		classLevel = append(classLevel, lvl)
	}
	okOrder := true
	for i := 1; i < len(classLevel); i++ {
		if classLevel[i-1] < 0 || classLevel[i] <= classLevel[i-1] {
			okOrder = false
		}
	}
	r.check(okOrder, rule, "class-order", fmt.Sprintf("levels %v strictly increasing", classLevel), fmt.Sprintf("infix classes %v have levels %v: not strictly increasing in the documented order", infixClasses, classLevel), "")
	// no other token has an infix rule
	documented := map[string]bool{}
	for _, class := range infixClasses {
		for _, lex := range class {
			documented[tokenOfLexeme(lt, lex)] = true
		}
	}
	for _, row := range rows {
		if (row.Infix != "" || row.PrecV != 0) && !documented[row.Token] {
			r.bad(rule, "infix-extra/"+row.Token, fmt.Sprintf("token %s has an infix rule or a binding level (%s) that the language definition does not give it", row.Token, row.Prec), c.pos(row.Pos))
		}
	}
	// expr(): the level at which a full expression (and a parenthesised one) is parsed
	exprLvl, exprName, okE := subLevel("expr")
	orLvl := int64(-1)
	if len(classLevel) > 0 {
		orLvl = classLevel[0]
	}
	r.check(okE && exprLvl > 0 && exprLvl < orLvl, rule, "expr-level", "expressions are parsed at "+exprName+", below 'or'", fmt.Sprintf("expr() parses at level %s (%d); must be above 'none' and below 'or' (%d)", exprName, exprLvl, orLvl), "")
	if tok := lt.OneRune["("]; tok != "" {
		row := byTok[tok]
		lvl, n, ok := subLevel(row.Prefix + "@" + tok)
		r.check(ok && lvl == exprLvl, rule, "parens-level", "parenthesised expression parsed at "+n, fmt.Sprintf("'(' parses its content at level %s; must be the full-expression level %s", n, exprName), c.pos(row.Pos))
	} else {
		r.bad(rule, "parens-level", "no token for '('", "")
	}
	// not: strictly above 'and', at most equality
	andLvl, eqLvl := int64(-1), int64(-1)
	if len(classLevel) >= 3 {
		andLvl, eqLvl = classLevel[1], classLevel[2]
	}
	if tok := lt.Keywords["not"]; tok != "" {
		row := byTok[tok]
		lvl, n, ok := subLevel(row.Prefix + "@" + tok)
		r.check(ok && row.Prefix != "" && lvl > andLvl && lvl <= eqLvl, rule, "not-level", "operand of not parsed at "+n, fmt.Sprintf("operand of 'not' is parsed at level %s (%d); must be above 'and' (%d) and not above equality (%d)", n, lvl, andLvl, eqLvl), c.pos(row.Pos))
	} else {
		r.bad(rule, "not-level", "keyword not missing", "")
	}
	for _, lex := range []string{"-", "+"} {
		tok := lt.OneRune[lex]
		row := byTok[tok]
		lvl, n, ok := subLevel(row.Prefix + "@" + tok)
		r.check(ok && row.Prefix != "" && lvl > maxInfix, rule, "unary"+lex+"-level", "operand parsed at "+n, fmt.Sprintf("operand of unary %q is parsed at level %s (%d); must be above every infix operator (%d)", lex, n, lvl, maxInfix), c.pos(row.Pos))
	}
	// canAssign := prec <= <expr level>
	_, pp := c.find("parser.parsePrecedence")
	okCA := false
	if pp != nil {
		param := c.paramObj(pp, 0)
		ast.Inspect(pp.Body, func(n ast.Node) bool {
			as, ok := n.(*ast.AssignStmt)
			if !ok || len(as.Rhs) != 1 {
				return true
			}
			be, ok := stripParens(as.Rhs[0]).(*ast.BinaryExpr)
			if !ok {
				return true
			}
			if k, isC := c.intConst(be.Y); isC && c.isObj(be.X, param) {
				if (be.Op == token.LEQ && k == exprLvl) || (be.Op == token.LSS && k == exprLvl+1) {
					okCA = true
				}
			}
			// the same comparison with the constant written first
			if k, isC := c.intConst(be.X); isC && c.isObj(be.Y, param) {
				if (be.Op == token.GEQ && k == exprLvl) || (be.Op == token.GTR && k == exprLvl+1) {
					okCA = true
				}
			}
			return true
		})
	}
	r.check(okCA, rule, "can-assign", "assignment allowed exactly when parsing at the full-expression level", "parsePrecedence must compute canAssign as prec <= the full-expression level", "")
}

func contains(ss []string, s string) bool {
	for _, x := range ss {
		if x == s {
			return true
		}
	}
	return false
}

func ruleOpMap(c *Ctx, r *Report, rule string, spec *langSpec) {
	r.rule(rule, 16, "each operator and literal keyword compiles to the documented opcode sequence on every path of its rule function")
	lt, err := c.lexTables()
	if err != nil {
		r.bad(rule, "lexer-tables", err.Error(), "")
		return
	}
	m, err := c.emitModel()
	if err != nil {
		r.bad(rule, "model", err.Error(), "")
		return
	}
	byTok := map[string]ruleRow{}
	for _, row := range m.rules {
		byTok[row.Token] = row
	}
	check := func(kind, lex, fn, tok string, want []string) {
		key := kind + "/" + lex
		e := m.Entries[fn+"@"+tok]
		if fn == "" || e == nil || len(e.Outcomes) == 0 {
			r.bad(rule, key, fmt.Sprintf("no %s rule compiles %q", kind, lex), "")
			return
		}
		for _, o := range e.Outcomes {
			ops, _ := opsOfTrace(o.Trace)
			if strings.Join(ops, " ") != strings.Join(want, " ") {
				r.bad(rule, key, fmt.Sprintf("%q compiles to [%s]; the language definition says [%s]", lex, strings.Join(ops, " "), strings.Join(want, " ")), c.pos(e.Decl.Pos()))
				return
			}
		}
		r.ok(rule, key, strings.Join(want, " "))
	}
	for _, lex := range sortedKeys(spec.BinaryOps) {
		tok := tokenOfLexeme(lt, lex)
		check("binary", lex, byTok[tok].Infix, tok, spec.BinaryOps[lex])
	}
	for _, lex := range sortedKeys(spec.UnaryOps) {
		tok := tokenOfLexeme(lt, lex)
		check("unary", lex, byTok[tok].Prefix, tok, spec.UnaryOps[lex])
	}
	for _, lex := range sortedKeys(spec.LiteralOps) {
		tok := tokenOfLexeme(lt, lex)
		check("literal", lex, byTok[tok].Prefix, tok, spec.LiteralOps[lex])
	}
}

// ruleShortCircuit: emission templates of and/or, and the VM's JFALSE / NOT.
func ruleShortCircuit(c *Ctx, r *Report, rule string) {
	r.rule(rule, 5, "and: E JFALSE->end POP E end:  or: E JFALSE->mid JUMP->end mid: POP E end:  JFALSE keeps its operand and jumps iff it is falsey; NOT replaces its operand by the same predicate")
	lt, err := c.lexTables()
	if err != nil {
		r.bad(rule, "lexer-tables", err.Error(), "")
		return
	}
	m, err := c.emitModel()
	if err != nil {
		r.bad(rule, "model", err.Error(), "")
		return
	}
	tmpl := map[string]string{
		"and": "JFALSE jump#1 POP E patch#1",
		"or":  "JFALSE jump#1 JUMP jump#2 patch#1 POP E patch#2",
	}
	for _, kw := range []string{"and", "or"} {
		tok := lt.Keywords[kw]
		var row ruleRow
		for _, rr := range m.rules {
			if rr.Token == tok {
				row = rr
			}
		}
		e := m.Entries[row.Infix+"@"+tok]
		if tok == "" || e == nil || len(e.Outcomes) == 0 {
			r.bad(rule, "template/"+kw, "no infix rule compiles '"+kw+"'", "")
			continue
		}
		ok := true
		got := ""
		for _, o := range e.Outcomes {
			var parts []string
			for _, t := range o.Trace {
				switch {
				case t == "adv", t == "semi", t == "v", t == "B", t == "H":
				case strings.HasPrefix(t, "sub:E("):
					parts = append(parts, "E")
				default:
					parts = append(parts, t)
				}
			}
			got = strings.Join(parts, " ")
			if got != tmpl[kw] {
				ok = false
			}
		}
		r.check(ok, rule, "template/"+kw, tmpl[kw], fmt.Sprintf("'%s' compiles to [%s]; the short-circuit template is [%s]", kw, got, tmpl[kw]), c.pos(e.Decl.Pos()))
	}
	vm, err := c.vmModel()
	if err != nil {
		r.bad(rule, "vm", err.Error(), "")
		return
	}
	// JFALSE
	if arm := vm.Arms["opJFALSE"]; arm != nil {
		jumpOK, stayOK, clean := false, false, true
		why := ""
		for _, p := range arm.Paths {
			if p.Abort {
				continue
			}
			d, _ := p.Delta.isConst()
			if d != 0 {
				clean = false
				why = "JFALSE changes the stack depth"
			}
			lastIf := ""
			jumped := false
			for _, ev := range p.Events {
				switch ev.Kind {
				case "if":
					if strings.Contains(ev.Detail, "isFalsey(stk(-1))") {
						lastIf = ev.Detail
					}
				case "jump":
					jumped = true
					if !strings.HasPrefix(ev.Detail, "+u16") {
						clean = false
						why = "JFALSE moves pc by " + ev.Detail + " instead of forward by its operand"
					}
				case "stk:w", "slot:w":
					clean = false
					why = "JFALSE writes the stack"
				}
			}
			switch {
			case jumped && lastIf == "callres(isFalsey(stk(-1)))=true":
				jumpOK = true
			case !jumped && lastIf == "callres(isFalsey(stk(-1)))=false":
				stayOK = true
			default:
				clean = false
				why = fmt.Sprintf("a path %s with guard %q", map[bool]string{true: "jumps", false: "falls through"}[jumped], lastIf)
			}
		}
		r.check(jumpOK && stayOK && clean, rule, "vm/JFALSE", "jumps forward by its operand iff isFalsey(top), never pops", "JFALSE: "+why, c.pos(arm.Clause.Pos()))
	} else {
		r.bad(rule, "vm/JFALSE", "no VM arm", "")
	}
	// NOT
	if arm := vm.Arms["opNOT"]; arm != nil {
		ok := false
		for _, p := range arm.Paths {
			for _, ev := range p.Events {
				if ev.Kind == "stk:w" && ev.Detail == "tos-1" && ev.Val.K == vTag && ev.Val.Tag == "callres" && ev.Val.Data == "isFalsey(stk(-1))" {
					ok = true
				}
			}
		}
		r.check(ok, rule, "vm/NOT", "top := isFalsey(top)", "NOT must replace the top of stack by isFalsey(top of stack) — the predicate JFALSE uses", c.pos(arm.Clause.Pos()))
	} else {
		r.bad(rule, "vm/NOT", "no VM arm", "")
	}
	// JUMP: unconditional, forward
	if arm := vm.Arms["opJUMP"]; arm != nil {
		ok := len(arm.Paths) > 0
		for _, p := range arm.Paths {
			if !strings.HasPrefix(p.PCJump, "+u16") {
				ok = false
			}
		}
		r.check(ok, rule, "vm/JUMP", "pc += operand on every path", "JUMP must move pc forward by its operand on every path", c.pos(arm.Clause.Pos()))
	}
}

func ruleFalsey(c *Ctx, r *Report, rule string, spec *langSpec) {
	r.rule(rule, 5, "isFalsey, interpreted once per dynamic type of its argument: bool -> !x, int -> x == 0, float64 -> x == 0, string -> x == \"\", nil -> true, anything else (a block) -> false — however the type dispatch is written")
	_, fd := c.find("isFalsey")
	if fd == nil {
		r.bad(rule, "isFalsey", "function not found", "")
		return
	}
	r.fn("isFalsey")
	type dyn struct {
		name string
		t    types.Type
	}
	blockT := types.Type(nil)
	if nt := namedType(c.Bcl, "Block"); nt != nil {
		blockT = nt
	}
	dyns := []dyn{{"bool", types.Typ[types.Bool]}, {"int", types.Typ[types.Int]}, {"float64", types.Typ[types.Float64]}, {"string", types.Typ[types.String]}, {"nil", types.Typ[types.UntypedNil]}, {"block", blockT}}
	got := map[string]string{}
	for _, d := range dyns {
		d := d
		var h Hooks
		isVal := func(v Value) bool { return v.K == vTag && v.Tag == "val" }
		h.Inline = func(fn *types.Func) bool { return fn.Pkg() != nil && fn.Pkg().Path() == bclPath }
		h.TypeCase = func(in *Interp, st *State, s *ast.TypeSwitchStmt, cc *ast.CaseClause, x Value, ts []types.Type) (Value, bool) {
			if !isVal(x) {
				return x, true
			}
			listed := func(list []ast.Expr) bool {
				for _, e := range list {
					t := c.typeOf(e)
					if d.name == "nil" {
						if isNilIdent(e) {
							return true
						}
						continue
					}
					if t != nil && d.t != nil && types.Identical(t, d.t) {
						return true
					}
				}
				return false
			}
			if cc != nil && cc.List != nil {
				return x, listed(cc.List)
			}
			// default / no clause: taken when no clause lists the type
			for _, cl := range s.Body.List {
				if listed(cl.(*ast.CaseClause).List) {
					return x, false
				}
			}
			return x, true
		}
		h.BinOp = func(l Value, op token.Token, rv Value) (Value, bool) {
			if op == token.NOT && isVal(l) {
				return tagV("res", "!x"), true
			}
			if op != token.EQL && op != token.NEQ {
				return Value{}, false
			}
			if isVal(rv) {
				l, rv = rv, l
			}
			if !isVal(l) {
				return Value{}, false
			}
			neg := ""
			if op == token.NEQ {
				neg = "!"
			}
			switch {
			case rv.K == vTag && rv.Tag == "nil":
				return constV(constant.MakeBool((d.name == "nil") == (op == token.EQL))), true
			case rv.K == vConst:
				return tagV("res", neg+"x == "+rv.C.ExactString()), true
			}
			return Value{}, false
		}
		// comma-ok assertions x.(T)
		h.DecideV = func(in *Interp, st *State, cond ast.Expr, v Value) tri {
			if v.K == vTag && v.Tag == "typeok" {
				tt := v.Data.(typeTest)
				if isVal(tt.X) && tt.T != nil && d.t != nil {
					if d.name != "nil" && types.Identical(tt.T, d.t) {
						return triTrue
					}
					return triFalse
				}
			}
			return triUnknown
		}
		in := newInterp(c, h)
		st := &State{Env: map[types.Object]Value{}}
		res := in.inlineBody(st, fd.Type, fd.Body, fd.Recv, []Value{tagV("val", d.name)})
		var outs []string
		for _, vs := range res {
			outs = append(outs, vs.v.String())
		}
		outs = dedupe(outs)
		sort.Strings(outs)
		got[d.name] = strings.Join(outs, " | ")
		if len(in.Undecided) > 0 {
			got[d.name] += " (undecided: " + strings.Join(in.Undecided, "; ") + ")"
		}
	}
	want := map[string]string{
		"bool":    "res(!x)",
		"int":     "res(x == " + spec.Falsey["int"] + ")",
		"float64": "res(x == " + spec.Falsey["float64"] + ")",
		"string":  "res(x == " + spec.Falsey["string"] + ")",
		"nil":     "true",
		"block":   "false",
	}
	if spec.Falsey["bool"] != "false" || spec.Falsey["default"] != "nil" {
		r.bad(rule, "spec", "spec/language.json: the falsey table is not the documented one", "")
	}
	for _, d := range dyns {
		key := d.name
		if key == "nil" || key == "block" {
			key = "default/" + key
		}
		g := got[d.name]
		// float zero may be spelled 0 or 0.0
		ok := g == want[d.name] || (d.name == "float64" && (g == "res(x == 0)" || g == "res(x == 0.0)"))
		r.check(ok, rule, key, "isFalsey("+d.name+") = "+g, fmt.Sprintf("for a %s argument isFalsey gives %s; documented: %s", d.name, g, want[d.name]), c.pos(fd.Pos()))
	}
}

// dynTypeCase gives a TypeCase hook and a comma-ok decision for a run in which the tagged value ("val") has the
// dynamic type named dyn ("nil" for the nil interface).
func (c *Ctx) dynTypeCase(dyn string, dt types.Type) (func(in *Interp, st *State, s *ast.TypeSwitchStmt, cc *ast.CaseClause, x Value, ts []types.Type) (Value, bool), func(in *Interp, st *State, cond ast.Expr, v Value) tri) {
	isVal := func(v Value) bool { return v.K == vTag && v.Tag == "val" }
	listed := func(list []ast.Expr) bool {
		for _, e := range list {
			if dyn == "nil" {
				if isNilIdent(e) {
					return true
				}
				continue
			}
			if t := c.typeOf(e); t != nil && dt != nil && types.Identical(t, dt) {
				return true
			}
		}
		return false
	}
	tc := func(in *Interp, st *State, s *ast.TypeSwitchStmt, cc *ast.CaseClause, x Value, ts []types.Type) (Value, bool) {
		if !isVal(x) {
			return x, true
		}
		if cc != nil && cc.List != nil {
			return x, listed(cc.List)
		}
		for _, cl := range s.Body.List {
			if listed(cl.(*ast.CaseClause).List) {
				return x, false
			}
		}
		return x, true
	}
	dv := func(in *Interp, st *State, cond ast.Expr, v Value) tri {
		if v.K == vTag && v.Tag == "typeok" {
			tt := v.Data.(typeTest)
			if isVal(tt.X) && tt.T != nil && dt != nil {
				if dyn != "nil" && types.Identical(tt.T, dt) {
					return triTrue
				}
				return triFalse
			}
		}
		return triUnknown
	}
	return tc, dv
}

// encodeStores interprets an encoder func(p []byte, v value) int with v of the given dynamic type and gives, per
// path, the constants stored at constant indexes of p ("i=v").
func (c *Ctx) encodeStores(enc *ast.FuncDecl, dyn string, dt types.Type) (paths [][]string, undecided []string) {
	var h Hooks
	h.TypeCase, h.DecideV = c.dynTypeCase(dyn, dt)
	// helpers the encoder was split into (one per type, the bool payload): followed when they are not functions of
	// the reference tree (those keep their meaning: varintToBytes, uvarintToBytes ...)
	h.Inline = func(fn *types.Func) bool {
		return fn.Pkg() != nil && fn.Pkg().Path() == bclPath && !c.isReferenceFunc(fn)
	}
	pObj := c.paramObj(enc, 0)
	type storePay struct{ stores []string }
	h.Store = func(in *Interp, st *State, lhs ast.Expr, op token.Token, v Value) bool {
		ix, ok := lhs.(*ast.IndexExpr)
		if !ok || op != token.ASSIGN {
			return false
		}
		if !c.isObj(ix.X, pObj) {
			// the buffer handed on to a helper under another name
			id, isID := stripParens(ix.X).(*ast.Ident)
			if !isID {
				return false
			}
			if bv, has := st.Env[c.objOf(id)]; !has || bv.K != vTag || bv.Tag != "encbuf" {
				return false
			}
		}
		k, isK := c.intConst(ix.Index)
		if !isK {
			return false
		}
		val := "?"
		if v.K == vConst {
			val = v.C.ExactString()
		}
		sp := st.P.(*strsPay)
		sp.items = append(sp.items, fmt.Sprintf("%d=%s", k, val))
		return true
	}
	in := newInterp(c, h)
	st := &State{Env: map[types.Object]Value{}, P: &strsPay{}}
	res := in.inlineBody(st, enc.Type, enc.Body, enc.Recv, []Value{tagV("encbuf", ""), tagV("val", dyn)})
	for _, vs := range res {
		paths = append(paths, vs.st.P.(*strsPay).items)
	}
	return paths, in.Undecided
}

type strsPay struct{ items []string }

func (p *strsPay) Clone() Payload { return &strsPay{append([]string(nil), p.items...)} }

func ruleLiterals(c *Ctx, r *Report, rule string, spec *langSpec) {
	r.rule(rule, 6, "int literals are converted by strconv.ParseInt(text, 0, 0|64) (base 0: decimal, hex, leading-zero octal), floats by ParseFloat(text, 64), strings by strconv.Unquote; the converted value is what is compiled; 0 and 1 use ZERO/ONE")
	m, err := c.emitModel()
	if err != nil {
		r.bad(rule, "model", err.Error(), "")
		return
	}
	fnOf := map[string]string{}
	for _, row := range m.rules {
		switch row.Token {
		case "tINT":
			fnOf["int"] = row.Prefix
		case "tFLOAT":
			fnOf["float"] = row.Prefix
		case "tSTR":
			fnOf["string"] = row.Prefix
		}
	}
	for _, kind := range []string{"int", "float", "string"} {
		want := spec.LitConv[kind]
		_, fd := c.find(fnOf[kind])
		if fd == nil {
			r.bad(rule, kind, "no prefix rule for "+kind+" literals", "")
			continue
		}
		r.fn(fnOf[kind])
		var conv *ast.CallExpr
		n := 0
		for _, cs := range c.callsOf(fd) {
			if strings.HasPrefix(cs.Name, "strconv.") {
				n++
				if cs.Name == want.Func {
					conv = cs.Call
				}
			}
		}
		if conv == nil || n != 1 {
			r.bad(rule, kind, fmt.Sprintf("%s literals must be converted by exactly one call of %s", kind, want.Func), c.pos(fd.Pos()))
			continue
		}
		ok := c.fieldPath(conv.Args[0]) == "<parser>.prev.val"
		why := "argument is not the literal's text p.prev.val"
		if ok && want.Base != nil {
			b, isC := c.intConst(conv.Args[1])
			if !isC || b != *want.Base {
				ok, why = false, fmt.Sprintf("base argument is %d, must be %d", b, *want.Base)
			}
		}
		if ok && len(want.Bits) > 0 {
			b, isC := c.intConst(conv.Args[len(conv.Args)-1])
			if !isC || !containsInt(want.Bits, b) {
				ok, why = false, fmt.Sprintf("bit-size argument is %d, must be one of %v", b, want.Bits)
			}
		}
		// the result is what is emitted
		if ok {
			var resObj types.Object
			ast.Inspect(fd.Body, func(nd ast.Node) bool {
				if as, isA := nd.(*ast.AssignStmt); isA && len(as.Rhs) == 1 && as.Rhs[0] == ast.Expr(conv) {
					if id, isI := as.Lhs[0].(*ast.Ident); isI {
						resObj = c.objOf(id)
					}
				}
				return true
			})
			used := false
			for _, cs := range c.callsOf(fd) {
				if cs.Name == "parser.emitConst" && len(cs.Call.Args) == 1 && c.isObj(cs.Call.Args[0], resObj) {
					used = true
				}
			}
			if !used {
				ok, why = false, "the converted value is not what emitConst receives"
			}
		}
		r.check(ok, rule, kind, want.Func, kind+" literal: "+why, c.pos(conv.Pos()))
	}
	// fast paths 0 -> ZERO, 1 -> ONE
	if _, fd := c.find(fnOf["int"]); fd != nil {
		got := map[string]string{}
		ast.Inspect(fd.Body, func(nd ast.Node) bool {
			sw, ok := nd.(*ast.SwitchStmt)
			if !ok || sw.Tag == nil {
				return true
			}
			for _, arm := range c.switchArms(sw) {
				var ops []string
				for _, s := range arm.Body {
					walkCalls(s, true, func(call *ast.CallExpr) {
						switch c.calleeName(call) {
						case "parser.emitOp":
							if v, ok := c.intConst(call.Args[0]); ok {
								ops = append(ops, strings.TrimPrefix(m.opName(v), "op"))
							}
						case "parser.emitConst":
							ops = append(ops, "CONST")
						}
					})
				}
				if arm.Default {
					got["default"] = strings.Join(ops, " ")
				}
				for _, v := range arm.Vals {
					if v != nil {
						got[v.ExactString()] = strings.Join(ops, " ")
					}
				}
			}
			return true
		})
		for k, want := range spec.IntFast {
			r.check(got[k] == want, rule, "int-fast/"+k, want, fmt.Sprintf("int literal %s compiles to [%s], documented fast path is %s", k, got[k], want), c.pos(fd.Pos()))
		}
		r.check(got["default"] == "CONST", rule, "int-fast/other", "CONST", "other int literals must compile to CONST", c.pos(fd.Pos()))
		for k := range got {
			if _, ok := spec.IntFast[k]; !ok && k != "default" {
				r.bad(rule, "int-fast/"+k, "undocumented fast path for int literal "+k, c.pos(fd.Pos()))
			}
		}
	}
}

func containsInt(xs []int64, x int64) bool {
	for _, v := range xs {
		if v == x {
			return true
		}
	}
	return false
}

// ruleConstPush: the literal opcodes push the documented constants.
func ruleConstPush(c *Ctx, r *Report, rule string) {
	r.rule(rule, 7, "ZERO/ONE/TRUE/FALSE/NIL push int 0, int 1, true, false, nil; CONST pushes the indexed constant; PRINT writes the popped value with fmt.Fprintln to the program's output")
	vm, err := c.vmModel()
	if err != nil {
		r.bad(rule, "vm", err.Error(), "")
		return
	}
	want := map[string]string{"opZERO": "0:int", "opONE": "1:int", "opTRUE": "true:bool", "opFALSE": "false:bool", "opNIL": "nil"}
	for _, op := range sortedKeys(want) {
		arm := vm.Arms[op]
		if arm == nil {
			r.bad(rule, op, "no VM arm", "")
			continue
		}
		ok := false
		got := "?"
		for _, p := range arm.Paths {
			if p.Abort {
				continue
			}
			for _, ev := range p.Events {
				if ev.Kind == "stk:w" && ev.Detail == "tos+0" {
					switch {
					case ev.Val.K == vConst:
						t := "?"
						if ev.Val.T != nil {
							t = types.TypeString(ev.Val.T, nil)
						}
						got = ev.Val.C.ExactString() + ":" + t
					case ev.Val.K == vTag && ev.Val.Tag == "nil":
						got = "nil"
					default:
						got = ev.Val.String()
					}
					ok = got == want[op]
				}
			}
		}
		r.check(ok, rule, strings.TrimPrefix(op, "op"), "pushes "+want[op], fmt.Sprintf("%s pushes %s, documented %s", op, got, want[op]), c.pos(arm.Clause.Pos()))
	}
	if arm := vm.Arms["opCONST"]; arm != nil {
		ok := false
		for _, p := range arm.Paths {
			for _, ev := range p.Events {
				if ev.Kind == "stk:w" && ev.Detail == "tos+0" && ev.Val.K == vTag && ev.Val.Tag == "constant" {
					ok = true
				}
			}
		}
		r.check(ok, rule, "CONST", "pushes constants[operand]", "CONST must push the constant indexed by its operand", c.pos(arm.Clause.Pos()))
	}
	if arm := vm.Arms["opPRINT"]; arm != nil {
		ok := false
		for _, p := range arm.Paths {
			for _, ev := range p.Events {
				if ev.Kind == "call" && ev.Callee == "fmt.Fprintln" && len(ev.Paths) == 2 && ev.Paths[0] == "<vm>.output" && len(ev.Args) == 2 &&
					ev.Args[1].K == vList && len(ev.Args[1].Tup) == 1 && ev.Args[1].Tup[0].K == vTag && ev.Args[1].Tup[0].Tag == "stk" {
					ok = true
				}
			}
		}
		r.check(ok, rule, "PRINT", "fmt.Fprintln(vm.output, pop())", "PRINT must write exactly the popped value with fmt.Fprintln to vm.output", c.pos(arm.Clause.Pos()))
	}
}

var delegSides = map[string][]func(ast.Expr) string{}

// ruleArithMap: operator opcodes map to the Go operators, operands in order.
func ruleArithMap(c *Ctx, r *Report, rule string) {
	r.rule(rule, 10, "in binopNumeric/binopString/unopNumeric — and in the helper tables they hand their operands to — every `case opX` returns (left ⊕ right) with ⊕ the Go operator of X and the operands in (a, b) order, ints promoted with float64(); the VM passes (second-from-top, top) as (a, b)")
	want := map[string]token.Token{"opEQ": token.EQL, "opLT": token.LSS, "opGT": token.GTR, "opADD": token.ADD, "opSUB": token.SUB, "opMUL": token.MUL, "opDIV": token.QUO}
	ops := constsOfType(c.Bcl, "opcode")
	type workItem struct {
		name string
		fd   *ast.FuncDecl
	}
	var work []workItem
	queued := map[*ast.FuncDecl]bool{}
	for _, fnName := range []string{"binopNumeric", "binopString", "unopNumeric"} {
		_, fd := c.find(fnName)
		if fd == nil {
			r.bad(rule, fnName, "function not found", "")
			continue
		}
		work = append(work, workItem{fnName, fd})
		queued[fd] = true
	}
	hasOpSwitch := func(fd *ast.FuncDecl) bool {
		found := false
		ast.Inspect(fd.Body, func(n ast.Node) bool {
			if sw, ok := n.(*ast.SwitchStmt); ok && sw.Tag != nil && isNamed(c.typeOf(sw.Tag), bclPath, "opcode") {
				found = true
			}
			return !found
		})
		return found
	}
	for wi := 0; wi < len(work); wi++ {
		fnName, fd := work[wi].name, work[wi].fd
		r.fn(fnName)
		// side of each variable: "a" or "b"
		side := map[types.Object]string{}
		params := []types.Object{}
		for i := 0; ; i++ {
			o := c.paramObj(fd, i)
			if o == nil {
				break
			}
			params = append(params, o)
		}
		// params: (op, a, b) or (op, a)
		if len(params) >= 2 {
			side[params[1]] = "a"
		}
		if len(params) >= 3 {
			side[params[2]] = "b"
		}
		info := c.infoFor(fd)
		var sideOf func(e ast.Expr) string
		sideOf = func(e ast.Expr) string {
			e = c.stripConv(e)
			switch e := e.(type) {
			case *ast.Ident:
				return side[c.objOf(e)]
			case *ast.TypeAssertExpr:
				return sideOf(e.X)
			}
			return ""
		}
		// propagate through type switches and assignments until stable
		for iter := 0; iter < 4; iter++ {
			ast.Inspect(fd.Body, func(n ast.Node) bool {
				switch n := n.(type) {
				case *ast.TypeSwitchStmt:
					if as, ok := n.Assign.(*ast.AssignStmt); ok && len(as.Rhs) == 1 {
						s := sideOf(as.Rhs[0])
						for _, cl := range n.Body.List {
							if obj := info.Implicits[cl]; obj != nil && s != "" {
								side[obj] = s
							}
						}
					}
				case *ast.AssignStmt:
					for i, l := range n.Lhs {
						if id, ok := l.(*ast.Ident); ok && i < len(n.Rhs) {
							if s := sideOf(n.Rhs[i]); s != "" {
								side[c.objOf(id)] = s
							}
						}
					}
				}
				return true
			})
		}
		delegSides[fnName] = []func(ast.Expr) string{sideOf, sideOf}
		count := 0
		ast.Inspect(fd.Body, func(n ast.Node) bool {
			sw, ok := n.(*ast.SwitchStmt)
			if !ok || sw.Tag == nil || !isNamed(c.typeOf(sw.Tag), bclPath, "opcode") {
				return true
			}
			for _, arm := range c.switchArms(sw) {
				for _, v := range arm.Vals {
					if v == nil {
						continue
					}
					count++
					opv, _ := c.intConst(arm.Exprs[0])
					_ = opv
					iv, _ := c.intConst(arm.Clause.List[0])
					name := constNameOf(ops, iv)
					key := fmt.Sprintf("%s/%s@%s", fnName, strings.TrimPrefix(name, "op"), c.pos(arm.Clause.Pos()))
					key = fmt.Sprintf("%s/%s#%d", fnName, strings.TrimPrefix(name, "op"), count)
					if len(arm.Body) != 1 {
						r.bad(rule, key, "case body is not a single return", c.pos(arm.Clause.Pos()))
						continue
					}
					rs, ok := arm.Body[0].(*ast.ReturnStmt)
					if !ok || len(rs.Results) != 1 {
						r.bad(rule, key, "case body is not a single return", c.pos(arm.Clause.Pos()))
						continue
					}
					switch e := stripParens(rs.Results[0]).(type) {
					case *ast.BinaryExpr:
						w, known := want[name]
						okk := known && e.Op == w && sideOf(e.X) == "a" && sideOf(e.Y) == "b"
						r.check(okk, rule, key, "a "+e.Op.String()+" b", fmt.Sprintf("case %s returns (%s-side %s %s-side); must be a %s b", name, sideOf(e.X), e.Op, sideOf(e.Y), w), c.pos(rs.Pos()))
					case *ast.UnaryExpr:
						okk := name == "opNEG" && e.Op == token.SUB && sideOf(e.X) == "a"
						r.check(okk, rule, key, "-a", fmt.Sprintf("case %s returns %s(%s-side); must be -a", name, e.Op, sideOf(e.X)), c.pos(rs.Pos()))
					default:
						r.bad(rule, key, "case returns an expression the checker does not recognise", c.pos(rs.Pos()))
					}
				}
			}
			return true
		})
		// helper tables: a function of the module with an operator switch of its own, handed (op, a, b)
		nh := 0
		walkCalls(fd.Body, false, func(call *ast.CallExpr) {
			fn, ok := c.callee(call).(*types.Func)
			if !ok || fn.Pkg() == nil || fn.Pkg().Path() != bclPath {
				return
			}
			if o := fn.Origin(); o != nil {
				fn = o
			}
			hd := c.funcDecls[fn]
			if hd == nil || hd == fd || hd.Body == nil || !hasOpSwitch(hd) {
				return
			}
			nh++
			okc := len(call.Args) >= 2 && c.isObj(call.Args[0], c.paramObj(fd, 0))
			for i := 1; i < len(call.Args) && okc; i++ {
				if i == 2 {
					// the zero a non-numeric right operand is taken as (the reference's `var cb float64` left unset)
					if k := c.constOf(call.Args[i]); k != nil && constant.Sign(k) == 0 {
						continue
					}
				}
				if i > 2 || sideOf(call.Args[i]) != []string{"a", "b"}[i-1] {
					okc = false
				}
			}
			r.check(okc, rule, fmt.Sprintf("%s/helper#%d", fnName, nh), "same operator, operands in (a, b) order", fnName+" hands its operands to "+fn.Name()+" with a changed operator or swapped operands", c.pos(call.Pos()))
			if !queued[hd] {
				queued[hd] = true
				work = append(work, workItem{fn.Name(), hd})
			}
		})
	}
	// a branch that delegates to the function itself (e.g. int op float -> float op float) must keep operator and operand order
	for _, fnName := range []string{"binopNumeric", "binopString", "unopNumeric"} {
		_, fd := c.find(fnName)
		if fd == nil {
			continue
		}
		n := 0
		walkCalls(fd.Body, false, func(call *ast.CallExpr) {
			if c.calleeName(call) != fnName {
				return
			}
			n++
			ok := len(call.Args) >= 2 && c.isObj(call.Args[0], c.paramObj(fd, 0))
			sides := delegSides[fnName]
			for i := 1; i < len(call.Args) && ok; i++ {
				if i-1 >= len(sides) || sides[i-1](call.Args[i]) != []string{"a", "b"}[i-1] {
					ok = false
				}
			}
			r.check(ok, rule, fmt.Sprintf("%s/delegation#%d", fnName, n), "same operator, operands in (a, b) order", fnName+" delegates to itself with a changed operator or swapped operands", c.pos(call.Pos()))
		})
	}
	// the VM's argument order
	vm, err := c.vmModel()
	if err != nil {
		r.bad(rule, "vm", err.Error(), "")
		return
	}
	for _, op := range []string{"opEQ", "opLT", "opGT", "opADD", "opSUB", "opMUL", "opDIV"} {
		arm := vm.Arms[op]
		if arm == nil {
			continue
		}
		found, ok := 0, true
		for _, p := range arm.Paths {
			for _, ev := range p.Events {
				if ev.Kind == "call" && (ev.Callee == "binopNumeric" || ev.Callee == "binopString") && len(ev.Args) == 3 {
					found++
					a, b := ev.Args[1], ev.Args[2]
					if !(a.K == vTag && a.Tag == "stk" && a.Data == int64(-2) && b.K == vTag && b.Tag == "stk" && b.Data == int64(-1)) {
						ok = false
					}
					if ev.Args[0].K != vConst {
						ok = false
					}
				}
			}
		}
		r.check(found > 0 && ok, rule, "vm-order/"+strings.TrimPrefix(op, "op"), "(second-from-top, top)", "the VM must pass the operator, the second-from-top value as a and the top value as b", c.pos(arm.Clause.Pos()))
	}
	_ = sort.Strings
}

// ruleCoercion: the mixed string cells of + and *.
func ruleCoercion(c *Ctx, r *Report, rule string) {
	r.rule(rule, 4, "string + int appends strconv.Itoa(int); string + float appends strconv.FormatFloat(f, 'f', -1, 64); string + nil leaves the string; string * int is strings.Repeat(string, int); the left operand is the second-from-top value")
	vm, err := c.vmModel()
	if err != nil {
		r.bad(rule, "vm", err.Error(), "")
		return
	}
	find := func(op string, guardA, guardB string) (vals []string, deltas []string, n int) {
		arm := vm.Arms[op]
		if arm == nil {
			return
		}
		for _, p := range arm.Paths {
			if p.Abort {
				continue
			}
			ga, gb := false, false
			for _, ev := range p.Events {
				if ev.Kind == "if" && ev.Detail == guardA+"=true" {
					ga = true
				}
				if ev.Kind == "if" && ev.Detail == guardB+"=true" {
					gb = true
				}
			}
			if !ga || !gb {
				continue
			}
			n++
			w := "-"
			for _, ev := range p.Events {
				if ev.Kind == "stk:w" {
					w = ev.Detail + "=" + ev.Val.String()
				}
			}
			vals = append(vals, w)
			deltas = append(deltas, p.Delta.String())
		}
		return
	}
	type cell struct{ key, op, ga, gb, want string }
	cells := []cell{
		{"string+int", "opADD", "callres(isString(stk(-2)))", "callres(isInt(stk(-1)))", "tos-2=binop(stk(-2) + callres(strconv.Itoa(stk(-1))))"},
		{"string+float", "opADD", "callres(isString(stk(-2)))", "callres(isFloat(stk(-1)))", "tos-2=binop(stk(-2) + callres(strconv.FormatFloat(stk(-1), 102, -1, 64)))"},
		{"string+nil", "opADD", "callres(isString(stk(-2)))", "stk(-1) == nil(<nil>)", "-"},
		{"string*int", "opMUL", "callres(isString(stk(-2)))", "callres(isInt(stk(-1)))", "tos-2=callres(strings.Repeat(stk(-2), stk(-1)))"},
	}
	for _, cl := range cells {
		vals, deltas, n := find(cl.op, cl.ga, cl.gb)
		ok := n > 0
		got := ""
		for i, v := range vals {
			got = v
			same := v == cl.want
			if cl.want == "-" && v == "tos-2=stk(-2)" {
				same = true // the left operand written back into its own cell: the string is left as it is
			}
			if !same || deltas[i] != "-1" {
				ok = false
			}
		}
		pos := ""
		if arm := vm.Arms[cl.op]; arm != nil && arm.Clause != nil {
			pos = c.pos(arm.Clause.Pos())
		}
		r.check(ok, rule, cl.key, cl.want, fmt.Sprintf("%s: the result is %q on %d paths; documented: %q (and exactly one value consumed)", cl.key, got, n, cl.want), pos)
	}
}

func checkC01(c *Ctx, r *Report) {
	spec, err := loadLangSpec()
	if err != nil {
		r.bad("spec", "language.json", err.Error(), "")
		return
	}
	rulePrecOrder(c, r, "prec-order", spec)
	ruleOpMap(c, r, "op-map", spec)
	ruleLiterals(c, r, "literals", spec)
	ruleShortCircuit(c, r, "short-circuit")
	ruleFalsey(c, r, "falsey", spec)
	ruleArithMap(c, r, "arith-map")
	ruleConstPush(c, r, "const-push")
	r.rule("operand-emission", 6, "the emission primitives write what the VM decodes: emitOp one opcode byte, emitUvarint exactly the bytes uvarintToBytes produced for the operand (a slot, a constant index, a count), emitBytes each byte once: an operand emitted in another form names another slot or constant")
	checkEmitPrimitives(c, r, "operand-emission")
	ruleDivZero(c, r, "div-zero", true)
	ruleCoercion(c, r, "coercion")
	ruleStringOpaque(c, r, "string-literal-scan")
	ruleTokenTables(c, r, "token-tables", spec)
	ruleVMEffect(c, r, "vm-effect", true)
	r.note("the value of any compound expression; the full (operator x type x type) dispatch matrix beyond operand order and the four string coercion cells (the suite pins the cells at depth one)")
	r.assume("assumption A (no diagnostic raised) for the emission templates")
}

// ruleDivZero: the numeric division is reached only past the documented
// "int zero divisor" error check, which depends on the divisor alone.
func ruleDivZero(c *Ctx, r *Report, rule string, strict bool) {
	r.rule(rule, 1, "in the DIV arm every path that performs the numeric operation has passed isInt(top)=false or top==0 =false: division by an int zero is a runtime error whatever the dividend, and Go's integer division is never reached with a zero divisor")
	vm, err := c.vmModel()
	if err != nil {
		r.bad(rule, "vm", err.Error(), "")
		return
	}
	// DIV, and every other opcode under whose case the arithmetic helper divides integers (a remainder operator, say)
	ops := []string{"opDIV"}
	for _, op := range c.delegatedDivOps() {
		if op != "opDIV" {
			ops = append(ops, op)
		}
	}
	for _, opName := range ops {
		c.divZeroArm(r, rule, strict, vm, opName)
	}
}

func (c *Ctx) divZeroArm(r *Report, rule string, strict bool, vm *vmModel, opName string) {
	short := strings.TrimPrefix(opName, "op")
	arm := vm.Arms[opName]
	if arm == nil {
		r.bad(rule, short, "no VM arm", "")
		return
	}
	calls, bad := 0, ""
	errPath := false
	for _, p := range arm.Paths {
		passed := false
		zeroTrue, intTrue := false, false
		for _, ev := range p.Events {
			if ev.Kind == "if" {
				switch ev.Detail {
				case "callres(isInt(stk(-1)))=false", "stk(-1) == 0=false", "0 == stk(-1)=false", "stk(-1) != 0=true":
					passed = true
				case "callres(isInt(stk(-2)))=false":
					// a non-int dividend means floating-point division: no panic, but not the documented error either
					if !strict {
						passed = true
					}
				case "callres(isInt(stk(-1)))=true":
					intTrue = true
				case "stk(-1) == 0=true", "0 == stk(-1)=true", "stk(-1) != 0=false":
					zeroTrue = true
				}
			}
			if ev.Kind == "call" && ev.Callee == "binopNumeric" {
				calls++
				if !passed {
					var ds []string
					for _, e2 := range p.Events {
						if e2.Kind == "if" {
							ds = append(ds, e2.Detail)
						}
					}
					bad = fmt.Sprintf("a path reaches the numeric division after only these decisions: %v", ds)
				}
			}
		}
		if p.Abort && zeroTrue && (intTrue || !strict) {
			errPath = true
		}
	}
	r.check(calls > 0 && bad == "" && errPath, rule, short, "the division is dominated by the int-zero-divisor check on the divisor alone", short+": "+bad+map[bool]string{true: "", false: " (no error path for an int zero divisor)"}[errPath], c.pos(arm.Clause.Pos()))
}

// delegatedDivOps: the opcodes under whose `case` a function of divDelegated
// performs an integer division or remainder by a non-constant.
func (c *Ctx) delegatedDivOps() []string {
	ops := constsOfType(c.Bcl, "opcode")
	seen := map[string]bool{}
	var out []string
	for name := range divDelegated {
		_, fd := c.find(name)
		if fd == nil || fd.Body == nil {
			continue
		}
		pm := parentMap(fd.Body)
		ast.Inspect(fd.Body, func(n ast.Node) bool {
			be, ok := n.(*ast.BinaryExpr)
			if !ok || (be.Op != token.QUO && be.Op != token.REM) {
				return true
			}
			t := c.typeOf(be.Y)
			if t == nil {
				return true
			}
			if b, ok := t.Underlying().(*types.Basic); !ok || b.Info()&types.IsInteger == 0 {
				return true
			}
			if c.constOf(be.Y) != nil {
				return true
			}
			found := false
			for p := pm[ast.Node(be)]; p != nil; p = pm[p] {
				cc, ok := p.(*ast.CaseClause)
				if !ok {
					continue
				}
				for _, e := range cc.List {
					if v, isC := c.intConst(e); isC && isNamed(c.typeOf(e), bclPath, "opcode") {
						nm := constNameOf(ops, v)
						found = true
						if !seen[nm] {
							seen[nm] = true
							out = append(out, nm)
						}
					}
				}
				if found {
					break
				}
			}
			if !found && !seen["?"] {
				seen["?"] = true
				out = append(out, "?"+c.pos(be.Pos()))
			}
			return true
		})
	}
	sort.Strings(out)
	return out
}
