package main

// A model of the emission primitives (emitOp, emitByte, emitBytes, emitUvarint), used when their bodies are not
// written in the one shape the syntactic rule reads (a primitive expressed through another, a helper taking the
// opcode and its operand). The primitive is interpreted with its parameter as a symbol; Prog.write and the varint
// encoder are the only opaque calls. What comes out is the list of writes:
//
//	w(param)            one byte, the parameter itself, at p.prev.pos
//	each(param):w(elem) every element of the (variadic) parameter, in order
//	enc(param)>buf ; each(buf[:n]):w(elem)   the varint image of the parameter, exactly its n bytes

import (
	"fmt"
	"go/ast"
	"go/token"
	"go/types"
	"strings"
)

type emitPrimPay struct {
	ev       []string
	problems []string
}

func (p *emitPrimPay) Clone() Payload {
	q := *p
	q.ev = append([]string(nil), p.ev...)
	q.problems = append([]string(nil), p.problems...)
	return &q
}

// emitPrimWrites interprets fd; every path's event list is returned.
func (c *Ctx) emitPrimWrites(fd *ast.FuncDecl) (paths []string, undecided []string) {
	pay := func(st *State) *emitPrimPay { return st.P.(*emitPrimPay) }
	isTag := func(v Value, t string) bool { return v.K == vTag && v.Tag == t }
	desc := func(v Value) string {
		switch {
		case isTag(v, "param"), isTag(v, "elem"), isTag(v, "buf"), isTag(v, "bufslice"):
			return v.Tag + "(" + fmt.Sprint(v.Data) + ")"
		case v.K == vConst:
			return "const:" + v.C.ExactString()
		}
		return "?" + v.String()
	}
	var h Hooks
	h.SameEffect = func(a, b *State) bool { return false }
	h.Inline = func(fn *types.Func) bool {
		if fn.Pkg() == nil || fn.Pkg().Path() != bclPath {
			return false
		}
		switch funcName(fn) {
		case "Prog.write", "uvarintToBytes", "parser.currentProg":
			return false
		}
		return true
	}
	h.Load = func(in *Interp, st *State, e ast.Expr) (Value, bool) {
		if c.fieldPath(e) == "<parser>.prev.pos" {
			return tagV("prevpos", ""), true
		}
		return Value{}, false
	}
	h.Slice = func(in *Interp, st *State, e *ast.SliceExpr, x Value, lo, hi *Value) (Value, bool) {
		// buf[:] and buf[:n]
		if id, ok := stripParens(e.X).(*ast.Ident); ok && lo == nil {
			if arr, isA := c.typeOf(id).Underlying().(*types.Array); isA {
				if hi == nil {
					return tagV("buf", fmt.Sprintf("%s/%d", id.Name, arr.Len())), true
				}
				if isTag(*hi, "enclen") {
					return tagV("bufslice", fmt.Sprintf("%s[:%s]", id.Name, hi.Data)), true
				}
				return tagV("bufslice", fmt.Sprintf("%s[:?%s]", id.Name, hi.String())), true
			}
		}
		return Value{}, false
	}
	h.Call = func(in *Interp, st *State, call *ast.CallExpr, callee types.Object, args []Value) ([]valState, bool) {
		p := pay(st)
		if tv, ok := c.infoFor(call).Types[call.Fun]; ok && tv.IsType() && len(args) == 1 {
			return one(st, args[0]), true // conversions keep the value
		}
		switch qname(callee) {
		case "Prog.write":
			if len(args) == 2 {
				at := "elsewhere"
				if isTag(args[1], "prevpos") {
					at = "prevpos"
				}
				p.ev = append(p.ev, "w("+desc(args[0])+")@"+at)
			}
			return one(st, unknownV()), true
		case "uvarintToBytes":
			if len(args) == 2 && isTag(args[0], "buf") {
				p.ev = append(p.ev, "enc("+desc(args[1])+")>"+fmt.Sprint(args[0].Data))
				name := strings.SplitN(fmt.Sprint(args[0].Data), "/", 2)[0]
				return one(st, tagV("enclen", "n("+name+")")), true
			}
			p.problems = append(p.problems, c.pos(call.Pos())+": the varint encoder is not given a whole local array")
			return one(st, unknownV()), true
		case "parser.currentProg":
			return one(st, unknownV()), true
		}
		return nil, false
	}
	h.Index = func(in *Interp, st *State, e *ast.IndexExpr, x, i Value) (Value, bool) {
		// b[i] inside the counted loop over the encoded bytes of b
		if id, ok := stripParens(e.X).(*ast.Ident); ok && isTag(i, "bufidx") && fmt.Sprint(i.Data) == id.Name {
			if _, isA := c.typeOf(id).Underlying().(*types.Array); isA {
				return tagV("elem", fmt.Sprintf("bufslice(%s[:n(%s)])", id.Name, id.Name)), true
			}
		}
		return Value{}, false
	}
	h.Loop = func(in *Interp, st *State, loop ast.Stmt, body func(*State) []*State) ([]*State, bool) {
		if fs, isFor := loop.(*ast.ForStmt); isFor {
			// for i := 0; i < n; i++ { … b[i] … } with n the encoded length of b: each byte of b[:n] once, in order
			iv, bound, ok := c.countedLoop(fs)
			if !ok {
				return nil, false
			}
			bv := in.eval(st, bound)
			if len(bv) != 1 || !isTag(bv[0].v, "enclen") {
				return nil, false
			}
			st = bv[0].st
			name := strings.TrimSuffix(strings.TrimPrefix(fmt.Sprint(bv[0].v.Data), "n("), ")")
			x := tagV("bufslice", fmt.Sprintf("%s[:%s]", name, bv[0].v.Data))
			it := st.clone()
			it.Env[iv] = tagV("bufidx", name)
			n0 := len(pay(it).ev)
			np := len(pay(it).problems)
			res := body(it)
			if len(res) != 1 || (res[0].Term != tNone && res[0].Term != tContinue) {
				pay(st).problems = append(pay(st).problems, c.pos(loop.Pos())+": the loop over the bytes branches or leaves early")
				return []*State{st}, true
			}
			for _, e := range pay(res[0]).ev[n0:] {
				pay(st).ev = append(pay(st).ev, "each("+desc(x)+"):"+e)
			}
			pay(st).problems = append(pay(st).problems, pay(res[0]).problems[np:]...)
			return []*State{st}, true
		}
		rs, ok := loop.(*ast.RangeStmt)
		if !ok || rs.Value == nil {
			return nil, false
		}
		xv := in.eval(st, rs.X)
		if len(xv) != 1 {
			return nil, false
		}
		st = xv[0].st
		x := xv[0].v
		if !(isTag(x, "param") || isTag(x, "bufslice")) {
			return nil, false
		}
		it := st.clone()
		in.store(it, rs.Value, token.ASSIGN, tagV("elem", desc(x)))
		if rs.Key != nil {
			in.store(it, rs.Key, token.ASSIGN, unknownV())
		}
		n0 := len(pay(it).ev)
		res := body(it)
		if len(res) != 1 || (res[0].Term != tNone && res[0].Term != tContinue) {
			pay(st).problems = append(pay(st).problems, c.pos(loop.Pos())+": the loop over the bytes branches or leaves early")
			return []*State{st}, true
		}
		for _, e := range pay(res[0]).ev[n0:] {
			pay(st).ev = append(pay(st).ev, "each("+desc(x)+"):"+e)
		}
		pay(st).problems = append(pay(st).problems, pay(res[0]).problems[len(pay(it).problems):]...)
		return []*State{st}, true
	}
	in := newInterp(c, h)
	st := &State{Env: map[types.Object]Value{}, P: &emitPrimPay{}}
	var args []Value
	if fd.Type.Params != nil {
		k := 0
		for _, f := range fd.Type.Params.List {
			for range f.Names {
				args = append(args, tagV("param", k))
				k++
			}
		}
	}
	for _, r := range in.inlineBody(st, fd.Type, fd.Body, fd.Recv, args) {
		p := pay(r.st)
		s := strings.Join(p.ev, " ; ")
		if len(p.problems) > 0 {
			s += " !! " + strings.Join(p.problems, "; ")
		}
		paths = append(paths, s)
	}
	return paths, in.Undecided
}

// emitPrimOK: every path of the primitive is exactly `want` (bufName/len patterns resolved by the caller).
func (c *Ctx) emitPrimOK(fd *ast.FuncDecl, accept func(path string) bool) (bool, string) {
	paths, und := c.emitPrimWrites(fd)
	if len(und) > 0 {
		return false, strings.Join(und, "; ")
	}
	if len(paths) == 0 {
		return false, "no path"
	}
	for _, p := range paths {
		if !accept(p) {
			return false, p
		}
	}
	return true, paths[0]
}

// countedLoop: `for i := 0; i < bound; i++ {…}` with i not assigned in the body.
func (c *Ctx) countedLoop(fs *ast.ForStmt) (iv types.Object, bound ast.Expr, ok bool) {
	as, isA := fs.Init.(*ast.AssignStmt)
	if !isA || as.Tok != token.DEFINE || len(as.Lhs) != 1 || len(as.Rhs) != 1 {
		return nil, nil, false
	}
	id, isID := as.Lhs[0].(*ast.Ident)
	if k, isK := c.intConst(as.Rhs[0]); !isID || !isK || k != 0 {
		return nil, nil, false
	}
	iv = c.objOf(id)
	be, isB := stripParens(fs.Cond).(*ast.BinaryExpr)
	if !isB || be.Op != token.LSS || !c.isObj(be.X, iv) {
		return nil, nil, false
	}
	inc, isI := fs.Post.(*ast.IncDecStmt)
	if !isI || inc.Tok != token.INC || !c.isObj(inc.X, iv) {
		return nil, nil, false
	}
	written := false
	ast.Inspect(fs.Body, func(n ast.Node) bool {
		switch x := n.(type) {
		case *ast.AssignStmt:
			for _, l := range x.Lhs {
				if c.isObj(l, iv) {
					written = true
				}
			}
		case *ast.IncDecStmt:
			if c.isObj(x.X, iv) {
				written = true
			}
		case *ast.UnaryExpr:
			if x.Op == token.AND && c.isObj(x.X, iv) {
				written = true
			}
		}
		return true
	})
	return iv, be.Y, !written
}
