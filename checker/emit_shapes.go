package main

import (
	"fmt"
	"go/ast"
	"go/constant"
	"go/token"
	"go/types"
	"strings"
)

// runPopN interprets popN with a constant count and renders what it emits.
func (m *emitModel) runPopN(fd *ast.FuncDecl, n int64) (string, []string) {
	saved := emitPrims["parser.popN"]
	delete(emitPrims, "parser.popN")
	m.inPopN = true
	defer func() { emitPrims["parser.popN"] = saved; m.inPopN = false }()
	in := newInterp(m.c, m.hooks())
	pay := &emPay{base: linSym("d0"), d: linSym("d0").add(linConst(100)), L: linSym("L0"), prevTyp: unknownV(), emitted: map[string]bool{}}
	st := &State{Env: map[types.Object]Value{}, P: pay}
	res := in.inlineBody(st, fd.Type, fd.Body, fd.Recv, []Value{constV(constant.MakeInt64(n))})
	if len(res) != 1 {
		return "", []string{fmt.Sprintf("%d paths for a constant count", len(res))}
	}
	p := res[0].st.P.(*emPay)
	var parts []string
	k := 0
	for _, t := range p.trace {
		if t == "v" || t == "B" || t == "H" {
			prov := "?"
			if k < len(p.operands) {
				prov = p.operands[k].Prov
				k++
			}
			parts = append(parts, t+"<-"+strings.Replace(prov, "count:", "const:", 1))
			continue
		}
		parts = append(parts, t)
	}
	probs := append([]string(nil), p.problems...)
	probs = append(probs, in.Undecided...)
	if p.pendShape != "" {
		probs = append(probs, "instruction left without its operand")
	}
	return strings.Join(parts, " "), probs
}

// endScopeShape checks the data-structure side of scope exit by a small
// linear analysis: with L0 the local count on entry and t the (symbolic)
// number of loop iterations, every integer variable and scope.localCount is
// a linear form in L0 and t. Required: scope.depth is decremented once,
// first; the one loop walks a cursor that starts at localCount down by one
// per iteration under the guard cursor > 0 && locals[cursor-1].depth >
// scope.depth; at the end localCount equals the cursor and popN receives
// exactly L0 - localCount.
func (c *Ctx) endScopeShape(fd *ast.FuncDecl) (bool, string) {
	isLC := func(e ast.Expr) bool { return strings.HasSuffix(c.fieldPath(e), ".localCount") }
	isDepth := func(e ast.Expr) bool {
		fp := c.fieldPath(e)
		return strings.HasSuffix(fp, ".depth") && !strings.Contains(fp, "locals")
	}
	env := map[types.Object]*Lin{}
	L := linSym("L0")
	var eval func(e ast.Expr) (*Lin, bool)
	eval = func(e ast.Expr) (*Lin, bool) {
		e = c.stripConv(e)
		if k, ok := c.intConst(e); ok {
			return linConst(k), true
		}
		if isLC(e) {
			return L, true
		}
		switch x := e.(type) {
		case *ast.Ident:
			if v, ok := env[c.objOf(x)]; ok {
				return v, true
			}
		case *ast.BinaryExpr:
			a, ok1 := eval(x.X)
			b, ok2 := eval(x.Y)
			if ok1 && ok2 {
				switch x.Op {
				case token.ADD:
					return a.add(b), true
				case token.SUB:
					return a.sub(b), true
				}
			}
		}
		return nil, false
	}
	// assign applies  target op= delta  outside a loop (scale 1) or per iteration (scale t)
	type upd struct {
		lc  bool
		obj types.Object
		d   *Lin
	}
	stepOf := func(s ast.Stmt) (upd, bool) {
		switch s := s.(type) {
		case *ast.IncDecStmt:
			d := linConst(1)
			if s.Tok == token.DEC {
				d = linConst(-1)
			}
			if isLC(s.X) {
				return upd{lc: true, d: d}, true
			}
			if id, ok := stripParens(s.X).(*ast.Ident); ok {
				if _, tracked := env[c.objOf(id)]; tracked {
					return upd{obj: c.objOf(id), d: d}, true
				}
			}
		case *ast.AssignStmt:
			if len(s.Lhs) == 1 && len(s.Rhs) == 1 && (s.Tok == token.ADD_ASSIGN || s.Tok == token.SUB_ASSIGN) {
				k, isC := c.intConst(s.Rhs[0])
				if !isC {
					return upd{}, false
				}
				if s.Tok == token.SUB_ASSIGN {
					k = -k
				}
				if isLC(s.Lhs[0]) {
					return upd{lc: true, d: linConst(k)}, true
				}
				if id, ok := stripParens(s.Lhs[0]).(*ast.Ident); ok {
					if _, tracked := env[c.objOf(id)]; tracked {
						return upd{obj: c.objOf(id), d: linConst(k)}, true
					}
				}
			}
		}
		return upd{}, false
	}
	depthDec, loops, pops := 0, 0, 0
	var popArg, cursorEnd *Lin
	bodyList := c.expandedStmts(fd)
	// the named integer results of the scope methods spliced in start at zero
	for _, it := range c.sortedDecls() {
		if it.fd.Recv == nil || it.fd.Type.Results == nil || !isNamed(derefType(c.typeOfRecv(it.fd)), bclPath, "scopeCompiler") {
			continue
		}
		for _, f := range it.fd.Type.Results.List {
			for _, n := range f.Names {
				if o := c.infoFor(n).Defs[n]; o != nil && isInt(o.Type()) {
					env[o] = linConst(0)
				}
			}
		}
	}
	for idx, s := range bodyList {
		switch s := s.(type) {
		case *ast.IncDecStmt:
			if isDepth(s.X) && s.Tok == token.DEC {
				depthDec++
				if loops > 0 || pops > 0 {
					return false, "scope.depth must be decremented before the locals are examined"
				}
				continue
			}
			u, ok := stepOf(s)
			if !ok {
				return false, "unexpected increment/decrement at " + c.pos(s.Pos())
			}
			if u.lc {
				L = L.add(u.d)
			} else {
				env[u.obj] = env[u.obj].add(u.d)
			}
		case *ast.DeclStmt:
			gd, ok := s.Decl.(*ast.GenDecl)
			if !ok {
				return false, "unexpected declaration"
			}
			for _, sp := range gd.Specs {
				vs, ok := sp.(*ast.ValueSpec)
				if !ok {
					continue
				}
				for i, n := range vs.Names {
					if !isInt(c.infoFor(n).Defs[n].Type()) {
						continue
					}
					v := linConst(0)
					if i < len(vs.Values) {
						var ok bool
						if v, ok = eval(vs.Values[i]); !ok {
							return false, "initial value of " + n.Name + " is not linear in localCount"
						}
					}
					env[c.infoFor(n).Defs[n]] = v
				}
			}
		case *ast.AssignStmt:
			if u, ok := stepOf(s); ok {
				if u.lc {
					L = L.add(u.d)
				} else {
					env[u.obj] = env[u.obj].add(u.d)
				}
				continue
			}
			if len(s.Lhs) != 1 || len(s.Rhs) != 1 || (s.Tok != token.ASSIGN && s.Tok != token.DEFINE) {
				return false, "unexpected assignment at " + c.pos(s.Pos())
			}
			if isNamed(c.typeOf(s.Rhs[0]), bclPath, "scopeCompiler") {
				continue // scope := p.scope, an alias
			}
			v, ok := eval(s.Rhs[0])
			if !ok {
				return false, "assignment of a value that is not linear in localCount at " + c.pos(s.Pos())
			}
			switch {
			case isLC(s.Lhs[0]):
				L = v
			case isDepth(s.Lhs[0]) || strings.Contains(c.fieldPath(s.Lhs[0]), "locals"):
				return false, "assignment to the scope tables at " + c.pos(s.Pos())
			default:
				id, ok := stripParens(s.Lhs[0]).(*ast.Ident)
				if !ok {
					return false, "unexpected assignment target at " + c.pos(s.Pos())
				}
				env[c.objOf(id)] = v
			}
		case *ast.ForStmt:
			loops++
			if loops > 1 || s.Init != nil {
				return false, "more than one loop, or a loop with an init statement"
			}
			body := append([]ast.Stmt(nil), s.Body.List...)
			if s.Post != nil {
				body = append(body, s.Post)
			}
			// leading `if c { break }` statements are part of the guard: the loop goes on while cond && !c
			var guardExtra []*condNF
			for len(body) > 0 {
				ifs, ok := body[0].(*ast.IfStmt)
				if !ok || ifs.Else != nil || ifs.Init != nil || len(ifs.Body.List) != 1 {
					break
				}
				bs, ok := ifs.Body.List[0].(*ast.BranchStmt)
				if !ok || bs.Tok != token.BREAK || bs.Label != nil {
					break
				}
				guardExtra = append(guardExtra, c.nnf(ifs.Cond, false, nil))
				body = body[1:]
			}
			// per-iteration deltas
			dL := linConst(0)
			dv := map[types.Object]*Lin{}
			for _, b := range body {
				u, ok := stepOf(b)
				if !ok {
					return false, "loop body contains something other than counter updates"
				}
				if u.lc {
					dL = dL.add(u.d)
				} else {
					if dv[u.obj] == nil {
						dv[u.obj] = linConst(0)
					}
					dv[u.obj] = dv[u.obj].add(u.d)
				}
			}
			// guard: cursor > 0 && locals[cursor-1].depth > scope.depth
			var atoms []condAtom
			pure := true
			if s.Cond != nil {
				atoms, pure = c.nnf(s.Cond, true, nil).conjuncts()
			}
			for _, g := range guardExtra {
				ga, gp := g.conjuncts()
				atoms = append(atoms, ga...)
				pure = pure && gp
			}
			if !pure || len(atoms) != 2 {
				return false, "loop guard must be equivalent to cursor > 0 && locals[cursor-1].depth > scope.depth"
			}
			var cursor ast.Expr
			okPos, okDepth := false, false
			for _, a := range atoms {
				if b, ok := c.boundOf(a); ok && b.Lo != nil && *b.Lo == 1 && b.Hi == nil {
					if cursor == nil || c.sameExpr(cursor, b.X) {
						cursor, okPos = b.X, true
					}
					continue
				}
				if rel, ok := c.relOf(a); ok && rel.Op == token.LSS && isDepth(rel.L) {
					if sel, ok := stripParens(rel.R).(*ast.SelectorExpr); ok && sel.Sel.Name == "depth" {
						if ix, ok := stripParens(sel.X).(*ast.IndexExpr); ok && strings.HasSuffix(c.fieldPath(ix.X), ".locals") {
							if ib, ok := stripParens(ix.Index).(*ast.BinaryExpr); ok && ib.Op == token.SUB {
								if k, ok := c.intConst(ib.Y); ok && k == 1 && (cursor == nil || c.sameExpr(cursor, ib.X)) {
									cursor, okDepth = ib.X, true
								}
							}
						}
					}
				}
			}
			if !okPos || !okDepth {
				return false, "loop guard must be equivalent to cursor > 0 && locals[cursor-1].depth > scope.depth"
			}
			// the cursor starts at the entry local count and moves down by one
			start, ok := eval(cursor)
			if !ok || !start.equal(linSym("L0")) {
				return false, "the loop cursor does not start at scope.localCount"
			}
			var dc *Lin
			if isLC(cursor) {
				dc = dL
			} else if id, ok := stripParens(cursor).(*ast.Ident); ok {
				dc = dv[c.objOf(id)]
			}
			if k, isC := dc.isConstOrNil(); !isC || k != -1 {
				return false, "the loop cursor must decrease by exactly one per iteration"
			}
			// apply t iterations
			t := linSym("t")
			scaleT := func(d *Lin) *Lin {
				k, _ := d.isConst()
				return t.scale(k)
			}
			L = L.add(scaleT(dL))
			for o, d := range dv {
				env[o] = env[o].add(scaleT(d))
			}
			cursorEnd, _ = eval(cursor)
		case *ast.ExprStmt:
			call, ok := s.X.(*ast.CallExpr)
			if !ok || c.calleeName(call) != "parser.popN" || len(call.Args) != 1 {
				return false, "unexpected call at " + c.pos(s.Pos())
			}
			pops++
			v, ok := eval(call.Args[0])
			if !ok {
				return false, "popN argument is not linear in the counters"
			}
			popArg = v
			// localCount must have its final value by now (nothing follows that changes it is checked by position below)
			if idx != len(bodyList)-1 {
				return false, "popN must be the last statement"
			}
		default:
			return false, fmt.Sprintf("unexpected statement %T", s)
		}
	}
	switch {
	case depthDec != 1:
		return false, "scope.depth must be decremented exactly once"
	case loops != 1 || pops != 1 || cursorEnd == nil:
		return false, "expected: scope.depth--; one loop removing the locals of the closed scope; popN(number removed)"
	case !L.equal(cursorEnd):
		return false, fmt.Sprintf("localCount ends as %s but the loop cursor as %s: the locals of the closed scope are not removed exactly", L, cursorEnd)
	case !popArg.equal(linSym("L0").sub(L)):
		return false, fmt.Sprintf("popN receives %s but %s locals were removed: emitted pops and compile-time slots go out of step", popArg, linSym("L0").sub(L))
	}
	return true, ""
}

func (a *Lin) isConstOrNil() (int64, bool) {
	if a == nil {
		return 0, true
	}
	return a.isConst()
}

func (c *Ctx) addLocalShape(fd *ast.FuncDecl) (bool, string) {
	bodyList := c.expandedStmts(fd)
	if len(bodyList) < 3 {
		return false, "too short"
	}
	ifs, ok := bodyList[0].(*ast.IfStmt)
	if !ok {
		return false, "does not start with the capacity check"
	}
	var lim int64 = -1
	if atoms, pure := c.nnf(c.unfoldTrivial(ifs.Cond), true, nil).conjuncts(); pure && len(atoms) == 1 {
		if b, ok := c.boundOf(atoms[0]); ok && c.fieldPath(b.X) == "<parser>.scope.localCount" && b.Lo != nil {
			lim = *b.Lo // localCount == N or localCount >= N
		}
	}
	if lim < 0 {
		return false, "capacity check must compare scope.localCount with the table size (== or >=)"
	}
	// the locals array length
	arrLen := int64(-1)
	if sc := namedType(c.Bcl, "scopeCompiler"); sc != nil {
		if st, ok := sc.Underlying().(*types.Struct); ok {
			for i := 0; i < st.NumFields(); i++ {
				if st.Field(i).Name() == "locals" {
					if a, ok := st.Field(i).Type().Underlying().(*types.Array); ok {
						arrLen = a.Len()
					}
				}
			}
		}
	}
	if lim != arrLen {
		return false, fmt.Sprintf("capacity check uses %d but the locals table holds %d entries", lim, arrLen)
	}
	returns := false
	for _, s := range ifs.Body.List {
		if _, ok := s.(*ast.ReturnStmt); ok {
			returns = true
		}
	}
	if !returns {
		return false, "the capacity check does not return"
	}
	incs, depthInit := 0, false
	for _, s := range bodyList[1:] {
		switch s := s.(type) {
		case *ast.IncDecStmt:
			if c.fieldPath(s.X) == "<parser>.scope.localCount" && s.Tok == token.INC {
				incs++
			}
		case *ast.AssignStmt:
			for i, l := range s.Lhs {
				if sel, ok := stripParens(l).(*ast.SelectorExpr); ok && sel.Sel.Name == "depth" && i < len(s.Rhs) {
					if k, ok := c.intConst(s.Rhs[i]); ok && k == -1 {
						depthInit = true
					}
				}
				// the whole entry stored at once: locals[n] = local{name: name, depth: -1}
				if i < len(s.Rhs) {
					if cl, ok := stripParens(s.Rhs[i]).(*ast.CompositeLit); ok && strings.Contains(c.fieldPath(l), ".locals[") {
						if stt, isS := c.typeOf(cl).Underlying().(*types.Struct); isS {
							for j, el := range cl.Elts {
								name, ve := "", el
								if kv, isKV := el.(*ast.KeyValueExpr); isKV {
									if id, isID := kv.Key.(*ast.Ident); isID {
										name = id.Name
									}
									ve = kv.Value
								} else if j < stt.NumFields() {
									name = stt.Field(j).Name()
								}
								if k, ok := c.intConst(ve); ok && k == -1 && name == "depth" {
									depthInit = true
								}
							}
						}
					}
				}
			}
		case *ast.IfStmt, *ast.ForStmt, *ast.RangeStmt, *ast.SwitchStmt:
			return false, "control flow after the capacity check"
		}
	}
	if incs != 1 {
		return false, "scope.localCount must be incremented exactly once"
	}
	if !depthInit {
		return false, "a new local must start with depth -1 (declared, not initialised)"
	}
	return true, ""
}
