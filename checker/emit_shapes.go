package main

import (
	"fmt"
	"go/ast"
	"go/constant"
	"go/token"
	"go/types"
	"strings"
)

// runPopN interprets popN with a constant count and renders what it emits.
func (m *emitModel) runPopN(fd *ast.FuncDecl, n int64) (string, []string) {
	saved := emitPrims["parser.popN"]
	delete(emitPrims, "parser.popN")
	m.inPopN = true
	defer func() { emitPrims["parser.popN"] = saved; m.inPopN = false }()
	in := newInterp(m.c, m.hooks())
	pay := &emPay{base: linSym("d0"), d: linSym("d0").add(linConst(100)), L: linSym("L0"), prevTyp: unknownV(), emitted: map[string]bool{}}
	st := &State{Env: map[types.Object]Value{}, P: pay}
	res := in.inlineBody(st, fd.Type, fd.Body, fd.Recv, []Value{constV(constant.MakeInt64(n))})
	if len(res) != 1 {
		return "", []string{fmt.Sprintf("%d paths for a constant count", len(res))}
	}
	p := res[0].st.P.(*emPay)
	var parts []string
	k := 0
	for _, t := range p.trace {
		if t == "v" || t == "B" || t == "H" {
			prov := "?"
			if k < len(p.operands) {
				prov = p.operands[k].Prov
				k++
			}
			parts = append(parts, t+"<-"+strings.Replace(prov, "count:", "const:", 1))
			continue
		}
		parts = append(parts, t)
	}
	probs := append([]string(nil), p.problems...)
	probs = append(probs, in.Undecided...)
	if p.pendShape != "" {
		probs = append(probs, "instruction left without its operand")
	}
	return strings.Join(parts, " "), probs
}

// endScopeShape checks the data-structure side of scope exit.
func (c *Ctx) endScopeShape(fd *ast.FuncDecl) (bool, string) {
	var loop *ast.ForStmt
	depthDecAt, loopAt, popAt := -1, -1, -1
	var popArg ast.Expr
	for i, s := range fd.Body.List {
		switch s := s.(type) {
		case *ast.IncDecStmt:
			if c.fieldPath(s.X) == "<parser>.scope.depth" && s.Tok == token.DEC {
				if depthDecAt >= 0 {
					return false, "scope.depth decremented twice"
				}
				depthDecAt = i
			} else {
				return false, "unexpected increment/decrement at " + c.pos(s.Pos())
			}
		case *ast.ForStmt:
			if loop != nil {
				return false, "more than one loop"
			}
			loop, loopAt = s, i
		case *ast.ExprStmt:
			call, ok := s.X.(*ast.CallExpr)
			if !ok || c.calleeName(call) != "parser.popN" || len(call.Args) != 1 {
				return false, "unexpected call at " + c.pos(s.Pos())
			}
			popAt, popArg = i, call.Args[0]
		case *ast.DeclStmt:
		case *ast.AssignStmt:
			for _, l := range s.Lhs {
				if strings.HasPrefix(c.fieldPath(l), "<parser>.scope") {
					return false, "assignment to the scope tables at " + c.pos(s.Pos())
				}
			}
		default:
			return false, fmt.Sprintf("unexpected statement %T", s)
		}
	}
	if depthDecAt < 0 || loop == nil || popAt < 0 || !(depthDecAt < loopAt && loopAt < popAt) {
		return false, "expected: scope.depth--; for <guard> { counter++; localCount-- }; popN(counter)"
	}
	counter, ok := stripParens(popArg).(*ast.Ident)
	if !ok {
		return false, "popN argument is not the loop counter"
	}
	cobj := c.objOf(counter)
	// loop body: counter++ and localCount--, nothing else
	incC, decL := 0, 0
	for _, s := range loop.Body.List {
		ids, ok := s.(*ast.IncDecStmt)
		if !ok {
			return false, "loop body contains something other than the two counters"
		}
		switch {
		case ids.Tok == token.INC && c.isObj(ids.X, cobj):
			incC++
		case ids.Tok == token.DEC && c.fieldPath(ids.X) == "<parser>.scope.localCount":
			decL++
		default:
			return false, "loop body modifies something other than the pop counter and localCount"
		}
	}
	if incC != 1 || decL != 1 || loop.Init != nil || loop.Post != nil {
		return false, "the pop counter and localCount must move together, once per iteration"
	}
	// guard: localCount > 0 && locals[localCount-1].depth > scope.depth (any equivalent spelling)
	okPos, okDepth := false, false
	extra := 0
	if loop.Cond != nil {
		atoms, pure := c.nnf(loop.Cond, true, nil).conjuncts()
		if !pure {
			return false, "loop guard is not a conjunction"
		}
		for _, a := range atoms {
			if b, ok := c.boundOf(a); ok && c.fieldPath(b.X) == "<parser>.scope.localCount" && b.Lo != nil && *b.Lo == 1 && b.Hi == nil {
				okPos = true
				continue
			}
			if rel, ok := c.relOf(a); ok && rel.Op == token.LSS && c.fieldPath(rel.L) == "<parser>.scope.depth" {
				if sel, ok := stripParens(rel.R).(*ast.SelectorExpr); ok && sel.Sel.Name == "depth" {
					if ix, ok := stripParens(sel.X).(*ast.IndexExpr); ok && c.fieldPath(ix.X) == "<parser>.scope.locals" {
						if ib, ok := stripParens(ix.Index).(*ast.BinaryExpr); ok && ib.Op == token.SUB && c.fieldPath(ib.X) == "<parser>.scope.localCount" {
							if k, ok := c.intConst(ib.Y); ok && k == 1 {
								okDepth = true
								continue
							}
						}
					}
				}
			}
			extra++
		}
	}
	if !okPos || !okDepth || extra > 0 {
		return false, "loop guard must be equivalent to localCount > 0 && locals[localCount-1].depth > scope.depth"
	}
	// counter starts at zero and is not assigned elsewhere
	zero := false
	for _, s := range fd.Body.List {
		switch s := s.(type) {
		case *ast.DeclStmt:
			for _, sp := range s.Decl.(*ast.GenDecl).Specs {
				if vs, ok := sp.(*ast.ValueSpec); ok {
					for i, n := range vs.Names {
						if c.infoFor(n).Defs[n] == cobj {
							if len(vs.Values) == 0 {
								zero = true
							} else if k, ok := c.intConst(vs.Values[i]); ok && k == 0 {
								zero = true
							}
						}
					}
				}
			}
		case *ast.AssignStmt:
			for i, l := range s.Lhs {
				if c.isObj(l, cobj) {
					if k, ok := c.intConst(s.Rhs[i]); ok && k == 0 && s.Tok == token.DEFINE {
						zero = true
					} else {
						return false, "the pop counter is assigned outside the loop"
					}
				}
			}
		}
	}
	if !zero {
		return false, "the pop counter does not start at zero"
	}
	return true, ""
}

func (c *Ctx) addLocalShape(fd *ast.FuncDecl) (bool, string) {
	if len(fd.Body.List) < 3 {
		return false, "too short"
	}
	ifs, ok := fd.Body.List[0].(*ast.IfStmt)
	if !ok {
		return false, "does not start with the capacity check"
	}
	var lim int64 = -1
	if atoms, pure := c.nnf(ifs.Cond, true, nil).conjuncts(); pure && len(atoms) == 1 {
		if b, ok := c.boundOf(atoms[0]); ok && c.fieldPath(b.X) == "<parser>.scope.localCount" && b.Lo != nil {
			lim = *b.Lo // localCount == N or localCount >= N
		}
	}
	if lim < 0 {
		return false, "capacity check must compare scope.localCount with the table size (== or >=)"
	}
	// the locals array length
	arrLen := int64(-1)
	if sc := namedType(c.Bcl, "scopeCompiler"); sc != nil {
		if st, ok := sc.Underlying().(*types.Struct); ok {
			for i := 0; i < st.NumFields(); i++ {
				if st.Field(i).Name() == "locals" {
					if a, ok := st.Field(i).Type().Underlying().(*types.Array); ok {
						arrLen = a.Len()
					}
				}
			}
		}
	}
	if lim != arrLen {
		return false, fmt.Sprintf("capacity check uses %d but the locals table holds %d entries", lim, arrLen)
	}
	returns := false
	for _, s := range ifs.Body.List {
		if _, ok := s.(*ast.ReturnStmt); ok {
			returns = true
		}
	}
	if !returns {
		return false, "the capacity check does not return"
	}
	incs, depthInit := 0, false
	for _, s := range fd.Body.List[1:] {
		switch s := s.(type) {
		case *ast.IncDecStmt:
			if c.fieldPath(s.X) == "<parser>.scope.localCount" && s.Tok == token.INC {
				incs++
			}
		case *ast.AssignStmt:
			for i, l := range s.Lhs {
				if sel, ok := stripParens(l).(*ast.SelectorExpr); ok && sel.Sel.Name == "depth" && i < len(s.Rhs) {
					if k, ok := c.intConst(s.Rhs[i]); ok && k == -1 {
						depthInit = true
					}
				}
			}
		case *ast.IfStmt, *ast.ForStmt, *ast.RangeStmt, *ast.SwitchStmt:
			return false, "control flow after the capacity check"
		}
	}
	if incs != 1 {
		return false, "scope.localCount must be incremented exactly once"
	}
	if !depthInit {
		return false, "a new local must start with depth -1 (declared, not initialised)"
	}
	return true, ""
}
