package main

// E-TAB: extraction of constant tables from the type-checked syntax.

import (
	"fmt"
	"go/ast"
	"go/constant"
	"go/token"
	"go/types"
	"sort"
	"strconv"
	"strings"
)

// compositeLits returns every composite literal in the package whose type
// satisfies pred, in source order.
func (c *Ctx) compositeLits(pred func(types.Type) bool) []*ast.CompositeLit {
	var out []*ast.CompositeLit
	for _, f := range c.Bcl.Syntax {
		ast.Inspect(f, func(n ast.Node) bool {
			if cl, ok := n.(*ast.CompositeLit); ok {
				if t := c.typeOf(cl); t != nil && pred(t) {
					out = append(out, cl)
					return false
				}
			}
			return true
		})
	}
	return out
}

type ruleRow struct {
	Token  string // constant name of the token
	TokVal int64
	Prefix string // function name, "" for nil
	Infix  string
	Prec   string // precedence constant name
	PrecV  int64
	Pos    token.Pos
}

// rulesTable extracts the Pratt table: the array literal with element type
// parseRule, keyed by tokenType constants.
func (c *Ctx) rulesTable() (rows []ruleRow, arrayLen int64, err error) {
	lits := c.compositeLits(func(t types.Type) bool {
		a, ok := t.Underlying().(*types.Array)
		return ok && isNamed(a.Elem(), bclPath, "parseRule")
	})
	toks := constsOfType(c.Bcl, "tokenType")
	precs := constsOfType(c.Bcl, "precedence")
	type entry struct {
		key int64
		pos token.Pos
		val *ast.CompositeLit
	}
	var entries []entry
	switch {
	case len(lits) == 1:
		lit := lits[0]
		arrayLen = c.typeOf(lit).Underlying().(*types.Array).Len()
		for _, el := range lit.Elts {
			kv, ok := el.(*ast.KeyValueExpr)
			if !ok {
				return nil, 0, fmt.Errorf("%s: unkeyed element in the rules literal", c.pos(el.Pos()))
			}
			kval, ok := c.intConst(kv.Key)
			if !ok {
				return nil, 0, fmt.Errorf("%s: non-constant key in the rules literal", c.pos(kv.Pos()))
			}
			val, ok := kv.Value.(*ast.CompositeLit)
			if !ok {
				return nil, 0, fmt.Errorf("%s: rules row is not a composite literal", c.pos(kv.Pos()))
			}
			entries = append(entries, entry{kval, kv.Pos(), val})
		}
	case len(lits) == 0:
		// the table written as a function: switch t { case tX, tY: return parseRule{…} … }; return parseRule{}
		found := false
		for _, it := range c.sortedDecls() {
			fn, ok := it.obj.(*types.Func)
			if !ok || it.fd.Body == nil || fn.Pkg() == nil || fn.Pkg().Path() != bclPath {
				continue
			}
			sig := fn.Type().(*types.Signature)
			if sig.Recv() != nil || sig.Params().Len() != 1 || sig.Results().Len() != 1 || !isNamed(sig.Params().At(0).Type(), bclPath, "tokenType") || !isNamed(sig.Results().At(0).Type(), bclPath, "parseRule") {
				continue
			}
			var sw *ast.SwitchStmt
			for _, st := range it.fd.Body.List {
				if x, ok := st.(*ast.SwitchStmt); ok && x.Tag != nil && c.isObj(x.Tag, c.paramObj(it.fd, 0)) {
					sw = x
				}
			}
			if sw == nil || found {
				continue
			}
			found = true
			for _, arm := range c.switchArms(sw) {
				if arm.Default {
					continue
				}
				if len(arm.Body) != 1 {
					return nil, 0, fmt.Errorf("%s: a case of the rules function does more than return a rule", c.pos(arm.Clause.Pos()))
				}
				rs, isR := arm.Body[0].(*ast.ReturnStmt)
				if !isR || len(rs.Results) != 1 {
					return nil, 0, fmt.Errorf("%s: a case of the rules function does more than return a rule", c.pos(arm.Clause.Pos()))
				}
				val, isCL := stripParens(rs.Results[0]).(*ast.CompositeLit)
				if !isCL {
					return nil, 0, fmt.Errorf("%s: rules row is not a composite literal", c.pos(rs.Pos()))
				}
				for _, e := range arm.Exprs {
					kval, ok := c.intConst(e)
					if !ok {
						return nil, 0, fmt.Errorf("%s: non-constant case in the rules function", c.pos(e.Pos()))
					}
					entries = append(entries, entry{kval, e.Pos(), val})
				}
			}
			// the table spans all token types
			for _, t := range toks {
				if t.Val+1 > arrayLen {
					arrayLen = t.Val + 1
				}
			}
		}
		if !found {
			return nil, 0, fmt.Errorf("expected exactly one array literal of parseRule (or a function from tokenType to parseRule), found none")
		}
	default:
		return nil, 0, fmt.Errorf("expected exactly one array literal of parseRule, found %d", len(lits))
	}
	for _, en := range entries {
		kval, val := en.key, en.val
		kv := en
		row := ruleRow{Token: constNameOf(toks, kval), TokVal: kval, Pos: kv.pos}
		fields := map[string]ast.Expr{}
		names := []string{"prefix", "infix", "prec"}
		for i, e := range val.Elts {
			if kv2, ok := e.(*ast.KeyValueExpr); ok {
				fields[kv2.Key.(*ast.Ident).Name] = kv2.Value
			} else if i < len(names) {
				fields[names[i]] = e
			}
		}
		_ = kv
		fn := func(e ast.Expr) (string, error) {
			if e == nil {
				return "", nil
			}
			if id, ok := stripParens(e).(*ast.Ident); ok && id.Name == "nil" && c.objOf(id) == types.Universe.Lookup("nil") {
				return "", nil
			}
			if f, ok := c.objOf(e).(*types.Func); ok {
				return funcName(f), nil
			}
			return "", fmt.Errorf("%s: rules entry is neither nil nor a function", c.pos(e.Pos()))
		}
		var e1, e2 error
		row.Prefix, e1 = fn(fields["prefix"])
		row.Infix, e2 = fn(fields["infix"])
		if e1 != nil {
			return nil, 0, e1
		}
		if e2 != nil {
			return nil, 0, e2
		}
		if pe := fields["prec"]; pe != nil {
			pv, ok := c.intConst(pe)
			if !ok {
				return nil, 0, fmt.Errorf("%s: non-constant precedence", c.pos(pe.Pos()))
			}
			row.PrecV = pv
			row.Prec = constNameOf(precs, pv)
		} else {
			row.Prec = constNameOf(precs, 0)
		}
		rows = append(rows, row)
	}
	return rows, arrayLen, nil
}

// tokenLexemes maps token constant names to their source spelling, from the
// lexer's three tables (found by type, not by name).
type lexTables struct {
	Keywords map[string]string // lexeme -> token const name
	OneRune  map[string]string
	TwoRune  map[string]string
	Lexeme   map[string]string // token const name -> lexeme
}

func (c *Ctx) lexTables() (*lexTables, error) {
	lt := &lexTables{Keywords: map[string]string{}, OneRune: map[string]string{}, TwoRune: map[string]string{}, Lexeme: map[string]string{}}
	toks := constsOfType(c.Bcl, "tokenType")
	isTok := func(t types.Type) bool { return isNamed(t, bclPath, "tokenType") }
	isRune := func(t types.Type) bool {
		b, ok := t.Underlying().(*types.Basic)
		return ok && b.Kind() == types.Int32
	}
	isString := func(t types.Type) bool {
		b, ok := t.Underlying().(*types.Basic)
		return ok && b.Kind() == types.String
	}
	found := 0
	for _, lit := range c.compositeLits(func(t types.Type) bool { _, ok := t.Underlying().(*types.Map); return ok }) {
		m := c.typeOf(lit).Underlying().(*types.Map)
		switch {
		case isString(m.Key()) && isTok(m.Elem()):
			found++
			for _, el := range lit.Elts {
				kv := el.(*ast.KeyValueExpr)
				k, ok1 := c.strConst(kv.Key)
				v, ok2 := c.intConst(kv.Value)
				if !ok1 || !ok2 {
					return nil, fmt.Errorf("%s: non-constant keyword table entry", c.pos(kv.Pos()))
				}
				if _, dup := lt.Keywords[k]; dup {
					return nil, fmt.Errorf("duplicate keyword %q", k)
				}
				lt.Keywords[k] = constNameOf(toks, v)
			}
		case isRune(m.Key()) && isTok(m.Elem()):
			found++
			for _, el := range lit.Elts {
				kv := el.(*ast.KeyValueExpr)
				k, ok1 := c.intConst(kv.Key)
				v, ok2 := c.intConst(kv.Value)
				if !ok1 || !ok2 {
					return nil, fmt.Errorf("%s: non-constant one-rune table entry", c.pos(kv.Pos()))
				}
				lt.OneRune[string(rune(k))] = constNameOf(toks, v)
			}
		case isRune(m.Key()) && isNamed(m.Elem(), bclPath, "twoRuneMatch"):
			found++
			for _, el := range lit.Elts {
				kv := el.(*ast.KeyValueExpr)
				k, ok1 := c.intConst(kv.Key)
				val, ok := kv.Value.(*ast.CompositeLit)
				if !ok1 || !ok || len(val.Elts) != 2 {
					return nil, fmt.Errorf("%s: unexpected two-rune table entry", c.pos(kv.Pos()))
				}
				var r2, typ int64
				var okr, okt bool
				for i, e := range val.Elts {
					name := []string{"r2", "typ"}[i]
					if kv2, ok := e.(*ast.KeyValueExpr); ok {
						name = kv2.Key.(*ast.Ident).Name
						e = kv2.Value
					}
					if name == "r2" {
						r2, okr = c.intConst(e)
					} else {
						typ, okt = c.intConst(e)
					}
				}
				if !okr || !okt {
					return nil, fmt.Errorf("%s: non-constant two-rune table entry", c.pos(kv.Pos()))
				}
				lt.TwoRune[string(rune(k))+string(rune(r2))] = constNameOf(toks, typ)
			}
		}
	}
	// a table may also be written as a function: a switch over the rune (or word) returning the token constant(s)
	if found != 3 {
		for _, it := range c.sortedDecls() {
			fn, ok := it.obj.(*types.Func)
			if !ok || it.fd.Body == nil || fn.Pkg() == nil || fn.Pkg().Path() != bclPath {
				continue
			}
			sig := fn.Type().(*types.Signature)
			if sig.Recv() != nil || sig.Params().Len() != 1 {
				continue
			}
			pt := sig.Params().At(0).Type()
			res := sig.Results()
			kind := ""
			switch {
			case isRune(pt) && res.Len() == 2 && isTok(res.At(0).Type()) && len(lt.OneRune) == 0:
				kind = "one"
			case isRune(pt) && res.Len() == 3 && isRune(res.At(0).Type()) && isTok(res.At(1).Type()) && len(lt.TwoRune) == 0:
				kind = "two"
			case isString(pt) && res.Len() == 2 && isTok(res.At(0).Type()) && len(lt.Keywords) == 0:
				kind = "kw"
			case isRune(pt) && res.Len() == 2 && len(lt.TwoRune) == 0:
				// (struct{second rune; token}, ok)
				if st, ok := res.At(0).Type().Underlying().(*types.Struct); ok && st.NumFields() == 2 {
					kind = "two-struct"
				} else {
					continue
				}
			default:
				continue
			}
			var sw *ast.SwitchStmt
			for _, st := range it.fd.Body.List {
				if x, ok := st.(*ast.SwitchStmt); ok && x.Tag != nil && c.isObj(x.Tag, c.paramObj(it.fd, 0)) {
					sw = x
				}
			}
			if sw == nil {
				continue
			}
			okTab := true
			entries := 0
			for _, arm := range c.switchArms(sw) {
				if arm.Default {
					continue
				}
				if len(arm.Body) != 1 {
					okTab = false
					continue
				}
				rs, isR := arm.Body[0].(*ast.ReturnStmt)
				if !isR || len(rs.Results) != res.Len() {
					okTab = false
					continue
				}
				for _, v := range arm.Vals {
					if v == nil {
						okTab = false
						continue
					}
					switch kind {
					case "one":
						k, _ := constant.Int64Val(v)
						t, okT := c.intConst(rs.Results[0])
						if !okT {
							okTab = false
							continue
						}
						lt.OneRune[string(rune(k))] = constNameOf(toks, t)
					case "two-struct":
						k, _ := constant.Int64Val(v)
						cl, isCL := stripParens(rs.Results[0]).(*ast.CompositeLit)
						if !isCL || len(cl.Elts) != 2 {
							okTab = false
							continue
						}
						var r2, t int64
						gotR, gotT := false, false
						for _, el := range cl.Elts {
							val := el
							if kv, isKV := el.(*ast.KeyValueExpr); isKV {
								val = kv.Value
							}
							x, okX := c.intConst(val)
							if !okX {
								continue
							}
							if isTok(c.typeOf(val)) {
								t, gotT = x, true
							} else {
								r2, gotR = x, true
							}
						}
						if !gotR || !gotT {
							okTab = false
							continue
						}
						lt.TwoRune[string(rune(k))+string(rune(r2))] = constNameOf(toks, t)
					case "two":
						k, _ := constant.Int64Val(v)
						r2, ok2 := c.intConst(rs.Results[0])
						t, okT := c.intConst(rs.Results[1])
						if !ok2 || !okT {
							okTab = false
							continue
						}
						lt.TwoRune[string(rune(k))+string(rune(r2))] = constNameOf(toks, t)
					case "kw":
						t, okT := c.intConst(rs.Results[0])
						if !okT || v.Kind() != constant.String {
							okTab = false
							continue
						}
						lt.Keywords[constant.StringVal(v)] = constNameOf(toks, t)
					}
					entries++
				}
			}
			if okTab && entries > 0 {
				found++
			}
		}
	}
	if found != 3 && len(lt.Keywords) > 0 && (len(lt.OneRune) == 0 || len(lt.TwoRune) == 0) {
		// the punctuation is not held in tables of a known form: read it off the interpreted start state — for every
		// first rune (and second rune) the paths of lexStart tell apart, the token it emits
		one, two := c.punctFromModel()
		if len(lt.OneRune) == 0 && len(one) > 0 {
			lt.OneRune = one
			found++
		}
		if len(lt.TwoRune) == 0 && len(two) > 0 {
			lt.TwoRune = two
			found++
		}
	}
	if found != 3 {
		return nil, fmt.Errorf("expected the three lexer tables (keywords, one-rune, two-rune), found %d", found)
	}
	for _, m := range []map[string]string{lt.Keywords, lt.OneRune, lt.TwoRune} {
		for lex, tok := range m {
			lt.Lexeme[tok] = lex
		}
	}
	return lt, nil
}

// caseTable extracts, from the first switch statement with a tag in fn's
// body, the map constant-value -> case index; def is the index of the
// default clause or -1.
type switchArm struct {
	Vals    []constant.Value
	Exprs   []ast.Expr
	Body    []ast.Stmt
	Default bool
	Clause  *ast.CaseClause
}

func (c *Ctx) switchArms(sw *ast.SwitchStmt) []switchArm {
	var arms []switchArm
	for _, s := range sw.Body.List {
		cc := s.(*ast.CaseClause)
		arm := switchArm{Body: cc.Body, Default: cc.List == nil, Clause: cc}
		for _, e := range cc.List {
			arm.Exprs = append(arm.Exprs, e)
			arm.Vals = append(arm.Vals, c.constOf(e))
		}
		arms = append(arms, arm)
	}
	return arms
}

// returnsConstBool: the body consists of `return true` / `return false`.
func (c *Ctx) returnsBool(body []ast.Stmt) (val, ok bool) {
	if len(body) != 1 {
		return false, false
	}
	rs, isRet := body[0].(*ast.ReturnStmt)
	if !isRet || len(rs.Results) != 1 {
		return false, false
	}
	v := c.constOf(rs.Results[0])
	if v == nil || v.Kind() != constant.Bool {
		return false, false
	}
	return constant.BoolVal(v), true
}

// runeSetOf extracts the set of runes for which a `func(rune) bool` returns
// true, for the two idioms the repository uses: a tagged switch with
// constant cases returning true, and a disjunction of equalities with
// constants. ok=false when the body is of another form.
func (c *Ctx) runeSetOf(fd *ast.FuncDecl) (set []int64, ok bool) {
	if fd == nil || fd.Body == nil || fd.Type.Params == nil || len(fd.Type.Params.List) != 1 {
		return nil, false
	}
	param := c.infoFor(fd).Defs[fd.Type.Params.List[0].Names[0]]
	isParam := func(e ast.Expr) bool {
		id, ok := stripParens(e).(*ast.Ident)
		return ok && c.objOf(id) == param
	}
	seen := map[int64]bool{}
	stmts := fd.Body.List
	// return strings.ContainsRune("<the set>", r)
	if len(stmts) == 1 {
		if rs, isRet := stmts[0].(*ast.ReturnStmt); isRet && len(rs.Results) == 1 {
			if call, isC := stripParens(rs.Results[0]).(*ast.CallExpr); isC && c.calleeName(call) == "strings.ContainsRune" && len(call.Args) == 2 && isParam(call.Args[1]) {
				if str, isS := c.strConst(call.Args[0]); isS {
					for _, r := range str {
						seen[int64(r)] = true
					}
					for v := range seen {
						set = append(set, v)
					}
					sort.Slice(set, func(i, j int) bool { return set[i] < set[j] })
					return set, true
				}
			}
		}
	}
	switch {
	case len(stmts) == 1:
		// return r == a || r == b ...
		rs, isRet := stmts[0].(*ast.ReturnStmt)
		if !isRet || len(rs.Results) != 1 {
			return nil, false
		}
		var walk func(e ast.Expr) bool
		walk = func(e ast.Expr) bool {
			e = stripParens(e)
			be, ok := e.(*ast.BinaryExpr)
			if !ok {
				return false
			}
			switch be.Op {
			case token.LOR:
				return walk(be.X) && walk(be.Y)
			case token.EQL:
				if isParam(be.X) {
					if v, ok := c.intConst(be.Y); ok {
						seen[v] = true
						return true
					}
				}
				if isParam(be.Y) {
					if v, ok := c.intConst(be.X); ok {
						seen[v] = true
						return true
					}
				}
			}
			return false
		}
		if !walk(rs.Results[0]) {
			return nil, false
		}
	case len(stmts) == 2:
		sw, isSw := stmts[0].(*ast.SwitchStmt)
		if !isSw || sw.Init != nil || sw.Tag == nil || !isParam(sw.Tag) {
			return nil, false
		}
		if v, ok := c.returnsBool(stmts[1:]); !ok || v {
			return nil, false
		}
		for _, arm := range c.switchArms(sw) {
			v, ok := c.returnsBool(arm.Body)
			if !ok {
				return nil, false
			}
			if arm.Default {
				if v {
					return nil, false
				}
				continue
			}
			for _, cv := range arm.Vals {
				if cv == nil || cv.Kind() != constant.Int {
					return nil, false
				}
				iv, _ := constant.Int64Val(cv)
				if v {
					seen[iv] = true
				} else if seen[iv] {
					return nil, false
				}
			}
		}
	default:
		return nil, false
	}
	for v := range seen {
		set = append(set, v)
	}
	sort.Slice(set, func(i, j int) bool { return set[i] < set[j] })
	return set, true
}

// punctFromModel derives the one- and two-rune token tables from the paths of the interpreted lexStart.
func (c *Ctx) punctFromModel() (one, two map[string]string) {
	one, two = map[string]string{}, map[string]string{}
	start := c.stateFuncs()["lexStart"]
	if start == nil {
		return
	}
	unq := func(s string) (rune, bool) {
		r, _, _, err := strconv.UnquoteChar(strings.Trim(s, "'"), '\'')
		if err != nil || !strings.HasPrefix(s, "'") {
			return 0, false
		}
		return r, true
	}
	for _, p := range c.lexStateModel(start).Paths {
		var r1, r2 string
		emits := []string{}
		failed := false
		for _, e := range p.Log {
			switch {
			case strings.HasPrefix(e, "#1=="):
				r1 = strings.TrimPrefix(e, "#1==")
			case strings.HasPrefix(e, "#2=="):
				r2 = strings.TrimPrefix(e, "#2==")
			case strings.HasPrefix(e, "emit:"):
				emits = append(emits, strings.TrimPrefix(e, "emit:"))
			case e == "fail" || e == "error":
				failed = true
			}
		}
		if r1 == "" || r1 == "eof" || len(emits) != 1 || failed || p.Ret != "lexStart" {
			continue
		}
		a, ok := unq(r1)
		if !ok {
			continue
		}
		if r2 == "" {
			one[string(a)] = emits[0]
			continue
		}
		b, ok := unq(r2)
		if ok {
			two[string(a)+string(b)] = emits[0]
		}
	}
	// a rune that starts a two-rune token and stands for a token of its own otherwise is in both tables; a rune
	// that only starts a two-rune token (no path emits for it alone) is in the second only: as read above
	return
}
