package main

// A model of lexer.next(): the function (with every *lexer method it calls
// interpreted in place) is run abstractly for ONE iteration of its refill
// loop from a generic state. Lexer fields are linear forms over their entry
// values; the receive from the input channel forks into "chunk received" and
// "channel closed"; conditions on inputsDone / utf8.FullRune… are decisions.
//
// From the paths the rules read:
//   - what a refill does to pos, start, posShift and the window, and what the
//     line-table updater is told (refill-affine);
//   - under which decisions the rune is decoded, and how the loop can be left
//     (full-rune / empty-chunk-not-eof).

import (
	"fmt"
	"go/ast"
	"go/constant"
	"go/token"
	"go/types"
	"strings"
)

type nextPay struct {
	pos, start, shift, length   *Lin // lexer.pos, .start, .posShift, len(lexer.input)
	keptFrom                    *Lin // input = input[keptFrom:] + chunk (nil: not rebuilt)
	keptToEnd, appended         bool
	received, closed            bool   // outcome of the receive on this path
	doneSet                     string // "", "true", "other": what inputsDone was assigned
	doneKnown                   string // decision on inputsDone: "", "true", "false"
	fullKnown                   string // decision on FullRune(input[pos:]): "", "true", "false"
	fullSlice                   string // shape of the argument of FullRune…
	lpChunk                     bool   // lpUpd got the received chunk
	lpOff                       *Lin
	lpCalls, recvs              int
	decoded                     bool
	decodeSlice                 string
	width, posAtDec, startAtDec *Lin   // lexer.width; pos and start when the rune was decoded
	zeroW                       string // decision on "the decoded width is 0": "", "true", "false"
	ret                         string // what the path returns: "rune" (the decoded rune), "eof", or a description
	decFull, decDone            bool   // at the decode: a full rune was known to be buffered / the input was known to have ended
	leftLoop                    string // "", "cond", "break", "return"
	inLoop                      bool
	problems                    []string
	events                      []string
}

func (p *nextPay) Clone() Payload {
	q := *p
	q.problems = append([]string(nil), p.problems...)
	q.events = append([]string(nil), p.events...)
	return &q
}

type nextModel struct {
	Fn        *ast.FuncDecl
	Iter      []nextPay // one loop iteration from the generic state (paths that entered the loop body)
	Final     []nextPay // complete paths through next() (entry -> decode -> return), the loop taken 0 or 1 times
	Undecided []string
	HasLoop   bool
}

var nextModelCache = map[*Ctx]*nextModel{}

func (c *Ctx) nextModel() (*nextModel, error) {
	if m, ok := nextModelCache[c]; ok {
		return m, nil
	}
	_, fd := c.find("lexer.next")
	if fd == nil {
		return nil, fmt.Errorf("lexer.next not found")
	}
	m := &nextModel{Fn: fd}
	pay := func(st *State) *nextPay { return st.P.(*nextPay) }
	var h Hooks
	h.SameEffect = func(a, b *State) bool { return false }
	field := func(e ast.Expr) string { return strings.TrimPrefix(c.fieldPath(e), "<lexer>.") }
	h.Load = func(in *Interp, st *State, e ast.Expr) (Value, bool) {
		p := pay(st)
		if se, ok := e.(*ast.SliceExpr); ok {
			if c.fieldPath(se.X) == "<lexer>.input" {
				w := rebuilt{shape: c.sliceShape(se), from: linConst(0), toEnd: se.High == nil}
				if se.Low != nil {
					w.from = nil
					for _, vs := range in.eval(st.clone(), se.Low) {
						w.from, _ = vs.v.asLin()
						break
					}
				}
				if se.High != nil {
					for _, vs := range in.eval(st.clone(), se.High) {
						if hl, ok := vs.v.asLin(); ok && hl.equal(p.length) {
							w.toEnd = true
						}
						break
					}
				}
				return tagV("window", w), true
			}
			return Value{}, false
		}
		if !strings.HasPrefix(c.fieldPath(e), "<lexer>.") {
			return Value{}, false
		}
		switch field(e) {
		case "pos":
			return linV(p.pos), true
		case "start":
			return linV(p.start), true
		case "posShift":
			return linV(p.shift), true
		case "inputsDone":
			switch {
			case p.doneSet == "true" || p.doneKnown == "true":
				return constV(constant.MakeBool(true)), true
			case p.doneKnown == "false" && p.doneSet == "":
				return constV(constant.MakeBool(false)), true
			}
			return tagV("inputsDone", ""), true
		case "input":
			return tagV("input", ""), true
		case "width":
			if p.width != nil {
				return linV(p.width), true
			}
			return Value{}, false
		case "inputs", "lpUpd", "tokens":
			return Value{}, false
		}
		return Value{}, false
	}
	var curFn []*ast.FuncDecl
	h.Store = func(in *Interp, st *State, lhs ast.Expr, op token.Token, v Value) bool {
		p := pay(st)
		if !strings.HasPrefix(c.fieldPath(lhs), "<lexer>.") {
			return false
		}
		lin := func(cur **Lin, name string) bool {
			var nv Value
			if op == token.ASSIGN {
				nv = v
			} else {
				nv = in.arith(linV(*cur), opOfAssign(op), v)
			}
			l, ok := nv.asLin()
			if !ok {
				if !p.decoded { // after the decode the cursor moves by the rune's width: not part of the refill arithmetic
					p.problems = append(p.problems, c.pos(lhs.Pos())+": lexer."+name+" gets a value that is not linear in pos, start, posShift and the lengths")
				}
				return true
			}
			*cur = l
			return true
		}
		switch field(lhs) {
		case "pos":
			return lin(&p.pos, "pos")
		case "start":
			return lin(&p.start, "start")
		case "posShift":
			return lin(&p.shift, "posShift")
		case "inputsDone":
			if v.K == vConst && v.C.Kind() == constant.Bool && constant.BoolVal(v.C) {
				p.doneSet = "true"
			} else {
				p.doneSet = "other"
			}
			return true
		case "input":
			// input = input[a:b] + chunk
			if v.K == vTag && v.Tag == "rebuilt" {
				rb := v.Data.(rebuilt)
				p.keptFrom, p.keptToEnd, p.appended = rb.from, rb.toEnd, rb.chunk
				if rb.from != nil {
					p.length = p.length.sub(rb.from).add(linSym("chunk"))
				}
			} else {
				p.problems = append(p.problems, c.pos(lhs.Pos())+": the window is rebuilt as something other than input[a:] + <received chunk>")
			}
			return true
		case "width":
			if l, ok := v.asLin(); ok && op == token.ASSIGN {
				p.width = l
			} else {
				p.width = nil
			}
			return true
		}
		p.problems = append(p.problems, c.pos(lhs.Pos())+": next() assigns lexer."+field(lhs))
		return true
	}
	h.Recv = func(in *Interp, st *State, e *ast.UnaryExpr) (Value, bool) {
		if c.fieldPath(e.X) != "<lexer>.inputs" {
			return Value{}, false
		}
		p := pay(st)
		p.recvs++
		return Value{K: vTuple, Tup: []Value{tagV("chunk", p.recvs), tagV("recvok", p.recvs)}}, true
	}
	h.Decide = func(in *Interp, st *State, cond ast.Expr) tri { return triUnknown }
	h.AssumeV = func(in *Interp, st *State, cond ast.Expr, cv Value, branch bool) bool {
		p := pay(st)
		if be, ok := stripParens(cond).(*ast.BinaryExpr); ok && p.decoded {
			side := func(e ast.Expr) (*Lin, bool) {
				for _, vs := range in.eval(st.clone(), e) {
					return vs.v.asLin()
				}
				return nil, false
			}
			if x, ok1 := side(be.X); ok1 {
				if y, ok2 := side(be.Y); ok2 {
					d := x.sub(y) // w*k + c  (w >= 0)
					if d.coef("w") != 0 && len(d.T) == 1 {
						k, c0 := d.coef("w"), d.C
						op := be.Op
						if k < 0 {
							k, c0 = -k, -c0
							op = map[token.Token]token.Token{token.LSS: token.GTR, token.GTR: token.LSS, token.LEQ: token.GEQ, token.GEQ: token.LEQ, token.EQL: token.EQL, token.NEQ: token.NEQ}[op]
						}
						zero := "" // does the condition hold exactly when w == 0?
						if k == 1 {
							switch {
							case op == token.EQL && c0 == 0, op == token.LEQ && c0 == 0, op == token.LSS && c0 == -1:
								zero = "iff"
							case op == token.NEQ && c0 == 0, op == token.GTR && c0 == 0, op == token.GEQ && c0 == -1:
								zero = "iffnot"
							}
						}
						want := ""
						switch {
						case zero == "iff" && branch, zero == "iffnot" && !branch:
							want = "true"
						case zero == "iff" && !branch, zero == "iffnot" && branch:
							want = "false"
						}
						if want != "" {
							if p.zeroW != "" && p.zeroW != want {
								return false
							}
							p.zeroW = want
						}
					}
				}
			}
		}
		for _, vs := range []valState{{st, cv}} {
			if vs.v.K != vTag {
				break
			}
			// the negation of a tracked condition (returned by a helper as !cond)
			if vs.v.Tag == "not" {
				vs.v = vs.v.Data.(Value)
				branch = !branch
			}
			switch vs.v.Tag {
			case "recvok":
				if branch {
					if p.closed {
						return false
					}
					p.received = true
					p.fullKnown = "" // the window is about to change
				} else {
					if p.received {
						return false
					}
					p.closed = true
				}
			case "inputsDone":
				want := map[bool]string{true: "true", false: "false"}[branch]
				if p.doneKnown != "" && p.doneKnown != want {
					return false
				}
				p.doneKnown = want
			case "fullrune":
				want := map[bool]string{true: "true", false: "false"}[branch]
				if p.fullKnown != "" && p.fullKnown != want {
					return false
				}
				p.fullKnown = want
			}
			break
		}
		return true
	}
	h.Call = func(in *Interp, st *State, call *ast.CallExpr, callee types.Object, args []Value) ([]valState, bool) {
		p := pay(st)
		name := qname(callee)
		if c.fieldPath(call.Fun) == "<lexer>.lpUpd" {
			p.lpCalls++
			if len(args) == 2 {
				p.lpChunk = args[0].K == vTag && args[0].Tag == "chunk"
				p.lpOff, _ = args[1].asLin()
			}
			return one(st, unknownV()), true
		}
		switch {
		case name == "len" && len(call.Args) == 1:
			if c.fieldPath(call.Args[0]) == "<lexer>.input" {
				return one(st, linV(p.length)), true
			}
			if len(args) == 1 && args[0].K == vTag && args[0].Tag == "chunk" {
				return one(st, linV(linSym("chunk"))), true
			}
			return one(st, unknownV()), true
		case strings.HasPrefix(name, "unicode/utf8.FullRune"):
			if len(call.Args) == 1 {
				p.fullSlice = c.sliceShape(call.Args[0])
			}
			switch p.fullKnown {
			case "true":
				return one(st, constV(constant.MakeBool(true))), true
			case "false":
				return one(st, constV(constant.MakeBool(false))), true
			}
			return one(st, tagV("fullrune", "")), true
		case strings.HasPrefix(name, "unicode/utf8.DecodeRune"):
			p.decoded = true
			p.decFull = p.fullKnown == "true"
			p.decDone = p.doneSet == "true" || p.doneKnown == "true"
			if len(call.Args) == 1 {
				p.decodeSlice = c.sliceShape(call.Args[0])
			}
			p.posAtDec, p.startAtDec = p.pos, p.start
			return one(st, Value{K: vTuple, Tup: []Value{tagV("rune", ""), linV(linSym("w"))}}), true
		}
		return nil, false
	}
	// string concatenation input[a:b] + chunk is given a structured value
	h.BinOp = func(l Value, op token.Token, r Value) (Value, bool) {
		if op == token.NOT && l.K == vTag {
			if l.Tag == "not" {
				return l.Data.(Value), true
			}
			return tagV("not", l), true
		}
		if op == token.ADD && l.K == vTag && l.Tag == "window" && r.K == vTag && r.Tag == "chunk" {
			w := l.Data.(rebuilt)
			w.chunk = true
			return tagV("rebuilt", w), true
		}
		return Value{}, false
	}
	h.Inline = func(fn *types.Func) bool {
		if fn.Pkg() == nil || fn.Pkg().Path() != bclPath {
			return false
		}
		sig := fn.Type().(*types.Signature)
		return sig.Recv() != nil && c.isLexerType(sig.Recv().Type())
	}
	_ = curFn
	h.Loop = func(in *Interp, st *State, loop ast.Stmt, body func(*State) []*State) ([]*State, bool) {
		fs, ok := loop.(*ast.ForStmt)
		if !ok || fs.Init != nil || pay(st).inLoop {
			return nil, false
		}
		m.HasLoop = true
		var out []*State
		// zero iterations: the condition is false on entry
		brs := []branchState{{st, true}}
		if fs.Cond != nil {
			brs = in.branch(st, fs.Cond)
		}
		for _, b := range brs {
			p := pay(b.st)
			if !b.taken {
				p.leftLoop = "cond"
				out = append(out, b.st)
				continue
			}
			p.inLoop = true
			for _, after := range body(b.st) {
				ap := pay(after)
				switch after.Term {
				case tReturn:
					ap.leftLoop = "return"
					m.Iter = append(m.Iter, *ap)
					out = append(out, after)
				case tBreak:
					after.Term = tNone
					ap.leftLoop = "break"
					m.Iter = append(m.Iter, *ap)
					ap.inLoop = false
					out = append(out, after)
				default:
					after.Term = tNone
					if fs.Post != nil {
						in.exec(after, fs.Post)
					}
					// the iteration is complete: record it, then let the loop end through its condition
					m.Iter = append(m.Iter, *ap)
					if fs.Cond == nil {
						continue // would iterate again; one iteration is what is modelled
					}
					for _, b2 := range in.branch(after, fs.Cond) {
						if !b2.taken {
							q := pay(b2.st)
							q.leftLoop = "cond"
							q.inLoop = false
							out = append(out, b2.st)
						}
					}
				}
			}
		}
		return out, true
	}
	in := newInterp(c, h)
	st := &State{Env: map[types.Object]Value{}, P: &nextPay{pos: linSym("pos"), start: linSym("start"), shift: linSym("posShift"), length: linSym("len"), width: linSym("width")}}
	res := in.inlineBody(st, fd.Type, fd.Body, fd.Recv, nil)
	for _, r := range res {
		fp := *r.st.P.(*nextPay)
		switch {
		case r.v.K == vTag && r.v.Tag == "rune":
			fp.ret = "rune"
		case r.v.K == vConst && r.v.C.Kind() == constant.Int && r.v.C.ExactString() == "-1":
			fp.ret = "eof"
		default:
			fp.ret = r.v.String()
		}
		m.Final = append(m.Final, fp)
	}
	m.Undecided = in.Undecided
	nextModelCache[c] = m
	return m, nil
}

type rebuilt struct {
	shape string
	from  *Lin
	toEnd bool
	chunk bool
}
