package main

// E-CONC (part 1): the channel protocol of ParseFile. The reader goroutine's
// loop body is interpreted once per abstract read outcome
// (err ∈ {nil, io.EOF, other} × n ∈ {0, >0}) and per select branch; the
// parser goroutine and the caller are interpreted on all paths.

import (
	"fmt"
	"go/ast"
	"go/token"
	"go/types"
	"strings"
)

type concPay struct {
	rerrNil string // scenario for the caller: "nil" / "nonnil" / "" — the value received from rerr
	events  []string
	err     string // scenario: "nil", "EOF", "other", "" = unknown
	n       string // "0", "pos", "" = unknown
	errObj  types.Object
	nObj    types.Object
	halted  bool // the modelled part of the path is over (the read loop would go round again): nothing more is recorded
}

func (p *concPay) ev(s string) {
	if !p.halted {
		p.events = append(p.events, s)
	}
}

func (p *concPay) Clone() Payload {
	q := *p
	q.events = append([]string(nil), p.events...)
	return &q
}

type pfModel struct {
	Func       *ast.FuncDecl
	Chans      map[types.Object]string // channel variable (or the parameter it is passed as) -> name
	Files      map[types.Object]bool   // the input and the parameters it is passed as
	Reader     *goBody
	Parser     *goBody
	ReaderGo   *ast.GoStmt
	ParserGo   *ast.GoStmt
	NGo        int
	FileParam  types.Object
	ProgObj    types.Object
	ChanFields map[string]string     // struct field holding a channel ("<fileParse>.rerr") -> name
	ChanElem   map[string]types.Type // name -> element type
}

// goBody is the code a go statement runs: a function literal or a named function.
type goBody struct {
	Body *ast.BlockStmt
	P    token.Pos
}

func (g *goBody) Pos() token.Pos { return g.P }

func (c *Ctx) parseFileModel() (*pfModel, error) {
	_, fd := c.find("ParseFile")
	if fd == nil {
		return nil, fmt.Errorf("ParseFile not found")
	}
	// ParseFile as a thin wrapper (`return parseFile(f, makeConfig(opts))`): the function that is handed the input
	// and does the work is the one looked at
	fd, fileIdx := c.throughThinWrappers(fd, 0)
	m := &pfModel{Func: fd, Chans: map[types.Object]string{}, Files: map[types.Object]bool{}, ChanFields: map[string]string{}, ChanElem: map[string]types.Type{}}
	// channels made inside a struct literal (the goroutines' shared state kept in a struct)
	ast.Inspect(fd.Body, func(n ast.Node) bool {
		cl, ok := n.(*ast.CompositeLit)
		if !ok {
			return true
		}
		if _, isStruct := derefType(c.typeOf(cl)).Underlying().(*types.Struct); !isStruct {
			return true
		}
		for _, el := range cl.Elts {
			kv, ok := el.(*ast.KeyValueExpr)
			if !ok {
				continue
			}
			call, ok := kv.Value.(*ast.CallExpr)
			if !ok || c.calleeName(call) != "make" {
				continue
			}
			if ct, isChan := c.typeOf(call).Underlying().(*types.Chan); isChan {
				if id, ok := kv.Key.(*ast.Ident); ok {
					m.ChanFields["<"+typeShort(c.typeOf(cl))+">."+id.Name] = id.Name
					m.ChanElem[id.Name] = ct.Elem()
				}
			}
		}
		return true
	})
	m.FileParam = c.paramObj(fd, fileIdx)
	m.Files[m.FileParam] = true
	if fd.Type.Results != nil {
		for _, f := range fd.Type.Results.List {
			for _, n := range f.Names {
				if n.Name != "_" {
					m.ProgObj = c.infoFor(fd).Defs[n]
				}
			}
		}
	}
	// a helper that makes channels and starts a goroutine, returning the channels (inpc, rerr := streamFile(f, done)):
	// its statements are read as if written here, its parameters standing for the arguments and the variables
	// it returns for the variables they are assigned to
	var stmts []ast.Stmt
	type laterBind struct {
		lhs  []ast.Expr
		rets []ast.Expr
	}
	var binds []laterBind
	var pendingParams []func()
	for _, st := range fd.Body.List {
		as, isA := st.(*ast.AssignStmt)
		if isA && len(as.Rhs) == 1 {
			if call, isC := as.Rhs[0].(*ast.CallExpr); isC {
				if fn, isF := c.callee(call).(*types.Func); isF && fn.Pkg() != nil && fn.Pkg().Path() == bclPath {
					if hd := c.funcDecls[fn]; hd != nil && hd.Body != nil && len(hd.Body.List) > 0 {
						hasGo := false
						for _, hs := range hd.Body.List {
							if _, isGo := hs.(*ast.GoStmt); isGo {
								hasGo = true
							}
						}
						if rs, isRet := hd.Body.List[len(hd.Body.List)-1].(*ast.ReturnStmt); isRet && hasGo && len(rs.Results) == len(as.Lhs) {
							call, hd := call, hd
							pendingParams = append(pendingParams, func() {
								for k, a := range call.Args {
									po := c.paramObj(hd, k)
									if po == nil {
										continue
									}
									if ao := c.objOfExpr(a); ao != nil {
										if n, isCh := m.Chans[ao]; isCh {
											m.Chans[po] = n
										}
										if m.Files[ao] {
											m.Files[po] = true
										}
									}
								}
							})
							stmts = append(stmts, &ast.EmptyStmt{Semicolon: call.Pos(), Implicit: true})
							stmts = append(stmts, hd.Body.List[:len(hd.Body.List)-1]...)
							binds = append(binds, laterBind{as.Lhs, rs.Results})
							continue
						}
					}
				}
			}
		}
		stmts = append(stmts, st)
	}
	nextParams := 0
	for _, s := range stmts {
		switch s := s.(type) {
		case *ast.EmptyStmt:
			// entering a spliced helper: its parameters take the roles of the arguments known so far
			if s.Implicit && nextParams < len(pendingParams) {
				pendingParams[nextParams]()
				nextParams++
			}
		case *ast.AssignStmt:
			for i, r := range s.Rhs {
				if call, ok := r.(*ast.CallExpr); ok && c.calleeName(call) == "make" {
					if ct, isChan := c.typeOf(call).Underlying().(*types.Chan); isChan && i < len(s.Lhs) {
						if id, ok := s.Lhs[i].(*ast.Ident); ok {
							m.Chans[c.objOf(id)] = id.Name
							m.ChanElem[id.Name] = ct.Elem()
						}
					}
				}
			}
		case *ast.GoStmt:
			m.NGo++
			var lit *goBody
			if fl, ok := s.Call.Fun.(*ast.FuncLit); ok {
				lit = &goBody{fl.Body, fl.Pos()}
			} else if fn, ok := c.callee(s.Call).(*types.Func); ok {
				// a named function: its parameters stand for the arguments
				if hd := c.funcDecls[fn]; hd != nil && hd.Body != nil {
					lit = &goBody{hd.Body, hd.Pos()}
					for i, a := range s.Call.Args {
						po := c.paramObj(hd, i)
						if po == nil {
							continue
						}
						if ao := c.objOfExpr(a); ao != nil {
							if n, isCh := m.Chans[ao]; isCh {
								m.Chans[po] = n
							}
							if m.Files[ao] {
								m.Files[po] = true
							}
						}
					}
				}
			}
			if lit == nil {
				continue
			}
			isReader, isParser := false, false
			ast.Inspect(lit.Body, func(n ast.Node) bool {
				if call, ok := n.(*ast.CallExpr); ok {
					if sel, ok := call.Fun.(*ast.SelectorExpr); ok && sel.Sel.Name == "Read" && m.isFile(c, sel.X) {
						isReader = true
					}
					if c.calleeName(call) == "parseWithOpts" {
						isParser = true
					}
					// the read loop moved into a helper that is handed the input
					if fn, ok := c.callee(call).(*types.Func); ok && fn.Pkg() != nil && fn.Pkg().Path() == bclPath {
						if hd := c.funcDecls[fn]; hd != nil && hd.Body != nil {
							for k, a := range call.Args {
								if !m.isFile(c, a) {
									continue
								}
								po := c.paramObj(hd, k)
								ast.Inspect(hd.Body, func(x ast.Node) bool {
									if hc, ok := x.(*ast.CallExpr); ok {
										if sel, ok := hc.Fun.(*ast.SelectorExpr); ok && sel.Sel.Name == "Read" && c.isObj(sel.X, po) {
											isReader = true
										}
									}
									return true
								})
							}
						}
					}
				}
				return true
			})
			if isReader {
				m.Reader, m.ReaderGo = lit, s
			}
			if isParser {
				m.Parser, m.ParserGo = lit, s
			}
		}
	}
	for _, b := range binds {
		for i, l := range b.lhs {
			ro := c.objOfExpr(b.rets[i])
			lo := c.objOfExpr(l)
			if ro == nil || lo == nil {
				continue
			}
			if n, isCh := m.Chans[ro]; isCh {
				m.Chans[lo] = n
			}
		}
	}
	if m.Reader == nil || m.Parser == nil {
		return m, fmt.Errorf("ParseFile: reader goroutine (calls f.Read) or parser goroutine (calls parseWithOpts) not found")
	}
	// the channels are known by their role, whatever they are called: inpc carries the chunks (strings), done is
	// the empty-struct signal, rerr is the verdict channel the reader sends on, perr the one the parser sends on
	sendsOn := func(body *ast.BlockStmt, name string) bool {
		found := false
		var scan func(b ast.Node, depth int)
		scan = func(b ast.Node, depth int) {
			ast.Inspect(b, func(n ast.Node) bool {
				switch n := n.(type) {
				case *ast.SendStmt:
					if m.chanKeyName(c, n.Chan) == name {
						found = true
					}
				case *ast.CallExpr:
					if depth < 2 {
						if fn, ok := c.callee(n).(*types.Func); ok && fn.Pkg() != nil && fn.Pkg().Path() == bclPath {
							if hd := c.funcDecls[fn]; hd != nil && hd.Body != nil {
								// channels handed on as arguments
								for k, a := range n.Args {
									if nm := m.chanKeyName(c, a); nm != "" {
										if po := c.paramObj(hd, k); po != nil {
											if _, has := m.Chans[po]; !has {
												m.Chans[po] = nm
											}
										}
									}
								}
								scan(hd.Body, depth+1)
							}
						}
					}
				}
				return true
			})
		}
		scan(body, 0)
		return found
	}
	rename := map[string]string{}
	for name, elem := range m.ChanElem {
		switch u := elem.Underlying().(type) {
		case *types.Basic:
			if u.Info()&types.IsString != 0 {
				rename[name] = "inpc"
			}
		case *types.Struct:
			if u.NumFields() == 0 {
				rename[name] = "done"
			}
		}
		if _, done := rename[name]; done {
			continue
		}
		switch {
		case sendsOn(m.Reader.Body, name):
			rename[name] = "rerr"
		case sendsOn(m.Parser.Body, name):
			rename[name] = "perr"
		}
	}
	for k, v := range m.Chans {
		if nv, ok := rename[v]; ok {
			m.Chans[k] = nv
		}
	}
	for k, v := range m.ChanFields {
		if nv, ok := rename[v]; ok {
			m.ChanFields[k] = nv
		}
	}
	for old, nv := range rename {
		if old != nv {
			m.ChanElem[nv] = m.ChanElem[old]
		}
	}
	return m, nil
}

func (m *pfModel) isFile(c *Ctx, e ast.Expr) bool {
	o := c.objOfExpr(e)
	if o != nil && m.Files[o] {
		return true
	}
	// the input kept in a struct field: by its type
	if _, isSel := stripParens(e).(*ast.SelectorExpr); isSel {
		if t := c.typeOf(e); t != nil && isNamed(t, bclPath, "FileInput") {
			return true
		}
	}
	return false
}

// chanKeyName: the name under which the channel denoted by e is known to the model ("" when it is not one).
func (m *pfModel) chanKeyName(c *Ctx, e ast.Expr) string {
	e = stripParens(e)
	if id, ok := e.(*ast.Ident); ok {
		return m.Chans[c.objOf(id)]
	}
	if sel, ok := e.(*ast.SelectorExpr); ok {
		return m.ChanFields[c.fieldPath(sel)]
	}
	return ""
}

func (c *Ctx) concHooks(m *pfModel) Hooks {
	pay := func(st *State) *concPay { return st.P.(*concPay) }
	var curSt *State
	chName := func(e ast.Expr) string {
		if sel, ok := stripParens(e).(*ast.SelectorExpr); ok {
			if n, ok := m.ChanFields[c.fieldPath(sel)]; ok {
				return n
			}
		}
		if id, ok := stripParens(e).(*ast.Ident); ok {
			if n, ok := m.Chans[c.objOf(id)]; ok {
				return n
			}
			// a channel handed to a helper: its parameter holds the channel's value
			if curSt != nil {
				if v, ok := curSt.Env[c.objOf(id)]; ok && v.K == vTag && v.Tag == "chan" {
					return v.Data.(string)
				}
			}
		}
		return "?" + types.ExprString(e)
	}
	isFile := func(st *State, e ast.Expr) bool {
		if m.isFile(c, e) {
			return true
		}
		if id, ok := stripParens(e).(*ast.Ident); ok && st != nil {
			if v, ok := st.Env[c.objOf(id)]; ok && v.K == vTag && v.Tag == "file" {
				return true
			}
		}
		return false
	}
	valOf := func(st *State, e ast.Expr) (Value, bool) {
		if id, ok := stripParens(e).(*ast.Ident); ok {
			v, ok := st.Env[c.objOf(id)]
			return v, ok
		}
		return Value{}, false
	}
	describe := func(st *State, e ast.Expr, v Value) string {
		p := pay(st)
		switch {
		case v.K == vTag && v.Tag == "nil":
			return "nil"
		case e != nil && c.isObj(e, p.errObj) && p.errObj != nil:
			return "err"
		case v.K == vTag && v.Tag == "readerr":
			return "err"
		case v.K == vTag:
			return v.Tag
		}
		if e == nil {
			return "value"
		}
		if id, ok := stripParens(e).(*ast.Ident); ok {
			return id.Name
		}
		return "value"
	}
	var h Hooks
	h.DecideAnywhere = true
	h.SameEffect = func(a, b *State) bool { return strings.Join(pay(a).events, ";") == strings.Join(pay(b).events, ";") }
	h.Send = func(in *Interp, st *State, s *ast.SendStmt, v Value) {
		curSt = st
		if v.K == vStruct {
			// a message carrying several results: the program travels inside it (published by the send itself),
			// the error is what the send is about
			what := "value"
			hasProg := false
			for _, fv := range v.Fields {
				if fv.K == vTag && fv.Tag == "prog" {
					hasProg = true
				}
				if fv.K == vTag && (fv.Tag == "perr" || fv.Tag == "readerr" || fv.Tag == "nil") {
					what = describe(st, nil, fv)
				}
			}
			if hasProg {
				pay(st).ev("store prog")
			}
			pay(st).ev("send " + chName(s.Chan) + " " + what)
			return
		}
		pay(st).ev("send " + chName(s.Chan) + " " + describe(st, s.Value, v))
	}
	h.Recv = func(in *Interp, st *State, e *ast.UnaryExpr) (Value, bool) {
		curSt = st
		name := chName(e.X)
		pay(st).ev("recv " + name)
		if ct, ok := c.typeOf(e.X).Underlying().(*types.Chan); ok {
			if stt, isStruct := ct.Elem().Underlying().(*types.Struct); isStruct && stt.NumFields() > 0 {
				v := Value{K: vStruct, T: ct.Elem(), Fields: map[string]Value{}}
				for i := 0; i < stt.NumFields(); i++ {
					f := stt.Field(i)
					if isErrorType(f.Type()) {
						v.Fields[f.Name()] = tagV("recv:"+name, nil)
					} else {
						v.Fields[f.Name()] = tagV("recvpart:"+name, f.Name())
					}
				}
				return v, true
			}
		}
		return tagV("recv:"+name, nil), true
	}
	h.Go = func(in *Interp, st *State, s *ast.GoStmt) {
		pay(st).ev("go")
	}
	h.Call = func(in *Interp, st *State, call *ast.CallExpr, callee types.Object, args []Value) ([]valState, bool) {
		p := pay(st)
		curSt = st
		name := qname(callee)
		switch name {
		case "close":
			p.ev("close " + chName(call.Args[0]))
			return one(st, unknownV()), true
		case "string":
			return nil, false
		}
		if sel, ok := call.Fun.(*ast.SelectorExpr); ok && isFile(st, sel.X) {
			p.ev("call f." + sel.Sel.Name)
			if sel.Sel.Name == "Read" {
				return one(st, Value{K: vTuple, Tup: []Value{tagV("readn", nil), tagV("readerr", nil)}}), true
			}
			return one(st, unknownV()), true
		}
		if name == "parseWithOpts" {
			p.ev("call parseWithOpts")
			return one(st, Value{K: vTuple, Tup: []Value{tagV("prog", nil), tagV("perr", nil)}}), true
		}
		return nil, false
	}
	h.Store = func(in *Interp, st *State, lhs ast.Expr, op token.Token, v Value) bool {
		if m.ProgObj != nil && c.isObj(lhs, m.ProgObj) {
			pay(st).ev("store prog")
			return true
		}
		// a field of a local message value (a variable of a channel's element type): the message is built up field
		// by field and published by its send
		if sel, ok := lhs.(*ast.SelectorExpr); ok && op == token.ASSIGN {
			if id, isID := stripParens(sel.X).(*ast.Ident); isID {
				if lo, isVar := c.objOf(id).(*types.Var); isVar && !lo.IsField() && lo.Parent() != nil && lo.Parent() != lo.Pkg().Scope() {
					isMsg := false
					for _, et := range m.ChanElem {
						if et != nil && types.Identical(et, lo.Type()) {
							if _, isStruct := et.Underlying().(*types.Struct); isStruct {
								isMsg = true
							}
						}
					}
					if isMsg {
						cur, has := st.Env[lo]
						if !has || cur.K != vStruct {
							cur = Value{K: vStruct, T: lo.Type(), Fields: map[string]Value{}}
						} else {
							nf := map[string]Value{}
							for k, fv := range cur.Fields {
								nf[k] = fv
							}
							cur.Fields = nf
						}
						cur.Fields[sel.Sel.Name] = v
						st.Env[lo] = cur
						return true
					}
				}
			}
		}
		// the program handed over through a field of the shared state
		if sel, ok := lhs.(*ast.SelectorExpr); ok && v.K == vTag && v.Tag == "prog" {
			if o, isVar := c.objOf(sel).(*types.Var); isVar && o.IsField() {
				pay(st).ev("store prog")
				return true
			}
		}
		return false
	}
	h.Decide = func(in *Interp, st *State, cond ast.Expr) tri {
		p := pay(st)
		be, ok := stripParens(cond).(*ast.BinaryExpr)
		if !ok {
			return triUnknown
		}
		isNil := func(e ast.Expr) bool {
			id, ok := stripParens(e).(*ast.Ident)
			return ok && id.Name == "nil"
		}
		isEOF := func(e ast.Expr) bool {
			return qname(c.objOf(e)) == "io.EOF"
		}
		x, y := be.X, be.Y
		if isNil(x) || isEOF(x) {
			x, y = y, x
		}
		res := triUnknown
		if p.rerrNil != "" && isNil(y) {
			if id, ok := stripParens(x).(*ast.Ident); ok {
				if v, ok := st.Env[c.objOf(id)]; ok && v.K == vTag && v.Tag == "recv:rerr" {
					eq := p.rerrNil == "nil"
					if be.Op == token.EQL {
						return boolTri(eq)
					}
					if be.Op == token.NEQ {
						return boolTri(!eq)
					}
				}
			}
		}
		xv, _ := valOf(st, x)
		isErr := (p.errObj != nil && c.isObj(x, p.errObj)) || (xv.K == vTag && xv.Tag == "readerr")
		isN := (p.nObj != nil && c.isObj(x, p.nObj)) || (xv.K == vTag && xv.Tag == "readn")
		switch {
		case isErr && p.err != "":
			var eq bool
			switch {
			case isNil(y):
				eq = p.err == "nil"
			case isEOF(y):
				eq = p.err == "EOF"
			default:
				return triUnknown
			}
			switch be.Op {
			case token.EQL:
				res = boolTri(eq)
			case token.NEQ:
				res = boolTri(!eq)
			}
		case isN && p.n != "":
			k, isC := c.intConst(y)
			if !isC {
				return triUnknown
			}
			zero := p.n == "0"
			// n is 0 or some positive value
			switch {
			case k == 0 && be.Op == token.EQL:
				res = boolTri(zero)
			case k == 0 && be.Op == token.NEQ, k == 0 && be.Op == token.GTR, k == 1 && be.Op == token.GEQ:
				res = boolTri(!zero)
			case k == 0 && be.Op == token.LEQ, k == 1 && be.Op == token.LSS:
				res = boolTri(zero)
			}
		}
		return res
	}
	return h
}

func boolTri(b bool) tri {
	if b {
		return triTrue
	}
	return triFalse
}

// readerOutcome is what one loop iteration does under one read outcome.
type readerOutcome struct {
	Err, N string
	Events []string // events of the iteration (and of the loop exit, if it leaves)
	Exit   string   // "loop" (next iteration), "break", "return"
}

// readerModel analyses the reader goroutine.
type readerModel struct {
	Prologue []string // events before the loop, e.g. "defer f.Close"
	Outcomes []readerOutcome
	Epilogue []string // events after the loop (on break)
	Deferred []string
	Problems []string
}

func (c *Ctx) readerModel(m *pfModel) *readerModel {
	rm := &readerModel{}
	// The whole goroutine is interpreted once per abstract read outcome. Module functions that are handed the
	// input, a channel or both (the read loop moved into a helper) are interpreted in place; the read loop — the
	// first loop without a condition that is met — is run for one iteration: a path that would go round again
	// ends there as "loop"; a path that leaves it runs on to the end of the goroutine.
	deferDesc := func(call *ast.CallExpr) string {
		if sel, ok := call.Fun.(*ast.SelectorExpr); ok && m.isFile(c, sel.X) {
			return "f." + sel.Sel.Name
		}
		return c.calleeName(call)
	}
	// prologue: what precedes the statement that contains (or calls the helper containing) the read loop
	body := m.Reader.Body.List
	holdsLoop := func(st ast.Stmt) bool {
		found := false
		ast.Inspect(st, func(n ast.Node) bool {
			switch n := n.(type) {
			case *ast.ForStmt:
				found = true
			case *ast.CallExpr:
				if fn, ok := c.callee(n).(*types.Func); ok && fn.Pkg() != nil && fn.Pkg().Path() == bclPath {
					if hd := c.funcDecls[fn]; hd != nil && hd.Body != nil {
						ast.Inspect(hd.Body, func(x ast.Node) bool {
							if _, isFor := x.(*ast.ForStmt); isFor {
								found = true
							}
							return true
						})
					}
				}
			}
			return true
		})
		return found
	}
	loopIdx := -1
	for i, st := range body {
		if holdsLoop(st) {
			loopIdx = i
			break
		}
	}
	if loopIdx < 0 {
		rm.Problems = append(rm.Problems, "no read loop in the reader goroutine")
		return rm
	}
	for _, st := range body[:loopIdx] {
		switch st := st.(type) {
		case *ast.DeferStmt:
			rm.Prologue = append(rm.Prologue, "defer "+deferDesc(st.Call))
			rm.Deferred = append(rm.Deferred, deferDesc(st.Call))
		case *ast.DeclStmt:
		case *ast.AssignStmt:
		default:
			rm.Prologue = append(rm.Prologue, fmt.Sprintf("stmt %T", st))
		}
	}
	h := c.concHooks(m)
	type loopInfo struct{ seen bool }
	li := &loopInfo{}
	loopExit := map[*State]string{}
	h.Inline = func(fn *types.Func) bool {
		if fn.Pkg() == nil || fn.Pkg().Path() != bclPath {
			return false
		}
		sig := fn.Type().(*types.Signature)
		for i := 0; i < sig.Params().Len(); i++ {
			t := sig.Params().At(i).Type()
			if _, isCh := t.Underlying().(*types.Chan); isCh {
				return true
			}
			if types.TypeString(t, nil) == "github.com/wkhere/bcl.FileInput" || types.TypeString(t, nil) == "io.Reader" || types.TypeString(t, nil) == "io.ReadCloser" {
				return true
			}
		}
		// a step written as a method of the struct that holds the channels
		if rv := sig.Recv(); rv != nil {
			if stt, ok := derefType(rv.Type()).Underlying().(*types.Struct); ok {
				for i := 0; i < stt.NumFields(); i++ {
					if _, isCh := stt.Field(i).Type().Underlying().(*types.Chan); isCh {
						return true
					}
				}
			}
		}
		return false
	}
	h.Loop = func(in *Interp, st *State, loop ast.Stmt, bodyFn func(*State) []*State) ([]*State, bool) {
		fs, ok := loop.(*ast.ForStmt)
		if !ok {
			return nil, false
		}
		if li.seen && false {
			return nil, false
		}
		if fs.Cond != nil || fs.Init != nil || fs.Post != nil {
			rm.Problems = append(rm.Problems, "the read loop has a condition; expected `for { ... }`")
		}
		var out []*State
		for _, after := range bodyFn(st) {
			switch after.Term {
			case tNone, tContinue:
				// would read again: the iteration is the whole outcome; nothing after it is recorded
				after.Term = tNone
				after.P.(*concPay).ev("@loop")
				after.P.(*concPay).halted = true
				out = append(out, after)
			case tBreak:
				after.Term = tNone
				after.P.(*concPay).ev("@break")
				out = append(out, after)
			default:
				after.P.(*concPay).ev("@return")
				out = append(out, after)
			}
		}
		return out, true
	}
	_ = loopExit
	in := newInterp(c, h)
	for _, e := range []string{"nil", "EOF", "other"} {
		for _, n := range []string{"0", "pos"} {
			st := &State{Env: map[types.Object]Value{}, P: &concPay{err: e, n: n}}
			for obj, name := range m.Chans {
				st.Env[obj] = tagV("chan", name)
			}
			for obj := range m.Files {
				st.Env[obj] = tagV("file", nil)
			}
			// the statements from the loop's statement on (defers before it are accounted for in the prologue)
			for _, r := range in.execBlock([]*State{st}, body[loopIdx:]) {
				p := r.P.(*concPay)
				o := readerOutcome{Err: e, N: n}
				for _, ev := range p.events {
					switch ev {
					case "@loop":
						o.Exit = "loop"
					case "@break":
						if o.Exit == "" {
							o.Exit = "break"
						}
					case "@return":
						if o.Exit == "" {
							o.Exit = "return"
						}
					default:
						o.Events = append(o.Events, ev)
					}
				}
				if o.Exit == "" {
					o.Exit = "?"
				}
				// a return out of a helper that holds the loop is not the end of the goroutine: what matters is
				// whether the goroutine went on (it did, the events after it are included) — classify by effect
				if o.Exit == "return" && r.Term != tReturn {
					o.Exit = "break"
				}
				rm.Outcomes = append(rm.Outcomes, o)
			}
		}
	}
	for _, u := range in.Undecided {
		rm.Problems = append(rm.Problems, "undecided: "+u)
	}
	return rm
}

// count counts events with the given prefix.
func countEv(ev []string, prefix string) int {
	n := 0
	for _, e := range ev {
		if strings.HasPrefix(e, prefix) {
			n++
		}
	}
	return n
}

func ruleReaderProtocol(c *Ctx, r *Report, rule string, forC07 bool) {
	mode := "c11"
	if forC07 {
		mode = "c07"
	}
	ruleReaderProtocolMode(c, r, rule, mode)
}

// ruleReaderProtocolMode: "c07" = data forwarding only; "c06" = termination only; "c11" = everything.
func ruleReaderProtocolMode(c *Ctx, r *Report, rule string, mode string) {
	forC07 := mode == "c07"
	r.rule(rule, 3, "reader goroutine, per read outcome (err ∈ {nil, EOF, other} × n ∈ {0, >0}) and select branch: data (n>0 with nil or EOF) is always offered to the lexer; n=0 without EOF is skipped; EOF with n=0 and errors end the loop; every way out of the loop sends exactly once on rerr, staying in it sends nothing on rerr; the chunk send is in a select with <-done; inpc is closed after the loop; Close is deferred at entry")
	m, err := c.parseFileModel()
	if err != nil {
		r.bad(rule, "ParseFile", err.Error(), "")
		return
	}
	r.fn("ParseFile", "ParseFile$go#1", "ParseFile$go#2")
	rm := c.readerModel(m)
	pos := c.pos(m.Reader.Pos())
	for _, p := range rm.Problems {
		r.undecided(rule, "reader", p, pos)
	}
	if len(rm.Outcomes) == 0 {
		return
	}
	by := map[string][]readerOutcome{}
	for _, o := range rm.Outcomes {
		by[o.Err+"/"+o.N] = append(by[o.Err+"/"+o.N], o)
	}
	// data is forwarded
	for _, k := range []string{"nil/pos", "EOF/pos"} {
		if mode == "c06" {
			break
		}
		okSend, okGuard := false, true
		for _, o := range by[k] {
			if countEv(o.Events, "send inpc") == 1 && o.Exit == "loop" {
				okSend = true
			}
		}
		// each outcome either sent the chunk or observed done
		for _, o := range by[k] {
			if countEv(o.Events, "send inpc") == 0 && countEv(o.Events, "recv done") == 0 {
				okGuard = false
			}
		}
		r.check(okSend && okGuard, rule, "forwards/"+k, "the chunk is offered on inpc (or done is observed)", fmt.Sprintf("a read returning data with err=%s does not reach the chunk send: outcomes %v", strings.Split(k, "/")[0], by[k]), pos)
	}
	if !forC07 {
		// guarded send: whenever a chunk is sent there is an alternative outcome that observed done
		guarded := true
		for _, k := range []string{"nil/pos", "EOF/pos"} {
			hasDone, sends := false, false
			for _, o := range by[k] {
				if countEv(o.Events, "recv done") > 0 {
					hasDone = true
				}
				if countEv(o.Events, "send inpc") > 0 {
					sends = true
				}
			}
			if sends && !hasDone {
				guarded = false
			}
		}
		r.check(guarded, rule, "guarded-send", "every chunk send sits in a select with <-done", "a chunk is sent on inpc outside a select that also listens on done: after a parser failure the reader would block forever", pos)
	}
	// zero-byte reads are skipped
	okZero := len(by["nil/0"]) > 0
	for _, o := range by["nil/0"] {
		if countEv(o.Events, "send ") != 0 || o.Exit != "loop" {
			okZero = false
		}
	}
	r.check(okZero, rule, "skips-empty/nil/0", "a read of zero bytes without error sends nothing and reads again", fmt.Sprintf("a Read returning (0, nil) must be skipped; outcomes %v", by["nil/0"]), pos)
	if forC07 {
		return
	}
	// exits
	for _, k := range []string{"EOF/0", "other/0", "other/pos"} {
		if mode == "c06" {
			break
		}
		ok := len(by[k]) > 0
		why := ""
		for _, o := range by[k] {
			want := "send rerr nil"
			if strings.HasPrefix(k, "other") {
				want = "send rerr err"
			}
			if o.Exit == "loop" || countEv(o.Events, "send rerr") != 1 || countEv(o.Events, want) != 1 || countEv(o.Events, "send inpc") != 0 {
				ok = false
				why = fmt.Sprintf("%v then %s", o.Events, o.Exit)
			}
			if o.Exit != "loop" && countEv(o.Events, "recv done") == 0 && countEv(o.Events, "close inpc") != 1 {
				ok = false
				why = "the loop is left without closing inpc"
			}
		}
		r.check(ok, rule, "ends/"+k, "leaves the loop, one send on rerr, inpc closed", fmt.Sprintf("read outcome %s: %s", k, why), pos)
	}
	// rerr exactly once on every way out, never while looping
	okOnce := true
	why := ""
	for _, o := range rm.Outcomes {
		n := countEv(o.Events, "send rerr")
		if (o.Exit == "loop" && n != 0) || (o.Exit != "loop" && n != 1) {
			okOnce = false
			why = fmt.Sprintf("outcome err=%s n=%s: %d sends on rerr, then %s (%v)", o.Err, o.N, n, o.Exit, o.Events)
		}
		if o.Exit == "return" && countEv(o.Events, "recv done") == 0 && countEv(o.Events, "close inpc") != 1 {
			okOnce = false
			why = "the reader returns from inside the loop without having observed done and without closing inpc"
		}
		if o.Exit == "?" {
			okOnce = false
			why = "unexpected way out of the loop"
		}
	}
	r.check(okOnce, rule, "rerr-once", "exactly one send on rerr on every way out, none while looping", why, pos)
	if mode == "c06" {
		return
	}
	// Close deferred at entry, nothing else closes
	okClose := len(rm.Deferred) == 1 && rm.Deferred[0] == "f.Close" && len(rm.Prologue) == 1
	closeCalls := 0
	roots := []ast.Node{m.Func.Body}
	if !(m.Func.Body.Pos() <= m.Reader.Body.Pos() && m.Reader.Body.End() <= m.Func.Body.End()) {
		roots = append(roots, m.Reader.Body)
	}
	for _, root := range roots {
		ast.Inspect(root, func(n ast.Node) bool {
			if call, ok := n.(*ast.CallExpr); ok {
				if sel, ok := call.Fun.(*ast.SelectorExpr); ok && sel.Sel.Name == "Close" && m.isFile(c, sel.X) {
					closeCalls++
				}
			}
			return true
		})
	}
	r.check(okClose && closeCalls == 1, rule, "close-once", "defer f.Close() is the reader's first statement and the only Close", fmt.Sprintf("the input must be closed by a `defer f.Close()` at the very start of the reader goroutine and nowhere else (deferred %v, %d Close call sites, prologue %v)", rm.Deferred, closeCalls, rm.Prologue), pos)
}

func ruleParserProtocol(c *Ctx, r *Report, rule string) {
	r.rule(rule, 4, "parser goroutine: parses, closes done only when parsing failed (at most once), stores prog and then sends exactly once on perr as its last action; the caller starts both goroutines unconditionally, receives once from rerr and once from perr before using prog, and prefers the read error")
	m, err := c.parseFileModel()
	if err != nil {
		r.bad(rule, "ParseFile", err.Error(), "")
		return
	}
	hk := c.concHooks(m)
	hk.Inline = func(fn *types.Func) bool {
		// small helpers choosing between errors are read through
		if fn.Pkg() == nil || fn.Pkg().Path() != bclPath {
			return false
		}
		sig := fn.Type().(*types.Signature)
		for i := 0; i < sig.Params().Len(); i++ {
			if isErrorType(sig.Params().At(i).Type()) {
				return true
			}
		}
		// a helper that makes channels and starts one of the goroutines
		if hd := c.funcDecls[fn]; hd != nil && hd.Body != nil {
			for _, hs := range hd.Body.List {
				if _, isGo := hs.(*ast.GoStmt); isGo {
					return true
				}
			}
		}
		// a step of ParseFile written as a method of the struct that holds its channels (wait, collect)
		if rv := sig.Recv(); rv != nil {
			if stt, ok := derefType(rv.Type()).Underlying().(*types.Struct); ok {
				for i := 0; i < stt.NumFields(); i++ {
					if _, isCh := stt.Field(i).Type().Underlying().(*types.Chan); isCh {
						return true
					}
				}
			}
		}
		return false
	}
	in := newInterp(c, hk)
	st := &State{Env: map[types.Object]Value{}, P: &concPay{}}
	res := in.exec(st, m.Parser.Body)
	pos := c.pos(m.Parser.Pos())
	ok := len(res) == 2
	why := fmt.Sprintf("%d paths", len(res))
	closes := 0
	for _, x := range res {
		ev := x.P.(*concPay).events
		n := len(ev)
		if countEv(ev, "send perr") != 1 || n == 0 || !strings.HasPrefix(ev[n-1], "send perr perr") {
			ok, why = false, fmt.Sprintf("path %v does not end with the single send of the parse error on perr", ev)
		}
		if countEv(ev, "store prog") != 1 || indexOf(ev, "store prog") > indexOf(ev, "send perr perr") {
			ok, why = false, fmt.Sprintf("path %v does not publish prog before the perr send", ev)
		}
		if countEv(ev, "call parseWithOpts") != 1 {
			ok, why = false, "the parser goroutine must call parseWithOpts exactly once"
		}
		cl := countEv(ev, "close done")
		closes += cl
		if cl > 1 || (cl == 1 && indexOf(ev, "close done") > indexOf(ev, "send perr perr")) {
			ok, why = false, "done must be closed at most once and before the perr send"
		}
		if countEv(ev, "close inpc")+countEv(ev, "send rerr")+countEv(ev, "send inpc") != 0 {
			ok, why = false, "the parser goroutine touches the reader's channels"
		}
	}
	r.check(ok && closes == 1, rule, "parser-goroutine", "parse; [close(done) iff error]; prog = p; perr <- err", "parser goroutine: "+why+fmt.Sprintf(" (paths closing done: %d, expected exactly the error path)", closes), pos)
	// done closed only under err != nil
	okCond := false
	ast.Inspect(m.Parser.Body, func(n ast.Node) bool {
		ifs, isIf := n.(*ast.IfStmt)
		if !isIf {
			return true
		}
		be, isB := stripParens(ifs.Cond).(*ast.BinaryExpr)
		if !isB || be.Op != token.NEQ {
			return true
		}
		if id, isNil := stripParens(be.Y).(*ast.Ident); isNil && id.Name == "nil" {
			for _, s := range ifs.Body.List {
				if es, ok := s.(*ast.ExprStmt); ok {
					if call, ok := es.X.(*ast.CallExpr); ok && c.calleeName(call) == "close" {
						okCond = true
					}
				}
			}
		}
		return true
	})
	r.check(okCond, rule, "done-on-error", "close(done) under err != nil", "done must be closed exactly when parsing returned an error", pos)
	// the caller
	var callerStmts []ast.Stmt
	for _, s := range m.Func.Body.List {
		callerStmts = append(callerStmts, s)
	}
	st = &State{Env: map[types.Object]Value{}, P: &concPay{}}
	res = in.execBlock([]*State{st}, callerStmts)
	okCaller := len(res) >= 1
	whyC := ""
	for _, x := range res {
		ev := x.P.(*concPay).events
		if countEv(ev, "go") != 2 || countEv(ev, "recv rerr") != 1 || countEv(ev, "recv perr") != 1 {
			okCaller = false
			whyC = fmt.Sprintf("a path of ParseFile has events %v; expected two go statements and one receive from each of rerr and perr", ev)
		}
		if indexOf(ev, "recv rerr") > indexOf(ev, "recv perr") {
			okCaller = false
			whyC = "rerr must be received before perr"
		}
		if x.Term != tReturn {
			okCaller = false
			whyC = "ParseFile does not end in a return"
		}
	}
	r.check(okCaller, rule, "caller", "go reader; go parser; <-rerr; <-perr; return", "ParseFile: "+whyC, c.pos(m.Func.Pos()))
	// prefers the read error: interpret the caller twice — with the value received from rerr nil / non-nil —
	// and look at which received value is returned as the error
	okPrefer := true
	whyP := ""
	for _, sc := range []struct{ rerr, want string }{{"nil", "recv:perr"}, {"nonnil", "recv:rerr"}} {
		st := &State{Env: map[types.Object]Value{}, P: &concPay{rerrNil: sc.rerr}}
		res := in.execBlock([]*State{st}, callerStmts)
		if len(res) == 0 {
			okPrefer, whyP = false, "no path"
		}
		for _, x := range res {
			got := "?"
			if x.Term == tReturn && len(x.Ret) == 2 && x.Ret[1].K == vTag {
				got = x.Ret[1].Tag
			}
			if got != sc.want {
				okPrefer = false
				whyP = fmt.Sprintf("when the read error is %s, ParseFile returns %s as its error (expected %s)", sc.rerr, got, sc.want)
			}
		}
	}
	r.check(okPrefer, rule, "prefers-read-error", "returns the read error, else the parse error", "ParseFile must return the error received from rerr when it is non-nil, otherwise the one from perr: "+whyP, c.pos(m.Func.Pos()))
	// channels unbuffered
	okUnbuf := true
	ast.Inspect(m.Func.Body, func(n ast.Node) bool {
		if call, ok := n.(*ast.CallExpr); ok && c.calleeName(call) == "make" {
			if _, isChan := c.typeOf(call).Underlying().(*types.Chan); isChan && len(call.Args) > 1 {
				okUnbuf = false
			}
		}
		return true
	})
	r.check(okUnbuf, rule, "unbuffered", "inpc, rerr, perr, done are unbuffered", "ParseFile's channels must be unbuffered (a buffered chunk channel lets the reader run ahead of a failed parse and changes which error wins)", c.pos(m.Func.Pos()))
}

func indexOf(ev []string, prefix string) int {
	for i, e := range ev {
		if strings.HasPrefix(e, prefix) {
			return i
		}
	}
	return 1 << 30
}

// ruleChunkImmutable: chunks are Go strings copied from the read buffer.
func ruleChunkImmutable(c *Ctx, r *Report, rule string) {
	r.rule(rule, 2, "chunks travel as strings made by converting b[:n] of the same Read (a copy): the reader reusing its buffer cannot change bytes the lexer already holds; Parse and ParseFile feed the same parseWithOpts pipeline")
	m, err := c.parseFileModel()
	if err != nil {
		r.bad(rule, "ParseFile", err.Error(), "")
		return
	}
	ok := false
	why := "no send on inpc found"
	// the reader's code: the goroutine body and the module helpers it hands the chunk channel to
	chanName := map[types.Object]string{}
	for o, n := range m.Chans {
		chanName[o] = n
	}
	bodies := []ast.Node{m.Reader.Body}
	argOf := map[types.Object]ast.Expr{} // helper parameter -> the argument it is given
	for i := 0; i < len(bodies) && i < 6; i++ {
		walkCalls(bodies[i], false, func(call *ast.CallExpr) {
			fn, okF := c.callee(call).(*types.Func)
			if !okF || fn.Pkg() == nil || fn.Pkg().Path() != bclPath {
				return
			}
			hd := c.funcDecls[fn]
			if hd == nil || hd.Body == nil {
				return
			}
			passes := false
			for k, a := range call.Args {
				if po := c.paramObj(hd, k); po != nil {
					argOf[po] = a
				}
				if id, isID := stripParens(a).(*ast.Ident); isID {
					if n, isCh := chanName[c.objOf(id)]; isCh {
						if po := c.paramObj(hd, k); po != nil {
							chanName[po] = n
							passes = true
						}
					}
				}
			}
			// a method of the struct that holds the channels (forward(chunk) with the select inside)
			if rv := fn.Type().(*types.Signature).Recv(); rv != nil {
				if stt, isS := derefType(rv.Type()).Underlying().(*types.Struct); isS {
					for i := 0; i < stt.NumFields(); i++ {
						if _, isCh := stt.Field(i).Type().Underlying().(*types.Chan); isCh {
							passes = true
						}
					}
				}
			}
			if passes {
				dup := false
				for _, b := range bodies {
					if b == ast.Node(hd.Body) {
						dup = true
					}
				}
				if !dup {
					bodies = append(bodies, hd.Body)
				}
			}
		})
	}
	inspectReader := func(f func(ast.Node) bool) {
		for _, b := range bodies {
			ast.Inspect(b, f)
		}
	}
	inspectReader(func(n ast.Node) bool {
		ss, isS := n.(*ast.SendStmt)
		if !isS {
			return true
		}
		name := ""
		if id, isID := stripParens(ss.Chan).(*ast.Ident); isID {
			name = chanName[c.objOf(id)]
		} else {
			name = m.chanKeyName(c, ss.Chan) // a channel kept in a struct field
		}
		if name != "inpc" {
			return true
		}
		val := ss.Value
		if id, isID := stripParens(val).(*ast.Ident); isID {
			if a, has := argOf[c.objOf(id)]; has {
				val = a // the chunk handed to the helper that sends it
			}
		}
		call, isC := val.(*ast.CallExpr)
		if !isC {
			why = "the value sent is not a string(...) conversion"
			return true
		}
		tv, okT := c.infoFor(call).Types[call.Fun]
		if !okT || !tv.IsType() || types.TypeString(tv.Type, nil) != "string" {
			why = "the value sent is not a string(...) conversion (unsafe.String or a helper would alias the buffer)"
			return true
		}
		se, isSl := stripParens(call.Args[0]).(*ast.SliceExpr)
		if !isSl || se.Low != nil || se.High == nil {
			why = "the chunk is not b[:n]"
			return true
		}
		ok = true
		return true
	})
	// element type of the chunk channel
	okType := false
	for obj, name := range m.Chans {
		if name == "inpc" {
			if ch, isCh := obj.Type().Underlying().(*types.Chan); isCh {
				okType = types.TypeString(ch.Elem(), nil) == "string"
			}
		}
	}
	if et := m.ChanElem["inpc"]; et != nil && types.TypeString(et, nil) == "string" {
		okType = true
	}
	r.check(ok && okType, rule, "chunk-copy", "inpc <- string(b[:n]) on a chan string", "reader: "+why, c.pos(m.Reader.Pos()))
	// no unsafe in the library
	usesUnsafe := false
	for _, f := range c.Bcl.Syntax {
		for _, imp := range f.Imports {
			if imp.Path.Value == `"unsafe"` {
				usesUnsafe = true
			}
		}
	}
	r.check(!usesUnsafe, rule, "no-unsafe", "the library does not import unsafe", "the library imports unsafe: string/slice aliasing would defeat the immutability of chunks", "")
	// Parse uses the same pipeline
	_, pf := c.find("Parse")
	inIdx := 0
	if pf != nil {
		pf, inIdx = c.throughThinWrappers(pf, 0)
	}
	same := false
	if pf != nil {
		for _, cs := range c.callsOf(pf) {
			if cs.Name == "parseWithOpts" {
				same = true
			}
		}
	}
	r.check(same, rule, "same-pipeline", "Parse and ParseFile both call parseWithOpts", "Parse must go through parseWithOpts like ParseFile does", "")
	// Parse hands its input over as it is: the one send is string(input)
	if pf != nil {
		okSend, sends := false, 0
		isInputString := func(e ast.Expr) bool {
			call, isC := stripParens(e).(*ast.CallExpr)
			if !isC || len(call.Args) != 1 {
				return false
			}
			tv, okT := c.infoFor(call).Types[call.Fun]
			return okT && tv.IsType() && types.TypeString(tv.Type, nil) == "string" && c.isObj(call.Args[0], c.paramObj(pf, inIdx))
		}
		ast.Inspect(pf.Body, func(n ast.Node) bool {
			switch n := n.(type) {
			case *ast.SendStmt:
				sends++
				if isInputString(n.Value) {
					okSend = true
				}
			case *ast.CallExpr:
				// the channel is prepared by a helper: its sends count, and the one sending a parameter that is given string(input)
				fn, isF := c.callee(n).(*types.Func)
				if !isF || fn.Pkg() == nil || fn.Pkg().Path() != bclPath {
					return true
				}
				hd := c.funcDecls[fn]
				if hd == nil || hd.Body == nil {
					return true
				}
				ast.Inspect(hd.Body, func(hn ast.Node) bool {
					ss, isS := hn.(*ast.SendStmt)
					if !isS {
						return true
					}
					sends++
					for i, a := range n.Args {
						if po := c.paramObj(hd, i); po != nil && c.isObj(ss.Value, po) && isInputString(a) {
							okSend = true
						}
					}
					return true
				})
			}
			return true
		})
		r.check(okSend && sends == 1, rule, "parse-input-verbatim", "Parse sends string(input), once", "Parse must hand the input bytes to the lexer unchanged (one send of string(input)): rewriting them (line-end normalisation, trimming) changes string literals and positions", c.pos(pf.Pos()))
	}
}

// throughThinWrappers: while fd's body is the single statement `return g(…)` with g a plain function of the module
// that is handed fd's parameter idx, continue with g and the position of that argument (an exported entry point
// that only turns its options into a config and delegates).
func (c *Ctx) throughThinWrappers(fd *ast.FuncDecl, idx int) (*ast.FuncDecl, int) {
	for depth := 0; depth < 3 && fd != nil && fd.Body != nil && len(fd.Body.List) == 1; depth++ {
		rs, isRet := fd.Body.List[0].(*ast.ReturnStmt)
		if !isRet || len(rs.Results) != 1 {
			break
		}
		call, isCall := stripParens(rs.Results[0]).(*ast.CallExpr)
		if !isCall {
			break
		}
		fn, isFn := c.callee(call).(*types.Func)
		if !isFn || fn.Pkg() == nil || fn.Pkg().Path() != bclPath {
			break
		}
		hd := c.funcDecls[fn]
		if hd == nil || hd.Body == nil || hd.Recv != nil {
			break
		}
		next := -1
		for k, a := range call.Args {
			if c.isObj(a, c.paramObj(fd, idx)) {
				next = k
			}
		}
		if next < 0 {
			break
		}
		fd, idx = hd, next
	}
	return fd, idx
}
