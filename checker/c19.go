package main

import (
	"fmt"
	"go/ast"
	"go/token"
	"go/types"
	"strings"
)

var observers = map[string]string{
	"Prog.disasm": "listing", "Prog.disasmInstr": "one listing line / trace line", "printPStats": "parse statistics", "printXStats": "execution statistics", "printStack": "trace: stack rendering",
}

// ruleFlagNonInterference: the introspection flags steer nothing but calls of observers.
func ruleFlagNonInterference(c *Ctx, r *Report, rule string) {
	r.rule(rule, 8, "every read of config.disasm/trace/stats (and of the copies vmConfig.trace, vm.trace) is either copied into another of these flags or is the condition of an if without else whose body consists solely of calls to the observers (disasm, disasmInstr, printStack, printPStats, printXStats)")
	flagField := func(e ast.Expr) (string, bool) {
		sel, ok := stripParens(e).(*ast.SelectorExpr)
		if !ok {
			return "", false
		}
		s, ok := c.infoFor(sel).Selections[sel]
		if !ok || s.Kind() != types.FieldVal {
			return "", false
		}
		owner, _ := structOf(s.Recv())
		name := owner + "." + sel.Sel.Name
		switch name {
		case "config.disasm", "config.trace", "config.stats", "vmConfig.trace", "vm.trace":
			return name, true
		}
		return "", false
	}
	n := 0
	for _, it := range c.sortedDecls() {
		obj, fd := it.obj, it.fd
		if obj.Pkg() == nil || obj.Pkg().Path() != bclPath || fd.Body == nil {
			continue
		}
		fname := qname(obj)
		pm := parentMap(fd.Body)
		ast.Inspect(fd.Body, func(x ast.Node) bool {
			e, ok := x.(ast.Expr)
			if !ok {
				return true
			}
			fl, ok := flagField(e)
			if !ok {
				return true
			}
			n++
			key := fmt.Sprintf("%s/%s", fname, fl)
			// climb through && / ! / parentheses to the statement
			var cur ast.Node = e
			par := pm[cur]
			for {
				switch p := par.(type) {
				case *ast.ParenExpr:
					cur, par = p, pm[p]
					continue
				case *ast.UnaryExpr:
					if p.Op == token.NOT {
						cur, par = p, pm[p]
						continue
					}
				case *ast.BinaryExpr:
					if p.Op == token.LAND || p.Op == token.LOR {
						cur, par = p, pm[p]
						continue
					}
				}
				break
			}
			switch p := par.(type) {
			case *ast.IfStmt:
				if p.Cond != cur {
					r.bad(rule, key, "flag used inside an if statement but not as its condition", c.pos(e.Pos()))
					return true
				}
				if p.Else != nil {
					r.bad(rule, key, "an if on an introspection flag has an else branch: the flag selects between behaviours", c.pos(p.Pos()))
					return true
				}
				// guard form: `if !flag || … { return }` in a function without results — what follows the if is
				// the guarded code
				guarded := p.Body.List
				if len(p.Body.List) == 1 {
					if rs, isR := p.Body.List[0].(*ast.ReturnStmt); isR && len(rs.Results) == 0 && (fd.Type.Results == nil || len(fd.Type.Results.List) == 0) {
						if list, i := stmtListOf(pm, p); list != nil && pm[p] == ast.Node(fd.Body) {
							guarded = list[i+1:]
						}
					}
				}
				for _, s := range guarded {
					es, isE := s.(*ast.ExprStmt)
					if !isE {
						r.bad(rule, key, fmt.Sprintf("under an introspection flag the code does more than call observers (%T)", s), c.pos(s.Pos()))
						return true
					}
					call, isC := es.X.(*ast.CallExpr)
					if !isC {
						r.bad(rule, key, "under an introspection flag the code does more than call observers", c.pos(s.Pos()))
						return true
					}
					if _, isObs := observers[c.calleeName(call)]; !isObs && c.observerParam(fd, call, observers) {
						continue // an observer handed in as a function value by every caller
					}
					if _, isObs := observers[c.calleeName(call)]; !isObs {
						r.bad(rule, key, "under an introspection flag "+c.calleeName(call)+" is called, which is not one of the observers", c.pos(s.Pos()))
						return true
					}
				}
				r.ok(rule, key, "guards only observer calls")
			case *ast.AssignStmt:
				// cf.disasm = x (option setters) or copying a flag
				isLhs := false
				for _, l := range p.Lhs {
					if l == ast.Expr(e) {
						isLhs = true
					}
				}
				if isLhs {
					r.ok(rule, key+"/set", "flag is set")
				} else {
					okCopy := len(p.Lhs) == 1
					if okCopy {
						_, okCopy = flagField(p.Lhs[0])
					}
					r.check(okCopy, rule, key+"/copy", "copied into another flag", "an introspection flag is copied into something that is not one of the flags", c.pos(p.Pos()))
				}
			case *ast.CompositeLit, *ast.KeyValueExpr:
				// vmConfig{cf.trace} / vm{trace: cf.trace}
				var lit *ast.CompositeLit
				if kv, isKV := p.(*ast.KeyValueExpr); isKV {
					lit, _ = pm[kv].(*ast.CompositeLit)
					if id, isID := kv.Key.(*ast.Ident); !isID || id.Name != "trace" {
						r.bad(rule, key, "flag copied into field "+types.ExprString(kv.Key), c.pos(e.Pos()))
						return true
					}
				} else {
					lit = p.(*ast.CompositeLit)
				}
				tname := ""
				if lit != nil {
					tname = typeShort(c.typeOf(lit))
				}
				r.check(tname == "vmConfig" || tname == "vm", rule, key+"/copy", "copied into "+tname+".trace", "an introspection flag flows into a "+tname+" literal", c.pos(e.Pos()))
			default:
				r.bad(rule, key, fmt.Sprintf("an introspection flag is used as a value (%T): it may influence results", par), c.pos(e.Pos()))
			}
			return true
		})
	}
	_ = n
}

func ruleTraceCount(c *Ctx, r *Report, rule string) {
	r.rule(rule, 3, "per executed instruction: the trace (stack, then the instruction at the current pc) is printed before the opcode is fetched; the opcode fetch is the single place that counts executed instructions; the listing loop advances by what the decoder returns")
	vm, err := c.vmModel()
	if err != nil {
		r.bad(rule, "vm", err.Error(), "")
		return
	}
	// the instruction decoder and the position of its offset parameter
	decName, decOff := "Prog.disasmInstr", 0
	if dm, err := c.disModel(); err == nil && dm.Func != nil {
		decName = dm.FuncName
		k, found := 0, false
		for _, f := range dm.Func.Type.Params.List {
			for _, n := range f.Names {
				if obj := c.Bcl.TypesInfo.Defs[n]; obj != nil && isInt(obj.Type()) && !found {
					decOff, found = k, true
				}
				k++
			}
		}
	}
	isDecoderAtPC := func(s string) bool {
		i := strings.Index(s, "(")
		if i < 0 || s[:i] != decName || !strings.HasSuffix(s, ")") {
			return false
		}
		args := strings.Split(s[i+1:len(s)-1], ", ")
		return decOff < len(args) && args[decOff] == "pc"
	}
	// on every arm path where the trace decision is true: printStack, disasmInstr(pc) occur before anything else
	ok := true
	why := ""
	traced := 0
	for _, arm := range vm.Arms {
		for _, p := range arm.Paths {
			var seq []string
			for _, ev := range p.Events {
				if ev.Kind == "call" {
					seq = append(seq, ev.Detail)
				}
				if ev.Kind == "stk:r" || ev.Kind == "const" || ev.Kind == "stk:w" || ev.Kind == "jump" {
					break
				}
			}
			hasTrace := false
			for _, s := range seq {
				if strings.HasPrefix(s, "printStack(") || strings.HasPrefix(s, decName+"(") {
					hasTrace = true
				}
			}
			if !hasTrace {
				continue
			}
			traced++
			if len(seq) < 2 || !strings.HasPrefix(seq[0], "printStack(") || !isDecoderAtPC(seq[1]) {
				ok = false
				why = fmt.Sprintf("%s: trace calls are %v; expected printStack(...) then disasmInstr at the not-yet-advanced pc", arm.Op, seq)
			}
		}
	}
	r.check(ok && traced > 0, rule, "trace-before-fetch", "printStack; disasmInstr(pc) before readOp", why, c.pos(vm.Loop.Pos()))
	// opsRead incremented only in readOp; readOp called once in the loop
	c.ownership(r, rule, "execStats", "opsRead", map[string]string{"vm.run$readOp": "counts the fetch", "printXStats": "prints it"}, false)
	calls := 0
	bodies := []ast.Node{vm.Func.Body}
	for _, md := range vm.InlineMethods {
		// the machine's other code (the dispatch in a step function of its own, arms split into methods)
		bodies = append(bodies, md.Body)
	}
	for _, b := range bodies {
		ast.Inspect(b, func(n ast.Node) bool {
			if call, isC := n.(*ast.CallExpr); isC {
				if vm.callRole(c, call) == "readOp" {
					calls++
				}
			}
			return true
		})
	}
	r.check(calls == 1, rule, "single-fetch", "readOp is called once per loop iteration (the switch header)", fmt.Sprintf("readOp has %d call sites; exactly one (the dispatch) must fetch and count", calls), c.pos(vm.Loop.Pos()))
	// disasm walk: a loop over a local offset that starts at 0, runs while offset < len(code), and whose only
	// assignment to the offset is — unconditionally, once per iteration — the value the instruction decoder
	// returns for that very offset
	_, fd := c.find("Prog.disasm")
	okWalk := false
	if dm, err := c.disModel(); err == nil && fd != nil && dm.Func != nil {
		decoder, _ := c.Bcl.TypesInfo.Defs[dm.Func.Name].(*types.Func)
		// position of the decoder's offset parameter
		offIdx, k := -1, 0
		for _, f := range dm.Func.Type.Params.List {
			for _, n := range f.Names {
				if obj := c.Bcl.TypesInfo.Defs[n]; obj != nil && isInt(obj.Type()) && offIdx < 0 {
					offIdx = k
				}
				k++
			}
		}
		ast.Inspect(fd.Body, func(n ast.Node) bool {
			fs, isF := n.(*ast.ForStmt)
			if !isF || fs.Cond == nil {
				return true
			}
			cond, isB := stripParens(fs.Cond).(*ast.BinaryExpr)
			if !isB {
				return true
			}
			var ivE, bound ast.Expr
			switch cond.Op {
			case token.LSS:
				ivE, bound = cond.X, cond.Y
			case token.GTR:
				ivE, bound = cond.Y, cond.X
			default:
				return true
			}
			lc, isL := c.stripConv(bound).(*ast.CallExpr)
			ivID, isID := stripParens(ivE).(*ast.Ident)
			if !isL || !isID || c.calleeName(lc) != "len" || len(lc.Args) != 1 || c.fieldPath(lc.Args[0]) != "<Prog>.code" {
				return true
			}
			iv := c.objOf(ivID)
			// starts at 0: the loop's init, or the variable's only definition outside the loop
			starts0 := false
			if init, isI := fs.Init.(*ast.AssignStmt); isI && len(init.Lhs) == 1 && c.isObj(init.Lhs[0], iv) {
				if k, isK := c.intConst(init.Rhs[0]); isK && k == 0 {
					starts0 = true
				}
			} else if fs.Init == nil {
				defs, zero := 0, false
				ast.Inspect(fd.Body, func(x ast.Node) bool {
					if x == ast.Node(fs) {
						return false
					}
					switch x := x.(type) {
					case *ast.AssignStmt:
						for i, l := range x.Lhs {
							if c.isObj(l, iv) {
								defs++
								if i < len(x.Rhs) {
									if k, isK := c.intConst(x.Rhs[i]); isK && k == 0 {
										zero = true
									}
								}
							}
						}
					case *ast.ValueSpec:
						for i, nm := range x.Names {
							if c.objOf(nm) == iv {
								defs++
								if len(x.Values) == 0 {
									zero = true
								} else if i < len(x.Values) {
									if k, isK := c.intConst(x.Values[i]); isK && k == 0 {
										zero = true
									}
								}
							}
						}
					case *ast.IncDecStmt:
						if c.isObj(x.X, iv) {
							defs += 2
						}
					}
					return true
				})
				starts0 = defs == 1 && zero
			}
			// the loop: one direct statement `iv = decoder(..., iv, ...)`, nothing else writes iv
			writes, direct := 0, 0
			check := func(root ast.Node, top bool) {
				ast.Inspect(root, func(x ast.Node) bool {
					switch x := x.(type) {
					case *ast.AssignStmt:
						for _, l := range x.Lhs {
							if c.isObj(l, iv) {
								writes++
							}
						}
					case *ast.IncDecStmt:
						if c.isObj(x.X, iv) {
							writes++
						}
					case *ast.UnaryExpr:
						if x.Op == token.AND && c.isObj(x.X, iv) {
							writes += 2
						}
					}
					return true
				})
			}
			check(fs.Body, true)
			if fs.Post != nil {
				check(fs.Post, true)
			}
			stmts := append([]ast.Stmt(nil), fs.Body.List...)
			if fs.Post != nil {
				stmts = append(stmts, fs.Post)
			}
			for _, st := range stmts {
				as, isA := st.(*ast.AssignStmt)
				// off = decoder(off) when the decoder returns the next offset; off += decoder(off) when it returns the length
				wantTok := token.ASSIGN
				if dm.Relative > 0 && dm.Absolute == 0 {
					wantTok = token.ADD_ASSIGN
				}
				if !isA || len(as.Lhs) != 1 || len(as.Rhs) != 1 || as.Tok != wantTok || !c.isObj(as.Lhs[0], iv) || (dm.Relative > 0 && dm.Absolute > 0) {
					continue
				}
				call, isC := as.Rhs[0].(*ast.CallExpr)
				if !isC || decoder == nil || c.callee(call) != types.Object(decoder) || offIdx < 0 || offIdx >= len(call.Args) {
					continue
				}
				if c.isObj(call.Args[offIdx], iv) {
					direct++
				}
			}
			// no way round the decoder call: no continue / break / goto in the body
			jumps := false
			ast.Inspect(fs.Body, func(x ast.Node) bool {
				if _, isBr := x.(*ast.BranchStmt); isBr {
					jumps = true
				}
				if _, isRet := x.(*ast.ReturnStmt); isRet {
					jumps = true
				}
				return true
			})
			if starts0 && writes == 1 && direct == 1 && !jumps {
				okWalk = true
			}
			return true
		})
	}
	r.check(okWalk, rule, "disasm-walk", "for off := 0; off < len(code); { off = disasmInstr(off) }", "the listing must start at offset 0 and advance by exactly what the instruction decoder returns until the end of the code", "")
}

func checkC19(c *Ctx, r *Report) {
	ruleFlagNonInterference(c, r, "flag-noninterference")
	// "never make a call panic … for every program including failing ones": the listing is printed only for a program
	// that was built completely
	ruleDisasmGated(c, r, "listing-gated")
	r.rule("observer-purity", 5, "the observers and everything they call write nothing but their output stream: no store through parameters, captured variables, globals; no map update")
	var roots []string
	for o := range observers {
		roots = append(roots, o)
	}
	c.rulePure(r, "observer-purity", roots, map[string]map[string]string{
		"lineCalc.lineColAt": {}, // only locks its mutex
	})
	// observers write to the configured output only
	r.rule("observer-stream", 5, "observers print to the writer they are given / to the program's output writer, nothing else")
	for o := range observers {
		_, fd := c.find(o)
		if fd == nil {
			r.bad("observer-stream", o, "function not found", "")
			continue
		}
		ok, n := true, 0
		why := ""
		for _, cs := range c.callsOf(fd) {
			if strings.HasPrefix(cs.Name, "fmt.Fprint") {
				n++
				fp := c.fieldPath(cs.Call.Args[0])
				isParamWriter := false
				if id, isID := cs.Call.Args[0].(*ast.Ident); isID {
					if v, isV := c.objOf(id).(*types.Var); isV && types.TypeString(v.Type(), nil) == "io.Writer" {
						isParamWriter = true
					}
				}
				if fp != "<Prog>.output" && !isParamWriter {
					ok = false
					why = "prints to " + fp
				}
			}
			if strings.HasPrefix(cs.Name, "fmt.Print") || strings.HasPrefix(cs.Name, "os.") || strings.HasPrefix(cs.Name, "log.") {
				ok = false
				why = "uses " + cs.Name
			}
		}
		r.check(ok, "observer-stream", o, fmt.Sprintf("%d prints, all to the output writer", n), o+": "+why, c.pos(fd.Pos()))
	}
	// the output writer of a Prog / vm is fixed at construction
	r.rule("output-fixed", 2, "Prog.output and vm.output are set once at construction (newProg / execute's literal) and never reassigned")
	c.ownership(r, "output-fixed", "Prog", "output", map[string]string{"newProg": "construction", "execute": "handed to the vm", "Prog.disasm": "listing", "Prog.disasmInstr": "listing"}, true)
	c.ownership(r, "output-fixed", "vm", "output", map[string]string{"execute": "construction"}, true)
	// the observers cannot panic on arithmetic of their own (statistics are derived with divisions)
	ruleIntDivGuard(c, r, "observer-div", c.reachFromEntries(roots), divDelegated)
	ruleTraceCount(c, r, "trace-count")
	ruleShape(c, r, "decode-agreement", true, false)
	r.rule("options", 3, "OptDisasm/OptTrace/OptStats only set their flag")
	for _, of := range [][2]string{{"OptDisasm", "disasm"}, {"OptStats", "stats"}, {"OptTrace", "trace"}} {
		opt, fld := of[0], of[1]
		_, fd := c.find(opt)
		ok := false
		got := "function not found"
		if fd != nil {
			stores, und := c.optionStores(fd)
			got = strings.Join(stores, ", ")
			ok = len(stores) == 1 && (stores[0] == fld+"=x" || strings.HasSuffix(stores[0], "."+fld+"=x")) && len(und) == 0
			if len(und) > 0 {
				got += " (undecided: " + strings.Join(und, "; ") + ")"
			}
		}
		r.check(ok, "options", opt, "cf."+fld+" = x", opt+" must only set config."+fld+" to its argument; applied to a config it stores: "+got, "")
	}
	r.note("textual equality of outputs with and without the options; that the observers cannot panic on programs that were not produced by the compiler (loaded bytecode)")
	r.trust("index expressions inside the disassembler are in range for compiled programs by C10's well-formedness")
}

// optionStores interprets an option constructor Opt(x) and applies the Option it returns to a config: the stores
// into config fields ("field=value", the argument rendered as x), in order.
func (c *Ctx) optionStores(fd *ast.FuncDecl) (stores []string, undecided []string) {
	var h Hooks
	h.Inline = func(fn *types.Func) bool { return fn.Pkg() != nil && fn.Pkg().Path() == bclPath }
	h.CallValue = func(in *Interp, st *State, call *ast.CallExpr, fn *types.Func, args []Value) ([]valState, bool) {
		return nil, false
	}
	h.Store = func(in *Interp, st *State, lhs ast.Expr, op token.Token, v Value) bool {
		sel, ok := lhs.(*ast.SelectorExpr)
		if !ok {
			return false
		}
		fp := c.fieldPath(sel)
		if !strings.HasPrefix(fp, "<config>.") {
			return false
		}
		val := "?"
		switch {
		case v.K == vTag && v.Tag == "x":
			val = "x"
		case v.K == vConst:
			val = v.C.ExactString()
		}
		p := st.P.(*strsPay)
		p.items = append(p.items, strings.TrimPrefix(fp, "<config>.")+"="+val)
		return true
	}
	in := newInterp(c, h)
	st := &State{Env: map[types.Object]Value{}, P: &strsPay{}}
	res := in.inlineBody(st, fd.Type, fd.Body, fd.Recv, []Value{tagV("x", nil)})
	seen := map[string]bool{}
	for _, vs := range res {
		fv := vs.v
		if fv.K != vFunc {
			undecided = append(undecided, "the constructor does not return a function the model can follow")
			continue
		}
		var applied []valState
		switch {
		case fv.Lit != nil:
			applied = in.inlineLit(vs.st, fv.Lit, []Value{tagV("cfg", nil)})
		case fv.FnObj != nil:
			if hd := c.funcDecls[fv.FnObj]; hd != nil && hd.Body != nil {
				applied = in.inlineBody(vs.st, hd.Type, hd.Body, hd.Recv, []Value{tagV("cfg", nil)}, recvOpt{fv.Recv})
			}
		}
		if applied == nil {
			undecided = append(undecided, "the returned option could not be applied")
		}
		for _, a := range applied {
			k := strings.Join(a.st.P.(*strsPay).items, ", ")
			if !seen[k] {
				seen[k] = true
				stores = append(stores, a.st.P.(*strsPay).items...)
			}
		}
	}
	undecided = append(undecided, in.Undecided...)
	return dedupe(stores), undecided
}

// observerParam: call invokes a function-typed parameter of fd, and every call site of fd passes for it an observer
// itself or a function literal that does nothing but call observers.
func (c *Ctx) observerParam(fd *ast.FuncDecl, call *ast.CallExpr, observers map[string]string) bool {
	id, ok := stripParens(call.Fun).(*ast.Ident)
	if !ok || fd.Type.Params == nil {
		return false
	}
	idx, k := -1, 0
	for _, f := range fd.Type.Params.List {
		for _, n := range f.Names {
			if c.infoFor(n).Defs[n] == c.objOf(id) {
				idx = k
			}
			k++
		}
	}
	if idx < 0 {
		return false
	}
	owner := c.infoFor(fd.Name).Defs[fd.Name]
	sites, good := 0, 0
	for _, it := range c.sortedDecls() {
		if it.fd.Body == nil {
			continue
		}
		walkCalls(it.fd.Body, false, func(cs *ast.CallExpr) {
			if c.callee(cs) != owner || idx >= len(cs.Args) {
				return
			}
			sites++
			switch a := stripParens(cs.Args[idx]).(type) {
			case *ast.FuncLit:
				all := len(a.Body.List) > 0
				for _, s := range a.Body.List {
					es, isE := s.(*ast.ExprStmt)
					if !isE {
						all = false
						break
					}
					oc, isC := es.X.(*ast.CallExpr)
					if !isC {
						all = false
						break
					}
					if _, isObs := observers[c.calleeName(oc)]; !isObs {
						all = false
					}
				}
				if all {
					good++
				}
			case *ast.Ident, *ast.SelectorExpr:
				if fn, isF := c.objOf(a).(*types.Func); isF {
					if _, isObs := observers[funcName(fn)]; isObs {
						good++
					}
				}
			}
		})
	}
	return sites > 0 && good == sites
}
