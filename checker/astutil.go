package main

import (
	"encoding/json"
	"fmt"
	"go/ast"
	"go/constant"
	"go/token"
	"go/types"
	"os"
	"path/filepath"
	"sort"
	"strings"

	"golang.org/x/tools/go/packages"
	"golang.org/x/tools/go/types/typeutil"
)

func readSpec(name string, v any) error {
	b, err := os.ReadFile(filepath.Join(specDir, name))
	if err != nil {
		return err
	}
	return json.Unmarshal(b, v)
}

// callee resolves the static callee of a call through type information.
func (c *Ctx) callee(call *ast.CallExpr) types.Object {
	return typeutil.Callee(c.infoFor(call), call)
}

// qname renders an object as "pkg.Name", "pkg.Type.Method", or for the bcl
// module "Name" / "Type.Method".
func qname(obj types.Object) string {
	if obj == nil {
		return ""
	}
	if f, ok := obj.(*types.Func); ok {
		n := funcName(f)
		if f.Pkg() == nil {
			return n
		}
		switch f.Pkg().Path() {
		case bclPath:
			return n
		case cmdPath:
			return "cmd." + n
		}
		return f.Pkg().Path() + "." + n
	}
	if obj.Pkg() == nil {
		return obj.Name() // builtin
	}
	switch obj.Pkg().Path() {
	case bclPath:
		return obj.Name()
	case cmdPath:
		return "cmd." + obj.Name()
	}
	return obj.Pkg().Path() + "." + obj.Name()
}

// calleeName gives qname of the callee, "" for dynamic calls; builtins by name.
func (c *Ctx) calleeName(call *ast.CallExpr) string {
	if obj := c.callee(call); obj != nil {
		return qname(obj)
	}
	return ""
}

func (c *Ctx) constOf(e ast.Expr) constant.Value {
	if tv, ok := c.infoFor(e).Types[e]; ok {
		return tv.Value
	}
	return nil
}

func (c *Ctx) intConst(e ast.Expr) (int64, bool) {
	v := c.constOf(e)
	if v == nil || v.Kind() != constant.Int {
		return 0, false
	}
	return constant.Int64Val(v)
}

func (c *Ctx) strConst(e ast.Expr) (string, bool) {
	v := c.constOf(e)
	if v == nil || v.Kind() != constant.String {
		return "", false
	}
	return constant.StringVal(v), true
}

func (c *Ctx) typeOf(e ast.Expr) types.Type {
	return c.infoFor(e).TypeOf(e)
}

// objOf resolves an identifier or selector to the object it denotes.
func (c *Ctx) objOf(e ast.Expr) types.Object {
	info := c.infoFor(e)
	switch e := e.(type) {
	case *ast.Ident:
		if o := info.Uses[e]; o != nil {
			return o
		}
		return info.Defs[e]
	case *ast.SelectorExpr:
		if s := info.Selections[e]; s != nil {
			return s.Obj()
		}
		return info.Uses[e.Sel]
	case *ast.ParenExpr:
		return c.objOf(e.X)
	}
	return nil
}

// namedType returns the *types.Named declared as `name` in pkg.
func namedType(pkg *packages.Package, name string) *types.Named {
	if pkg == nil {
		return nil
	}
	tn, _ := pkg.Types.Scope().Lookup(name).(*types.TypeName)
	if tn == nil {
		return nil
	}
	n, _ := tn.Type().(*types.Named)
	return n
}

type namedConst struct {
	Name string
	Val  int64
	Obj  *types.Const
}

// constsOfType lists the package-level constants whose type is the named type.
func constsOfType(pkg *packages.Package, typeName string) []namedConst {
	t := namedType(pkg, typeName)
	if t == nil {
		return nil
	}
	var out []namedConst
	sc := pkg.Types.Scope()
	for _, n := range sc.Names() {
		k, ok := sc.Lookup(n).(*types.Const)
		if !ok || !types.Identical(k.Type(), t) {
			continue
		}
		if k.Val().Kind() != constant.Int {
			continue
		}
		v, _ := constant.Int64Val(k.Val())
		out = append(out, namedConst{n, v, k})
	}
	sort.Slice(out, func(i, j int) bool {
		if out[i].Val != out[j].Val {
			return out[i].Val < out[j].Val
		}
		return out[i].Name < out[j].Name
	})
	return out
}

// constNameOf maps a value of a named constant type back to its name.
func constNameOf(cs []namedConst, v int64) string {
	for _, k := range cs {
		if k.Val == v {
			return k.Name
		}
	}
	return fmt.Sprintf("#%d", v)
}

// pkgConstInt reads an untyped or typed integer package constant.
func pkgConstInt(pkg *packages.Package, name string) (int64, bool) {
	k, ok := pkg.Types.Scope().Lookup(name).(*types.Const)
	if !ok || k.Val().Kind() != constant.Int {
		return 0, false
	}
	return constant.Int64Val(k.Val())
}

func pkgConstString(pkg *packages.Package, name string) (string, bool) {
	k, ok := pkg.Types.Scope().Lookup(name).(*types.Const)
	if !ok || k.Val().Kind() != constant.String {
		return "", false
	}
	return constant.StringVal(k.Val()), true
}

// isNamed reports whether t (after pointer stripping) is the bcl type `name`.
func isNamed(t types.Type, path, name string) bool {
	if t == nil {
		return false
	}
	if p, ok := t.(*types.Pointer); ok {
		t = p.Elem()
	}
	n, ok := t.(*types.Named)
	if !ok {
		return false
	}
	o := n.Obj()
	return o.Name() == name && o.Pkg() != nil && o.Pkg().Path() == path
}

// fieldPath renders a selector chain rooted at an identifier as
// "<RootType>.f1.f2" (root variable names do not matter), or "" when the
// expression is not such a chain. Index expressions render as "[]".
func (c *Ctx) fieldPath(e ast.Expr) string {
	fp := c.fieldPathRaw(e)
	if fp == "" {
		return fp
	}
	fp = c.vmFieldAlias(c.lexFieldAlias(fp))
	// the scope tables reached through a method of scopeCompiler itself: the parser has exactly one
	if strings.HasPrefix(fp, "<scopeCompiler>.") {
		fp = "<parser>.scope." + strings.TrimPrefix(fp, "<scopeCompiler>.")
	}
	return fp
}

func (c *Ctx) fieldPathRaw(e ast.Expr) string {
	switch e := e.(type) {
	case *ast.ParenExpr:
		return c.fieldPathRaw(e.X)
	case *ast.StarExpr:
		return c.fieldPathRaw(e.X)
	case *ast.Ident:
		t := c.typeOf(e)
		if t == nil {
			return ""
		}
		// a parameter of unnamed type (an array pointer, a counter) that every caller binds to the same field
		// of the same struct is that field: lookupField(&vm.blockStack, vm.blockTos, name)
		if _, named := derefType(t).(*types.Named); !named {
			if fp := c.constArgPath(e); fp != "" {
				return fp
			}
		}
		return "<" + typeShort(t) + ">"
	case *ast.SelectorExpr:
		base := c.fieldPathRaw(e.X)
		if base == "" {
			return ""
		}
		return base + "." + e.Sel.Name
	case *ast.IndexExpr:
		base := c.fieldPathRaw(e.X)
		if base == "" {
			return ""
		}
		return base + "[]"
	}
	return ""
}

func typeShort(t types.Type) string {
	if p, ok := t.(*types.Pointer); ok {
		t = p.Elem()
	}
	if n, ok := t.(*types.Named); ok {
		return n.Obj().Name()
	}
	return t.String()
}

// exprString is types.ExprString with literals kept.
func exprString(fset *token.FileSet, e ast.Expr) string {
	return types.ExprString(e)
}

// walkCalls calls f for each call expression under n (not descending into
// function literals when skipLits).
func walkCalls(n ast.Node, skipLits bool, f func(*ast.CallExpr)) {
	ast.Inspect(n, func(x ast.Node) bool {
		switch x := x.(type) {
		case *ast.FuncLit:
			if skipLits {
				return false
			}
		case *ast.CallExpr:
			f(x)
		}
		return true
	})
}

// stripParens removes parentheses.
func stripParens(e ast.Expr) ast.Expr {
	for {
		p, ok := e.(*ast.ParenExpr)
		if !ok {
			return e
		}
		e = p.X
	}
}

// stripConv removes parentheses and conversions T(x) to basic or named
// non-interface types (int(x), byte(x), opcode(x) ...).
func (c *Ctx) stripConv(e ast.Expr) ast.Expr {
	for {
		e = stripParens(e)
		call, ok := e.(*ast.CallExpr)
		if !ok || len(call.Args) != 1 {
			return e
		}
		tv, ok := c.infoFor(call).Types[call.Fun]
		if !ok || !tv.IsType() {
			return e
		}
		e = call.Args[0]
	}
}

func join(ss []string) string { return strings.Join(ss, " ") }

func sortedKeys[V any](m map[string]V) []string {
	var ks []string
	for k := range m {
		ks = append(ks, k)
	}
	sort.Strings(ks)
	return ks
}

// tableLiteral returns the composite literal a variable is initialised with:
// a package-level `var x = T{...}` / `x = T{...}` in init, or a local defined once.
func (c *Ctx) tableLiteral(obj types.Object) *ast.CompositeLit {
	v, ok := obj.(*types.Var)
	if !ok || v.IsField() {
		return nil
	}
	var found *ast.CompositeLit
	n := 0
	for _, p := range []*packages.Package{c.Bcl, c.Cmd} {
		if p == nil {
			continue
		}
		for _, f := range p.Syntax {
			if f.Pos() > v.Pos() || v.Pos() > f.End() {
				if v.Pkg() != p.Types {
					continue
				}
			}
			ast.Inspect(f, func(nd ast.Node) bool {
				switch nd := nd.(type) {
				case *ast.ValueSpec:
					for i, name := range nd.Names {
						if p.TypesInfo.Defs[name] == obj && i < len(nd.Values) {
							n++
							if cl, ok := nd.Values[i].(*ast.CompositeLit); ok {
								found = cl
							}
						}
					}
				case *ast.AssignStmt:
					for i, l := range nd.Lhs {
						if id, ok := l.(*ast.Ident); ok && i < len(nd.Rhs) && (p.TypesInfo.Uses[id] == obj || p.TypesInfo.Defs[id] == obj) {
							n++
							if cl, ok := nd.Rhs[i].(*ast.CompositeLit); ok {
								found = cl
							}
						}
					}
				}
				return true
			})
		}
	}
	if n != 1 {
		return nil
	}
	return found
}

// unfoldTrivial replaces a call of a module function that has no parameters
// other than its receiver and whose body is a single `return <expr>` by that
// expression (field paths are type-based, so the receiver's name does not
// matter). Rules that look for a particular expression use it to see through
// small helpers such as `func (l *lexer) offset() int { return l.pos + l.posShift }`.
func (c *Ctx) unfoldTrivial(e ast.Expr) ast.Expr {
	for depth := 0; depth < 4; depth++ {
		e = stripParens(e)
		call, ok := e.(*ast.CallExpr)
		if !ok || len(call.Args) != 0 {
			return e
		}
		fn, ok := c.callee(call).(*types.Func)
		if !ok || fn.Pkg() == nil || (fn.Pkg().Path() != bclPath && fn.Pkg().Path() != cmdPath) {
			return e
		}
		fd := c.funcDecls[fn]
		if fd == nil || fd.Body == nil || len(fd.Body.List) != 1 {
			return e
		}
		rs, ok := fd.Body.List[0].(*ast.ReturnStmt)
		if !ok || len(rs.Results) != 1 {
			return e
		}
		e = rs.Results[0]
	}
	return e
}

// constArgPath: id is a parameter of a module function all of whose call sites pass, at that position, an expression
// with one and the same field path; that path is returned ("" otherwise).
func (c *Ctx) constArgPath(id *ast.Ident) string {
	v, ok := c.objOf(id).(*types.Var)
	if !ok || v.IsField() || v.Pkg() == nil || v.Parent() == nil || v.Parent() == v.Pkg().Scope() {
		return ""
	}
	if c.memoTab == nil {
		c.memoTab = map[string]any{}
	}
	cache, _ := c.memoTab["constArgPath"].(map[*types.Var]string)
	if cache == nil {
		cache = map[*types.Var]string{}
		c.memoTab["constArgPath"] = cache
	}
	if fp, done := cache[v]; done {
		return fp
	}
	cache[v] = "" // while computing
	// the declaring function and the parameter's position
	var owner *types.Func
	idx := -1
	for _, it := range c.sortedDecls() {
		fd := it.fd
		if fd.Type.Params == nil || v.Pos() < fd.Pos() || v.Pos() > fd.End() {
			continue
		}
		k := 0
		for _, f := range fd.Type.Params.List {
			for _, n := range f.Names {
				if c.infoFor(n).Defs[n] == types.Object(v) {
					owner, _ = it.obj.(*types.Func)
					idx = k
				}
				k++
			}
			if len(f.Names) == 0 {
				k++
			}
		}
	}
	if owner == nil || idx < 0 {
		return ""
	}
	path, n := "", 0
	for _, it := range c.sortedDecls() {
		if it.fd.Body == nil {
			continue
		}
		bad := false
		walkCalls(it.fd.Body, false, func(call *ast.CallExpr) {
			if c.callee(call) != types.Object(owner) || idx >= len(call.Args) {
				return
			}
			a := stripParens(call.Args[idx])
			if ue, isU := a.(*ast.UnaryExpr); isU && ue.Op == token.AND {
				a = ue.X
			}
			fp := c.fieldPathRaw(a)
			if _, isSel := stripParens(a).(*ast.SelectorExpr); !isSel || fp == "" {
				bad = true
				return
			}
			n++
			if path == "" {
				path = fp
			} else if path != fp {
				bad = true
			}
		})
		if bad {
			return ""
		}
	}
	if n == 0 {
		return ""
	}
	cache[v] = path
	return path
}
