package main

// Error propagation through an API function: with the error of a given inner call taken to be non-nil, every
// interpreted path of the function returns a non-nil error (that error, or one constructed on the way).

import (
	"fmt"
	"go/ast"
	"go/constant"
	"go/token"
	"go/types"
	"strings"
)

type errPay struct{ sources int }

func (p *errPay) Clone() Payload { q := *p; return &q }

// errorPropagates interprets fd with every call of a source (isSource) returning a non-nil error in its last
// result. It gives the descriptions of the paths whose own last result is not known to be non-nil.
func (c *Ctx) errorPropagates(fd *ast.FuncDecl, isSource func(callee types.Object) bool) (bad []string, sources int, undecided []string) {
	bad, _, sources, undecided = c.errorPropagatesFull(fd, isSource)
	return
}

// errorPropagatesFull also lists the non-error results that are not nil / zero on the failing paths.
func (c *Ctx) errorPropagatesFull(fd *ast.FuncDecl, isSource func(callee types.Object) bool) (bad, withResults []string, sources int, undecided []string) {
	var h Hooks
	isTag := func(v Value, t string) bool { return v.K == vTag && v.Tag == t }
	var rootSig *types.Signature
	if obj, ok := c.infoFor(fd).Defs[fd.Name].(*types.Func); ok {
		rootSig = obj.Type().(*types.Signature)
	}
	h.Inline = func(fn *types.Func) bool {
		if fn.Pkg() == nil || (fn.Pkg().Path() != bclPath && fn.Pkg().Path() != cmdPath) {
			return false
		}
		// helpers that take an error are read through, and so are functions with the very result list of the
		// function analysed (it delegates to them); the rest of the module is opaque
		sig := fn.Type().(*types.Signature)
		for i := 0; i < sig.Params().Len(); i++ {
			if isErrorType(sig.Params().At(i).Type()) {
				return true
			}
		}
		if rootSig != nil && sig.Results().Len() > 0 && types.Identical(sig.Results(), rootSig.Results()) && !isSource(fn) {
			return true
		}
		return false
	}
	h.SameEffect = func(a, b *State) bool { return true }
	h.BinOp = func(l Value, op token.Token, r Value) (Value, bool) {
		if op != token.EQL && op != token.NEQ {
			return Value{}, false
		}
		b := func(eq bool) (Value, bool) { return constV(constant.MakeBool(eq == (op == token.EQL))), true }
		switch {
		case isTag(l, "nil") && isTag(r, "nil"):
			return b(true)
		case isTag(l, "errv") && isTag(r, "nil"), isTag(r, "errv") && isTag(l, "nil"):
			return b(false)
		}
		return Value{}, false
	}
	h.Call = func(in *Interp, st *State, call *ast.CallExpr, callee types.Object, args []Value) ([]valState, bool) {
		if callee != nil && isSource(callee) {
			st.P.(*errPay).sources++
			sig, _ := callee.Type().(*types.Signature)
			n := 1
			if sig != nil {
				n = sig.Results().Len()
			}
			if n <= 1 {
				return one(st, tagV("errv", "source")), true
			}
			t := Value{K: vTuple}
			for i := 0; i < n-1; i++ {
				t.Tup = append(t.Tup, unknownV())
			}
			t.Tup = append(t.Tup, tagV("errv", "source"))
			return one(st, t), true
		}
		if fn, ok := callee.(*types.Func); ok && (fn.Pkg() == nil || (fn.Pkg().Path() != bclPath && fn.Pkg().Path() != cmdPath)) {
			sig := fn.Type().(*types.Signature)
			if res := sig.Results(); res.Len() == 1 && isErrorType(res.At(0).Type()) && (strings.HasPrefix(qname(fn), "fmt.Errorf") || strings.HasPrefix(qname(fn), "errors.")) {
				return one(st, tagV("errv", "constructed")), true
			}
		}
		return nil, false
	}
	in := newInterp(c, h)
	// a declared error variable starts as nil
	st := &State{Env: map[types.Object]Value{}, P: &errPay{}}
	var args []Value
	if fd.Type.Params != nil {
		for _, f := range fd.Type.Params.List {
			for range f.Names {
				args = append(args, unknownV())
			}
		}
	}
	recv := unknownV()
	res := in.inlineBody(st, fd.Type, fd.Body, fd.Recv, args, recvOpt{&recv})
	for _, vs := range res {
		p := vs.st.P.(*errPay)
		if p.sources > sources {
			sources = p.sources
		}
		if p.sources == 0 {
			continue // the path does not reach the inner call
		}
		v := vs.v
		if v.K == vTuple && len(v.Tup) > 0 {
			v = v.Tup[len(v.Tup)-1]
		}
		if !isTag(v, "errv") {
			bad = append(bad, fmt.Sprintf("a path on which the inner call failed returns %s as its error (trace %v)", v, vs.st.Trace))
		}
		// the other results on such a path
		if vs.v.K == vTuple {
			for i, rv := range vs.v.Tup[:len(vs.v.Tup)-1] {
				if !(isTag(rv, "nil") || (rv.K == vConst)) {
					withResults = append(withResults, fmt.Sprintf("result #%d is %s", i+1, rv))
				}
			}
		}
	}
	return dedupe(bad), dedupe(withResults), sources, in.Undecided
}

// ruleLoadErrorReturned (C13): LoadProg hands Load's error to its caller.
func ruleLoadErrorReturned(c *Ctx, r *Report, rule string) {
	r.rule(rule, 1, "on every interpreted path of LoadProg on which Prog.Load returned a non-nil error, LoadProg's own error result is non-nil (Load's error, or one built from it): a damaged dump is never reported as loaded")
	_, fd := c.find("LoadProg")
	loadObj, _ := c.find("Prog.Load")
	if fd == nil || loadObj == nil {
		r.bad(rule, "LoadProg", "LoadProg / Prog.Load not found", "")
		return
	}
	bad, n, und := c.errorPropagates(fd, func(o types.Object) bool { return o == types.Object(loadObj) })
	for _, u := range und {
		r.undecided(rule, "LoadProg/model", u, c.pos(fd.Pos()))
	}
	r.check(len(bad) == 0 && n > 0, rule, "LoadProg", fmt.Sprintf("Load's error reaches the caller on every path (%d call of Load)", n), "LoadProg can return a nil error although Prog.Load failed: "+strings.Join(bad, "; "), c.pos(fd.Pos()))
}
