package main

// E-SER: the bytecode file format as written by Dump and read by Load.

import (
	"fmt"
	"go/ast"
	"go/token"
	"go/types"
	"sort"
	"strconv"
	"strings"
)

type serEvent struct {
	Kind  string // HDR, U, RAW, VALUE, LOOP, FLUSH, TRAIL
	What  string // what is encoded: len(name), name, elem(positions) ...
	Inner []serEvent
	Pos   token.Pos
	id    int
}

func (e serEvent) String() string {
	s := e.Kind
	if e.What != "" {
		s += "(" + e.What + ")"
	}
	if len(e.Inner) > 0 {
		var in []string
		for _, x := range e.Inner {
			in = append(in, x.String())
		}
		s += "[" + strings.Join(in, " ") + "]"
	}
	return s
}

func seqString(ev []serEvent) string {
	var s []string
	for _, e := range ev {
		s = append(s, e.String())
	}
	return strings.Join(s, " ")
}

// progField renders prog.name / prog.linePos.lfs as "name" / "lfs".
func (c *Ctx) progField(e ast.Expr) string {
	fp := c.fieldPath(e)
	if !strings.HasPrefix(fp, "<Prog>.") {
		// the program held in a field of a helper struct (a loader or dumper with its reader/writer): l.prog.code
		if sel, ok := stripParens(e).(*ast.SelectorExpr); ok && !strings.Contains(fp, "[") {
			for x := sel.X; ; {
				if t := c.typeOf(x); t != nil && isNamed(derefType(t), bclPath, "Prog") {
					if _, isSel := stripParens(x).(*ast.SelectorExpr); isSel {
						return sel.Sel.Name
					}
				}
				inner, ok := stripParens(x).(*ast.SelectorExpr)
				if !ok {
					break
				}
				x = inner.X
			}
		}
		return ""
	}
	parts := strings.Split(strings.TrimPrefix(fp, "<Prog>."), ".")
	return parts[len(parts)-1]
}

// dumpEvents / loadEvents: the ordered write / read events of Dump / Load, from the interpreted model (sermodel.go).
func (c *Ctx) dumpEvents(fd *ast.FuncDecl) ([]serEvent, []string) {
	m := c.serModelOf(fd, false)
	return m.Events, m.Problems
}

func (c *Ctx) loadEvents(fd *ast.FuncDecl) ([]serEvent, []string) {
	m := c.serModelOf(fd, true)
	return m.Events, m.Problems
}

// dumpEventsAST is the earlier syntactic extraction (kept for cross-checking under DBGSER).
func (c *Ctx) dumpEventsAST(fd *ast.FuncDecl) (events []serEvent, problems []string) {
	var wobj types.Object
	pending := map[types.Object]serEvent{} // count variable -> what was encoded into the scratch buffer
	describe := func(e ast.Expr, elem map[types.Object]string) string {
		e = c.stripConv(e)
		if call, ok := e.(*ast.CallExpr); ok && c.calleeName(call) == "len" && len(call.Args) == 1 {
			if f := c.progField(call.Args[0]); f != "" {
				return "len(" + f + ")"
			}
		}
		if id, ok := e.(*ast.Ident); ok {
			if d, ok := elem[c.objOf(id)]; ok {
				return d
			}
		}
		if call, ok := e.(*ast.CallExpr); ok && len(call.Args) == 1 {
			// uint64(x) of a described parameter
			if id, ok := c.stripConv(call.Args[0]).(*ast.Ident); ok {
				if d, ok := elem[c.objOf(id)]; ok {
					return d
				}
			}
		}
		return "?" + types.ExprString(e)
	}
	depth := 0
	var walk func(list []ast.Stmt, elem map[types.Object]string) []serEvent
	// inlineHelper: a call f(w, ..., x, ...) of a package function that receives the writer is
	// analysed in place, its parameters standing for the described arguments
	localLits := map[types.Object]*ast.FuncLit{}
	inlineHelper := func(call *ast.CallExpr, elem map[types.Object]string) ([]serEvent, bool) {
		if id, isID := call.Fun.(*ast.Ident); isID && depth <= 2 {
			if lit := localLits[c.objOf(id)]; lit != nil {
				el := map[types.Object]string{}
				k := 0
				for _, f := range lit.Type.Params.List {
					for _, nm := range f.Names {
						if k < len(call.Args) {
							el[c.objOf(nm)] = describe(call.Args[k], elem)
						}
						k++
					}
				}
				depth++
				ev := walk(lit.Body.List, el)
				depth--
				return ev, true
			}
		}
		fn, ok := c.callee(call).(*types.Func)
		if !ok || fn.Pkg() == nil || fn.Pkg().Path() != bclPath || depth > 2 {
			return nil, false
		}
		hd := c.funcDecls[fn]
		if hd == nil || hd.Body == nil || hd.Recv != nil {
			return nil, false
		}
		passesWriter := false
		el := map[types.Object]string{}
		savedW := wobj
		for i, a := range call.Args {
			po := c.paramObj(hd, i)
			if po == nil {
				continue
			}
			if c.isObj(a, wobj) && wobj != nil {
				passesWriter = true
				defer func() { wobj = savedW }()
				wobj = po
				continue
			}
			el[po] = describe(a, elem)
		}
		if !passesWriter {
			wobj = savedW
			return nil, false
		}
		depth++
		ev := walk(hd.Body.List, el)
		depth--
		return ev, true
	}
	walk = func(list []ast.Stmt, elem map[types.Object]string) []serEvent {
		var out []serEvent
		for _, s := range list {
			switch s := s.(type) {
			case *ast.AssignStmt:
				if len(s.Rhs) != 1 {
					continue
				}
				if lit, isLit := s.Rhs[0].(*ast.FuncLit); isLit && len(s.Lhs) == 1 {
					// a local helper closure (it captures the writer and the scratch buffer)
					localLits[c.objOf(s.Lhs[0])] = lit
					continue
				}
				call, ok := s.Rhs[0].(*ast.CallExpr)
				if !ok {
					continue
				}
				switch c.calleeName(call) {
				case "bufio.NewWriterSize", "bufio.NewWriter":
					wobj = c.objOf(s.Lhs[0])
				case "uvarintToBytes":
					pending[c.objOf(s.Lhs[0])] = serEvent{Kind: "U", What: describe(call.Args[1], elem), Pos: call.Pos()}
				case "valueToBytes":
					pending[c.objOf(s.Lhs[0])] = serEvent{Kind: "VALUE", What: describe(call.Args[1], elem), Pos: call.Pos()}
				}
			case *ast.ExprStmt:
				call, ok := s.X.(*ast.CallExpr)
				if !ok {
					continue
				}
				sel, ok := call.Fun.(*ast.SelectorExpr)
				if !ok || !c.isObj(sel.X, wobj) {
					if ev, ok := inlineHelper(call, elem); ok {
						out = append(out, ev...)
					}
					continue
				}
				if sel.Sel.Name != "Write" || len(call.Args) != 1 {
					problems = append(problems, c.pos(call.Pos())+": unexpected writer call "+sel.Sel.Name)
					continue
				}
				arg := stripParens(call.Args[0])
				switch a := arg.(type) {
				case *ast.SliceExpr:
					// p[:n]
					if a.Low == nil && a.High != nil {
						if id, ok := a.High.(*ast.Ident); ok {
							if ev, ok := pending[c.objOf(id)]; ok {
								out = append(out, ev)
								delete(pending, c.objOf(id))
								continue
							}
						}
					}
					problems = append(problems, c.pos(call.Pos())+": write of a buffer slice that is not p[:n] of the last encode call")
				case *ast.CallExpr:
					// []byte(prog.name) or append([]byte(magic), major, minor)
					if c.calleeName(a) == "append" {
						var parts []string
						for _, x := range a.Args {
							x = c.stripConv(x)
							if id, ok := x.(*ast.Ident); ok {
								parts = append(parts, id.Name)
							} else {
								parts = append(parts, "?")
							}
						}
						out = append(out, serEvent{Kind: "HDR", What: strings.Join(parts, ","), Pos: call.Pos()})
						continue
					}
					if f := c.progField(c.stripConv(a)); f != "" {
						out = append(out, serEvent{Kind: "RAW", What: f, Pos: call.Pos()})
						continue
					}
					problems = append(problems, c.pos(call.Pos())+": write of an unrecognised value")
				default:
					if f := c.progField(arg); f != "" {
						out = append(out, serEvent{Kind: "RAW", What: f, Pos: call.Pos()})
						continue
					}
					problems = append(problems, c.pos(call.Pos())+": write of an unrecognised value")
				}
			case *ast.RangeStmt:
				f := c.progField(s.X)
				if f == "" {
					problems = append(problems, c.pos(s.Pos())+": loop over something that is not a Prog field")
					continue
				}
				el := map[types.Object]string{}
				for k, v := range elem {
					el[k] = v
				}
				if id, ok := s.Value.(*ast.Ident); ok && s.Value != nil {
					el[c.objOf(id)] = "elem(" + f + ")"
				}
				inner := walk(s.Body.List, el)
				out = append(out, serEvent{Kind: "LOOP", What: f, Inner: inner, Pos: s.Pos()})
			case *ast.ReturnStmt:
				if len(s.Results) == 1 {
					if call, ok := s.Results[0].(*ast.CallExpr); ok {
						if sel, ok := call.Fun.(*ast.SelectorExpr); ok && sel.Sel.Name == "Flush" && c.isObj(sel.X, wobj) {
							out = append(out, serEvent{Kind: "FLUSH", Pos: s.Pos()})
							continue
						}
					}
				}
				if depth == 0 {
					problems = append(problems, c.pos(s.Pos())+": Dump returns something other than w.Flush()")
				}
			case *ast.IfStmt:
				// only the string-buffer growth is allowed: checked by the buffer rule; it must not write
				ast.Inspect(s, func(n ast.Node) bool {
					if call, ok := n.(*ast.CallExpr); ok {
						if sel, ok := call.Fun.(*ast.SelectorExpr); ok && c.isObj(sel.X, wobj) {
							problems = append(problems, c.pos(call.Pos())+": conditional write in Dump (a layout that depends on the data)")
						}
					}
					return true
				})
			case *ast.DeclStmt:
			default:
				problems = append(problems, fmt.Sprintf("%s: unexpected statement %T in Dump", c.pos(s.Pos()), s))
			}
		}
		return out
	}
	events = walk(fd.Body.List, map[types.Object]string{})
	return
}

// loadEvents extracts the ordered read events of Load.
func (c *Ctx) loadEventsAST(fd *ast.FuncDecl) (events []serEvent, problems []string) {
	var robj types.Object
	counts := map[types.Object]bool{}  // variables holding the last decoded uvarint
	raws := map[types.Object]string{}  // byte slices read with a known count
	sized := map[string]types.Object{} // prog field -> count var used in make()
	var lastU *serEvent
	depth := 0
	var walk func(list []ast.Stmt)
	walk = func(list []ast.Stmt) {
		for _, s := range list {
			if ifs, ok := s.(*ast.IfStmt); ok && ifs.Init != nil {
				// if err = helper(r); err != nil { return err }
				s = ifs.Init
			}
			switch s := s.(type) {
			case *ast.AssignStmt:
				if len(s.Rhs) != 1 {
					continue
				}
				rhs := s.Rhs[0]
				if call, ok := rhs.(*ast.CallExpr); ok {
					// a helper of the module that is handed the reader: its reads happen here, in its order
					if fn, ok := c.callee(call).(*types.Func); ok && fn.Pkg() != nil && fn.Pkg().Path() == bclPath && depth < 3 {
						switch funcName(fn) {
						case "uvarintFromBuf", "bytesFromBuf", "valueFromBuf":
						default:
							if hd := c.funcDecls[fn]; hd != nil && hd.Body != nil && robj != nil {
								for i, a := range call.Args {
									if c.isObj(a, robj) {
										saved := robj
										robj = c.paramObj(hd, i)
										depth++
										walk(hd.Body.List)
										depth--
										robj = saved
										break
									}
								}
								continue
							}
						}
					}
					switch c.calleeName(call) {
					case "bufio.NewReaderSize", "bufio.NewReader":
						robj = c.objOf(s.Lhs[0])
						continue
					case "uvarintFromBuf":
						counts[c.objOf(s.Lhs[0])] = true
						events = append(events, serEvent{Kind: "U", What: "?", Pos: call.Pos()})
						lastU = &events[len(events)-1]
						continue
					case "bytesFromBuf":
						if len(call.Args) == 2 && counts[c.objOfExpr(call.Args[1])] {
							raws[c.objOf(s.Lhs[0])] = "counted"
							events = append(events, serEvent{Kind: "RAW", What: "?", Pos: call.Pos()})
							continue
						}
						problems = append(problems, c.pos(call.Pos())+": bytesFromBuf with a count that is not the varint just read")
						continue
					case "io.ReadFull":
						// header (b[:2]) or a sized Prog field
						if f := c.progField(call.Args[1]); f != "" {
							if sized[f] == nil {
								problems = append(problems, c.pos(call.Pos())+": "+f+" is read without having been sized from the stream")
							}
							if lastU != nil && lastU.What == "?" {
								lastU.What = "len(" + f + ")"
							}
							events = append(events, serEvent{Kind: "RAW", What: f, Pos: call.Pos()})
							continue
						}
						events = append(events, serEvent{Kind: "HDR", What: "2", Pos: call.Pos()})
						continue
					case "make":
						if f := c.progField(s.Lhs[0]); f != "" && len(call.Args) >= 2 {
							if obj := c.objOfExpr(call.Args[1]); counts[obj] {
								sized[f] = obj
								if lastU != nil && lastU.What == "?" {
									lastU.What = "len(" + f + ")"
								}
								continue
							}
							problems = append(problems, c.pos(call.Pos())+": "+f+" is sized by something other than the varint just read")
						}
						continue
					}
					if sel, ok := call.Fun.(*ast.SelectorExpr); ok && c.isObj(sel.X, robj) {
						if sel.Sel.Name == "Read" {
							events = append(events, serEvent{Kind: "TRAIL", Pos: call.Pos()})
						} else {
							problems = append(problems, c.pos(call.Pos())+": reader method "+sel.Sel.Name+" used in Load")
						}
						continue
					}
					// prog.name = string(p)
					if f := c.progField(s.Lhs[0]); f != "" {
						if raws[c.objOfExpr(call.Args[0])] != "" {
							for i := len(events) - 1; i >= 0; i-- {
								if events[i].Kind == "RAW" && events[i].What == "?" {
									events[i].What = f
									break
								}
							}
							if lastU != nil && lastU.What == "?" {
								lastU.What = "len(" + f + ")"
							}
						}
					}
					continue
				}
				// prog.linePos = &lineCalc{lfs: make([]int, int(m))}
				if ue, ok := rhs.(*ast.UnaryExpr); ok && ue.Op == token.AND {
					if cl, ok := ue.X.(*ast.CompositeLit); ok {
						for _, el := range cl.Elts {
							if kv, ok := el.(*ast.KeyValueExpr); ok {
								if call, ok := kv.Value.(*ast.CallExpr); ok && c.calleeName(call) == "make" && len(call.Args) >= 2 {
									if obj := c.objOfExpr(call.Args[1]); counts[obj] {
										f := kv.Key.(*ast.Ident).Name
										sized[f] = obj
										if lastU != nil && lastU.What == "?" {
											lastU.What = "len(" + f + ")"
										}
									}
								}
							}
						}
					}
				}
			case *ast.ForStmt:
				// for i := 0; i < int(m); i++ { prog.X[i] = decode }
				cond, ok := stripParens(s.Cond).(*ast.BinaryExpr)
				if !ok || cond.Op != token.LSS || !counts[c.objOfExpr(cond.Y)] {
					problems = append(problems, c.pos(s.Pos())+": a section loop is not bounded by the count read from the stream")
					continue
				}
				bound := c.objOfExpr(cond.Y)
				var field, kind string
				ast.Inspect(s.Body, func(n ast.Node) bool {
					switch n := n.(type) {
					case *ast.CallExpr:
						switch c.calleeName(n) {
						case "valueFromBuf":
							kind = "VALUE"
						case "uvarintFromBuf":
							kind = "U"
						}
					case *ast.AssignStmt:
						for _, l := range n.Lhs {
							if ix, ok := l.(*ast.IndexExpr); ok {
								if f := c.progField(ix.X); f != "" {
									field = f
								}
							}
						}
					}
					return true
				})
				if field == "" || kind == "" {
					problems = append(problems, c.pos(s.Pos())+": a section loop does not decode into a Prog field")
					continue
				}
				if sized[field] != bound {
					problems = append(problems, c.pos(s.Pos())+": section "+field+" is decoded in a loop bounded by a different count than the one that sized it")
				}
				events = append(events, serEvent{Kind: "LOOP", What: field, Inner: []serEvent{{Kind: kind, What: "elem(" + field + ")"}}, Pos: s.Pos()})
			case *ast.RangeStmt:
				// for i := range prog.X { prog.X[i] = decode }: bounded by the length X was sized to
				rf := c.progField(s.X)
				if rf == "" || sized[rf] == nil {
					problems = append(problems, c.pos(s.Pos())+": a section loop ranges over something that was not sized by a count read from the stream")
					continue
				}
				var field, kind string
				ast.Inspect(s.Body, func(n ast.Node) bool {
					switch n := n.(type) {
					case *ast.CallExpr:
						switch c.calleeName(n) {
						case "valueFromBuf":
							kind = "VALUE"
						case "uvarintFromBuf":
							kind = "U"
						}
					case *ast.AssignStmt:
						for _, l := range n.Lhs {
							if ix, ok := l.(*ast.IndexExpr); ok {
								if f := c.progField(ix.X); f != "" {
									field = f
								}
							}
						}
					}
					return true
				})
				if field == "" || kind == "" {
					problems = append(problems, c.pos(s.Pos())+": a section loop does not decode into a Prog field")
					continue
				}
				if field != rf {
					problems = append(problems, c.pos(s.Pos())+": section "+field+" is decoded in a loop over "+rf)
				}
				events = append(events, serEvent{Kind: "LOOP", What: field, Inner: []serEvent{{Kind: kind, What: "elem(" + field + ")"}}, Pos: s.Pos()})
			}
		}
	}
	walk(fd.Body.List)
	return
}

func (c *Ctx) objOfExpr(e ast.Expr) types.Object {
	e = c.stripConv(e)
	if id, ok := e.(*ast.Ident); ok {
		return c.objOf(id)
	}
	return nil
}

func normalizeSections(ev []serEvent) []string {
	var out []string
	for _, e := range ev {
		switch e.Kind {
		case "HDR", "FLUSH", "TRAIL":
		default:
			out = append(out, e.String())
		}
	}
	return out
}

// ruleSectionAgreement: Dump's writes, Load's reads and the documented layout agree.
func ruleSectionAgreement(c *Ctx, r *Report, rule string, spec *formatSpec) {
	r.rule(rule, 3, "Dump writes and Load reads the same sections in the same order with the same encodings: header, then length-prefixed name and code, then counted constants (typed values), positions and line offsets (varints); Dump returns w.Flush()")
	_, dfd := c.find("Prog.Dump")
	_, lfd := c.find("Prog.Load")
	if dfd == nil || lfd == nil {
		r.bad(rule, "anchors", "Prog.Dump / Prog.Load not found", "")
		return
	}
	r.fn("Prog.Dump", "Prog.Load")
	dev, dprob := c.dumpEvents(dfd)
	lev, lprob := c.loadEvents(lfd)
	for _, p := range dprob {
		r.undecided(rule, "Dump/shape", p, c.pos(dfd.Pos()))
	}
	for _, p := range lprob {
		r.undecided(rule, "Load/shape", p, c.pos(lfd.Pos()))
	}
	want := []string{
		"U(len(name))", "RAW(name)", "U(len(code))", "RAW(code)",
		"U(len(constants))", "LOOP(constants)[VALUE(elem(constants))]",
		"U(len(positions))", "LOOP(positions)[U(elem(positions))]",
		"U(len(lfs))", "LOOP(lfs)[U(elem(lfs))]",
	}
	ds, ls := normalizeSections(dev), normalizeSections(lev)
	r.check(strings.Join(ds, " ") == strings.Join(want, " "), rule, "Dump", strings.Join(ds, " "), fmt.Sprintf("Dump writes [%s]; format 1.1 is [%s]", strings.Join(ds, " "), strings.Join(want, " ")), c.pos(dfd.Pos()))
	r.check(strings.Join(ls, " ") == strings.Join(want, " "), rule, "Load", strings.Join(ls, " "), fmt.Sprintf("Load reads [%s]; format 1.1 is [%s]", strings.Join(ls, " "), strings.Join(want, " ")), c.pos(lfd.Pos()))
	// header and flush
	okHdr := len(dev) > 0 && dev[0].Kind == "HDR" && dev[0].What == "bytecodeMagic,bytecodeMajor,bytecodeMinor"
	okFlush := len(dev) > 0 && dev[len(dev)-1].Kind == "FLUSH"
	r.check(okHdr && okFlush, rule, "Dump/header+flush", "magic, major, minor first; return w.Flush()", "Dump must start with magic, major, minor and return w.Flush() (the buffered writer's sticky error)", c.pos(dfd.Pos()))
	nh := 0
	for _, e := range lev {
		if e.Kind == "HDR" {
			nh++
		}
	}
	okTrail := len(lev) > 0 && lev[len(lev)-1].Kind == "TRAIL"
	r.check(nh == 2 && okTrail && len(lev) > 2 && lev[0].Kind == "HDR" && lev[1].Kind == "HDR", rule, "Load/header+trailer", "two 2-byte header reads first, end-of-input probe last", "Load must read magic and version (2 bytes each) first and probe for end of input last", c.pos(lfd.Pos()))
	_ = spec
}

// ruleSerialisedSections (C08): positions and the line table are part of the format on both sides.
func ruleSerialisedSections(c *Ctx, r *Report, rule string) {
	r.rule(rule, 2, "positions and the line table are written by Dump and restored by Load, in the same order and encoding")
	_, dfd := c.find("Prog.Dump")
	_, lfd := c.find("Prog.Load")
	if dfd == nil || lfd == nil {
		r.bad(rule, "anchors", "Prog.Dump / Prog.Load not found", "")
		return
	}
	dev, _ := c.dumpEvents(dfd)
	lev, _ := c.loadEvents(lfd)
	for _, side := range []struct {
		name string
		ev   []serEvent
	}{{"Dump", dev}, {"Load", lev}} {
		s := strings.Join(normalizeSections(side.ev), " ")
		ok := strings.Contains(s, "U(len(positions)) LOOP(positions)[U(elem(positions))] U(len(lfs)) LOOP(lfs)[U(elem(lfs))]")
		r.check(ok, rule, side.name, "positions then line offsets, counted varints", side.name+" does not carry the positions and line-table sections as counted varints: "+s, "")
	}
}

// ---------------------------------------------------------------- value codecs

type codecArm struct {
	Key     string // Go type (encoder) or typecode name (decoder)
	Code    string // typecode constant
	Calls   []string
	Consts  []string
	Guards  []string // conditions of ifs in the arm that lead to an error return
	Returns string
	Pos     token.Pos
}

func (c *Ctx) armCalls(list []ast.Stmt) (calls []string, guards []string) {
	seen := map[string]bool{}
	visited := map[*ast.FuncDecl]bool{}
	var walk func(list []ast.Stmt, depth int)
	walk = func(list []ast.Stmt, depth int) {
		for _, s := range list {
			ast.Inspect(s, func(n ast.Node) bool {
				switch n := n.(type) {
				case *ast.CallExpr:
					if tv, ok := c.infoFor(n).Types[n.Fun]; ok && tv.IsType() {
						return true
					}
					name := c.calleeName(n)
					if name == "" {
						name = "dynamic"
					}
					if fn, ok := c.callee(n).(*types.Func); ok {
						if role := c.serRoleOf(fn); role != "" {
							name = role // a codec primitive under whatever name
						} else if fn.Pkg() != nil && fn.Pkg().Path() == bclPath && depth < 2 {
							// a helper holding (part of) the arm: its calls are the arm's
							if hd := c.funcDecls[fn]; hd != nil && hd.Body != nil && !visited[hd] && len(hd.Body.List) <= 12 {
								if sig := fn.Type().(*types.Signature); (sig.Results().Len() == 2 && isErrorType(sig.Results().At(1).Type()) && isNamed(sig.Results().At(0).Type(), bclPath, "value")) || !c.isReferenceFunc(fn) {
									visited[hd] = true
									walk(hd.Body.List, depth+1)
									return true
								}
							}
						}
					}
					if !seen[name] {
						seen[name] = true
						calls = append(calls, name)
					}
				case *ast.IfStmt:
					guards = append(guards, types.ExprString(n.Cond))
				}
				return true
			})
		}
	}
	walk(list, 0)
	sort.Strings(calls)
	return
}

func ruleCodecAgreement(c *Ctx, r *Report, rule string, spec *formatSpec) {
	r.rule(rule, 10, "per type code the encoder (valueToBytes) and the stream decoder (valueFromBuf) use mirror-image codecs: int <-> sqlite4 varint of the two's-complement image; float64 <-> 8 bytes big-endian IEEE bits; string <-> varint length + bytes; bool <-> one byte; nil <-> type code only; a decoder arm rejects nothing but a failed read")
	_, enc := c.serPrim("valueToBytes")
	_, dec := c.serPrim("valueFromBuf")
	if enc == nil || dec == nil {
		r.bad(rule, "anchors", "valueToBytes / valueFromBuf not found", "")
		return
	}
	r.fn("valueToBytes", "valueFromBuf")
	tcs := constsOfType(c.Bcl, "typecode")
	// encoder: type switch
	encArms := map[string]codecArm{}
	ast.Inspect(enc.Body, func(n ast.Node) bool {
		ts, ok := n.(*ast.TypeSwitchStmt)
		if !ok {
			return true
		}
		for _, cl := range ts.Body.List {
			cc := cl.(*ast.CaseClause)
			key := "default"
			if len(cc.List) == 1 {
				key = types.TypeString(c.typeOf(cc.List[0]), nil)
				if isNilIdent(cc.List[0]) {
					key = "nil" // `case nil:` — the same arm as a default that tests v == nil
				}
			} else if len(cc.List) > 1 {
				key = "multi"
			}
			arm := codecArm{Key: key, Pos: cc.Pos()}
			arm.Calls, arm.Guards = c.armCalls(cc.Body)
			// the type code stored at p[0]
			for _, s := range cc.Body {
				ast.Inspect(s, func(x ast.Node) bool {
					as, ok := x.(*ast.AssignStmt)
					if !ok || len(as.Lhs) != 1 {
						return true
					}
					if ix, ok := as.Lhs[0].(*ast.IndexExpr); ok {
						if k, isC := c.intConst(ix.Index); isC && k == 0 {
							if v, isV := c.intConst(as.Rhs[0]); isV {
								arm.Code = constNameOf(tcs, v)
							}
						}
					}
					return true
				})
			}
			if arm.Code == "" && len(cc.List) == 1 {
				// stored by a helper the arm hands the buffer to: read off the interpreted encoder
				dyn := key
				var dt types.Type
				if key != "nil" {
					dt = c.typeOf(cc.List[0])
				}
				if paths, und := c.encodeStores(enc, dyn, dt); len(und) == 0 && len(paths) > 0 {
					code, same := "", true
					for _, pth := range paths {
						got := ""
						for _, it := range pth {
							if strings.HasPrefix(it, "0=") {
								got = strings.TrimPrefix(it, "0=")
							}
						}
						if code == "" {
							code = got
						} else if code != got {
							same = false
						}
					}
					if same && code != "" && code != "?" {
						if v, err := strconv.ParseInt(code, 10, 64); err == nil {
							arm.Code = constNameOf(tcs, v)
						}
					}
				}
			}
			encArms[key] = arm
		}
		return false
	})
	// decoder: switch on typecode
	decArms := map[string]codecArm{}
	ast.Inspect(dec.Body, func(n ast.Node) bool {
		sw, ok := n.(*ast.SwitchStmt)
		if !ok || sw.Tag == nil || !isNamed(c.typeOf(sw.Tag), bclPath, "typecode") {
			return true
		}
		for _, a := range c.switchArms(sw) {
			if a.Default {
				continue
			}
			for _, e := range a.Exprs {
				v, _ := c.intConst(e)
				arm := codecArm{Key: constNameOf(tcs, v), Code: constNameOf(tcs, v), Pos: a.Clause.Pos()}
				arm.Calls, arm.Guards = c.armCalls(a.Body)
				decArms[arm.Key] = arm
			}
		}
		return false
	})
	if len(decArms) == 0 {
		// table form: valueReaders[typecode(b[0])](r) with a package-level table keyed by the type codes; the arm
		// of a type code is the body of its function
		ast.Inspect(dec.Body, func(n ast.Node) bool {
			call, ok := n.(*ast.CallExpr)
			if !ok {
				return true
			}
			ix, ok := stripParens(call.Fun).(*ast.IndexExpr)
			if !ok {
				return true
			}
			id, ok := stripParens(ix.X).(*ast.Ident)
			if !ok {
				return true
			}
			lit := c.tableLiteral(c.objOf(id))
			if lit == nil {
				return true
			}
			for _, el := range lit.Elts {
				kv, ok := el.(*ast.KeyValueExpr)
				if !ok {
					continue
				}
				v, isC := c.intConst(kv.Key)
				fn, _ := c.objOf(stripParens(kv.Value)).(*types.Func)
				if !isC || fn == nil || c.funcDecls[fn] == nil || c.funcDecls[fn].Body == nil {
					continue
				}
				hd := c.funcDecls[fn]
				arm := codecArm{Key: constNameOf(tcs, v), Code: constNameOf(tcs, v), Pos: hd.Pos()}
				arm.Calls, arm.Guards = c.armCalls(hd.Body.List)
				decArms[arm.Key] = arm
			}
			return true
		})
	}
	type pair struct {
		goType, code string
		encNeed      [][]string // each entry: alternatives, one of which must be called
		decNeed      [][]string
	}
	pairs := []pair{
		{"int", "typeINT", [][]string{{"varintToBytes"}}, [][]string{{"u64ToI64", "varintFromBytes"}, {"uvarintFromBuf", "varintFromBytes", "uvarintFromBytes"}}},
		{"float64", "typeFLOAT", [][]string{{"encoding/binary.bigEndian.PutUint64"}, {"math.Float64bits"}}, [][]string{{"encoding/binary.bigEndian.Uint64"}, {"math.Float64frombits"}}},
		{"string", "typeSTR", [][]string{{"uvarintToBytes"}, {"copy"}}, [][]string{{"uvarintFromBuf", "uvarintFromBytes"}}},
		{"bool", "typeBOOL", nil, nil},
	}
	forbidden := func(calls []string) string {
		for _, cl := range calls {
			if strings.Contains(cl, "littleEndian") || strings.Contains(cl, "Float32") || strings.Contains(cl, "encoding/binary.PutUvarint") || strings.Contains(cl, "encoding/binary.Uvarint") || strings.Contains(cl, "encoding/binary.PutVarint") {
				return cl
			}
		}
		return ""
	}
	has := func(calls []string, need [][]string) string {
		for _, alts := range need {
			found := false
			for _, a := range alts {
				for _, cl := range calls {
					if cl == a {
						found = true
					}
				}
			}
			if !found {
				return strings.Join(alts, " or ")
			}
		}
		return ""
	}
	for _, p := range pairs {
		ea, ok1 := encArms[p.goType]
		da, ok2 := decArms[p.code]
		name := strings.TrimPrefix(p.code, "type")
		switch {
		case !ok1:
			r.bad(rule, "enc/"+name, "valueToBytes has no case for "+p.goType, c.pos(enc.Pos()))
		case ea.Code != p.code:
			r.bad(rule, "enc/"+name, fmt.Sprintf("%s is encoded with type code %s; format 1.1 says %s", p.goType, ea.Code, p.code), c.pos(ea.Pos))
		case has(ea.Calls, p.encNeed) != "" || forbidden(ea.Calls) != "":
			r.bad(rule, "enc/"+name, fmt.Sprintf("%s is encoded using [%s]; format 1.1 needs %s and forbids %q", p.goType, strings.Join(ea.Calls, " "), has(ea.Calls, p.encNeed), forbidden(ea.Calls)), c.pos(ea.Pos))
		default:
			r.ok(rule, "enc/"+name, ea.Code+" via "+strings.Join(ea.Calls, " "))
		}
		switch {
		case !ok2:
			r.bad(rule, "dec/"+name, "valueFromBuf has no case for "+p.code, c.pos(dec.Pos()))
		case has(da.Calls, p.decNeed) != "" || forbidden(da.Calls) != "":
			r.bad(rule, "dec/"+name, fmt.Sprintf("%s is decoded using [%s]; the mirror image of the encoder needs %s and forbids %q", p.code, strings.Join(da.Calls, " "), has(da.Calls, p.decNeed), forbidden(da.Calls)), c.pos(da.Pos))
		default:
			badGuard := ""
			for _, g := range da.Guards {
				// a test of the read's error, either way round, is the only condition an arm may branch on
				if g != "err != nil" && g != "err == nil" {
					badGuard = g
				}
			}
			r.check(badGuard == "", rule, "dec/"+name, "via "+strings.Join(da.Calls, " ")+"; rejects only failed reads", fmt.Sprintf("the %s decoder rejects input on condition %q: values the format allows would no longer load", p.code, badGuard), c.pos(da.Pos))
		}
	}
	// nil
	okNilEnc := false
	for key, a := range encArms {
		if (key == "nil" || key == "default") && a.Code == "typeNIL" {
			okNilEnc = true
		}
	}
	if !okNilEnc {
		// nil handled outside the type switch (after it, or in a helper): read off the interpreted encoder
		if paths, und := c.encodeStores(enc, "nil", nil); len(und) == 0 && len(paths) > 0 {
			all := true
			for _, pth := range paths {
				if len(pth) != 1 || !strings.HasPrefix(pth[0], "0=") {
					all = false
					break
				}
				v, err := strconv.ParseInt(strings.TrimPrefix(pth[0], "0="), 10, 64)
				if err != nil || constNameOf(tcs, v) != "typeNIL" {
					all = false
				}
			}
			okNilEnc = all
		}
	}
	da, okNilDec := decArms["typeNIL"]
	r.check(okNilEnc, rule, "enc/NIL", "nil -> type code only", "valueToBytes must encode nil as the bare NIL type code", c.pos(enc.Pos()))
	r.check(okNilDec && len(da.Calls) == 0, rule, "dec/NIL", "type code only -> nil", "valueFromBuf must decode NIL without reading a payload", c.pos(dec.Pos()))
	// extra cases
	for k := range decArms {
		if _, ok := spec.Typecodes[strings.TrimPrefix(k, "type")]; !ok {
			r.bad(rule, "dec/extra/"+k, "decoder case for a type code that format 1.1 does not have", c.pos(dec.Pos()))
		}
	}
	// varint wrappers
	for fn, want := range map[string]string{"varintToBytes": "i64ToU64 uvarintToBytes", "varintFromBytes": "u64ToI64 uvarintFromBytes"} {
		_, fd := c.find(fn)
		if fd == nil {
			r.bad(rule, fn, "function not found", "")
			continue
		}
		calls, _ := c.armCalls(fd.Body.List)
		r.check(strings.Join(calls, " ") == want, rule, fn, want, fmt.Sprintf("%s uses [%s], expected [%s]", fn, strings.Join(calls, " "), want), c.pos(fd.Pos()))
	}
	// bool payload: 1 / 0, decoded as != 0 — the encoder interpreted for a bool argument stores 1 on some path and 0
	// on another at p[1], and nothing else there
	okBool := false
	{
		paths, _ := c.encodeStores(enc, "bool", types.Typ[types.Bool])
		vals := map[string]bool{}
		other := false
		for _, p := range paths {
			for _, st := range p {
				if strings.HasPrefix(st, "1=") {
					v := strings.TrimPrefix(st, "1=")
					if v == "0" || v == "1" {
						vals[v] = true
					} else {
						other = true
					}
				}
			}
		}
		okBool = vals["0"] && vals["1"] && !other
	}
	r.check(okBool, rule, "enc/BOOL-payload", "p[1] = 1 or 0", "a bool must be encoded as one payload byte holding 1 or 0", c.pos(enc.Pos()))
}

// ruleUvarintLen: the length table of the sqlite4 varint.
func ruleUvarintLen(c *Ctx, r *Report, rule string) {
	r.rule(rule, 1, "uvarintFromBuf, interpreted with a symbolic first byte, reads in total 1 byte when the first byte is <= 240, 2 bytes when it is <= 248 and (first byte - 246) bytes otherwise (249 -> 3 … 255 -> 9) — the sqlite4 varint layout — on paths that together cover 0..255; every buffer slice it reads into fits the buffer for the longest varint")
	_, fd := c.serPrim("uvarintFromBuf")
	if fd == nil {
		r.bad(rule, "uvarintLen", "uvarintFromBuf not found (the stream decoder needs the length of a varint from its first byte)", "")
		return
	}
	r.fn("uvarintFromBuf")
	m := c.varintLenModel(fd)
	want := func(b0 int64) int64 {
		switch {
		case b0 <= 240:
			return 1
		case b0 <= 248:
			return 2
		}
		return b0 - 246
	}
	var rows []string
	ok := len(m.Outcomes) > 0
	next := int64(0)
	for _, o := range m.Outcomes {
		rows = append(rows, fmt.Sprintf("%d..%d:%s", o.Lo, o.Hi, o.Total))
		if o.Lo != next {
			ok = false // a gap or an overlap in the cover of 0..255
		}
		next = o.Hi + 1
		k := o.Total.coef("b0")
		cst, isC := o.Total.without("b0").isConst()
		if !isC {
			ok = false
			continue
		}
		for b0 := o.Lo; b0 <= o.Hi; b0++ {
			if k*b0+cst != want(b0) {
				ok = false
				break
			}
		}
	}
	if next != 256 {
		ok = false
	}
	got := strings.Join(rows, " ")
	r.check(ok && len(m.Problems) == 0, rule, "uvarintLen", got, fmt.Sprintf("uvarintFromBuf reads [%s] bytes by first byte; sqlite4 varint: 0..240:1 241..248:2 249..255:b0-246 %v", got, m.Problems), c.pos(fd.Pos()))
	for i, b := range m.Buffers {
		r.ok(rule, fmt.Sprintf("uvarintFromBuf/buffer#%d", i+1), b)
	}
}

// ---------------------------------------------------------------- read discipline

func isBlank(e ast.Expr) bool {
	id, ok := e.(*ast.Ident)
	return ok && id.Name == "_"
}

func isNilIdent(e ast.Expr) bool {
	id, ok := stripParens(e).(*ast.Ident)
	return ok && id.Name == "nil"
}

func stmtListOf(pm map[ast.Node]ast.Node, s ast.Stmt) ([]ast.Stmt, int) {
	var list []ast.Stmt
	switch p := pm[s].(type) {
	case *ast.BlockStmt:
		list = p.List
	case *ast.CaseClause:
		list = p.Body
	case *ast.CommClause:
		list = p.Body
	}
	for i, x := range list {
		if x == s {
			return list, i
		}
	}
	return nil, -1
}

// ruleBufferBound: Dump's scratch buffer is large enough for what is encoded into it.
func ruleBufferBound(c *Ctx, r *Report, rule string) {
	r.rule(rule, 2, "at every call of uvarintToBytes / valueToBytes on Dump's paths the scratch buffer is known to hold what is encoded: 9 bytes for a varint, 10 (type code + 9-byte varint) for a scalar value, 10 + len(s) for a value that may be a string — from its allocation (array length, make size) or from a length test taken on the path; inside the constants loop this is shown from the loop invariant 'holds 10 bytes', which every iteration re-establishes")
	_, fd := c.find("Prog.Dump")
	if fd == nil {
		r.bad(rule, "Prog.Dump", "function not found", "")
		return
	}
	m := c.serModelOf(fd, false)
	var scalar, str []string
	enc, strSites := 0, 0
	for _, g := range m.Good {
		if g.EncSites > enc {
			enc = g.EncSites
		}
		if g.StrSites > strSites {
			strSites = g.StrSites
		}
		for _, is := range g.BufIssues {
			switch {
			case strings.HasPrefix(is, "scalar: "):
				scalar = append(scalar, strings.TrimPrefix(is, "scalar: "))
			case strings.HasPrefix(is, "string: "):
				str = append(str, strings.TrimPrefix(is, "string: "))
			}
		}
	}
	r.check(len(scalar) == 0 && enc > 0, rule, "scalar-buffer", fmt.Sprintf("%d encoder calls on a path, each with a buffer of at least 9 / 10 bytes", enc), "Dump's scratch buffer is not known to hold a scalar: "+strings.Join(dedupe(scalar), "; "), c.pos(fd.Pos()))
	r.check(len(str) == 0 && strSites > 0, rule, "string-buffer", "a value that may be a string is encoded into a buffer of at least 1+9+len(s) bytes", fmt.Sprintf("Dump: a string constant may not fit the scratch buffer (%d encoder calls seen for a value known to be a string): %s", strSites, strings.Join(dedupe(str), "; ")), c.pos(fd.Pos()))
}

// definingExpr finds `x := expr` for obj under root.
func (c *Ctx) definingExpr(root ast.Node, obj types.Object) ast.Expr {
	var out ast.Expr
	ast.Inspect(root, func(n ast.Node) bool {
		if as, ok := n.(*ast.AssignStmt); ok && as.Tok == token.DEFINE {
			for i, l := range as.Lhs {
				if id, ok := l.(*ast.Ident); ok && c.objOf(id) == obj && i < len(as.Rhs) {
					out = as.Rhs[i]
				}
			}
		}
		return true
	})
	return out
}

// sizeForm decomposes k1 + k2 + len(x) into (sum of constants, has a len term with coefficient 1).
func (c *Ctx) sizeForm(e ast.Expr) (int64, bool) {
	if e == nil {
		return 0, false
	}
	e = stripParens(e)
	if k, ok := c.intConst(e); ok {
		return k, false
	}
	switch x := e.(type) {
	case *ast.BinaryExpr:
		if x.Op == token.ADD {
			a, la := c.sizeForm(x.X)
			b, lb := c.sizeForm(x.Y)
			if la && lb {
				return 0, false
			}
			return a + b, la || lb
		}
	case *ast.CallExpr:
		if c.calleeName(x) == "len" {
			return 0, true
		}
	}
	return -1 << 40, false
}

// ---------------------------------------------------------------- Load rejects only damage

// ruleRejectsOnlyDamage: Load and the helpers it calls construct an error
// only where a read failed or came up short, or where the fixed header
// bytes differ from the format's constants. A rejection on any other
// condition (a size limit, a value range) refuses dumps that Dump writes.
func ruleRejectsOnlyDamage(c *Ctx, r *Report, rule string) {
	r.rule(rule, 6, "every path of Load that ends in an error although all reads succeeded leaves the successful path at a comparison of header bytes with a format constant; every error the decoding primitives construct is justified by a failed or short read (a condition on a read's error or byte count), by header bytes differing from the format constants, or by an unknown type code; sizes and values decoded from the dump are never a reason to reject it (Dump writes code, names, strings, positions of any magnitude)")
	obj, fd := c.find("Prog.Load")
	if fd == nil {
		r.bad(rule, "Prog.Load", "function not found", "")
		return
	}
	// Load and the module functions it reaches by static calls
	type item struct {
		obj types.Object
		fd  *ast.FuncDecl
	}
	var work []item
	seen := map[*ast.FuncDecl]bool{}
	var visit func(o types.Object, d *ast.FuncDecl)
	visit = func(o types.Object, d *ast.FuncDecl) {
		if d == nil || d.Body == nil || seen[d] {
			return
		}
		seen[d] = true
		work = append(work, item{o, d})
		// static calls and functions mentioned as values (a table of steps, a method value)
		ast.Inspect(d.Body, func(n ast.Node) bool {
			var fn *types.Func
			switch n := n.(type) {
			case *ast.Ident:
				fn, _ = c.objOf(n).(*types.Func)
			case *ast.SelectorExpr:
				fn, _ = c.objOf(n).(*types.Func)
			}
			if fn != nil && fn.Pkg() != nil && fn.Pkg().Path() == bclPath {
				visit(fn, c.funcDecls[fn])
			}
			return true
		})
	}
	visit(obj, fd)
	// the decoding primitives, however Load gets to them (a table of steps hides them from the walk above)
	for _, role := range []string{"uvarintFromBuf", "valueFromBuf"} {
		if pf, pd := c.serPrim(role); pd != nil {
			visit(pf, pd)
		}
	}
	// Load and what it interprets in place are decided on the model; the decoding primitives by their syntax
	covered := ruleRejectsByModel(c, r, rule)
	{
		var rest []item
		for _, it := range work {
			if !covered[it.fd] {
				rest = append(rest, it)
			}
		}
		work = rest
	}
	errType := types.Universe.Lookup("error").Type()
	isErr := func(e ast.Expr) bool {
		t := c.typeOf(e)
		return t != nil && types.Identical(t, errType)
	}
	for _, it := range work {
		d := it.fd
		name := qname(it.obj)
		// locals that hold what a read returned: byte counts and buffers
		counts := map[types.Object]bool{}
		bufs := map[types.Object]bool{}
		ast.Inspect(d.Body, func(n ast.Node) bool {
			switch n := n.(type) {
			case *ast.AssignStmt:
				if len(n.Rhs) == 1 {
					if call, ok := n.Rhs[0].(*ast.CallExpr); ok && isReadCall(c.calleeName(call)) && len(n.Lhs) == 2 {
						if id, ok := n.Lhs[0].(*ast.Ident); ok && id.Name != "_" {
							counts[c.objOf(id)] = true
						}
					}
				}
			case *ast.CallExpr:
				if isReadCall(c.calleeName(n)) && len(n.Args) > 0 {
					ast.Inspect(n.Args[len(n.Args)-1], func(x ast.Node) bool {
						if id, ok := x.(*ast.Ident); ok {
							if v, ok := c.objOf(id).(*types.Var); ok && !v.IsField() {
								bufs[v] = true
							}
						}
						return true
					})
				}
			}
			return true
		})
		mentions := func(e ast.Expr, set map[types.Object]bool) bool {
			found := false
			ast.Inspect(e, func(x ast.Node) bool {
				if id, ok := x.(*ast.Ident); ok && set[c.objOf(id)] {
					found = true
				}
				return !found
			})
			return found
		}
		mentionsErr := func(e ast.Expr) bool {
			found := false
			ast.Inspect(e, func(x ast.Node) bool {
				if ex, ok := x.(ast.Expr); ok && isErr(ex) {
					if _, isNil := ex.(*ast.Ident); !isNil || ex.(*ast.Ident).Name != "nil" {
						found = true
					}
				}
				return !found
			})
			return found
		}
		justifies := func(a condAtom) string {
			e := a.E
			if a.Init != nil {
				// `if _, err := read(); err != nil`
				for _, rhs := range a.Init.Rhs {
					if call, ok := rhs.(*ast.CallExpr); ok && len(a.Init.Lhs) > 0 {
						_ = call
					}
				}
			}
			switch {
			case mentionsErr(e):
				return "read error"
			case mentions(e, counts):
				return "byte count of a read"
			case mentions(e, bufs) && c.mentionsPkgConst(e):
				return "header bytes against a format constant"
			}
			return ""
		}
		pm := parentMap(d.Body)
		idx := 0
		ast.Inspect(d.Body, func(n ast.Node) bool {
			rs, ok := n.(*ast.ReturnStmt)
			if !ok {
				return true
			}
			var errRes ast.Expr
			for _, res := range rs.Results {
				if isErr(res) || (len(rs.Results) > 0 && res == rs.Results[len(rs.Results)-1] && c.typeOf(res) != nil && types.Implements(c.typeOf(res), errType.Underlying().(*types.Interface))) {
					errRes = res
				}
			}
			if errRes == nil || isNilIdent(errRes) {
				return true
			}
			idx++
			key := fmt.Sprintf("%s/error-return#%d", name, idx)
			if id, ok := stripParens(errRes).(*ast.Ident); ok {
				if _, isVar := c.objOf(id).(*types.Var); isVar {
					r.ok(rule, key, "passes on the error variable "+id.Name+" (nil unless a read failed)")
					return true
				}
			}
			// unknown type code: the default arm of a switch over a byte that was read
			for p := pm[ast.Node(rs)]; p != nil; p = pm[p] {
				if cc, ok := p.(*ast.CaseClause); ok && cc.List == nil {
					if blk, ok := pm[cc].(*ast.BlockStmt); ok {
						if sw, ok := pm[blk].(*ast.SwitchStmt); ok && sw.Tag != nil {
							r.ok(rule, key, "default arm of the switch over the type code")
							return true
						}
					}
				}
				if _, isLit := p.(*ast.FuncLit); isLit {
					break
				}
			}
			why := ""
			var unjust []string
			for _, nf := range factNFs(c.factsAt(d.Body, rs)) {
				// the fact is a reason when every alternative of it is one
				alts := nf.dnf()
				all := len(alts) > 0
				w := ""
				for _, alt := range alts {
					one := ""
					for _, a := range alt {
						if j := justifies(a); j != "" {
							one = j
						}
					}
					if one == "" {
						all = false
					} else {
						w = one
					}
				}
				if all {
					why = w
				} else {
					for _, a := range nf.knownAtoms() {
						if justifies(a) == "" {
							unjust = append(unjust, polarity(a))
						}
					}
					if len(nf.knownAtoms()) == 0 {
						unjust = append(unjust, "(a disjunction with an alternative that is no read failure)")
					}
				}
			}
			// the innermost condition must itself be a reason: `if err != nil { if m > K { return error } }` still rejects on m
			inner := c.innermostFact(d.Body, pm, rs)
			innerOK := true
			if inner != nil {
				innerOK = false
				alts := inner.dnf()
				ok := len(alts) > 0
				for _, alt := range alts {
					one := false
					for _, a := range alt {
						if justifies(a) != "" {
							one = true
						}
					}
					if !one {
						ok = false
					}
				}
				innerOK = ok
			}
			if why != "" && innerOK {
				r.ok(rule, key, "constructed under: "+why)
			} else {
				r.bad(rule, key, fmt.Sprintf("%s returns the error %s on a condition that is no read failure, short read or header mismatch (%s): a dump that Dump writes can be refused", name, types.ExprString(errRes), strings.Join(unjust, "; ")), c.pos(rs.Pos()))
			}
			return true
		})
	}
}

func polarity(a condAtom) string {
	if a.Pos {
		return types.ExprString(a.E)
	}
	return "!(" + types.ExprString(a.E) + ")"
}

func isReadCall(name string) bool {
	switch name {
	case "io.ReadFull", "io.ReadAtLeast", "(*bufio.Reader).Read", "bufio.Reader.Read", "io.Reader.Read":
		return true
	}
	return false
}

// mentionsPkgConst: the expression refers to a package-level constant of the module.
func (c *Ctx) mentionsPkgConst(e ast.Expr) bool {
	found := false
	ast.Inspect(e, func(x ast.Node) bool {
		if id, ok := x.(*ast.Ident); ok {
			if k, ok := c.objOf(id).(*types.Const); ok && k.Pkg() != nil && k.Pkg().Path() == bclPath {
				found = true
			}
		}
		return !found
	})
	return found
}

// innermostFact: the condition of the nearest enclosing if (in the polarity
// of the branch taken), or the negation of the nearest preceding leaving
// guard when the statement is not nested in an if.
func (c *Ctx) innermostFact(root ast.Node, pm map[ast.Node]ast.Node, at ast.Node) *condNF {
	for cur := at; cur != nil && cur != root; cur = pm[cur] {
		if ifs, ok := pm[cur].(*ast.IfStmt); ok {
			init, _ := ifs.Init.(*ast.AssignStmt)
			if cur == ast.Node(ifs.Body) {
				return c.nnf(ifs.Cond, true, init)
			}
			if ifs.Else != nil && cur == ifs.Else {
				return c.nnf(ifs.Cond, false, init)
			}
		}
		if _, ok := pm[cur].(*ast.FuncLit); ok {
			return nil
		}
	}
	return nil
}

// ---------------------------------------------------------------- LoadProg uses the program only after a successful Load

// ruleLoadGating: between Load returning and LoadProg returning, the Prog is
// used (disassembled, executed, inspected) only on paths where the error is
// known to be nil. A failed Load leaves a half-filled Prog — slices sized but
// not filled, code without its constants — and walking it panics.
func ruleLoadGating(c *Ctx, r *Report, rule string) {
	r.rule(rule, 1, "in LoadProg every use of the Prog after the Load call other than returning it is dominated by the test that Load's error is nil")
	_, fd := c.find("LoadProg")
	if fd == nil {
		r.bad(rule, "LoadProg", "function not found", "")
		return
	}
	var loadCall *ast.CallExpr
	var errObj, progObj types.Object
	// in LoadProg itself, or in the function it hands the whole job to (return helper(...))
	for depth := 0; depth < 3 && loadCall == nil; depth++ {
		ast.Inspect(fd.Body, func(n ast.Node) bool {
			as, ok := n.(*ast.AssignStmt)
			if !ok || len(as.Rhs) != 1 || len(as.Lhs) != 1 {
				return true
			}
			if call, ok := as.Rhs[0].(*ast.CallExpr); ok && c.calleeName(call) == "Prog.Load" {
				loadCall = call
				errObj = c.objOfExpr(as.Lhs[0])
				if sel, ok := call.Fun.(*ast.SelectorExpr); ok {
					progObj = c.objOfExpr(sel.X)
				}
			}
			return true
		})
		if loadCall != nil {
			break
		}
		var next *ast.FuncDecl
		ast.Inspect(fd.Body, func(n ast.Node) bool {
			rs, ok := n.(*ast.ReturnStmt)
			if !ok || len(rs.Results) != 1 {
				return true
			}
			if call, ok := stripParens(rs.Results[0]).(*ast.CallExpr); ok {
				if fn, ok := c.callee(call).(*types.Func); ok && fn.Pkg() != nil && fn.Pkg().Path() == bclPath {
					if hd := c.funcDecls[fn]; hd != nil && hd.Body != nil && hd != fd {
						next = hd
					}
				}
			}
			return true
		})
		if next == nil {
			break
		}
		fd = next
	}
	if loadCall == nil || errObj == nil || progObj == nil {
		r.bad(rule, "LoadProg", "the call err := prog.Load(r) was not found", c.pos(fd.Pos()))
		return
	}
	uses, bad := 0, 0
	pm := parentMap(fd.Body)
	ast.Inspect(fd.Body, func(n ast.Node) bool {
		id, ok := n.(*ast.Ident)
		if !ok || c.objOf(id) != progObj || id.Pos() <= loadCall.End() {
			return true
		}
		// returning the program is not a use
		if _, isRet := pm[ast.Node(id)].(*ast.ReturnStmt); isRet {
			return true
		}
		uses++
		okNil := false
		// handed, together with the error, to a helper that uses it only when the error is nil
		if call, isArg := pm[ast.Node(id)].(*ast.CallExpr); isArg {
			if fn, ok := c.callee(call).(*types.Func); ok && fn.Pkg() != nil && fn.Pkg().Path() == bclPath {
				if hd := c.funcDecls[fn]; hd != nil && hd.Body != nil {
					pi, ei := -1, -1
					for k, a := range call.Args {
						if a == ast.Expr(id) {
							pi = k
						}
						if c.isObj(a, errObj) {
							ei = k
						}
					}
					if pi >= 0 && ei >= 0 {
						pObj, eObj := c.paramObj(hd, pi), c.paramObj(hd, ei)
						all, n := true, 0
						ast.Inspect(hd.Body, func(x ast.Node) bool {
							hid, isID := x.(*ast.Ident)
							if !isID || c.objOf(hid) != pObj {
								return true
							}
							n++
							good := false
							for _, f := range splitFacts(c.factsAt(hd.Body, hid)) {
								be, isB := stripParens(f.Cond).(*ast.BinaryExpr)
								if isB && isNilIdent(be.Y) && c.isObj(be.X, eObj) && (be.Op == token.EQL) == f.Pos {
									good = true
								}
							}
							if !good {
								all = false
							}
							return true
						})
						if all {
							okNil = true
						}
					}
				}
			}
		}
		for _, f := range splitFacts(c.factsAt(fd.Body, id)) {
			be, isB := stripParens(f.Cond).(*ast.BinaryExpr)
			if !isB || !isNilIdent(be.Y) || !c.isObj(be.X, errObj) {
				continue
			}
			if (be.Op == token.EQL) == f.Pos {
				okNil = true
			}
		}
		// the use may sit in the condition that itself tests err first:  err == nil && use(prog)
		if !okNil {
			for p := pm[ast.Node(id)]; p != nil; p = pm[p] {
				be, isB := p.(*ast.BinaryExpr)
				if !isB || be.Op != token.LAND {
					continue
				}
				if id.Pos() >= be.Y.Pos() {
					for _, a := range c.nnf(be.X, true, nil).knownAtoms() {
						if x, isX := a.E.(*ast.BinaryExpr); isX && isNilIdent(x.Y) && c.isObj(x.X, errObj) && (x.Op == token.EQL) == a.Pos {
							okNil = true
						}
					}
				}
			}
		}
		if !okNil {
			bad++
			r.bad(rule, fmt.Sprintf("LoadProg/use#%d", uses), "the Prog is used after Load without the error having been tested for nil: a truncated dump leaves it half-filled and walking it (disassembly, execution) can panic instead of returning the error", c.pos(id.Pos()))
		}
		return true
	})
	if bad == 0 {
		r.ok(rule, "LoadProg", fmt.Sprintf("%d uses of the program after Load, all under err == nil", uses))
	}
}

// ruleDisasmGated: the listing of a program runs only when the step that produced the program succeeded.
func ruleDisasmGated(c *Ctx, r *Report, rule string) {
	r.rule(rule, 1, "every call of Prog.disasm is dominated by `err == nil` for the error of the step that built the program (parse, Load): a program left incomplete by a failed step has positions, constants or a line table that do not cover its code, and listing it indexes out of range; when the test lives in a helper that is handed the error, the helper must be called after the step with that error (a `defer helper(prog, err)` evaluates err before the step has run)")
	n := 0
	for _, it := range c.sortedDecls() {
		fn, ok := it.obj.(*types.Func)
		if !ok || it.fd.Body == nil || fn.Pkg() == nil || fn.Pkg().Path() != bclPath {
			continue
		}
		fd := it.fd
		ast.Inspect(fd.Body, func(x ast.Node) bool {
			call, ok := x.(*ast.CallExpr)
			if !ok || c.calleeName(call) != "Prog.disasm" {
				return true
			}
			n++
			key := fmt.Sprintf("%s/disasm#%d", funcName(fn), n)
			var gate types.Object
			for _, f := range splitFacts(c.factsAt(fd.Body, call)) {
				be, isB := stripParens(f.Cond).(*ast.BinaryExpr)
				if !isB || !isNilIdent(be.Y) || (be.Op == token.EQL) != f.Pos {
					continue
				}
				if o := c.objOfExpr(be.X); o != nil && isErrorType(o.Type()) {
					gate = o
				}
			}
			if gate == nil {
				r.bad(rule, key, "Prog.disasm is called without a dominating test that the error of the step that built the program is nil", c.pos(call.Pos()))
				return true
			}
			// the error is a parameter: every call site must pass the step's error, after the step
			pidx := -1
			if fd.Type.Params != nil {
				k := 0
				for _, f := range fd.Type.Params.List {
					for _, nm := range f.Names {
						if c.infoFor(nm).Defs[nm] == gate {
							pidx = k
						}
						k++
					}
				}
			}
			if pidx < 0 {
				r.ok(rule, key, "under "+gate.Name()+" == nil")
				return true
			}
			bad := ""
			sites := 0
			for _, jt := range c.sortedDecls() {
				if jt.fd.Body == nil {
					continue
				}
				ast.Inspect(jt.fd.Body, func(y ast.Node) bool {
					ds, isDefer := y.(*ast.DeferStmt)
					if isDefer && c.callee(ds.Call) == types.Object(fn) {
						sites++
						bad = c.pos(ds.Pos()) + ": deferred with the error as an argument: the argument is evaluated when the defer statement runs, before the step"
						return false
					}
					if cs, isCall := y.(*ast.CallExpr); isCall && c.callee(cs) == types.Object(fn) {
						sites++
						if pidx >= len(cs.Args) || c.objOfExpr(cs.Args[pidx]) == nil || !isErrorType(c.typeOf(cs.Args[pidx])) {
							bad = c.pos(cs.Pos()) + ": the helper is not handed an error variable"
						}
					}
					return true
				})
			}
			r.check(bad == "" && sites > 0, rule, key, fmt.Sprintf("under %s == nil; %d call sites hand it the step's error", gate.Name(), sites), "the listing is gated by a parameter, but "+bad, c.pos(call.Pos()))
			return true
		})
	}
}
