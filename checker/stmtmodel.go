package main

// A model of statement dispatch. decl() is interpreted (with stmt() and any helper or table walk it is split into
// taken in place) up to the point where a statement function is entered or a diagnostic is raised. p.match(tok)
// forks into the token being there (consumed) or not; the test on the block depth forks; everything else is
// opaque. A path is the list of those decisions followed by what it ends in:
//
//	nomatch:tVAR match:tPRINT call:printStmt
//	nomatch:… depth>0=true call:exprStmt
//	nomatch:… depth>0=false error
//
// The rules read the dispatch table, the place of the bare-expression case and the set of consumed tokens off it.

import (
	"fmt"
	"go/ast"
	"go/constant"
	"go/token"
	"go/types"
	"strings"
)

type stmtPay struct {
	ev   []string
	done bool // a statement function was entered or a diagnostic raised: the rest is not dispatch
}

func (p *stmtPay) Clone() Payload {
	q := *p
	q.ev = append([]string(nil), p.ev...)
	return &q
}

type stmtModel struct {
	Fn        *ast.FuncDecl
	Paths     [][]string
	Undecided []string
}

var stmtModelCache = map[*Ctx]*stmtModel{}

func (c *Ctx) stmtModel(stmtFns map[string]bool) (*stmtModel, error) {
	if m, ok := stmtModelCache[c]; ok {
		return m, nil
	}
	_, fd := c.find("decl")
	if fd == nil || fd.Body == nil {
		return nil, fmt.Errorf("decl not found")
	}
	toks := constsOfType(c.Bcl, "tokenType")
	m := &stmtModel{Fn: fd}
	pay := func(st *State) *stmtPay { return st.P.(*stmtPay) }
	var h Hooks
	h.SameEffect = func(a, b *State) bool { return false }
	h.AssumeKey = func(in *Interp, st *State, key Value, k constant.Value, eq bool) bool {
		// tables are followed; a table indexed by the type of the current token is a test of that token
		if key.K == vTag && key.Tag == "curtyp" && !pay(st).done {
			if v, ok := constant.Int64Val(k); ok {
				if eq {
					pay(st).ev = append(pay(st).ev, "peek:"+constNameOf(toks, v))
				} else {
					pay(st).ev = append(pay(st).ev, "nomatch:"+constNameOf(toks, v))
				}
			}
		}
		return true
	}
	h.Inline = func(fn *types.Func) bool {
		if fn.Pkg() == nil || fn.Pkg().Path() != bclPath {
			return false
		}
		_, prim := emitPrims[funcName(fn)]
		return !prim
	}
	h.Load = func(in *Interp, st *State, e ast.Expr) (Value, bool) {
		switch c.fieldPath(e) {
		case "<parser>.scope.depth":
			return tagV("scopedepth", ""), true
		case "<parser>.current.typ":
			return tagV("curtyp", ""), true
		}
		return Value{}, false
	}
	h.Decide = func(in *Interp, st *State, cond ast.Expr) tri { return triUnknown }
	h.Decision = func(in *Interp, st *State, cond ast.Expr, v Value, branch bool) {
		p := pay(st)
		if p.done {
			return
		}
		be, ok := stripParens(cond).(*ast.BinaryExpr)
		if !ok || c.fieldPath(be.X) != "<parser>.scope.depth" {
			return
		}
		k, isC := c.intConst(be.Y)
		if !isC {
			return
		}
		switch {
		case (be.Op == token.GTR && k == 0) || (be.Op == token.GEQ && k == 1) || (be.Op == token.NEQ && k == 0):
			p.ev = append(p.ev, fmt.Sprintf("depth>0=%v", branch))
		case (be.Op == token.EQL && k == 0) || (be.Op == token.LEQ && k == 0) || (be.Op == token.LSS && k == 1):
			p.ev = append(p.ev, fmt.Sprintf("depth>0=%v", !branch))
		default:
			p.ev = append(p.ev, fmt.Sprintf("depth %s %d=%v", be.Op, k, branch))
		}
	}
	h.Call = func(in *Interp, st *State, call *ast.CallExpr, callee types.Object, args []Value) ([]valState, bool) {
		p := pay(st)
		fn, _ := callee.(*types.Func)
		if fn == nil {
			return nil, false
		}
		name := funcName(fn)
		role := emitPrims[name]
		if p.done {
			if role != "" || stmtFns[name] {
				return one(st, unknownV()), true
			}
			return nil, false
		}
		switch {
		case stmtFns[name]:
			p.ev = append(p.ev, "call:"+name)
			p.done = true
			return one(st, unknownV()), true
		case role == "match":
			tok := "?"
			if len(args) == 1 && args[0].K == vConst {
				if v, ok := constant.Int64Val(args[0].C); ok {
					tok = constNameOf(toks, v)
				}
			}
			f := st.clone()
			p.ev = append(p.ev, "match:"+tok)
			pay(f).ev = append(pay(f).ev, "nomatch:"+tok)
			return []valState{{st, constV(constant.MakeBool(true))}, {f, constV(constant.MakeBool(false))}}, true
		case role == "error":
			p.ev = append(p.ev, "error")
			p.done = true
			return one(st, unknownV()), true
		case role == "advance" && len(p.ev) > 0 && strings.HasPrefix(p.ev[len(p.ev)-1], "peek:"):
			// the token the table was indexed with is consumed: together that is match(token)
			p.ev[len(p.ev)-1] = "match:" + strings.TrimPrefix(p.ev[len(p.ev)-1], "peek:")
			return one(st, unknownV()), true
		case role == "advance", role == "consume", role == "sync":
			p.ev = append(p.ev, role)
			return one(st, unknownV()), true
		case name == "decl":
			return one(st, unknownV()), true // a nested declaration: not part of this dispatch
		case role != "":
			if strings.HasPrefix(role, "emit") || role == "cut:parsePrecedence" {
				p.ev = append(p.ev, "compile:"+name)
				p.done = true
			}
			return one(st, unknownV()), true
		}
		return nil, false
	}
	in := newInterp(c, h)
	st := &State{Env: map[types.Object]Value{}, P: &stmtPay{}}
	for _, r := range in.inlineBody(st, fd.Type, fd.Body, fd.Recv, nil) {
		m.Paths = append(m.Paths, r.st.P.(*stmtPay).ev)
	}
	m.Undecided = in.Undecided
	stmtModelCache[c] = m
	return m, nil
}

// stmtDispatch reads the dispatch table off the model: token -> statement function entered after it was matched,
// "depth>0" -> what a statement starting with no keyword compiles to inside a block, "default" -> what happens otherwise.
type stmtDispatch struct {
	got      map[string]string
	order    []string // tests in the order the bare-expression path meets them
	problems []string
	consumed map[string]bool
	pos      string
}

func (c *Ctx) stmtDispatch(spec *langSpec) (*stmtDispatch, error) {
	fns := map[string]bool{}
	for _, fn := range spec.StmtKeywords {
		fns[fn] = true
	}
	m, err := c.stmtModel(fns)
	if err != nil {
		return nil, err
	}
	d := &stmtDispatch{got: map[string]string{}, consumed: map[string]bool{}, pos: c.pos(m.Fn.Pos())}
	d.problems = append(d.problems, m.Undecided...)
	set := func(k, v string) {
		if old, ok := d.got[k]; ok && old != v {
			v = old + "|" + v
		}
		d.got[k] = v
	}
	seen := map[string]bool{}
	for _, ev := range m.Paths {
		key := strings.Join(ev, " ")
		if seen[key] {
			continue
		}
		seen[key] = true
		term, matched, depth := "", "", ""
		var tests []string
		for _, e := range ev {
			switch {
			case strings.HasPrefix(e, "call:"), e == "error", strings.HasPrefix(e, "compile:"):
				term = e
			case strings.HasPrefix(e, "match:"):
				if matched != "" {
					d.problems = append(d.problems, "a statement is entered after two tokens were consumed by the dispatch: "+key)
				}
				matched = strings.TrimPrefix(e, "match:")
				d.consumed[matched] = true
			case strings.HasPrefix(e, "nomatch:"):
				tests = append(tests, strings.TrimPrefix(e, "nomatch:"))
			case strings.HasPrefix(e, "depth>0="):
				depth = strings.TrimPrefix(e, "depth>0=")
				tests = append(tests, "depth>0")
			case e == "advance", e == "consume", e == "sync":
				d.problems = append(d.problems, "the dispatch consumes a token other than through match(keyword): "+key)
			default:
				d.problems = append(d.problems, "the dispatch depends on "+e)
			}
			if term != "" {
				break
			}
		}
		target := strings.TrimPrefix(term, "call:")
		switch {
		case matched != "":
			set(matched, target)
		case depth == "true":
			set("depth>0", target)
			d.order = tests
		case depth == "false" || depth == "":
			if term == "error" {
				target = "parser.errorAtCurrent"
			}
			set("default", target)
			if depth == "" {
				d.problems = append(d.problems, "a statement starting with no keyword is handled without looking at the block depth: "+key)
			}
		}
	}
	return d, nil
}
