// bclverif decides structural necessary conditions of the properties in
// /verif/properties.jsonl for the source tree of github.com/wkhere/bcl.
// Nothing from the analysed repository is executed.
package main

import (
	"encoding/json"
	"flag"
	"fmt"
	"os"
	"path/filepath"
	"runtime/debug"
	"sort"
	"strconv"
	"strings"
	"time"
)

type propFunc func(c *Ctx, r *Report)

type propDef struct {
	id    string
	level string
	run   propFunc
}

var registry = map[string]*propDef{}

func register(id, level string, f propFunc) { registry[id] = &propDef{id, level, f} }

var specDir string
var selftestFile string

func main() {
	var (
		repo     = flag.String("repo", "/repo", "source tree to analyse")
		prop     = flag.String("prop", "", "property id (C01..C20) or 'all'")
		tier     = flag.String("tier", "quick", "quick or thorough")
		verif    = flag.String("verif", "/verif", "verification directory (spec/, known_findings.json, evidence/)")
		evidence = flag.String("evidence", "", "evidence file to write (default <verif>/evidence/<prop>.json)")
		replay   = flag.String("replay", "", "re-evaluate the single obligation stored in this replay file")
		list     = flag.Bool("list", false, "list obligations on stdout")
		selftest = flag.String("selftest", "", "JSON file with the result of tools/selftest.sh, recorded in the evidence")
		anchors  = flag.Bool("dump-anchors", false, "write spec/anchors.json (function fingerprints of the tree) and exit")
	)
	flag.Parse()
	specDir = filepath.Join(*verif, "spec")
	if *anchors {
		if err := dumpAnchors(*repo, filepath.Join(specDir, "anchors.json")); err != nil {
			fmt.Fprintln(os.Stderr, "bclverif:", err)
			os.Exit(2)
		}
		return
	}

	if *replay != "" {
		os.Exit(doReplay(*repo, *verif, *replay))
	}
	if *prop == "" {
		fmt.Fprintln(os.Stderr, "usage: bclverif -prop Cnn [-tier quick|thorough] [-repo DIR]")
		os.Exit(2)
	}
	ids := []string{*prop}
	if *prop == "all" {
		ids = nil
		for id := range registry {
			ids = append(ids, id)
		}
		sort.Strings(ids)
	}
	seed, _ := strconv.ParseInt(os.Getenv("VERIF_SEED"), 10, 64)
	if t := os.Getenv("VERIF_TIER"); t != "" && !flagSet("tier") {
		*tier = t
	}
	known, err := loadKnown(filepath.Join(*verif, "known_findings.json"))
	if err != nil {
		fmt.Fprintln(os.Stderr, "bclverif:", err)
		os.Exit(2)
	}

	exit := 0
	for _, id := range ids {
		def := registry[id]
		if def == nil {
			fmt.Fprintf(os.Stderr, "bclverif: no check for property %s\n", id)
			os.Exit(2)
		}
		ev := *evidence
		if ev == "" || len(ids) > 1 {
			ev = filepath.Join(*verif, "evidence", id+".json")
		}
		selftestFile = *selftest
		code := runProp(def, *repo, *verif, *tier, ev, seed, known, *list)
		if code > exit {
			exit = code
		}
	}
	os.Exit(exit)
}

func flagSet(name string) bool {
	set := false
	flag.Visit(func(f *flag.Flag) {
		if f.Name == name {
			set = true
		}
	})
	return set
}

// configs lists the build configurations analysed per tier.
func configs(tier string) [][]string {
	if tier == "thorough" {
		return [][]string{nil, {"GOARCH=386"}, {"GOOS=windows", "GOARCH=amd64"}}
	}
	return [][]string{nil}
}

func runProp(def *propDef, repo, verif, tier, evPath string, seed int64, known []KnownFinding, list bool) (code int) {
	start := time.Now()
	r := newReport(def.id, def.level)
	var ctx *Ctx
	defer func() {
		if e := recover(); e != nil {
			fmt.Fprintf(os.Stderr, "bclverif: internal error in %s: %v\n%s\n", def.id, e, debug.Stack())
			// a checker crash is no verdict; remove stale evidence
			code = 2
		}
	}()
	for _, cfg := range configs(tier) {
		c, err := load(repo, tier, cfg...)
		if err != nil {
			fmt.Fprintf(os.Stderr, "bclverif: %v\n", err)
			fmt.Printf("ERROR property=%s the tree could not be loaded and type-checked: no verdict\n", def.id)
			return 2
		}
		ctx = c
		r.cur = c
		r.Configs = append(r.Configs, c.Config)
		def.run(c, r)
	}
	r.finish()
	if selftestFile != "" {
		if b, err := os.ReadFile(selftestFile); err == nil {
			var st map[string]any
			if json.Unmarshal(b, &st) == nil {
				r.Extra["selftest"] = st
			}
		}
	}
	out := r.classify(known)
	cmd := fmt.Sprintf("bin/bclverif -repo %s -prop %s -tier %s", repo, def.id, tier)
	replays, err := r.writeEvidence(evPath, verif, tier, seed, time.Since(start).Seconds(), out, cmd)
	if err != nil {
		fmt.Fprintln(os.Stderr, "bclverif: writing evidence:", err)
		return 2
	}
	_ = ctx
	discharged := 0
	for _, o := range r.Obs {
		if o.Status == Discharged {
			discharged++
		}
		if list {
			fmt.Printf("  [%s] %s/%s — %s %s\n", o.Status, o.Rule, o.Construct, o.Detail, o.Pos)
		}
	}
	fmt.Printf("%s %s: %d obligations, %d discharged, %d known findings, %d violations (%.1fs, configs: %s)\n",
		def.id, tier, len(r.Obs), discharged, len(out.known), len(out.violations), time.Since(start).Seconds(), strings.Join(r.Configs, " | "))
	for _, o := range out.known {
		fmt.Printf("KNOWN-FINDING: property=%s %s [%s/%s]\n", def.id, out.knownWhat[o.Key()], o.Rule, o.Construct)
	}
	for i, o := range out.violations {
		fmt.Printf("  %s: rule %s on %s at %s: %s\n", o.Status, o.Rule, o.Construct, o.Pos, o.Detail)
		fmt.Printf("VIOLATION property=%s replay=%s\n", def.id, replays[i])
	}
	if len(out.violations) > 0 {
		return 1
	}
	return 0
}

// doReplay re-runs the property of the stored obligation and reports that
// obligation's status on the current tree.
func doReplay(repo, verif, file string) int {
	b, err := os.ReadFile(file)
	if err != nil {
		fmt.Fprintln(os.Stderr, "bclverif:", err)
		return 2
	}
	var want Obligation
	if err := json.Unmarshal(b, &want); err != nil {
		fmt.Fprintln(os.Stderr, "bclverif:", err)
		return 2
	}
	def := registry[want.Prop]
	if def == nil {
		fmt.Fprintf(os.Stderr, "bclverif: no check for property %s\n", want.Prop)
		return 2
	}
	c, err := load(repo, "quick")
	if err != nil {
		fmt.Fprintln(os.Stderr, "bclverif:", err)
		return 2
	}
	r := newReport(def.id, def.level)
	r.cur = c
	def.run(c, r)
	r.finish()
	for _, o := range r.Obs {
		if o.Rule == want.Rule && o.Construct == want.Construct {
			fmt.Printf("replay %s: %s — %s %s\n", o.Key(), o.Status, o.Detail, o.Pos)
			if o.Status != Discharged {
				fmt.Printf("VIOLATION property=%s replay=%s\n", want.Prop, file)
				return 1
			}
			return 0
		}
	}
	fmt.Printf("replay %s: the obligation no longer exists on this tree\n", want.Key())
	return 0
}
