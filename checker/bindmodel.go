package main

// A model of the BIND instruction: the statements of the machine's BIND arm (with every helper it calls taken in
// place) are interpreted once per cell of
//
//	option byte (every documented target|selector, plus undocumented ones) × number of candidates (0, 1, several)
//
// over abstract values: vm.result is "the result list"; a loop over it that appends exactly the elements whose Type
// equals the type operand to a fresh slice gives "the candidates" c; len(c) is 0, 1 or a symbol n ≥ 2 according to the
// cell; c[0], c[len-1], c[:1], c[len-1:] and c are told apart; a StructBinding/SliceBinding literal is named after
// what it holds; vm.runtimeError ends the cell in an error; a store to vm.binding is the cell's result.
//
// The cell's constants (the option byte, the count class) are known, so the arm's own comparisons decide every
// branch: nothing of the library is run, the arm is partially evaluated. Used when the arm is not written in the
// one-switch shape the syntactic rules read (helpers returning the binding, nested switches, tables).

import (
	"fmt"
	"go/ast"
	"go/constant"
	"go/token"
	"go/types"
	"os"
	"sort"
	"strings"
)

type bindPay struct {
	nClass   string // "0", "1", "many"
	binding  string // what vm.binding was set to ("" not set)
	err      string // format of the runtime error the cell ends in
	warned   bool
	hadOld   string // decision on vm.binding != nil at entry: "", "true", "false"
	filters  int    // candidate filters met
	problems []string
}

func (p *bindPay) Clone() Payload {
	q := *p
	q.problems = append([]string(nil), p.problems...)
	return &q
}

type bindCell struct {
	Opt      int64
	NClass   string
	HadOld   string
	Binding  string
	Err      string
	Warned   bool
	Problems []string
}

type bindModel struct {
	Cells     []bindCell
	Undecided []string
	Pos       token.Pos
}

func (c *Ctx) bindModel(vm *vmModel, opts []int64) (*bindModel, error) {
	arm := vm.Arms["opBIND"]
	if arm == nil || arm.Clause == nil {
		return nil, fmt.Errorf("no BIND arm")
	}
	m := &bindModel{Pos: arm.Clause.Pos()}
	for _, opt := range opts {
		for _, nc := range []string{"0", "1", "many"} {
			c.bindRun(vm, arm, m, opt, nc)
		}
	}
	sort.Strings(m.Undecided)
	m.Undecided = uniqStrings(m.Undecided)
	return m, nil
}

func uniqStrings(ss []string) []string {
	var out []string
	for i, s := range ss {
		if i == 0 || s != ss[i-1] {
			out = append(out, s)
		}
	}
	return out
}

func (c *Ctx) bindRun(vm *vmModel, arm *vmArm, m *bindModel, opt int64, nClass string) {
	pay := func(st *State) *bindPay { return st.P.(*bindPay) }
	isTag := func(v Value, t string) bool { return v.K == vTag && v.Tag == t }
	var h Hooks
	h.SameEffect = func(a, b *State) bool { return false }
	h.AssumeKey = func(in *Interp, st *State, key Value, k constant.Value, eq bool) bool { return true }
	h.Slice = func(in *Interp, st *State, e *ast.SliceExpr, x Value, lo, hi *Value) (Value, bool) {
		if !isTag(x, "cands") {
			return Value{}, false
		}
		p := pay(st)
		if p.nClass == "0" {
			// slicing an empty list is harmless, but selecting from it is not a documented outcome
			p.problems = append(p.problems, c.pos(e.Pos())+": the candidates are sliced although there are none")
		}
		n := c.bindLen(p.nClass)
		var l, hgh *Lin
		if lo != nil {
			l, _ = lo.asLin()
			if l == nil {
				return Value{}, false
			}
		} else {
			l = linConst(0)
		}
		if hi != nil {
			hgh, _ = hi.asLin()
			if hgh == nil {
				return Value{}, false
			}
		} else {
			hgh = n
		}
		v := tagV("candslice", bindRange(p.nClass, l, hgh, n))
		v.T = c.typeOf(e)
		return v, true
	}
	h.Index = func(in *Interp, st *State, e *ast.IndexExpr, x, idx Value) (Value, bool) {
		switch {
		case isTag(x, "cands"):
			p := pay(st)
			l, ok := idx.asLin()
			if !ok {
				return Value{}, false
			}
			if p.nClass == "0" {
				p.problems = append(p.problems, c.pos(e.Pos())+": a candidate is taken although there are none (index out of range at run time)")
			}
			n := c.bindLen(p.nClass)
			switch {
			case l.equal(linConst(0)):
				return tagV("cand", "c[0]"), true
			case l.equal(n.sub(linConst(1))):
				return tagV("cand", "c[last]"), true
			}
			return tagV("cand", "c["+l.String()+"]"), true
		case isTag(x, "result"), isTag(x, "source"):
			return tagV("elem", ""), true
		}
		return Value{}, false
	}
	h.Load = func(in *Interp, st *State, e ast.Expr) (Value, bool) {
		switch c.fieldPath(e) {
		case "<vm>.result":
			v := tagV("result", "")
			v.T = c.typeOf(e)
			return v, true
		case "<vm>.binding":
			if b := pay(st).binding; b != "" {
				return tagV("binding", b), true
			}
			return tagV("oldbinding", ""), true
		}
		if cl, ok := e.(*ast.CompositeLit); ok {
			tn := typeShort(c.typeOf(cl))
			if (tn == "StructBinding" || tn == "SliceBinding") && len(cl.Elts) == 1 {
				val := cl.Elts[0]
				if kv, isKV := val.(*ast.KeyValueExpr); isKV {
					val = kv.Value
				}
				held := "?"
				if vs := in.eval(st, val); len(vs) == 1 {
					switch {
					case isTag(vs[0].v, "cand"), isTag(vs[0].v, "candslice"):
						held = vs[0].v.Data.(string)
					case isTag(vs[0].v, "cands"):
						held = "c"
					default:
						held = "?" + vs[0].v.String()
					}
				}
				return tagV("binding", tn+"{"+held+"}"), true
			}
			return Value{}, false
		}
		if ta, ok := e.(*ast.TypeAssertExpr); ok && ta.Type != nil {
			if vs := in.eval(st, ta.X); len(vs) == 1 && vs[0].v.K == vTag {
				return vs[0].v, true
			}
			return Value{}, false
		}
		if sel, ok := e.(*ast.SelectorExpr); ok && sel.Sel.Name == "Type" {
			for _, vs := range in.eval(st.clone(), sel.X) {
				if isTag(vs.v, "elem") {
					return tagV("elemtype", ""), true
				}
				break
			}
		}
		return Value{}, false
	}
	h.Store = func(in *Interp, st *State, lhs ast.Expr, op token.Token, v Value) bool {
		if c.fieldPath(lhs) == "<vm>.binding" {
			p := pay(st)
			switch {
			case isTag(v, "binding"):
				p.binding = v.Data.(string)
			default:
				p.binding = "?" + v.String()
			}
			return true
		}
		return false
	}
	h.BinOp = func(l Value, op token.Token, r Value) (Value, bool) {
		// the element's type against the type operand
		if (isTag(l, "elemtype") && isTag(r, "typeop")) || (isTag(r, "elemtype") && isTag(l, "typeop")) {
			switch op {
			case token.EQL:
				return tagV("typeeq", true), true
			case token.NEQ:
				return tagV("typeeq", false), true
			}
		}
		// the binding against nil
		for _, pr := range [][2]Value{{l, r}, {r, l}} {
			if isTag(pr[1], "nil") {
				switch {
				case isTag(pr[0], "oldbinding"):
					return tagV("hadold", op == token.NEQ), true
				case isTag(pr[0], "binding"), isTag(pr[0], "rterr"):
					return constV(constant.MakeBool(op == token.NEQ)), true
				}
			}
		}
		// the count n ≥ 2 against a constant
		ll, ok1 := l.asLin()
		rl, ok2 := r.asLin()
		if ok1 && ok2 && (ll.coef("n") != 0 || rl.coef("n") != 0) {
			d := ll.sub(rl) // k*n + c0, n ≥ 2
			k, c0 := d.coef("n"), d.C
			if len(d.T) != 1 || (k != 1 && k != -1) {
				return Value{}, false
			}
			// k*n + c0 op 0  with n = 2 + t, t ≥ 0:  k*t + (2k + c0) op 0
			base := 2*k + c0
			var res *bool
			set := func(b bool) { res = &b }
			switch op {
			case token.EQL:
				if (k > 0 && base > 0) || (k < 0 && base < 0) {
					set(false)
				}
			case token.NEQ:
				if (k > 0 && base > 0) || (k < 0 && base < 0) {
					set(true)
				}
			case token.GTR:
				if k > 0 && base > 0 {
					set(true)
				}
				if k < 0 && base <= 0 {
					set(false)
				}
			case token.GEQ:
				if k > 0 && base >= 0 {
					set(true)
				}
				if k < 0 && base < 0 {
					set(false)
				}
			case token.LSS:
				if k > 0 && base >= 0 {
					set(false)
				}
				if k < 0 && base < 0 {
					set(true)
				}
			case token.LEQ:
				if k > 0 && base > 0 {
					set(false)
				}
				if k < 0 && base <= 0 {
					set(true)
				}
			}
			if res != nil {
				return constV(constant.MakeBool(*res)), true
			}
		}
		return Value{}, false
	}
	h.DecideV = func(in *Interp, st *State, cond ast.Expr, v Value) tri {
		p := pay(st)
		if isTag(v, "hadold") {
			want := v.Data.(bool) // the condition is "there was a binding" (true) or its negation
			switch p.hadOld {
			case "true":
				return boolTri(want)
			case "false":
				return boolTri(!want)
			}
		}
		return triUnknown
	}
	h.AssumeV = func(in *Interp, st *State, cond ast.Expr, v Value, branch bool) bool {
		p := pay(st)
		if isTag(v, "hadold") {
			had := v.Data.(bool) == branch
			p.hadOld = map[bool]string{true: "true", false: "false"}[had]
			return true
		}
		return true
	}
	h.Decision = func(in *Interp, st *State, cond ast.Expr, v Value, branch bool) {
		if isTag(v, "typeeq") {
			st.Trace = append(st.Trace, fmt.Sprintf("typeeq=%v", v.Data.(bool) == branch))
		}
	}
	h.Inline = func(fn *types.Func) bool {
		if fn.Pkg() == nil || fn.Pkg().Path() != bclPath {
			return false
		}
		switch funcName(fn) {
		case "vm.runtimeError", "vm.warning":
			return false
		}
		return true
	}
	h.Call = func(in *Interp, st *State, call *ast.CallExpr, callee types.Object, args []Value) ([]valState, bool) {
		p := pay(st)
		// conversions keep constants
		if tv, ok := c.infoFor(call).Types[call.Fun]; ok && tv.IsType() && len(args) == 1 {
			v := args[0]
			v.T = tv.Type
			return one(st, v), true
		}
		switch vm.callRole(c, call) {
		case "readConst":
			return one(st, tagV("typeop", "")), true
		case "readByte":
			return one(st, constV(constant.MakeInt64(opt))), true
		case "readUvarint", "readU16", "readOp", "push", "pop", "peek", "set", "blockGet", "blockSet":
			p.problems = append(p.problems, c.pos(call.Pos())+": the BIND arm uses "+vm.callRole(c, call))
			return one(st, unknownV()), true
		}
		if os.Getenv("BINDDBG") != "" {
			fmt.Fprintf(os.Stderr, "call %s nargs=%d\n", qname(callee), len(args))
		}
		switch qname(callee) {
		case "vm.warning":
			p.warned = true
			return one(st, unknownV()), true
		case "vm.runtimeError":
			f := "?"
			if len(call.Args) > 0 {
				if s, ok := c.strConst(call.Args[0]); ok {
					f = s
				}
			}
			return one(st, tagV("rterr", f)), true
		case "len":
			if len(args) == 1 && isTag(args[0], "cands") {
				return one(st, linV(c.bindLen(p.nClass))), true
			}
			return one(st, unknownV()), true
		case "make":
			if len(call.Args) >= 2 && isNamedSlice(c.typeOf(call.Args[0]), "Block") {
				if k, ok := c.intConst(call.Args[1]); ok && k == 0 {
					return one(st, tagV("fresh", "")), true
				}
			}
			return one(st, unknownV()), true
		case "append":
			if len(args) == 2 && args[1].K == vList && len(args[1].Tup) == 1 {
				args = []Value{args[0], args[1].Tup[0]}
			}
			if len(args) == 2 && isTag(args[0], "fresh") && isTag(args[1], "elem") {
				return one(st, tagV("fresh+elem", "")), true
			}
			return one(st, unknownV()), true
		}
		return nil, false
	}
	h.Loop = func(in *Interp, st *State, loop ast.Stmt, body func(*State) []*State) ([]*State, bool) {
		// for _, b := range <result> / for i := range <result> / for i := 0; i < len(<result>); i++
		var src ast.Expr
		var elemVar, idxVar ast.Expr
		switch s := loop.(type) {
		case *ast.RangeStmt:
			src, idxVar, elemVar = s.X, s.Key, s.Value
		case *ast.ForStmt:
			// ascending index loop over the whole list
			as, ok := s.Init.(*ast.AssignStmt)
			inc, ok2 := s.Post.(*ast.IncDecStmt)
			be, ok3 := stripParens(s.Cond).(*ast.BinaryExpr)
			if !ok || !ok2 || !ok3 || len(as.Lhs) != 1 || len(as.Rhs) != 1 || inc.Tok != token.INC || be.Op != token.LSS {
				return nil, false
			}
			if k, isC := c.intConst(as.Rhs[0]); !isC || k != 0 || !c.sameExpr(inc.X, as.Lhs[0]) || !c.sameExpr(be.X, as.Lhs[0]) {
				return nil, false
			}
			call, isCall := stripParens(be.Y).(*ast.CallExpr)
			if !isCall || c.calleeName(call) != "len" || len(call.Args) != 1 {
				return nil, false
			}
			src, idxVar = call.Args[0], as.Lhs[0]
		default:
			return nil, false
		}
		sv := in.eval(st, src)
		if len(sv) != 1 || !isTag(sv[0].v, "result") {
			return nil, false
		}
		st = sv[0].st
		// one iteration from the generic state: the variables the body assigns are remembered by what they held
		// before; the element is "an element of the result list"
		it := st.clone()
		if idxVar != nil {
			in.store(it, idxVar, token.ASSIGN, tagV("loopidx", ""))
		}
		if elemVar != nil {
			in.store(it, elemVar, token.ASSIGN, tagV("elem", ""))
		}
		// which variable collects: found from the outcome
		type outcome struct {
			typeEq   string
			appended []types.Object
			term     termKind
		}
		var outs []outcome
		for _, after := range body(it) {
			o := outcome{term: after.Term}
			for obj, v := range after.Env {
				if isTag(v, "fresh+elem") {
					o.appended = append(o.appended, obj)
				}
			}
			for _, tr := range after.Trace {
				if strings.HasPrefix(tr, "typeeq=") {
					o.typeEq = strings.TrimPrefix(tr, "typeeq=")
				}
			}
			outs = append(outs, o)
		}
		// expected: exactly {typeeq=true: one variable appended, goes on} and {typeeq=false: nothing appended, goes on}
		if os.Getenv("BINDDBG") != "" {
			for _, o := range outs {
				fmt.Fprintf(os.Stderr, "loop outcome typeEq=%q appended=%d term=%v\n", o.typeEq, len(o.appended), o.term)
			}
			for obj, v := range it.Env {
				fmt.Fprintf(os.Stderr, "   env %s = %s\n", obj.Name(), v.String())
			}
		}
		var target types.Object
		okShape := len(outs) == 2
		for _, o := range outs {
			if o.term != tNone && o.term != tContinue {
				okShape = false
			}
			switch o.typeEq {
			case "true":
				if len(o.appended) != 1 {
					okShape = false
				} else {
					target = o.appended[0]
				}
			case "false":
				if len(o.appended) != 0 {
					okShape = false
				}
			default:
				okShape = false
			}
		}
		if !okShape || target == nil {
			pay(st).problems = append(pay(st).problems, c.pos(loop.Pos())+": a loop over the result list is not the candidate filter (append the element to a fresh slice exactly when its Type equals the operand, for every element in order)")
			return nil, false
		}
		cv := tagV("cands", "")
		cv.T = target.Type()
		st.Env[target] = cv
		pay(st).filters++
		return []*State{st}, true
	}
	in := newInterp(c, h)
	st := &State{Env: map[types.Object]Value{}, P: &bindPay{nClass: nClass}}
	res := in.execBlock([]*State{st}, arm.Clause.Body)
	for _, r := range res {
		p := pay(r)
		cell := bindCell{Opt: opt, NClass: nClass, HadOld: p.hadOld, Binding: p.binding, Warned: p.warned, Problems: p.problems}
		if r.Term == tReturn {
			cell.Err = "?return"
			// the error may travel beside a stop flag: (true, err)
			for _, rv := range r.Ret {
				switch {
				case isTag(rv, "rterr"):
					cell.Err = rv.Data.(string)
				case isTag(rv, "nil") && cell.Err == "?return":
					cell.Err = "return nil"
				}
			}
		}
		if p.filters != 1 {
			cell.Problems = append(cell.Problems, fmt.Sprintf("%d candidate filters on the path, expected 1", p.filters))
		}
		m.Cells = append(m.Cells, cell)
	}
	m.Undecided = append(m.Undecided, in.Undecided...)
}

// bindLen: len(candidates) in a cell.
func (c *Ctx) bindLen(nClass string) *Lin {
	switch nClass {
	case "0":
		return linConst(0)
	case "1":
		return linConst(1)
	}
	return linSym("n")
}

// bindRange names c[lo:hi] canonically: "c" (all of them), "c[:1]", "c[last:]", else the bounds.
func bindRange(nClass string, lo, hi, n *Lin) string {
	whole := lo.equal(linConst(0)) && hi.equal(n)
	first := lo.equal(linConst(0)) && hi.equal(linConst(1))
	last := lo.equal(n.sub(linConst(1))) && hi.equal(n)
	switch {
	case nClass == "1" && (whole || first || last):
		return "c" // one candidate: the three coincide
	case whole:
		return "c"
	case first:
		return "c[:1]"
	case last:
		return "c[last:]"
	}
	return "c[" + lo.String() + ":" + hi.String() + "]"
}

// ruleBindTable decides the BIND cells on the model. usable=false: the model could not follow the arm (nothing is
// reported; the caller falls back on the syntactic rules).
func ruleBindTable(c *Ctx, r *Report, rule string, vm *vmModel, spec *langSpec, report bool) (usable bool, why string) {
	sels := constsOfType(c.Bcl, "bindSelector")
	if v, ok := pkgConstInt(c.Bcl, "bindAll"); ok {
		dup := false
		for _, s := range sels {
			if s.Name == "bindAll" {
				dup = true
			}
		}
		if !dup {
			sels = append(sels, namedConst{Name: "bindAll", Val: v})
		}
	}
	tgts := constsOfType(c.Bcl, "bindTarget")
	val := func(cs []namedConst, name string) int64 {
		for _, k := range cs {
			if k.Name == name {
				return k.Val
			}
		}
		return -1
	}
	type doc struct{ tgt, sel string }
	docOf := map[int64]doc{}
	var opts []int64
	for _, tk := range []string{"Struct", "Slice"} {
		for _, sk := range []string{"One", "First", "Last", "All"} {
			tv, sv := val(tgts, "bind"+tk), val(sels, "bind"+sk)
			if tv < 0 || sv < 0 {
				return false, "bind constants bind" + tk + "/bind" + sk + " not found"
			}
			o := tv&0xF0 | sv&0x0F
			docOf[o] = doc{tk, sk}
			opts = append(opts, o)
		}
	}
	// undocumented option bytes: every other selector nibble with each target, every other target nibble with each selector
	used := map[int64]bool{}
	for o := range docOf {
		used[o] = true
	}
	var undoc []int64
	for t := int64(0); t < 16; t++ {
		for s := int64(0); s < 16; s++ {
			o := t<<4 | s
			if !used[o] {
				undoc = append(undoc, o)
			}
		}
	}
	m, err := c.bindModel(vm, append(append([]int64(nil), opts...), undoc...))
	if err != nil {
		return false, err.Error()
	}
	if len(m.Undecided) > 0 {
		return false, "the model cannot follow the arm: " + strings.Join(m.Undecided, "; ")
	}
	for _, cell := range m.Cells {
		if len(cell.Problems) > 0 {
			return false, "the model cannot follow the arm: " + strings.Join(cell.Problems, "; ")
		}
	}
	if !report {
		return true, ""
	}
	r.rule(rule, 26, "the BIND arm, partially evaluated for every option byte (8 documented target|selector pairs, all 248 others) × candidate count (0, 1, several) × a binding being there or not: no candidate → runtime error; selector 1 with several → runtime error; otherwise the binding is StructBinding{first|last candidate} / SliceBinding{candidates[:1] | candidates[last:] | all candidates} as documented; ':all -> struct' and undocumented bytes → runtime error; the candidates are exactly the elements of vm.result whose Type equals the operand, in order, in a fresh slice; a binding already there adds a warning and changes nothing else")
	pos := c.pos(m.Pos)
	want := func(d doc, n string) string {
		if n == "0" {
			return "error"
		}
		if d.sel == "One" && n == "many" {
			return "error"
		}
		switch d.tgt + "/" + d.sel {
		case "Struct/One", "Struct/First":
			return "StructBinding{c[0]}"
		case "Struct/Last":
			if n == "1" {
				return "StructBinding{c[0]}"
			}
			return "StructBinding{c[last]}"
		case "Struct/All":
			return "error"
		case "Slice/All":
			return "SliceBinding{c}"
		case "Slice/One", "Slice/First":
			if n == "1" {
				return "SliceBinding{c}"
			}
			return "SliceBinding{c[:1]}"
		case "Slice/Last":
			if n == "1" {
				return "SliceBinding{c}"
			}
			return "SliceBinding{c[last:]}"
		}
		return "?"
	}
	got := map[string]map[string]string{} // "opt/n" -> old -> outcome
	warnBad := ""
	for _, cell := range m.Cells {
		k := fmt.Sprintf("%d/%s", cell.Opt, cell.NClass)
		out := cell.Binding
		if cell.Err != "" {
			out = "error"
			if cell.Binding != "" {
				out = "error after setting the binding"
			}
			if cell.Err == "return nil" || cell.Err == "?return" {
				out = "returns without a runtime error (" + cell.Err + ")"
			}
		} else if cell.Binding == "" {
			out = "no binding, no error"
		}
		if got[k] == nil {
			got[k] = map[string]string{}
		}
		old := cell.HadOld
		if prev, dup := got[k][old]; dup && prev != out {
			out = prev + " | " + out
		}
		got[k][old] = out
		if (old == "true") != cell.Warned {
			warnBad = fmt.Sprintf("option byte %#x, %s candidates: binding already there = %q but warned = %v", cell.Opt, cell.NClass, old, cell.Warned)
		}
	}
	sort.Slice(opts, func(i, j int) bool { return opts[i] < opts[j] })
	for _, o := range opts {
		d := docOf[o]
		for _, n := range []string{"0", "1", "many"} {
			k := fmt.Sprintf("%d/%s", o, n)
			w := want(d, n)
			g := got[k]
			ok := len(g) == 2 && g["true"] == w && g["false"] == w
			r.check(ok, rule, fmt.Sprintf("%s/%s/n=%s", strings.ToLower(d.tgt), strings.ToLower(d.sel), n), w, fmt.Sprintf("BIND -> %s with selector %s and %s candidate(s): the arm gives %v (by binding-already-there), documented: %s", strings.ToLower(d.tgt), strings.ToLower(d.sel), n, g, w), pos)
		}
	}
	badUndoc := ""
	for _, o := range undoc {
		for _, n := range []string{"0", "1", "many"} {
			g := got[fmt.Sprintf("%d/%s", o, n)]
			if len(g) != 2 || g["true"] != "error" || g["false"] != "error" {
				badUndoc = fmt.Sprintf("option byte %#x with %s candidate(s) gives %v", o, n, g)
			}
		}
	}
	r.check(badUndoc == "", rule, "undocumented-bytes", fmt.Sprintf("%d other option bytes end in a runtime error", len(undoc)), "an option byte that is no documented target|selector must end in a runtime error: "+badUndoc, pos)
	r.check(warnBad == "", rule, "warn", "a warning exactly when a binding is already there, same outcome otherwise", "a repeated bind must warn and go on: "+warnBad, pos)
	return true, ""
}
