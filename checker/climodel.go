package main

// E-CLI model of cmd/bcl's parseArgs: one iteration of its argument loop is interpreted per class of argument word
// (every documented flag spelling, the value flags with and without "=F", "-h", "--", a cluster of letters, an
// unknown flag, "-", a file name). The word is a constant — string tests on it are decided, flag tables are looked
// up — while the rest of the command line stays symbolic. What the iteration stores into parsedArgs, what it
// appends to the file words, how it rewrites the argument list and how it ends is the outcome for that class.

import (
	"fmt"
	"go/ast"
	"go/constant"
	"go/token"
	"go/types"
	"sort"
	"strings"
)

type argOutcome struct {
	Events   []string
	Vals     map[string]Value
	Ret      []Value
	Word     string
	Sets     map[string]string // parsedArgs field -> value stored
	RestWord bool              // the word itself is appended to the file words
	RestTail bool              // the remaining arguments are appended to the file words
	Result   string            // next, stop, error, help, nil-return, ?
	Spliced  []string          // the words put in place of the current one (cluster expansion)
	Problems []string
}

func (o argOutcome) String() string {
	var ks []string
	for k, v := range o.Sets {
		ks = append(ks, k+"="+v)
	}
	sort.Strings(ks)
	s := fmt.Sprintf("%s sets{%s}", o.Result, strings.Join(ks, ","))
	if o.RestWord {
		s += " file-word"
	}
	if o.RestTail {
		s += " rest-tail"
	}
	if len(o.Spliced) > 0 {
		s += " splice" + fmt.Sprint(o.Spliced)
	}
	if len(o.Problems) > 0 {
		s += " PROBLEMS" + fmt.Sprint(o.Problems)
	}
	return s
}

type cliPay struct {
	vals     map[string]Value // values stored into parsedArgs fields
	events   []string         // calls of interest, in order
	restObj  string           // what the file words are appended to (variable or field)
	sets     map[string]string
	restWord bool
	restTail bool
	spliced  []string
	inLoop   bool
	done     bool
	fields   map[string]Value
	problems []string
}

func (p *cliPay) Clone() Payload {
	q := &cliPay{sets: map[string]string{}, restWord: p.restWord, restTail: p.restTail, inLoop: p.inLoop, done: p.done, fields: map[string]Value{}, vals: map[string]Value{}, restObj: p.restObj}
	for k, v := range p.vals {
		q.vals[k] = v
	}
	q.events = append([]string(nil), p.events...)
	for k, v := range p.sets {
		q.sets[k] = v
	}
	for k, v := range p.fields {
		q.fields[k] = v
	}
	q.spliced = append([]string(nil), p.spliced...)
	q.problems = append([]string(nil), p.problems...)
	return q
}

// cliOpts selects what the command-line interpreter does.
type cliOpts struct {
	word   string           // the argument word of the one loop iteration interpreted (mode "word")
	tail   bool             // skip the argument loop; the file words are `rest`; continue to the end of the function
	rest   []string         // file words (mode tail)
	args   []Value          // argument values of the interpreted function (nil: symbolic)
	fields map[string]Value // values of parsedArgs fields read before they are stored (nil: symbolic)
	zero   bool             // fields not listed are the zero value instead of symbolic
	happy  bool             // every error compared with nil is nil (the path on which all calls succeed)
	calls  map[string]Value // results of opaque calls by callee name (cmd.parseArgs, cmd.run, Execute, …)
}

// argsOutcomes interprets one iteration of parseArgs' argument loop for the word.
func (c *Ctx) argsOutcomes(fd *ast.FuncDecl, word string) (outs []argOutcome, undecided []string) {
	return c.cliInterp(fd, cliOpts{word: word})
}

// argsTail interprets what parseArgs does after its argument loop, for the given file words and flag fields.
func (c *Ctx) argsTail(fd *ast.FuncDecl, rest []string, fields map[string]Value) (outs []argOutcome, undecided []string) {
	return c.cliInterp(fd, cliOpts{tail: true, rest: rest, fields: fields, zero: true})
}

func (c *Ctx) cliInterp(fd *ast.FuncDecl, opts cliOpts) (outs []argOutcome, undecided []string) {
	word := opts.word
	isTag := func(v Value, t string) bool { return v.K == vTag && v.Tag == t }
	strOf := func(v Value) (string, bool) {
		if v.K == vConst && v.C.Kind() == constant.String {
			return constant.StringVal(v.C), true
		}
		return "", false
	}
	cstr := func(s string) Value { return constV(constant.MakeString(s)) }
	cint := func(i int64) Value { return constV(constant.MakeInt64(i)) }
	cbool := func(b bool) Value { return constV(constant.MakeBool(b)) }
	isArgsField := func(t types.Type) bool { return isNamed(t, cmdPath, "parsedArgs") }
	var collected []argOutcome
	record := func(st *State, result string) {
		p := st.P.(*cliPay)
		o := argOutcome{Word: word, Sets: p.sets, RestWord: p.restWord, RestTail: p.restTail, Result: result, Spliced: p.spliced, Problems: p.problems, Events: p.events, Vals: p.vals, Ret: st.Ret}
		collected = append(collected, o)
	}
	retKind := func(st *State) string {
		// (parsedArgs, error): the error decides; a nil error with the help function set is the help exit
		p := st.P.(*cliPay)
		if n := len(st.Ret); n > 0 {
			ev := st.Ret[n-1]
			switch {
			case isTag(ev, "errv"):
				return "error"
			case isTag(ev, "nil"):
				if _, ok := p.sets["help"]; ok {
					return "help"
				}
				return "nil-return"
			}
		}
		return "?"
	}
	var h Hooks
	h.Inline = func(fn *types.Func) bool { return fn.Pkg() != nil && fn.Pkg().Path() == cmdPath }
	h.CallValue = func(in *Interp, st *State, call *ast.CallExpr, fn *types.Func, args []Value) ([]valState, bool) {
		return nil, false
	}
	h.StructLit = func(in *Interp, st *State, e *ast.CompositeLit, names []string, vals []Value) {
		tn := "<" + typeShort(c.typeOf(e)) + ">"
		for i, n := range names {
			if n != "" && i < len(vals) {
				st.P.(*cliPay).fields[tn+"."+n] = vals[i]
			}
		}
	}
	fieldName := func(e ast.Expr) (string, bool) {
		sel, ok := stripParens(e).(*ast.SelectorExpr)
		if !ok {
			return "", false
		}
		o, ok := c.objOf(sel).(*types.Var)
		if !ok || !o.IsField() {
			return "", false
		}
		if t := c.typeOf(sel.X); t != nil && isArgsField(t) {
			return o.Name(), true
		}
		return "", false
	}
	h.Load = func(in *Interp, st *State, e ast.Expr) (Value, bool) {
		p := st.P.(*cliPay)
		switch e := e.(type) {
		case *ast.SelectorExpr:
			if f, ok := fieldName(e); ok {
				if v, ok := p.vals[f]; ok && (opts.tail || opts.fields != nil) {
					return v, true
				}
				if v, ok := opts.fields[f]; ok {
					return v, true
				}
				if opts.zero {
					if o, isVar := c.objOf(e).(*types.Var); isVar {
						switch u := o.Type().Underlying().(type) {
						case *types.Basic:
							return in.zeroOf(u), true
						default:
							return tagV("nil", nil), true
						}
					}
				}
				return tagV("field", f), true
			}
			if o, ok := c.objOf(e).(*types.Var); ok && o.Pkg() != nil && o.Pkg().Path() == "os" {
				return tagV("os", o.Name()), true
			}
			if o, ok := c.objOf(e).(*types.Var); ok && o.IsField() {
				if v, ok := p.fields[c.fieldPath(e)]; ok {
					return v, true
				}
				// the file words kept in a field of a helper struct (never assigned before the loop)
				if opts.tail && isStringSlice(o.Type()) {
					list := Value{K: vList}
					for _, w := range opts.rest {
						list.Tup = append(list.Tup, constV(constant.MakeString(w)))
					}
					return list, true
				}
			}
		case *ast.CompositeLit:
			// a map with constant keys is a known table
			if _, isMap := c.typeOf(e).Underlying().(*types.Map); isMap {
				v := Value{K: vStruct, T: c.typeOf(e), Fields: map[string]Value{}}
				for _, el := range e.Elts {
					kv, ok := el.(*ast.KeyValueExpr)
					if !ok {
						return Value{}, false
					}
					k := c.constOf(kv.Key)
					if k == nil {
						return Value{}, false
					}
					vs := in.eval(st, kv.Value)
					if len(vs) != 1 {
						return Value{}, false
					}
					v.Fields[k.ExactString()] = vs[0].v
				}
				return v, true
			}
		}
		return Value{}, false
	}
	h.Store = func(in *Interp, st *State, lhs ast.Expr, op token.Token, v Value) bool {
		p := st.P.(*cliPay)
		desc := func(v Value) string {
			switch {
			case v.K == vConst:
				return v.C.ExactString()
			case v.K == vFunc:
				return "func"
			case v.K == vTag:
				return v.String()
			}
			return "?"
		}
		switch l := lhs.(type) {
		case *ast.SelectorExpr:
			if f, ok := fieldName(l); ok {
				if p.inLoop || opts.tail {
					p.sets[f] = desc(v)
					p.vals[f] = v
				}
				return true
			}
			if fp := c.fieldPath(l); fp != "" && op == token.ASSIGN {
				p.fields[fp] = v
				return true
			}
		case *ast.StarExpr:
			// *p = v with p the address of a parsedArgs field
			for _, pv := range in.eval(st.clone(), l.X) {
				if isTag(pv.v, "field") && p.inLoop {
					p.sets[pv.v.Data.(string)] = desc(v)
				}
				break
			}
			return true
		}
		return false
	}
	h.Index = func(in *Interp, st *State, e *ast.IndexExpr, x, idx Value) (Value, bool) {
		switch {
		case isTag(x, "args"):
			// the word being looked at (whatever the index: the loop's cursor)
			if x.Data.(string) == "tail" {
				return Value{K: vUnknown}, true
			}
			return cstr(word), true
		case x.K == vStruct && x.Fields != nil:
			// known table
			if idx.K == vConst {
				if v, ok := x.Fields[idx.C.ExactString()]; ok {
					return v, true
				}
				if mt, isMap := x.T.Underlying().(*types.Map); isMap {
					z := in.zeroOf(mt.Elem())
					if z.K == vUnknown {
						z = tagV("nil", nil)
					}
					z.T = nil
					return tagV("miss", nil), true
				}
			}
		case x.K == vConst && x.C.Kind() == constant.String && idx.K == vConst:
			s := constant.StringVal(x.C)
			if i, ok := constant.Int64Val(idx.C); ok && i >= 0 && int(i) < len(s) {
				return cint(int64(s[i])), true
			}
		}
		return Value{}, false
	}
	h.Slice = func(in *Interp, st *State, e *ast.SliceExpr, x Value, lo, hi *Value) (Value, bool) {
		switch {
		case isTag(x, "args"):
			// args[1:] is the tail; args[:1] the head (the current word)
			if lo != nil && hi == nil {
				return tagV("args", "tail"), true
			}
			if lo == nil && hi != nil {
				return tagV("args", "head"), true
			}
			return tagV("args", "all"), true
		case x.K == vConst && x.C.Kind() == constant.String:
			s := constant.StringVal(x.C)
			l, hgh := int64(0), int64(len(s))
			if lo != nil {
				if lo.K != vConst || lo.C.Kind() != constant.Int {
					return Value{}, false
				}
				l, _ = constant.Int64Val(lo.C)
			}
			if hi != nil {
				if hi.K != vConst || hi.C.Kind() != constant.Int {
					return Value{}, false
				}
				hgh, _ = constant.Int64Val(hi.C)
			}
			if l < 0 || hgh > int64(len(s)) || l > hgh {
				st.P.(*cliPay).problems = append(st.P.(*cliPay).problems, fmt.Sprintf("%s: %q[%d:%d] is out of range", c.pos(e.Pos()), s, l, hgh))
				return Value{}, false
			}
			return cstr(s[l:hgh]), true
		}
		return Value{}, false
	}
	h.BinOp = func(l Value, op token.Token, r Value) (Value, bool) {
		if op == token.EQL || op == token.NEQ {
			eq := func(b bool) (Value, bool) { return cbool(b == (op == token.EQL)), true }
			nilLike := func(v Value) bool { return isTag(v, "nil") || isTag(v, "miss") }
			switch {
			case nilLike(l) && nilLike(r):
				return eq(true)
			case nilLike(l) && (isTag(r, "field") || r.K == vFunc || isTag(r, "errv") || isTag(r, "helpfn")), nilLike(r) && (isTag(l, "field") || l.K == vFunc || isTag(l, "errv") || isTag(l, "helpfn")):
				return eq(false)
			}
		}
		return Value{}, false
	}
	h.Decide = func(in *Interp, st *State, cond ast.Expr) tri {
		if !opts.happy {
			return triUnknown
		}
		be, ok := stripParens(cond).(*ast.BinaryExpr)
		if !ok || (be.Op != token.EQL && be.Op != token.NEQ) {
			return triUnknown
		}
		var other ast.Expr
		switch {
		case isNilIdent(be.Y):
			other = be.X
		case isNilIdent(be.X):
			other = be.Y
		default:
			return triUnknown
		}
		if !isErrorType(c.typeOf(other)) {
			return triUnknown
		}
		if be.Op == token.EQL {
			return triTrue
		}
		return triFalse
	}
	h.DecideV = func(in *Interp, st *State, cond ast.Expr, v Value) tri {
		if isTag(v, "ok") {
			// comma-ok of a lookup in a known table: the interpreter names it after the value found
			if strings.HasPrefix(v.Data.(string), "miss(") {
				return triFalse
			}
			return triTrue
		}
		return triUnknown
	}
	h.Call = func(in *Interp, st *State, call *ast.CallExpr, callee types.Object, args []Value) ([]valState, bool) {
		p := st.P.(*cliPay)
		name := ""
		if callee != nil {
			name = qname(callee)
		}
		arg := func(i int) Value {
			if i < len(args) {
				return args[i]
			}
			return unknownV()
		}
		s0, ok0 := strOf(arg(0))
		s1, ok1 := strOf(arg(1))
		switch name {
		case "len":
			if ok0 {
				return one(st, cint(int64(len(s0)))), true
			}
			if a := arg(0); a.K == vList {
				return one(st, cint(int64(len(a.Tup)))), true
			}
			if a := arg(0); isTag(a, "nil") {
				return one(st, cint(0)), true // the nil slice a helper returns for "nothing"
			}
			return one(st, unknownV()), true
		case "strings.HasPrefix":
			if ok0 && ok1 {
				return one(st, cbool(strings.HasPrefix(s0, s1))), true
			}
		case "strings.HasSuffix":
			if ok0 && ok1 {
				return one(st, cbool(strings.HasSuffix(s0, s1))), true
			}
		case "strings.TrimPrefix":
			if ok0 && ok1 {
				return one(st, cstr(strings.TrimPrefix(s0, s1))), true
			}
		case "strings.TrimSuffix":
			if ok0 && ok1 {
				return one(st, cstr(strings.TrimSuffix(s0, s1))), true
			}
		case "strings.CutPrefix":
			if ok0 && ok1 {
				a, b := strings.CutPrefix(s0, s1)
				return one(st, Value{K: vTuple, Tup: []Value{cstr(a), cbool(b)}}), true
			}
		case "strings.Cut":
			if ok0 && ok1 {
				a, b, f := strings.Cut(s0, s1)
				return one(st, Value{K: vTuple, Tup: []Value{cstr(a), cstr(b), cbool(f)}}), true
			}
		case "strings.Contains":
			if ok0 && ok1 {
				return one(st, cbool(strings.Contains(s0, s1))), true
			}
		case "strings.Index":
			if ok0 && ok1 {
				return one(st, cint(int64(strings.Index(s0, s1)))), true
			}
		case "strings.IndexByte":
			if ok0 && arg(1).K == vConst {
				if b, ok := constant.Int64Val(arg(1).C); ok {
					return one(st, cint(int64(strings.IndexByte(s0, byte(b))))), true
				}
			}
		case "make":
			// a fresh slice for the expansion
			if _, isSlice := c.typeOf(call).Underlying().(*types.Slice); isSlice {
				return one(st, Value{K: vList}), true
			}
		case "append":
			if len(args) < 1 {
				break
			}
			base := args[0]
			var more []Value
			if len(args) > 1 {
				if args[1].K == vList && !call.Ellipsis.IsValid() {
					more = args[1].Tup
				} else {
					more = args[1:]
				}
			}
			// rest = append(rest, word) / append(rest, args[1:]...): the file words
			target := ""
			if par, ok := stripParens(call.Args[0]).(*ast.Ident); ok {
				target = par.Name
			}
			_ = target
			hasWord, hasTail := false, false
			for i, m := range more {
				if s, ok := strOf(m); ok && s == word {
					// a word put together from pieces ("-"+letters[i:i+1]) may spell the current word without
					// being it: that is an element of an expansion, not the word kept as a file argument
					if 1+i < len(call.Args) && !call.Ellipsis.IsValid() {
						if be, isB := stripParens(call.Args[1+i]).(*ast.BinaryExpr); isB && be.Op == token.ADD {
							continue
						}
					}
					hasWord = true
				}
				if isTag(m, "args") && m.Data.(string) == "tail" {
					hasTail = true
				}
			}
			switch {
			case isTag(base, "args") && base.Data.(string) == "head":
				// append(args[:1], X...): the argument list is rebuilt with X after the current word
				var words []string
				tail := false
				for _, m := range more {
					switch {
					case m.K == vList:
						for _, w := range m.Tup {
							if s, ok := strOf(w); ok {
								words = append(words, s)
							} else if isTag(w, "args") && w.Data.(string) == "tail" {
								tail = true
							}
						}
					case isTag(m, "spliced"):
						words = append(words, m.Data.([]string)...)
						tail = true
					case isTag(m, "args") && m.Data.(string) == "tail":
						tail = true
					default:
						if s, ok := strOf(m); ok {
							words = append(words, s)
						}
					}
				}
				if !tail {
					p.problems = append(p.problems, c.pos(call.Pos())+": the argument list is rebuilt without the arguments that follow")
				}
				p.spliced = words
				return one(st, tagV("args", "all")), true
			case base.K == vList || (base.K == vUnknown && (p.inLoop || in.depth > 1) && isStringSlice(c.typeOf(call)) && !hasTail && !hasWord && allConstStrings(more)):
				// building a list of words (the expansion)
				nl := Value{K: vList, Tup: append([]Value(nil), base.Tup...)}
				tail := false
				for _, m := range more {
					if isTag(m, "args") && m.Data.(string) == "tail" {
						tail = true
						continue
					}
					nl.Tup = append(nl.Tup, m)
				}
				if tail {
					var words []string
					for _, w := range nl.Tup {
						if s, ok := strOf(w); ok {
							words = append(words, s)
						}
					}
					return one(st, tagV("spliced", words)), true
				}
				return one(st, nl), true
			case hasWord || hasTail:
				if p.inLoop {
					p.restWord = p.restWord || hasWord
					p.restTail = p.restTail || hasTail
				}
				return one(st, unknownV()), true
			case opts.tail && base.K == vList:
				nl := Value{K: vList, Tup: append(append([]Value(nil), base.Tup...), more...)}
				return one(st, nl), true
			}
			return one(st, unknownV()), true
		}
		if sel, ok := stripParens(call.Fun).(*ast.SelectorExpr); ok {
			if f, isField := fieldName(sel); isField {
				p.events = append(p.events, "call:field:"+f)
				return one(st, unknownV()), true
			}
		}
		if v, ok := opts.calls[name]; ok {
			p.events = append(p.events, "call:"+name)
			return one(st, v), true
		}
		switch name {
		case "os.Exit":
			code := "?"
			if a := arg(0); a.K == vConst {
				code = a.C.ExactString()
			}
			p.events = append(p.events, "exit("+code+")")
			collected = append(collected, argOutcome{Word: word, Sets: p.sets, Result: "exit(" + code + ")", Problems: p.problems, Events: p.events, Vals: p.vals})
			return []valState{}, true // the process ends here
		case "fmt.Fprintln", "fmt.Fprintf", "fmt.Fprint":
			if a := arg(0); isTag(a, "os") {
				what := ""
				for _, x := range args[1:] {
					if x.K == vList {
						for _, y := range x.Tup {
							what += " " + y.String()
						}
					} else {
						what += " " + x.String()
					}
				}
				p.events = append(p.events, "print:"+a.Data.(string)+what)
			}
			return one(st, unknownV()), true
		case "fmt.Printf", "fmt.Println", "fmt.Print":
			what := ""
			for _, x := range args {
				if x.K == vList {
					for _, y := range x.Tup {
						what += " " + y.String()
					}
				} else if x.K != vConst {
					what += " " + x.String()
				}
			}
			p.events = append(p.events, "print:Stdout"+what)
			return one(st, unknownV()), true
		case "os.Open":
			p.events = append(p.events, "os.Open("+arg(0).String()+")")
			return one(st, Value{K: vTuple, Tup: []Value{tagV("file", arg(0).String()), tagV("nil", nil)}}), true
		}
		if fn, ok := callee.(*types.Func); ok && (fn.Pkg() == nil || fn.Pkg().Path() != cmdPath) {
			sig := fn.Type().(*types.Signature)
			if res := sig.Results(); res.Len() == 1 && isErrorType(res.At(0).Type()) {
				if strings.HasPrefix(name, "fmt.") || strings.HasPrefix(name, "errors.") {
					return one(st, tagV("errv", "err")), true
				}
			}
		}
		return nil, false
	}
	first := true
	h.Loop = func(in *Interp, st *State, loop ast.Stmt, body func(*State) []*State) ([]*State, bool) {
		p := st.P.(*cliPay)
		if p.inLoop || p.done || !first {
			return nil, false
		}
		// the argument loop: the first loop parseArgs (or what it is split into) enters
		first = false
		if opts.tail {
			// zero iterations; the file words are the given ones
			p.done = true
			list := Value{K: vList}
			for _, w := range opts.rest {
				list.Tup = append(list.Tup, constV(constant.MakeString(w)))
			}
			if fs, ok := loop.(*ast.ForStmt); ok && fs.Init != nil {
				in.exec(st, fs.Init)
			}
			for obj, v := range st.Env {
				if vr, isVar := obj.(*types.Var); isVar && isStringSlice(vr.Type()) && !(v.K == vTag && v.Tag == "args") {
					st.Env[obj] = list // the file words collected by the loop
				}
			}
			for k := range p.fields {
				if strings.HasSuffix(k, ".rest") {
					p.fields[k] = list
				}
			}
			first = true
			return []*State{st}, true
		}
		var init, post ast.Stmt
		if fs, ok := loop.(*ast.ForStmt); ok {
			init, post = fs.Init, fs.Post
		}
		if rs, ok := loop.(*ast.RangeStmt); ok {
			// for _, arg := range args
			if rs.Value != nil {
				in.store(st, rs.Value, token.ASSIGN, constV(constant.MakeString(word)))
			}
			if rs.Key != nil {
				in.store(st, rs.Key, token.ASSIGN, unknownV())
			}
		}
		sts := []*State{st}
		if init != nil {
			sts = in.exec(st, init)
		}
		for _, s := range sts {
			s.P.(*cliPay).inLoop = true
			for _, r := range body(s) {
				switch {
				case r.Term == tReturn:
					record(r, retKind(r))
				case r.Term == tBreak:
					record(r, "stop")
				case r.Term == tGoto:
					record(r, "stop")
				default:
					// the iteration is over; the step of the loop may consume the word
					r.Term = tNone
					if post != nil {
						in.exec(r, post)
					}
					record(r, "next")
				}
			}
		}
		first = true
		return nil, true // what follows the loop is not part of the outcome
	}
	in := newInterp(c, h)
	st := &State{Env: map[types.Object]Value{}, P: &cliPay{sets: map[string]string{}, fields: map[string]Value{}, vals: map[string]Value{}}}
	var fargs []Value
	if fd.Type.Params != nil {
		for _, f := range fd.Type.Params.List {
			for range f.Names {
				if len(fargs) == 0 && !opts.tail && opts.calls == nil && opts.fields == nil {
					fargs = append(fargs, tagV("args", "all"))
				} else if len(fargs) == 0 && opts.tail {
					fargs = append(fargs, tagV("args", "all"))
				} else if len(fargs) < len(opts.args) {
					fargs = append(fargs, opts.args[len(fargs)])
				} else {
					fargs = append(fargs, unknownV())
				}
			}
		}
	}
	res := in.inlineBody(st, fd.Type, fd.Body, fd.Recv, fargs)
	if opts.tail || opts.calls != nil || opts.fields != nil {
		for _, vs := range res {
			p := vs.st.P.(*cliPay)
			rv := vs.v
			var ret []Value
			if rv.K == vTuple {
				ret = rv.Tup
			} else {
				ret = []Value{rv}
			}
			result := "?"
			if n := len(ret); n > 0 {
				switch {
				case isTag(ret[n-1], "errv"):
					result = "error"
				case isTag(ret[n-1], "nil"):
					result = "ok"
				}
			}
			collected = append(collected, argOutcome{Word: word, Sets: p.sets, Result: result, Problems: p.problems, Events: p.events, Vals: p.vals, Ret: ret})
		}
	}
	// merge outcomes that agree
	seen := map[string]bool{}
	for _, o := range collected {
		k := o.String() + strings.Join(o.Events, ",")
		if !seen[k] {
			seen[k] = true
			outs = append(outs, o)
		}
	}
	return outs, in.Undecided
}

func allConstStrings(vs []Value) bool {
	if len(vs) == 0 {
		return false
	}
	for _, v := range vs {
		if !(v.K == vConst && v.C.Kind() == constant.String) {
			return false
		}
	}
	return true
}
