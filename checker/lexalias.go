package main

// The lexer's input window is known to the rules by the field names of the reference tree (lexer.input, start, pos,
// posShift, width). When those fields were renamed or moved into a struct of their own (embedded in the lexer or
// held in a field of it), they are recognised by what they are used for, and paths to them are rendered under the
// reference names.

import (
	"fmt"
	"go/ast"
	"go/constant"
	"go/token"
	"go/types"
	"strings"
)

type lexAliases struct {
	holders map[string]bool
	prefix  map[string]string // "<window>." -> "<lexer>."
	field   map[string]string // "<lexer>.text" -> "<lexer>.input"
}

func (c *Ctx) lexFieldAlias(fp string) string {
	la := c.lexAliasTable()
	if la == nil {
		return fp
	}
	for from, to := range la.prefix {
		if strings.HasPrefix(fp, from) {
			fp = to + strings.TrimPrefix(fp, from)
			break
		}
	}
	for from, to := range la.field {
		if fp == from || strings.HasPrefix(fp, from+".") || strings.HasPrefix(fp, from+"[") {
			fp = to + strings.TrimPrefix(fp, from)
			break
		}
	}
	return fp
}

func (c *Ctx) lexAliasTable() *lexAliases {
	if c.memoTab == nil {
		c.memoTab = map[string]any{}
	}
	if v, ok := c.memoTab["lexAliases"]; ok {
		la, _ := v.(*lexAliases)
		return la
	}
	c.memoTab["lexAliases"] = (*lexAliases)(nil) // while computing (fieldPathRaw is used below)
	lt := namedType(c.Bcl, "lexer")
	if lt == nil {
		return nil
	}
	lst, ok := lt.Underlying().(*types.Struct)
	if !ok {
		return nil
	}
	want := []string{"input", "start", "pos", "posShift", "width"}
	have := map[string]bool{}
	for i := 0; i < lst.NumFields(); i++ {
		have[lst.Field(i).Name()] = true
	}
	all := true
	for _, w := range want {
		if !have[w] {
			all = false
		}
	}
	if all {
		return nil // the reference layout
	}
	la := &lexAliases{prefix: map[string]string{}, field: map[string]string{}, holders: map[string]bool{}}
	// the struct holding the window: the lexer itself, or a module struct that is a field of it
	holders := map[string]*types.Struct{"lexer": lst}
	for i := 0; i < lst.NumFields(); i++ {
		f := lst.Field(i)
		if n, ok := derefType(f.Type()).(*types.Named); ok && n.Obj().Pkg() != nil && n.Obj().Pkg().Path() == bclPath {
			if st, ok := n.Underlying().(*types.Struct); ok {
				holders[n.Obj().Name()] = st
				la.holders[n.Obj().Name()] = true
				la.prefix["<"+n.Obj().Name()+">."] = "<lexer>."
				la.prefix["<lexer>."+f.Name()+"."] = "<lexer>."
			}
		}
	}
	// roles by use, over the methods of those types
	var text, pos, start, width, shift string
	fieldOf := func(e ast.Expr) string {
		sel, ok := stripParens(e).(*ast.SelectorExpr)
		if !ok {
			return ""
		}
		v, ok := c.objOf(sel).(*types.Var)
		if !ok || !v.IsField() {
			return ""
		}
		return v.Name()
	}
	isHolderMethod := func(fd *ast.FuncDecl) bool {
		if fd.Recv == nil || len(fd.Recv.List) != 1 {
			return false
		}
		t := derefType(c.typeOf(fd.Recv.List[0].Type))
		n, ok := t.(*types.Named)
		return ok && holders[n.Obj().Name()] != nil
	}
	var decls []*ast.FuncDecl
	for _, it := range c.sortedDecls() {
		if it.fd.Body != nil && isHolderMethod(it.fd) {
			decls = append(decls, it.fd)
		}
	}
	for _, fd := range decls {
		ast.Inspect(fd.Body, func(n ast.Node) bool {
			switch n := n.(type) {
			case *ast.CallExpr:
				if name := c.calleeName(n); strings.HasPrefix(name, "unicode/utf8.DecodeRune") && len(n.Args) == 1 {
					arg := c.unfoldTrivial(n.Args[0])
					if se, ok := stripParens(arg).(*ast.SliceExpr); ok && se.High == nil && se.Low != nil {
						if f := fieldOf(se.X); f != "" {
							text = f
						}
						if f := fieldOf(se.Low); f != "" {
							pos = f
						}
					}
				}
			case *ast.AssignStmt:
				if len(n.Rhs) == 1 && len(n.Lhs) == 2 {
					if call, ok := n.Rhs[0].(*ast.CallExpr); ok && strings.HasPrefix(c.calleeName(call), "unicode/utf8.DecodeRune") {
						if f := fieldOf(n.Lhs[1]); f != "" {
							width = f
						}
					}
				}
			}
			return true
		})
	}
	if text == "" || pos == "" {
		return nil
	}
	for _, fd := range decls {
		ast.Inspect(fd.Body, func(n ast.Node) bool {
			switch n := n.(type) {
			case *ast.SliceExpr:
				// text[start:pos]
				if fieldOf(n.X) == text && n.Low != nil && n.High != nil && fieldOf(n.High) == pos {
					if f := fieldOf(n.Low); f != "" && f != pos {
						start = f
					}
				}
			case *ast.AssignStmt:
				// width := / w.width = second result through a local
				if width == "" && len(n.Lhs) == 1 && len(n.Rhs) == 1 {
					if f := fieldOf(n.Lhs[0]); f != "" && f != pos && f != text {
						if id, ok := stripParens(n.Rhs[0]).(*ast.Ident); ok {
							if def, k := c.singleDef(fd.Body, c.objOf(id)); k == 1 && def != nil {
								if call, ok := stripParens(def).(*ast.CallExpr); ok && strings.HasPrefix(c.calleeName(call), "unicode/utf8.DecodeRune") {
									width = f
								}
							}
						}
					}
				}
			case *ast.BinaryExpr:
				// pos + shift: the position in the whole input
				if n.Op == token.ADD {
					a, b := fieldOf(c.unfoldTrivial(n.X)), fieldOf(c.unfoldTrivial(n.Y))
					if a == pos && b != "" && b != start && b != width && b != text {
						shift = b
					}
					if b == pos && a != "" && a != start && a != width && a != text {
						shift = a
					}
				}
			}
			return true
		})
	}
	ref := map[string]string{text: "input", pos: "pos", start: "start", width: "width", shift: "posShift"}
	for from, to := range ref {
		if from != "" && from != to {
			la.field["<lexer>."+from] = "<lexer>." + to
		}
	}
	if start == "" || shift == "" {
		return nil // not enough to go by
	}
	c.memoTab["lexAliases"] = la
	c.AliasNotes = append(c.AliasNotes, "lexer window fields recognised by use: "+text+"=input "+pos+"=pos "+start+"=start "+shift+"=posShift "+width+"=width")
	return la
}

// isLexerType: the lexer, or the struct that holds its window.
func (c *Ctx) isLexerType(t types.Type) bool {
	n, ok := derefType(t).(*types.Named)
	if !ok || n.Obj().Pkg() == nil || n.Obj().Pkg().Path() != bclPath {
		return false
	}
	if n.Obj().Name() == "lexer" {
		return true
	}
	la := c.lexAliasTable()
	return la != nil && la.holders[n.Obj().Name()]
}

// lexMethodAliases: methods of the window struct stand for the lexer methods of the same name that are gone.
func (c *Ctx) lexMethodAliases() []string {
	la := c.lexAliasTable()
	if la == nil || len(la.holders) == 0 {
		return nil
	}
	var notes []string
	for _, it := range c.sortedDecls() {
		f, ok := it.obj.(*types.Func)
		if !ok {
			continue
		}
		sig := f.Type().(*types.Signature)
		if sig.Recv() == nil || f.Pkg() == nil || f.Pkg().Path() != bclPath {
			continue
		}
		n, ok := derefType(sig.Recv().Type()).(*types.Named)
		if !ok || !la.holders[n.Obj().Name()] {
			continue
		}
		if _, has := aliasOf[f]; has {
			continue
		}
		if m, _ := c.lookupMethod(c.Bcl, "lexer", f.Name()); m != nil && m != f {
			continue
		}
		aliasOf[f] = "lexer." + f.Name()
		notes = append(notes, n.Obj().Name()+"."+f.Name()+" is taken as lexer."+f.Name()+" (a method of the lexer's window struct)")
	}
	return notes
}

// lexStateScheme: how the lexer's state machine names its states. In the reference tree a state is the function
// itself (type stateFn func(*lexer) stateFn, nil = stop). When states are values of an integer type with a table
// from state to step function, the table gives the same information: a returned constant stands for the function
// the table holds for it, a constant without an entry for "stop".
type lexStateScheme struct {
	sig   *types.Signature       // signature of a state function
	byVal map[string]*types.Func // enum scheme: constant value -> step function
	enum  types.Type             // the state type (nil: function-valued states)
	fns   map[*types.Func]bool   // the step functions, when they are given by a dispatch switch (methods of the lexer, say)
}

// isState: fn is one of the lexer's state (step) functions.
func (s *lexStateScheme) isState(fn *types.Func) bool {
	if s == nil || fn == nil {
		return false
	}
	if s.fns != nil {
		return s.fns[fn]
	}
	sig, ok := fn.Type().(*types.Signature)
	return ok && sig.Recv() == nil && s.sig != nil && types.Identical(sig, s.sig)
}

// stateName: the name a state function is known by: its own, without the lexer as a qualifier when it is a method
// (lexer.lexStart is the state lexStart).
func stateName(fn *types.Func) string {
	return strings.TrimPrefix(funcName(fn), "lexer.")
}

func (c *Ctx) lexStates() *lexStateScheme {
	if c.memoTab == nil {
		c.memoTab = map[string]any{}
	}
	if v, ok := c.memoTab["lexStates"]; ok {
		s, _ := v.(*lexStateScheme)
		return s
	}
	var out *lexStateScheme
	defer func() { c.memoTab["lexStates"] = out }()
	if st := namedType(c.Bcl, "stateFn"); st != nil {
		if sig, ok := st.Underlying().(*types.Signature); ok {
			out = &lexStateScheme{sig: sig}
			return out
		}
	}
	// a package-level table of func(*lexer) T, T a named integer type of the module
	scope := c.Bcl.Types.Scope()
	for _, name := range scope.Names() {
		v, ok := scope.Lookup(name).(*types.Var)
		if !ok {
			continue
		}
		var elem types.Type
		switch u := v.Type().Underlying().(type) {
		case *types.Array:
			elem = u.Elem()
		case *types.Slice:
			elem = u.Elem()
		case *types.Map:
			elem = u.Elem()
		}
		if elem == nil {
			continue
		}
		sig, ok := elem.Underlying().(*types.Signature)
		if !ok || sig.Recv() != nil || sig.Params().Len() != 1 || sig.Results().Len() != 1 || !isNamed(sig.Params().At(0).Type(), bclPath, "lexer") {
			continue
		}
		rt, ok := sig.Results().At(0).Type().(*types.Named)
		if !ok || rt.Obj().Pkg() == nil || rt.Obj().Pkg().Path() != bclPath {
			continue
		}
		if b, ok := rt.Underlying().(*types.Basic); !ok || b.Info()&types.IsInteger == 0 {
			continue
		}
		lit := c.tableLiteral(v)
		if lit == nil {
			continue
		}
		s := &lexStateScheme{sig: sig, byVal: map[string]*types.Func{}, enum: rt}
		okAll := true
		next := int64(0)
		for _, el := range lit.Elts {
			val := el
			if kv, isKV := el.(*ast.KeyValueExpr); isKV {
				k := c.constOf(kv.Key)
				if k == nil {
					okAll = false
					break
				}
				if iv, ok := constant.Int64Val(k); ok {
					next = iv
				}
				val = kv.Value
			}
			fn, _ := c.objOf(stripParens(val)).(*types.Func)
			if fn == nil {
				if id, isID := stripParens(val).(*ast.Ident); !isID || id.Name != "nil" {
					okAll = false
					break
				}
			} else {
				s.byVal[fmt.Sprint(next)] = fn
			}
			next++
		}
		if okAll && len(s.byVal) > 0 {
			out = s
			c.AliasNotes = append(c.AliasNotes, fmt.Sprintf("lexer states are values of %s; the table %s maps them to their step functions", rt.Obj().Name(), name))
			return out
		}
	}
	// a dispatch function: switch state { case stStart: return l.lexStart() … } over a named integer type of the
	// module, every arm returning the call of a step function that is handed nothing but the lexer
	for _, it := range c.sortedDecls() {
		fn, ok := it.obj.(*types.Func)
		if !ok || it.fd.Body == nil || fn.Pkg() == nil || fn.Pkg().Path() != bclPath {
			continue
		}
		sig := fn.Type().(*types.Signature)
		if sig.Params().Len() < 1 || sig.Results().Len() != 1 {
			continue
		}
		rt, ok := sig.Results().At(0).Type().(*types.Named)
		if !ok || rt.Obj().Pkg() == nil || rt.Obj().Pkg().Path() != bclPath {
			continue
		}
		if b, ok := rt.Underlying().(*types.Basic); !ok || b.Info()&types.IsInteger == 0 {
			continue
		}
		var stateParam types.Object
		np := 0
		if it.fd.Type.Params != nil {
			for _, f := range it.fd.Type.Params.List {
				for _, nm := range f.Names {
					if types.Identical(c.typeOf(f.Type), rt) {
						stateParam = c.objOf(nm)
					}
					np++
				}
			}
		}
		if stateParam == nil {
			continue
		}
		var sw *ast.SwitchStmt
		for _, st := range it.fd.Body.List {
			if x, ok := st.(*ast.SwitchStmt); ok && x.Tag != nil && c.isObj(x.Tag, stateParam) {
				sw = x
			}
		}
		if sw == nil {
			continue
		}
		s := &lexStateScheme{byVal: map[string]*types.Func{}, enum: rt, fns: map[*types.Func]bool{}}
		okAll := true
		for _, arm := range c.switchArms(sw) {
			if arm.Default {
				continue
			}
			if len(arm.Body) != 1 {
				okAll = false
				break
			}
			rs, isR := arm.Body[0].(*ast.ReturnStmt)
			if !isR || len(rs.Results) != 1 {
				okAll = false
				break
			}
			call, isC := stripParens(rs.Results[0]).(*ast.CallExpr)
			if !isC {
				okAll = false
				break
			}
			step, _ := c.callee(call).(*types.Func)
			if step == nil || step.Pkg() == nil || step.Pkg().Path() != bclPath {
				okAll = false
				break
			}
			ssig := step.Type().(*types.Signature)
			onLexer := (ssig.Recv() != nil && ssig.Params().Len() == 0 && isNamed(derefType(ssig.Recv().Type()), bclPath, "lexer")) ||
				(ssig.Recv() == nil && ssig.Params().Len() == 1 && isNamed(derefType(ssig.Params().At(0).Type()), bclPath, "lexer"))
			if !onLexer || ssig.Results().Len() != 1 || !types.Identical(ssig.Results().At(0).Type(), rt) {
				okAll = false
				break
			}
			for _, v := range arm.Vals {
				if v == nil {
					okAll = false
					continue
				}
				s.byVal[v.ExactString()] = step
				s.fns[step] = true
			}
		}
		if okAll && len(s.byVal) >= 3 {
			out = s
			c.AliasNotes = append(c.AliasNotes, fmt.Sprintf("lexer states are values of %s; %s dispatches them to their step functions", rt.Obj().Name(), funcName(fn)))
			return out
		}
	}
	return nil
}

// stateOfValue names the state a state function returns: the function's name, "nil" for stop, "?" when unknown.
func (c *Ctx) stateOfValue(v Value) string {
	s := c.lexStates()
	switch {
	case v.K == vFunc && v.FnObj != nil:
		return stateName(v.FnObj)
	case v.K == vTag && v.Tag == "nil":
		return "nil"
	case s != nil && s.enum != nil && v.K == vConst && v.C.Kind() == constant.Int:
		if fn := s.byVal[v.C.ExactString()]; fn != nil {
			return stateName(fn)
		}
		return "nil"
	}
	return "?"
}

// isStopState: e denotes "no next state" (nil, or a state constant the table has no step for).
func (c *Ctx) isStopState(e ast.Expr) bool {
	e = stripParens(e)
	if id, ok := e.(*ast.Ident); ok && id.Name == "nil" {
		return true
	}
	s := c.lexStates()
	if s == nil || s.enum == nil {
		return false
	}
	if t := c.typeOf(e); t == nil || !types.Identical(t, s.enum) {
		return false
	}
	k := c.constOf(e)
	return k != nil && k.Kind() == constant.Int && s.byVal[k.ExactString()] == nil
}

// stateFnOf: the state function e denotes (its name), "" when it denotes none.
func (c *Ctx) stateFnOf(e ast.Expr, sf map[string]*ast.FuncDecl) string {
	e = stripParens(e)
	if id, ok := e.(*ast.Ident); ok {
		if n := c.identFn(id); sf[n] != nil {
			return n
		}
	}
	s := c.lexStates()
	if s == nil || s.enum == nil {
		return ""
	}
	if t := c.typeOf(e); t == nil || !types.Identical(t, s.enum) {
		return ""
	}
	if k := c.constOf(e); k != nil && k.Kind() == constant.Int {
		if fn := s.byVal[k.ExactString()]; fn != nil && sf[stateName(fn)] != nil {
			return stateName(fn)
		}
	}
	return ""
}
