package main

// The lexer's input window is known to the rules by the field names of the reference tree (lexer.input, start, pos,
// posShift, width). When those fields were renamed or moved into a struct of their own (embedded in the lexer or
// held in a field of it), they are recognised by what they are used for, and paths to them are rendered under the
// reference names.

import (
	"go/ast"
	"go/token"
	"go/types"
	"strings"
)

type lexAliases struct {
	holders map[string]bool
	prefix map[string]string // "<window>." -> "<lexer>."
	field  map[string]string // "<lexer>.text" -> "<lexer>.input"
}

func (c *Ctx) lexFieldAlias(fp string) string {
	la := c.lexAliasTable()
	if la == nil {
		return fp
	}
	for from, to := range la.prefix {
		if strings.HasPrefix(fp, from) {
			fp = to + strings.TrimPrefix(fp, from)
			break
		}
	}
	for from, to := range la.field {
		if fp == from || strings.HasPrefix(fp, from+".") || strings.HasPrefix(fp, from+"[") {
			fp = to + strings.TrimPrefix(fp, from)
			break
		}
	}
	return fp
}

func (c *Ctx) lexAliasTable() *lexAliases {
	if c.memoTab == nil {
		c.memoTab = map[string]any{}
	}
	if v, ok := c.memoTab["lexAliases"]; ok {
		la, _ := v.(*lexAliases)
		return la
	}
	c.memoTab["lexAliases"] = (*lexAliases)(nil) // while computing (fieldPathRaw is used below)
	lt := namedType(c.Bcl, "lexer")
	if lt == nil {
		return nil
	}
	lst, ok := lt.Underlying().(*types.Struct)
	if !ok {
		return nil
	}
	want := []string{"input", "start", "pos", "posShift", "width"}
	have := map[string]bool{}
	for i := 0; i < lst.NumFields(); i++ {
		have[lst.Field(i).Name()] = true
	}
	all := true
	for _, w := range want {
		if !have[w] {
			all = false
		}
	}
	if all {
		return nil // the reference layout
	}
	la := &lexAliases{prefix: map[string]string{}, field: map[string]string{}, holders: map[string]bool{}}
	// the struct holding the window: the lexer itself, or a module struct that is a field of it
	holders := map[string]*types.Struct{"lexer": lst}
	for i := 0; i < lst.NumFields(); i++ {
		f := lst.Field(i)
		if n, ok := derefType(f.Type()).(*types.Named); ok && n.Obj().Pkg() != nil && n.Obj().Pkg().Path() == bclPath {
			if st, ok := n.Underlying().(*types.Struct); ok {
				holders[n.Obj().Name()] = st
				la.holders[n.Obj().Name()] = true
				la.prefix["<"+n.Obj().Name()+">."] = "<lexer>."
				la.prefix["<lexer>."+f.Name()+"."] = "<lexer>."
			}
		}
	}
	// roles by use, over the methods of those types
	var text, pos, start, width, shift string
	fieldOf := func(e ast.Expr) string {
		sel, ok := stripParens(e).(*ast.SelectorExpr)
		if !ok {
			return ""
		}
		v, ok := c.objOf(sel).(*types.Var)
		if !ok || !v.IsField() {
			return ""
		}
		return v.Name()
	}
	isHolderMethod := func(fd *ast.FuncDecl) bool {
		if fd.Recv == nil || len(fd.Recv.List) != 1 {
			return false
		}
		t := derefType(c.typeOf(fd.Recv.List[0].Type))
		n, ok := t.(*types.Named)
		return ok && holders[n.Obj().Name()] != nil
	}
	var decls []*ast.FuncDecl
	for _, it := range c.sortedDecls() {
		if it.fd.Body != nil && isHolderMethod(it.fd) {
			decls = append(decls, it.fd)
		}
	}
	for _, fd := range decls {
		ast.Inspect(fd.Body, func(n ast.Node) bool {
			switch n := n.(type) {
			case *ast.CallExpr:
				if name := c.calleeName(n); strings.HasPrefix(name, "unicode/utf8.DecodeRune") && len(n.Args) == 1 {
					arg := c.unfoldTrivial(n.Args[0])
					if se, ok := stripParens(arg).(*ast.SliceExpr); ok && se.High == nil && se.Low != nil {
						if f := fieldOf(se.X); f != "" {
							text = f
						}
						if f := fieldOf(se.Low); f != "" {
							pos = f
						}
					}
				}
			case *ast.AssignStmt:
				if len(n.Rhs) == 1 && len(n.Lhs) == 2 {
					if call, ok := n.Rhs[0].(*ast.CallExpr); ok && strings.HasPrefix(c.calleeName(call), "unicode/utf8.DecodeRune") {
						if f := fieldOf(n.Lhs[1]); f != "" {
							width = f
						}
					}
				}
			}
			return true
		})
	}
	if text == "" || pos == "" {
		return nil
	}
	for _, fd := range decls {
		ast.Inspect(fd.Body, func(n ast.Node) bool {
			switch n := n.(type) {
			case *ast.SliceExpr:
				// text[start:pos]
				if fieldOf(n.X) == text && n.Low != nil && n.High != nil && fieldOf(n.High) == pos {
					if f := fieldOf(n.Low); f != "" && f != pos {
						start = f
					}
				}
			case *ast.AssignStmt:
				// width := / w.width = second result through a local
				if width == "" && len(n.Lhs) == 1 && len(n.Rhs) == 1 {
					if f := fieldOf(n.Lhs[0]); f != "" && f != pos && f != text {
						if id, ok := stripParens(n.Rhs[0]).(*ast.Ident); ok {
							if def, k := c.singleDef(fd.Body, c.objOf(id)); k == 1 && def != nil {
								if call, ok := stripParens(def).(*ast.CallExpr); ok && strings.HasPrefix(c.calleeName(call), "unicode/utf8.DecodeRune") {
									width = f
								}
							}
						}
					}
				}
			case *ast.BinaryExpr:
				// pos + shift: the position in the whole input
				if n.Op == token.ADD {
					a, b := fieldOf(c.unfoldTrivial(n.X)), fieldOf(c.unfoldTrivial(n.Y))
					if a == pos && b != "" && b != start && b != width && b != text {
						shift = b
					}
					if b == pos && a != "" && a != start && a != width && a != text {
						shift = a
					}
				}
			}
			return true
		})
	}
	ref := map[string]string{text: "input", pos: "pos", start: "start", width: "width", shift: "posShift"}
	for from, to := range ref {
		if from != "" && from != to {
			la.field["<lexer>."+from] = "<lexer>." + to
		}
	}
	if start == "" || shift == "" {
		return nil // not enough to go by
	}
	c.memoTab["lexAliases"] = la
	c.AliasNotes = append(c.AliasNotes, "lexer window fields recognised by use: "+text+"=input "+pos+"=pos "+start+"=start "+shift+"=posShift "+width+"=width")
	return la
}

// isLexerType: the lexer, or the struct that holds its window.
func (c *Ctx) isLexerType(t types.Type) bool {
	n, ok := derefType(t).(*types.Named)
	if !ok || n.Obj().Pkg() == nil || n.Obj().Pkg().Path() != bclPath {
		return false
	}
	if n.Obj().Name() == "lexer" {
		return true
	}
	la := c.lexAliasTable()
	return la != nil && la.holders[n.Obj().Name()]
}

// lexMethodAliases: methods of the window struct stand for the lexer methods of the same name that are gone.
func (c *Ctx) lexMethodAliases() []string {
	la := c.lexAliasTable()
	if la == nil || len(la.holders) == 0 {
		return nil
	}
	var notes []string
	for _, it := range c.sortedDecls() {
		f, ok := it.obj.(*types.Func)
		if !ok {
			continue
		}
		sig := f.Type().(*types.Signature)
		if sig.Recv() == nil || f.Pkg() == nil || f.Pkg().Path() != bclPath {
			continue
		}
		n, ok := derefType(sig.Recv().Type()).(*types.Named)
		if !ok || !la.holders[n.Obj().Name()] {
			continue
		}
		if _, has := aliasOf[f]; has {
			continue
		}
		if m, _ := c.lookupMethod(c.Bcl, "lexer", f.Name()); m != nil && m != f {
			continue
		}
		aliasOf[f] = "lexer." + f.Name()
		notes = append(notes, n.Obj().Name()+"."+f.Name()+" is taken as lexer."+f.Name()+" (a method of the lexer's window struct)")
	}
	return notes
}
