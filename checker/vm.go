package main

// E-VM: per-arm analysis of the VM dispatch loop. Each case arm of the
// switch on `opcode` inside the infinite loop of (*vm).run is interpreted
// on every path with the closures (push, pop, peek, readUvarint, ...)
// interpreted in place. Tracked: vm.tos, vm.pc, vm.blockTos as linear forms,
// the ordered operand reads, stack accesses, and selected side effects.

import (
	"fmt"
	"go/ast"
	"go/constant"
	"go/token"
	"go/types"
	"sort"
	"strings"
)

type vmEvent struct {
	Kind   string // rd, const, stk:r, stk:w, slot:r, slot:w, call, if, mapw, append, store, jump, blk:r, blk:w
	Detail string
	Args   []Value  // call arguments (abstract)
	Paths  []string // field paths of the call arguments, "" when not a field chain
	Callee string
	Pos    token.Pos
	Val    Value // value written / argument, when relevant
	Idx    *Lin  // stack index relative to arm entry tos (stk:*), or nil
}

type guardFact struct {
	what  string // "tos" or "blockTos"
	form  *Lin   // value of the counter for which counter < limit is known
	limit int64
}

type vmPay struct {
	tos, pc, blk *Lin
	consumed     *Lin     // bytes of the instruction read so far (opcode and operands); the read cursor is pc0 + consumed
	reads        []string // operand shape so far, e.g. ["B","v","v"]
	need         int64    // stack entries below entry tos that were touched
	needSym      string   // symbolic need (POPN)
	peak         int64
	events       []vmEvent
	guards       []guardFact
	problems     []string
	unguarded    []string         // array writes at a counter without a dominating bound check (C06)
	flags        map[string]Value // constants stored into other fields of the machine on this path (an overflow flag)
	forcedOp     *int64           // the opcode the first byte fetched in this iteration is taken to be
	opFetched    bool
}

func (p *vmPay) Clone() Payload {
	q := *p
	q.reads = append([]string(nil), p.reads...)
	q.events = append([]vmEvent(nil), p.events...)
	q.guards = append([]guardFact(nil), p.guards...)
	q.problems = append([]string(nil), p.problems...)
	q.unguarded = append([]string(nil), p.unguarded...)
	if p.flags != nil {
		q.flags = make(map[string]Value, len(p.flags))
		for k, v := range p.flags {
			q.flags[k] = v
		}
	}
	return &q
}

// counters is the part of the state a loop iteration must not change.
func (p *vmPay) counters() string {
	return fmt.Sprintf("%s|%s|%s|%s|%v", p.tos, p.pc, p.blk, p.cons(), p.reads)
}

func (p *vmPay) cons() *Lin {
	if p.consumed == nil {
		return linConst(0)
	}
	return p.consumed
}

// readAt records an operand read of the given size at position `at`: reads happen at the cursor, with pc in sync.
func (p *vmPay) readAt(c *Ctx, at *Lin, size *Lin, kind string, pos token.Pos) {
	cursor := linSym("pc").add(p.cons())
	if at == nil || !at.equal(cursor) {
		p.problems = append(p.problems, fmt.Sprintf("%s: %s operand read at %v, but the bytes read so far end at %s", c.pos(pos), kind, at, cursor))
	} else if !p.pc.equal(cursor) {
		p.problems = append(p.problems, fmt.Sprintf("%s: %s operand read while pc (%s) was not advanced over the previous read (%s)", c.pos(pos), kind, p.pc, cursor))
	}
	p.reads = append(p.reads, kind)
	p.consumed = p.cons().add(size)
}

func (p *vmPay) effectKey() string {
	pend := p.cons().String()
	var ev []string
	for _, e := range p.events {
		if e.Kind == "stk:r" || e.Kind == "blk:r" || e.Kind == "stat" || e.Kind == "lookup" {
			continue
		}
		ev = append(ev, e.Kind+":"+e.Detail)
	}
	var gs []string
	for _, g := range p.guards {
		gs = append(gs, g.what+g.form.String())
	}
	return fmt.Sprintf("%s|%s|%s|%s|%v|%d|%s|%d|%v|%v|%v|%v", p.tos, p.pc, p.blk, pend, p.reads, p.need, p.needSym, p.peak, ev, gs, p.problems, p.unguarded)
}

// vmPath is the summary of one path through an arm.
type vmPath struct {
	Abort     bool // ends in `return <error>`
	End       bool // ends in `return nil`
	Shape     string
	Delta     *Lin
	Need      int64
	NeedSym   string
	Peak      int64
	BlkDelta  *Lin
	Events    []vmEvent
	Problems  []string
	Unguarded []string
	Trace     []string
	PCJump    string // "+u16#k" / "-u16#k" / ""
}

type vmArm struct {
	Op     string // opcode constant name
	Val    int64
	Clause *ast.CaseClause
	Paths  []vmPath
}

type vmModel struct {
	Func          *ast.FuncDecl
	FuncName      string
	Switch        *ast.SwitchStmt
	Loop          *ast.ForStmt
	Arms          map[string]*vmArm // by opcode name
	Unhandled     []string          // opcode constants without a case
	Default       bool
	Undecided     []string
	Closures      map[string]*ast.FuncLit        // by role (readByte, readOp, readU16, readUvarint, readConst, push, pop, peek, set, blockGet, blockSet), else by variable name
	Roles         map[types.Object]string        // closure variable -> role
	MethodRoles   map[types.Object]string        // helper written as a method of the machine -> role
	InlineMethods map[types.Object]*ast.FuncDecl // methods of the machine interpreted in place
	StackSize     int64
	BlockSize     int64
	Recv          types.Object
}

// findDispatch locates the function holding `for { ... switch <opcode> ... }`.
func (c *Ctx) findDispatch() (*ast.FuncDecl, *ast.ForStmt, *ast.SwitchStmt) {
	var bestFd *ast.FuncDecl
	var bestFor *ast.ForStmt
	var bestSw *ast.SwitchStmt
	for _, f := range c.Bcl.Syntax {
		for _, d := range f.Decls {
			fd, ok := d.(*ast.FuncDecl)
			if !ok || fd.Body == nil {
				continue
			}
			// the instruction loop: an unconditional for directly in the function
			var loop *ast.ForStmt
			for _, s := range fd.Body.List {
				if fs, ok := s.(*ast.ForStmt); ok && fs.Cond == nil && fs.Init == nil && fs.Post == nil {
					loop = fs
				}
			}
			if loop == nil {
				continue
			}
			// the dispatch: the largest switch on an opcode value in the function — in the loop body, or in a
			// function literal the loop calls
			ast.Inspect(fd.Body, func(n ast.Node) bool {
				sw, ok := n.(*ast.SwitchStmt)
				if !ok || sw.Tag == nil || !isNamed(c.typeOf(sw.Tag), bclPath, "opcode") {
					return true
				}
				if bestSw == nil || len(sw.Body.List) > len(bestSw.Body.List) {
					bestFd, bestFor, bestSw = fd, loop, sw
				}
				return true
			})
		}
	}
	if bestFd != nil {
		return bestFd, bestFor, bestSw
	}
	// the dispatch in a function of its own (one instruction per call), the loop in its caller
	var swFd *ast.FuncDecl
	for _, f := range c.Bcl.Syntax {
		for _, d := range f.Decls {
			fd, ok := d.(*ast.FuncDecl)
			if !ok || fd.Body == nil {
				continue
			}
			ast.Inspect(fd.Body, func(n ast.Node) bool {
				sw, ok := n.(*ast.SwitchStmt)
				if !ok || sw.Tag == nil || !isNamed(c.typeOf(sw.Tag), bclPath, "opcode") {
					return true
				}
				if bestSw == nil || len(sw.Body.List) > len(bestSw.Body.List) {
					swFd, bestSw = fd, sw
				}
				return true
			})
		}
	}
	if swFd == nil || len(bestSw.Body.List) < 8 {
		return nil, nil, nil
	}
	stepObj := c.Bcl.TypesInfo.Defs[swFd.Name]
	for _, f := range c.Bcl.Syntax {
		for _, d := range f.Decls {
			fd, ok := d.(*ast.FuncDecl)
			if !ok || fd.Body == nil || fd == swFd {
				continue
			}
			for _, s := range fd.Body.List {
				fs, ok := s.(*ast.ForStmt)
				if !ok || fs.Cond != nil || fs.Init != nil || fs.Post != nil {
					continue
				}
				calls := false
				walkCalls(fs.Body, true, func(call *ast.CallExpr) {
					if stepObj != nil && c.callee(call) == stepObj {
						calls = true
					}
				})
				if calls && bestFd == nil {
					bestFd, bestFor = fd, fs
				}
			}
		}
	}
	if bestFd == nil {
		return nil, nil, nil
	}
	return bestFd, bestFor, bestSw
}

var vmModelCache = map[*Ctx]*vmModel{}

func (c *Ctx) vmModel() (*vmModel, error) {
	if m, ok := vmModelCache[c]; ok {
		return m, nil
	}
	fd, loop, sw := c.findDispatch()
	if fd == nil {
		return nil, fmt.Errorf("VM dispatch loop (an unconditional for containing a switch on an opcode value) not found")
	}
	m := &vmModel{Func: fd, Loop: loop, Switch: sw, Arms: map[string]*vmArm{}, Closures: map[string]*ast.FuncLit{}}
	if obj, ok := c.Bcl.TypesInfo.Defs[fd.Name].(*types.Func); ok {
		m.FuncName = funcName(obj)
	}
	if fd.Recv != nil && len(fd.Recv.List) == 1 && len(fd.Recv.List[0].Names) == 1 {
		m.Recv = c.Bcl.TypesInfo.Defs[fd.Recv.List[0].Names[0]]
	}
	m.StackSize, _ = pkgConstInt(c.Bcl, "stackSize")
	m.BlockSize, _ = pkgConstInt(c.Bcl, "blockStackSize")
	ops := constsOfType(c.Bcl, "opcode")

	in := newInterp(c, vmHooks(c, m))
	// interpret the prologue: closure definitions and captured flags
	st0 := &State{Env: map[types.Object]Value{}, P: &vmPay{tos: linSym("tos"), pc: linSym("pc"), blk: linSym("blockTos")}}
	sts := []*State{st0}
	for _, s := range fd.Body.List {
		if s == ast.Stmt(loop) {
			break
		}
		var next []*State
		for _, st := range sts {
			next = append(next, in.exec(st, s)...)
		}
		sts = next
	}
	if len(sts) != 1 {
		return nil, fmt.Errorf("%s: the prologue of %s forks (%d states); expected straight-line closure definitions", c.pos(fd.Pos()), m.FuncName, len(sts))
	}
	st0 = sts[0]
	m.Roles = map[types.Object]string{}
	for obj, v := range st0.Env {
		if v.K == vFunc && v.Lit != nil {
			if v.Lit.Pos() <= sw.Pos() && sw.End() <= v.Lit.End() {
				// the function literal holding the dispatch itself: no helper
				m.Roles[obj] = obj.Name()
				c.litNames[v.Lit] = obj.Name()
				continue
			}
			role := classifyClosure(c, in, st0, v.Lit)
			if role == "" {
				role = obj.Name()
			}
			m.Roles[obj] = role
			m.Closures[role] = v.Lit
			// functions are reported under their role, whatever the variable is called
			c.litNames[v.Lit] = role
		}
	}
	// every other method of the machine is interpreted in place as well (an arm split into steps),
	// except the two reporters, whose calls are events the rules look at
	m.InlineMethods = map[types.Object]*ast.FuncDecl{}
	for _, it := range c.sortedDecls() {
		fn, ok := it.obj.(*types.Func)
		if !ok || it.fd == fd || it.fd.Body == nil || it.fd.Recv == nil {
			continue
		}
		sig := fn.Type().(*types.Signature)
		if sig.Recv() == nil || !(types.Identical(sig.Recv().Type(), c.typeOfRecv(fd)) || c.isVMHolder(sig.Recv().Type())) {
			continue
		}
		switch funcName(fn) {
		case "vm.runtimeError", "vm.warning":
			continue
		}
		m.InlineMethods[fn] = it.fd
	}
	// plain functions that do not exist in the reference tree and are called from the machine's code: a step of
	// an arm moved into a function of its own (a classifier of the operands, a selection helper); interpreted in
	// place as well, so that what they decide is seen where it is used
	for changed := true; changed; {
		changed = false
		bodies := []ast.Node{fd.Body}
		for _, md := range m.InlineMethods {
			bodies = append(bodies, md.Body)
		}
		for _, b := range bodies {
			walkCalls(b, true, func(call *ast.CallExpr) {
				fn, ok := c.callee(call).(*types.Func)
				if !ok || fn.Pkg() == nil || fn.Pkg().Path() != bclPath {
					return
				}
				if _, has := m.InlineMethods[fn]; has || c.isReferenceFunc(fn) {
					return
				}
				sig := fn.Type().(*types.Signature)
				hd := c.funcDecls[fn]
				if sig.Recv() != nil || hd == nil || hd.Body == nil || hd == fd {
					return
				}
				m.InlineMethods[fn] = hd
				changed = true
			})
		}
	}
	// helpers written as methods of the machine instead of closures: classified the same way, interpreted in place
	m.MethodRoles = map[types.Object]string{}
	for _, it := range c.sortedDecls() {
		fn, ok := it.obj.(*types.Func)
		if !ok || it.fd == fd || it.fd.Body == nil || it.fd.Recv == nil {
			continue
		}
		sig := fn.Type().(*types.Signature)
		if sig.Recv() == nil || !(types.Identical(sig.Recv().Type(), c.typeOfRecv(fd)) || c.isVMHolder(sig.Recv().Type())) {
			continue
		}
		if it.fd.Body.Pos() <= sw.Pos() && sw.End() <= it.fd.Body.End() {
			continue // the method holding the dispatch itself: no helper
		}
		lit := &ast.FuncLit{Type: it.fd.Type, Body: it.fd.Body}
		role := classifyClosure(c, in, st0, lit)
		if role == "" {
			continue
		}
		if _, taken := m.Closures[role]; taken {
			continue
		}
		m.MethodRoles[fn] = role
		m.Closures[role] = lit
		aliasOf[fn] = typeShort(sig.Recv().Type()) + "." + fd.Name.Name + "$" + role
	}
	in.Undecided = nil // classification probes are not part of the verdict
	// statements of the loop body before and after the switch
	var pre, post []ast.Stmt
	seen := false
	for _, s := range loop.Body.List {
		switch {
		case s == ast.Stmt(sw):
			seen = true
		case !seen:
			pre = append(pre, s)
		default:
			post = append(post, s)
		}
	}
	// the tag variable (switch instr := readOp(); instr)
	var tagObj types.Object
	if id, ok := stripParens(sw.Tag).(*ast.Ident); ok {
		tagObj = c.objOf(id)
	}
	handled := map[int64]bool{}
	for _, cl := range sw.Body.List {
		cc := cl.(*ast.CaseClause)
		if cc.List == nil {
			m.Default = true
		}
		for _, e := range cc.List {
			if v, ok := c.intConst(e); ok {
				handled[v] = true
			}
		}
	}
	direct := false
	for _, s := range loop.Body.List {
		if s == ast.Stmt(sw) {
			direct = true
		}
	}
	for _, op := range ops {
		if !handled[op.Val] {
			m.Unhandled = append(m.Unhandled, op.Name)
			continue
		}
		arm := &vmArm{Op: op.Name, Val: op.Val}
		for _, cl := range sw.Body.List {
			cc := cl.(*ast.CaseClause)
			for _, e := range cc.List {
				if v, ok := c.intConst(e); ok && v == op.Val {
					arm.Clause = cc
				}
			}
		}
		st := st0.clone()
		var ends []*State
		if !direct {
			// the dispatch is not a statement of the loop (it sits in a function the loop calls): one whole
			// iteration is interpreted with the opcode fetched at its start taken to be this one
			val := op.Val
			st.P.(*vmPay).forcedOp = &val
			ends = in.execBlock([]*State{st}, loop.Body.List)
			for _, e := range ends {
				if ep := e.P.(*vmPay); !ep.opFetched {
					ep.problems = append(ep.problems, "the iteration does not start by fetching one opcode byte")
				}
			}
		}
		var sts []*State
		if direct {
			sts = in.execBlock([]*State{st}, pre)
		}
		var afterInit []*State
		for _, st := range sts {
			if st.Term != tNone {
				continue
			}
			if sw.Init != nil {
				afterInit = append(afterInit, in.exec(st, sw.Init)...)
			} else {
				afterInit = append(afterInit, st)
			}
		}
		for _, st := range afterInit {
			p := st.P.(*vmPay)
			// the opcode byte itself is the first read
			if len(p.reads) != 1 || p.reads[0] != "B" {
				p.problems = append(p.problems, fmt.Sprintf("the dispatch reads %v before the arm instead of exactly one opcode byte", p.reads))
			}
			p.reads = nil
			tag := constV(constant.MakeInt64(op.Val))
			if tagObj != nil {
				st.Env[tagObj] = tag
			}
			res := in.switchArms(st, sw, &tag)
			for _, r := range res {
				if r.Term == tBreak && r.Label == "" {
					r.Term = tNone
				}
			}
			ends = append(ends, in.execBlock(res, post)...)
		}
		seenKey := map[string]bool{}
		for _, e := range ends {
			p := e.P.(*vmPay)
			vp := vmPath{Shape: strings.Join(p.reads, ""), Delta: p.tos.sub(linSym("tos")), Need: p.need, NeedSym: p.needSym, Peak: p.peak,
				BlkDelta: p.blk.sub(linSym("blockTos")), Events: p.events, Problems: p.problems, Unguarded: p.unguarded, Trace: e.Trace}
			// where does pc end up, relative to the end of the instruction just read?
			disp := p.pc.sub(linSym("pc").add(p.cons()))
			jumpSyms := 0
			okDisp := disp.C == 0
			for s, co := range disp.T {
				if strings.HasPrefix(s, "u16#") && (co == 1 || co == -1) {
					jumpSyms++
				} else {
					okDisp = false
				}
			}
			if !okDisp || jumpSyms > 1 {
				vp.Problems = append(vp.Problems, fmt.Sprintf("after the instruction pc is at (end of the instruction) %s: it must be the end of the instruction, or that plus/minus the 16-bit operand", signed(disp)))
			} else if jumpSyms == 1 {
				vp.PCJump = signed(disp)
			}
			switch e.Term {
			case tReturn:
				if len(e.Ret) == 1 && e.Ret[0].K == vTag && e.Ret[0].Tag == "nil" {
					vp.End = true
				} else {
					vp.Abort = true
				}
			case tNone, tContinue:
			default:
				vp.Problems = append(vp.Problems, "arm ends with an unexpected branch statement")
			}
			key := fmt.Sprintf("%v|%v|%s", vp.Abort, vp.End, p.effectKey())
			if seenKey[key] {
				continue
			}
			seenKey[key] = true
			arm.Paths = append(arm.Paths, vp)
		}
		m.Arms[op.Name] = arm
	}
	m.Undecided = in.Undecided
	vmModelCache[c] = m
	return m, nil
}

func vmHooks(c *Ctx, m *vmModel) Hooks {
	isVMField := func(e ast.Expr, field string) bool {
		return c.fieldPath(e) == "<vm>."+field
	}
	pay := func(st *State) *vmPay { return st.P.(*vmPay) }
	relIdx := func(l *Lin) (int64, bool) {
		d := l.sub(linSym("tos"))
		return d.isConst()
	}
	stackAccess := func(in *Interp, st *State, e ast.Expr, idx Value, write bool, v Value) Value {
		p := pay(st)
		kind := "stk:r"
		if write {
			kind = "stk:w"
		}
		l, ok := idx.asLin()
		if !ok {
			// vm.stack[slot] with slot an operand
			if idx.K == vTag && idx.Tag == "operand" {
				k := "slot:r"
				if write {
					k = "slot:w"
				}
				p.events = append(p.events, vmEvent{Kind: k, Detail: fmt.Sprint(idx.Data), Pos: e.Pos(), Val: v})
				return tagV("slotval", idx.Data)
			}
			p.problems = append(p.problems, c.pos(e.Pos())+": stack index is neither tos-relative nor an instruction operand")
			return unknownV()
		}
		if l.coef("tos") == 0 {
			// operand-valued index inside a linear form
			k := "slot:r"
			if write {
				k = "slot:w"
			}
			p.events = append(p.events, vmEvent{Kind: k, Detail: l.String(), Pos: e.Pos(), Val: v})
			return tagV("slotval", l.String())
		}
		j, isC := relIdx(l)
		if !isC {
			p.problems = append(p.problems, c.pos(e.Pos())+": stack index "+l.String()+" is not tos+constant")
			return unknownV()
		}
		p.events = append(p.events, vmEvent{Kind: kind, Detail: fmt.Sprintf("tos%+d", j), Pos: e.Pos(), Val: v, Idx: linConst(j)})
		if j < 0 && -j > p.need {
			p.need = -j
		}
		if j >= 0 {
			// needs head-room: a dominating comparison of the counter with the limit
			ok := false
			for _, g := range p.guards {
				if g.what == "tos" && g.form.equal(l) {
					ok = true
				}
			}
			if !ok {
				p.unguarded = append(p.unguarded, fmt.Sprintf("%s: vm.stack[%s] is accessed without a dominating check of that index against stackSize", c.pos(e.Pos()), l))
			}
		}
		return tagV("stk", j)
	}
	var h Hooks
	h.BinOp = vmCmpBinOp
	h.SameEffect = func(a, b *State) bool { return pay(a).effectKey() == pay(b).effectKey() }
	h.LoopNeutral = func(a, b *State) bool { return pay(a).counters() == pay(b).counters() }
	h.Load = func(in *Interp, st *State, e ast.Expr) (Value, bool) {
		p := pay(st)
		// a single-value type assertion on a run-time value: recorded, so that the rules can ask what the path
		// knew about that value when it asserted
		if ta, ok := e.(*ast.TypeAssertExpr); ok && ta.Type != nil {
			if _, isTuple := c.typeOf(ta).(*types.Tuple); !isTuple {
				if vs := in.eval(st, ta.X); len(vs) == 1 && vs[0].st == st {
					v := vs[0].v
					p.events = append(p.events, vmEvent{Kind: "assert", Detail: types.TypeString(c.typeOf(ta.Type), nil) + " " + v.String(), Pos: ta.Pos()})
					v.T = c.typeOf(ta)
					return v, true
				}
			}
			return Value{}, false
		}
		switch {
		case isVMField(e, "tos"):
			return linV(p.tos), true
		case isVMField(e, "pc"):
			return linV(p.pc), true
		case isVMField(e, "blockTos"):
			return linV(p.blk), true
		}
		if len(p.flags) > 0 {
			if sel, ok := e.(*ast.SelectorExpr); ok {
				if v, ok := p.flags[c.fieldPath(sel)]; ok {
					return v, true
				}
			}
		}
		return Value{}, false
	}
	h.Index = func(in *Interp, st *State, e *ast.IndexExpr, x, idx Value) (Value, bool) {
		p := pay(st)
		switch c.fieldPath(e.X) {
		case "<vm>.stack":
			return stackAccess(in, st, e, idx, false, Value{}), true
		case "<vm>.prog.code":
			l, _ := idx.asLin()
			p.readAt(c, l, linConst(1), "B", e.Pos())
			if p.forcedOp != nil && !p.opFetched {
				// the opcode byte: not part of the operand shape
				p.opFetched = true
				p.reads = nil
				return constV(constant.MakeInt64(*p.forcedOp)), true
			}
			return tagV("operand", in.freshSym("byte")), true
		case "<vm>.prog.constants":
			d := fmt.Sprint(idx)
			if idx.K != vTag && idx.K != vLin {
				p.problems = append(p.problems, c.pos(e.Pos())+": constant pool index is not an instruction operand")
			}
			p.events = append(p.events, vmEvent{Kind: "const", Detail: d, Pos: e.Pos()})
			return tagV("constant", d), true
		default:
			if sel, isF := c.isBlockFields(e.X); isF {
				base := "?"
				for _, bv := range in.eval(st, sel.X) {
					base = bv.v.String()
					break
				}
				p.events = append(p.events, vmEvent{Kind: "lookup", Detail: "Fields of " + base + "[" + idx.String() + "]", Pos: e.Pos()})
				return tagV("lookup", "Fields of "+base+"["+idx.String()+"]"), true
			}
			return Value{}, false
		case "<vm>.blockStack":
			l, ok := idx.asLin()
			if !ok {
				p.events = append(p.events, vmEvent{Kind: "blk:r", Detail: "?", Pos: e.Pos()})
				return unknownV(), true
			}
			d := l.sub(linSym("blockTos"))
			p.events = append(p.events, vmEvent{Kind: "blk:r", Detail: "blockTos" + signed(d), Pos: e.Pos()})
			return tagV("blk", d.String()), true
		}
		return Value{}, false
	}
	h.Store = func(in *Interp, st *State, lhs ast.Expr, op token.Token, v Value) bool {
		p := pay(st)
		counter := func(cur **Lin, name string) bool {
			var nv Value
			if op == token.ASSIGN {
				nv = v
			} else {
				nv = in.arith(linV(*cur), opOfAssign(op), v)
			}
			l, ok := nv.asLin()
			if !ok {
				p.problems = append(p.problems, c.pos(lhs.Pos())+": vm."+name+" is assigned a value that is not linear in the tracked state")
				return true
			}
			if name == "pc" {
				// stepping over what was just read brings pc to the cursor; anything else is a jump, judged at the end of the path
				cursor := linSym("pc").add(p.cons())
				if !l.equal(cursor) {
					p.events = append(p.events, vmEvent{Kind: "jump", Detail: signed(l.sub(cursor)), Pos: lhs.Pos()})
				}
			}
			if name == "tos" {
				d := l.sub(linSym("tos"))
				if k, isC := d.isConst(); isC {
					if -k > p.need {
						p.need = -k
					}
					if k > p.peak {
						p.peak = k
					}
				} else {
					// tos -= operand
					syms := []string{}
					for s, co := range d.T {
						if co != -1 {
							p.problems = append(p.problems, c.pos(lhs.Pos())+": tos changed by a non-unit multiple of an operand")
						}
						syms = append(syms, s)
					}
					sort.Strings(syms)
					p.needSym = strings.Join(syms, "+")
				}
			}
			*cur = l
			return true
		}
		switch {
		case isVMField(lhs, "tos"):
			return counter(&p.tos, "tos")
		case isVMField(lhs, "pc"):
			return counter(&p.pc, "pc")
		case isVMField(lhs, "blockTos"):
			return counter(&p.blk, "blockTos")
		}
		if ix, ok := lhs.(*ast.IndexExpr); ok {
			switch c.fieldPath(ix.X) {
			case "<vm>.stack":
				for _, iv := range in.eval(st, ix.Index) {
					stackAccess(in, iv.st, ix, iv.v, true, v)
					break
				}
				return true
			case "<vm>.blockStack":
				for _, iv := range in.eval(st, ix.Index) {
					l, ok := iv.v.asLin()
					if !ok {
						p.problems = append(p.problems, c.pos(lhs.Pos())+": blockStack index not linear")
						break
					}
					d := l.sub(linSym("blockTos"))
					p.events = append(p.events, vmEvent{Kind: "blk:w", Detail: "blockTos" + signed(d), Pos: lhs.Pos(), Val: v})
					if k, isC := d.isConst(); !isC || k >= 0 {
						okg := false
						for _, g := range p.guards {
							if g.what == "blockTos" && g.form.equal(l) {
								okg = true
							}
						}
						if !okg {
							p.unguarded = append(p.unguarded, fmt.Sprintf("%s: vm.blockStack[%s] is written without a dominating check of that index against blockStackSize", c.pos(lhs.Pos()), l))
						}
					}
					break
				}
				return true
			}
			// map update on Fields
			if sel, isF := c.isBlockFields(ix.X); isF {
				base := ""
				var bases []string
				for _, bv := range in.eval(st, sel.X) {
					// a helper that picks the block may return different blocks on different paths: all of them
					// are what may be written
					b := bv.v.String()
					dup := false
					for _, x := range bases {
						dup = dup || x == b
					}
					if !dup {
						bases = append(bases, b)
					}
				}
				if len(bases) == 1 {
					base = bases[0]
				} else if len(bases) > 1 {
					base = "one of " + strings.Join(bases, " | ")
				}
				key := "?"
				for _, kv := range in.eval(st, ix.Index) {
					key = kv.v.String()
					break
				}
				p.events = append(p.events, vmEvent{Kind: "mapw", Detail: "Fields of " + base, Pos: lhs.Pos(), Val: v, Callee: key})
				return true
			}
		}
		if fp := c.fieldPath(lhs); strings.HasPrefix(fp, "<vm>.stats.") {
			p.events = append(p.events, vmEvent{Kind: "stat", Detail: strings.TrimPrefix(fp, "<vm>.stats."), Pos: lhs.Pos()})
			return true
		}
		if fp := c.fieldPath(lhs); strings.HasPrefix(fp, "<vm>.") && !strings.HasPrefix(fp, "<vm>.stats") {
			p.events = append(p.events, vmEvent{Kind: "store", Detail: strings.TrimPrefix(fp, "<vm>."), Pos: lhs.Pos(), Val: v})
			// a constant stored into a plain field is what a later read of it on this path gives
			if p.flags == nil {
				p.flags = map[string]Value{}
			}
			if op == token.ASSIGN && v.K == vConst {
				p.flags[fp] = v
			} else {
				delete(p.flags, fp)
			}
			return true
		}
		return false
	}
	h.Decision = func(in *Interp, st *State, cond ast.Expr, v Value, branch bool) {
		d := v.String()
		if v.K != vTag {
			// comparisons and other conditions: describe the operands abstractly
			if be, ok := stripParens(cond).(*ast.BinaryExpr); ok {
				var parts []string
				for _, e := range []ast.Expr{be.X, be.Y} {
					s := "?"
					for _, vs := range in.eval(st.clone(), e) {
						s = vs.v.String()
						break
					}
					parts = append(parts, s)
				}
				d = parts[0] + " " + be.Op.String() + " " + parts[1]
			}
		}
		p := pay(st)
		p.events = append(p.events, vmEvent{Kind: "if", Detail: fmt.Sprintf("%s=%v", d, branch), Pos: cond.Pos()})
	}
	// a type switch on a run-time value says the same as the type predicates: `case int` is isInt(v), `case nil`
	// is v == nil
	h.TypeCase = func(in *Interp, st *State, sw *ast.TypeSwitchStmt, cc *ast.CaseClause, x Value, ts []types.Type) (Value, bool) {
		if cc == nil || len(cc.List) != 1 {
			return x, true
		}
		d := ""
		if isNilIdent(cc.List[0]) {
			d = x.String() + " == nil(<nil>)"
		} else if len(ts) == 1 && ts[0] != nil {
			switch types.TypeString(ts[0], nil) {
			case "int":
				d = "callres(isInt(" + x.String() + "))"
			case "float64":
				d = "callres(isFloat(" + x.String() + "))"
			case "string":
				d = "callres(isString(" + x.String() + "))"
			case "bool":
				d = "callres(isBool(" + x.String() + "))"
			}
		}
		if d != "" {
			p := pay(st)
			p.events = append(p.events, vmEvent{Kind: "if", Detail: d + "=true", Pos: cc.Pos()})
		}
		return x, true
	}
	h.Assume = func(in *Interp, st *State, cond ast.Expr, branch bool) bool {
		// a test spelled as a one-line predicate (full(), !full()) is the comparison it returns
		cond = stripParens(cond)
		for k := 0; k < 3; k++ {
			if ue, isU := cond.(*ast.UnaryExpr); isU && ue.Op == token.NOT {
				cond, branch = stripParens(ue.X), !branch
				continue
			}
			if nc := c.unfoldTrivial(cond); nc != cond {
				cond = stripParens(nc)
				continue
			}
			break
		}
		be, ok := cond.(*ast.BinaryExpr)
		if !ok {
			return true
		}
		p := pay(st)
		for _, side := range [][2]ast.Expr{{be.X, be.Y}, {be.Y, be.X}} {
			var what string
			var cur *Lin
			switch {
			case isVMField(side[0], "tos"):
				what, cur = "tos", p.tos
			case isVMField(side[0], "blockTos"):
				what, cur = "blockTos", p.blk
			default:
				continue
			}
			lim, ok := c.intConst(side[1])
			if !ok {
				continue
			}
			want := m.StackSize
			if what == "blockTos" {
				want = m.BlockSize
			}
			flipped := side[0] == be.Y
			below := false
			switch be.Op {
			case token.EQL:
				below = !branch && lim == want // counter never exceeds the limit (it grows by one), so != limit means < limit
			case token.NEQ:
				below = branch && lim == want
			case token.LSS:
				below = (branch && !flipped && lim <= want)
			case token.GEQ:
				below = (!branch && !flipped && lim <= want)
			case token.GTR:
				below = (branch && flipped && lim <= want)
			case token.LEQ:
				below = (!branch && flipped && lim <= want)
			}
			if below {
				p.guards = append(p.guards, guardFact{what: what, form: cur, limit: lim})
			}
		}
		return true
	}
	h.Call = func(in *Interp, st *State, call *ast.CallExpr, callee types.Object, args []Value) ([]valState, bool) {
		p := pay(st)
		name := qname(callee)
		codeSlice := func(arg ast.Expr) (*ast.SliceExpr, bool) {
			se, ok := stripParens(arg).(*ast.SliceExpr)
			if !ok || c.fieldPath(se.X) != "<vm>.prog.code" {
				return nil, false
			}
			return se, true
		}
		evalLin := func(e ast.Expr) (*Lin, bool) {
			if e == nil {
				return nil, false
			}
			for _, vs := range in.eval(st, e) {
				return vs.v.asLin()
			}
			return nil, false
		}
		switch name {
		case "u16FromBytes":
			se, ok := codeSlice(call.Args[0])
			if !ok {
				return nil, false
			}
			lo, _ := evalLin(se.Low)
			hi, ok2 := evalLin(se.High)
			if se.High != nil && lo != nil && (!ok2 || !hi.sub(lo).equal(linConst(2))) {
				p.problems = append(p.problems, c.pos(call.Pos())+": u16 operand read from a window that is not 2 bytes")
			}
			p.readAt(c, lo, linConst(2), "H", call.Pos())
			return one(st, linV(linSym(in.freshSym("u16")))), true
		case "uvarintFromBytes":
			se, ok := codeSlice(call.Args[0])
			if !ok {
				return nil, false
			}
			lo, _ := evalLin(se.Low)
			if se.High != nil {
				p.problems = append(p.problems, c.pos(call.Pos())+": uvarint operand read from a bounded window")
			}
			n := linSym(in.freshSym("n"))
			p.readAt(c, lo, n, "v", call.Pos())
			x := linV(linSym(in.freshSym("uv")))
			return one(st, Value{K: vTuple, Tup: []Value{x, linV(n)}}), true
		}
		if callee != nil {
			if _, isMethod := m.InlineMethods[callee]; isMethod {
				return nil, false // interpreted in place (Inline)
			}
			if _, isBuiltin := callee.(*types.Builtin); isBuiltin {
				if name == "append" && len(call.Args) > 0 {
					if fp := c.fieldPath(call.Args[0]); strings.HasPrefix(fp, "<vm>.") {
						var v Value
						if len(args) > 1 {
							v = args[1]
						}
						p.events = append(p.events, vmEvent{Kind: "append", Detail: strings.TrimPrefix(fp, "<vm>."), Pos: call.Pos(), Val: v})
					}
				}
				return nil, false
			}
			// calls into named functions are recorded; the result is an opaque value named after the call
			var as, paths []string
			for _, a := range args {
				as = append(as, a.String())
			}
			for _, a := range call.Args {
				paths = append(paths, c.fieldPath(a))
			}
			if sel, ok := stripParens(call.Fun).(*ast.SelectorExpr); ok {
				if id, ok := stripParens(sel.X).(*ast.Ident); ok {
					if rv, ok := st.Env[c.objOf(id)]; ok {
						as = append([]string{"recv=" + rv.String()}, as...)
					}
				}
			}
			detail := name + "(" + strings.Join(as, ", ") + ")"
			p.events = append(p.events, vmEvent{Kind: "call", Detail: detail, Pos: call.Pos(), Args: args, Paths: paths, Callee: name})
			res := tagV("callres", detail)
			res.T = c.typeOf(call)
			return one(st, res), true
		}
		return nil, false
	}
	h.Inline = func(fn *types.Func) bool {
		_, ok := m.InlineMethods[fn]
		return ok
	}
	// comparisons with nil of values whose nil-ness is known: the nil literal itself, and freshly made errors
	h.Decide = func(in *Interp, st *State, cond ast.Expr) tri {
		be, ok := stripParens(cond).(*ast.BinaryExpr)
		if !ok || (be.Op != token.EQL && be.Op != token.NEQ) {
			return triUnknown
		}
		var other ast.Expr
		switch {
		case isNilIdent(be.Y):
			other = be.X
		case isNilIdent(be.X):
			other = be.Y
		default:
			return triUnknown
		}
		for _, vs := range in.eval(st.clone(), other) {
			isNil, known := false, false
			switch {
			case vs.v.K == vTag && vs.v.Tag == "nil":
				isNil, known = true, true
			case vs.v.K == vTag && vs.v.Tag == "callres":
				if d, ok := vs.v.Data.(string); ok {
					for _, mk := range []string{"vm.runtimeError(", "fmt.Errorf(", "errors.New("} {
						if strings.HasPrefix(d, mk) {
							isNil, known = false, true
						}
					}
				}
			}
			if !known {
				return triUnknown
			}
			if isNil == (be.Op == token.EQL) {
				return triTrue
			}
			return triFalse
		}
		return triUnknown
	}
	return h
}

// typeOfRecv: the receiver type of a method declaration.
func (c *Ctx) typeOfRecv(fd *ast.FuncDecl) types.Type {
	if fd.Recv == nil || len(fd.Recv.List) != 1 {
		return types.Typ[types.Invalid]
	}
	return c.typeOf(fd.Recv.List[0].Type)
}

func signed(l *Lin) string {
	s := l.String()
	if strings.HasPrefix(s, "-") {
		return s
	}
	return "+" + s
}

// armSummary aggregates the non-abort paths of an arm.
type armSummary struct {
	Shape   string
	Delta   string // "+1", "-1", "0", "-n"
	Need    int64
	NeedSym bool
	Peak    int64
	OK      bool
	Why     string
	Normal  int
	Aborts  int
	Ends    int
}

func (a *vmArm) summary() armSummary {
	var s armSummary
	first := true
	for _, p := range a.Paths {
		if len(p.Problems) > 0 {
			s.Why = strings.Join(p.Problems, "; ")
			return s
		}
		if p.Abort {
			s.Aborts++
			continue
		}
		if p.End {
			s.Ends++
		} else {
			s.Normal++
		}
		delta := p.Delta.String()
		if _, isC := p.Delta.isConst(); !isC {
			delta = "-n"
		}
		if first {
			s.Shape, s.Delta = p.Shape, delta
			first = false
		} else if s.Shape != p.Shape || s.Delta != delta {
			s.Why = fmt.Sprintf("paths of the arm disagree: shape %q/Δ%s versus shape %q/Δ%s", s.Shape, s.Delta, p.Shape, delta)
			return s
		}
		if p.Need > s.Need {
			s.Need = p.Need
		}
		if p.NeedSym != "" {
			s.NeedSym = true
		}
		if p.Peak > s.Peak {
			s.Peak = p.Peak
		}
	}
	if first {
		s.Why = "the arm has no path that continues execution"
		return s
	}
	s.OK = true
	return s
}

// classifyClosure names a helper closure of the VM by what it does, so that
// rules do not depend on how it is called in the source.
func classifyClosure(c *Ctx, in *Interp, st0 *State, lit *ast.FuncLit) string {
	st := st0.clone()
	st.P = &vmPay{tos: linSym("tos"), pc: linSym("pc"), blk: linSym("blockTos")}
	var args []Value
	if lit.Type.Params != nil {
		for _, f := range lit.Type.Params.List {
			n := len(f.Names)
			if n == 0 {
				n = 1
			}
			for i := 0; i < n; i++ {
				if isInt(c.typeOf(f.Type)) {
					args = append(args, constV(constant.MakeInt64(0)))
				} else {
					args = append(args, Value{K: vUnknown, T: c.typeOf(f.Type)})
				}
			}
		}
	}
	res := in.inlineLit(st, lit, args)
	role := ""
	for _, r := range res {
		p := r.st.P.(*vmPay)
		has := func(kind, detail string) bool {
			for _, e := range p.events {
				if e.Kind == kind && (detail == "" || e.Detail == detail) {
					return true
				}
			}
			return false
		}
		d, _ := p.tos.sub(linSym("tos")).isConst()
		got := ""
		switch {
		case len(p.reads) == 1 && p.reads[0] == "B" && has("stat", "opsRead"):
			got = "readOp"
		case len(p.reads) == 1 && p.reads[0] == "B":
			got = "readByte"
		case len(p.reads) == 1 && p.reads[0] == "H":
			got = "readU16"
		case len(p.reads) == 1 && p.reads[0] == "v" && has("const", ""):
			got = "readConst"
		case len(p.reads) == 1 && p.reads[0] == "v":
			got = "readUvarint"
		case len(p.reads) == 0 && d == 1 && has("stk:w", "tos+0"):
			got = "push"
		case len(p.reads) == 0 && d == -1 && has("stk:r", "tos-1"):
			got = "pop"
		case len(p.reads) == 0 && d == 0 && has("stk:w", "tos-1"):
			got = "set"
		case len(p.reads) == 0 && d == 0 && has("stk:r", "tos-1") && !has("stk:w", ""):
			got = "peek"
		case has("mapw", "") && !has("append", "") && !has("blk:w", "") && !has("lookup", "") && p.blk.equal(linSym("blockTos")):
			got = "blockSet"
		case has("blk:r", "") && has("lookup", "") && !has("mapw", "") && !has("append", "") && !has("blk:w", "") && len(p.reads) == 0 && d == 0 && p.blk.equal(linSym("blockTos")):
			got = "blockGet"
		}
		if got == "" {
			continue
		}
		// push has an overflow path without the write: prefer the informative outcome
		if role == "" || got == "push" {
			role = got
		}
	}
	return role
}

// callRole: the role of the closure called by call ("" when it is not one of the VM's helper closures).
func (m *vmModel) callRole(c *Ctx, call *ast.CallExpr) string {
	if id, ok := stripParens(call.Fun).(*ast.Ident); ok {
		return m.Roles[c.objOf(id)]
	}
	// the helper written as a method of the machine
	if fn := c.callee(call); fn != nil {
		return m.MethodRoles[fn]
	}
	return ""
}

// argExpr follows an identifier that is a parameter of one of the machine's
// inlined methods back to the argument expression at its (only) call site
// among the given nodes, and a local defined once to its definition.
func (m *vmModel) argExpr(c *Ctx, nodes []ast.Node, e ast.Expr) ast.Expr {
	for depth := 0; depth < 4; depth++ {
		id, ok := stripParens(e).(*ast.Ident)
		if !ok {
			return e
		}
		obj := c.objOf(id)
		found := false
		for fn, fd := range m.InlineMethods {
			k := 0
			for _, f := range fd.Type.Params.List {
				for _, nm := range f.Names {
					if c.objOf(nm) == obj {
						// the call site
						var site *ast.CallExpr
						n := 0
						for _, nd := range nodes {
							walkCalls(nd, false, func(call *ast.CallExpr) {
								if c.callee(call) == fn {
									site = call
									n++
								}
							})
						}
						if n == 1 && k < len(site.Args) {
							e = site.Args[k]
							found = true
						}
					}
					k++
				}
			}
		}
		if found {
			continue
		}
		// a local with a single definition
		for _, nd := range nodes {
			if def, n := c.singleDef(nd, obj); n == 1 && def != nil {
				e = def
				found = true
				break
			}
		}
		if !found {
			return e
		}
	}
	return e
}

// isBlockFields: e is <something of type Block or *Block>.Fields
func (c *Ctx) isBlockFields(e ast.Expr) (*ast.SelectorExpr, bool) {
	sel, ok := stripParens(e).(*ast.SelectorExpr)
	if !ok || sel.Sel.Name != "Fields" {
		return nil, false
	}
	return sel, isNamed(c.typeOf(sel.X), bclPath, "Block")
}

// armNodes: the syntax an arm consists of — its case clause and the bodies of
// the machine's methods it calls (transitively), which are interpreted in place.
func (m *vmModel) armNodes(c *Ctx, arm *vmArm) []ast.Node {
	if arm == nil || arm.Clause == nil {
		return nil
	}
	nodes := []ast.Node{arm.Clause}
	seen := map[*ast.FuncDecl]bool{}
	for i := 0; i < len(nodes); i++ {
		walkCalls(nodes[i], false, func(call *ast.CallExpr) {
			if fd := m.InlineMethods[c.callee(call)]; fd != nil && !seen[fd] {
				if _, isRole := m.MethodRoles[c.callee(call)]; isRole {
					return // helper closures/methods with a role are looked at through their role
				}
				seen[fd] = true
				nodes = append(nodes, fd.Body)
			}
		})
	}
	return nodes
}

// inspectArm runs f over all nodes of the arm.
func (m *vmModel) inspectArm(c *Ctx, arm *vmArm, f func(ast.Node) bool) {
	for _, n := range m.armNodes(c, arm) {
		ast.Inspect(n, f)
	}
}

// vmCmpBinOp keeps the shape of an equality between two stack values: the value written is "cmp(stk(-2) == stk(-1))".
func vmCmpBinOp(l Value, op token.Token, r Value) (Value, bool) {
	if op != token.EQL && op != token.NEQ {
		return Value{}, false
	}
	isStk := func(v Value) bool { return v.K == vTag && strings.HasPrefix(v.String(), "stk(") }
	if isStk(l) && isStk(r) {
		return tagV("cmp", l.String()+" "+op.String()+" "+r.String()), true
	}
	return Value{}, false
}
