package main

// E-FLOW (part 2): purity / write-set rules from SSA.

import (
	"fmt"
	"go/token"
	"go/types"
	"sort"
	"strings"

	"golang.org/x/tools/go/ssa"
)

// addrRoot follows an address back to where it comes from.
// kinds: "local" (an allocation in this function), "param", "freevar",
// "global", "loaded" (a pointer read from memory rooted further up), "call", "other".
func addrRoot(v ssa.Value, depth int) (kind string, desc string) {
	if depth > 20 {
		return "other", "?"
	}
	switch x := v.(type) {
	case *ssa.Alloc:
		return "local", x.Name()
	case *ssa.Parameter:
		return "param", x.Name()
	case *ssa.FreeVar:
		return "freevar", x.Name()
	case *ssa.Global:
		return "global", x.Name()
	case *ssa.FieldAddr:
		k, d := addrRoot(x.X, depth+1)
		name := "?"
		if _, st := structOf(x.X.Type()); st != nil {
			name = st.Field(x.Field).Name()
		}
		return k, d + "." + name
	case *ssa.IndexAddr:
		k, d := addrRoot(x.X, depth+1)
		return k, d + "[]"
	case *ssa.UnOp:
		if x.Op == token.MUL {
			// a pointer / slice header loaded from memory: what it points to is shared with wherever it came from
			k, d := addrRoot(x.X, depth+1)
			if k == "local" {
				// a local variable holding a pointer: look at what was stored into it
				return "loaded", d
			}
			return k, d
		}
	case *ssa.Slice:
		return addrRoot(x.X, depth+1)
	case *ssa.Call:
		return "call", x.Call.Value.Name()
	case *ssa.MakeSlice, *ssa.MakeMap:
		return "local", "make"
	case *ssa.Phi:
		worst := "local"
		d := ""
		for _, e := range x.Edges {
			k, dd := addrRoot(e, depth+1)
			if k != "local" {
				worst, d = k, dd
			}
		}
		return worst, d
	case *ssa.Const:
		return "local", "const"
	case *ssa.ChangeType:
		return addrRoot(x.X, depth+1)
	case *ssa.Convert:
		return addrRoot(x.X, depth+1)
	case *ssa.Extract:
		return "call", "tuple"
	case *ssa.Lookup, *ssa.TypeAssert, *ssa.Field:
		return "loaded", "value"
	}
	return "other", fmt.Sprintf("%T", v)
}

// localPointsTo: for a "loaded from local" root, see what the local holds.
func localHolds(a *ssa.Alloc) (kind string, desc string) {
	refs := a.Referrers()
	if refs == nil {
		return "local", a.Name()
	}
	worst, d := "local", a.Name()
	for _, r := range *refs {
		if st, ok := r.(*ssa.Store); ok && st.Addr == ssa.Value(a) {
			k, dd := addrRoot(st.Val, 1)
			if k != "local" {
				worst, d = k, dd
			}
		}
	}
	return worst, d
}

type sideEffect struct {
	Kind string // store, mapupdate, send, global
	Desc string
	Pos  token.Pos
}

// sideEffects lists the writes of fn that can be seen outside it: stores
// through parameters, free variables, globals, or pointers loaded from
// them; map updates on non-local maps; channel sends.
func sideEffects(fn *ssa.Function) []sideEffect {
	var out []sideEffect
	if fn == nil || fn.Blocks == nil {
		return nil
	}
	external := func(v ssa.Value) (bool, string) {
		k, d := addrRoot(v, 0)
		if k == "loaded" {
			// find the alloc at the bottom of the chain
			cur := v
			for i := 0; i < 20; i++ {
				switch x := cur.(type) {
				case *ssa.FieldAddr:
					cur = x.X
					continue
				case *ssa.IndexAddr:
					cur = x.X
					continue
				case *ssa.Slice:
					cur = x.X
					continue
				case *ssa.UnOp:
					cur = x.X
					continue
				}
				break
			}
			if a, ok := cur.(*ssa.Alloc); ok {
				k, d = localHolds(a)
			}
		}
		switch k {
		case "param", "freevar", "global", "loaded", "call", "other":
			return true, k + ":" + d
		}
		return false, ""
	}
	for _, b := range fn.Blocks {
		for _, ins := range b.Instrs {
			switch ins := ins.(type) {
			case *ssa.Store:
				if ext, d := external(ins.Addr); ext {
					out = append(out, sideEffect{"store", d, ins.Pos()})
				}
			case *ssa.MapUpdate:
				if ext, d := external(ins.Map); ext {
					out = append(out, sideEffect{"mapupdate", d, ins.Pos()})
				}
			case *ssa.Send:
				out = append(out, sideEffect{"send", ins.Chan.Name(), ins.Pos()})
			}
		}
	}
	return out
}

// staticCallees lists the module functions fn calls directly (static
// callees and closures it creates).
func staticCallees(fn *ssa.Function) []*ssa.Function {
	seen := map[*ssa.Function]bool{}
	var out []*ssa.Function
	add := func(f *ssa.Function) {
		if f != nil && inRepo(f) && !seen[f] {
			seen[f] = true
			out = append(out, f)
		}
	}
	for _, b := range fn.Blocks {
		for _, ins := range b.Instrs {
			if call, ok := ins.(ssa.CallInstruction); ok {
				add(call.Common().StaticCallee())
			}
			if mc, ok := ins.(*ssa.MakeClosure); ok {
				if f, ok := mc.Fn.(*ssa.Function); ok {
					add(f)
				}
			}
		}
	}
	for _, a := range fn.AnonFuncs {
		add(a)
	}
	return out
}

// closureOf computes the module functions reachable from roots through
// static calls (dynamic calls are reported separately).
func closureOf(roots ...*ssa.Function) []*ssa.Function {
	seen := map[*ssa.Function]bool{}
	var out []*ssa.Function
	var visit func(f *ssa.Function)
	visit = func(f *ssa.Function) {
		if f == nil || seen[f] || f.Blocks == nil {
			return
		}
		seen[f] = true
		out = append(out, f)
		for _, g := range staticCallees(f) {
			visit(g)
		}
	}
	for _, r := range roots {
		visit(r)
	}
	sort.Slice(out, func(i, j int) bool { return ssaFuncName(out[i]) < ssaFuncName(out[j]) })
	return out
}

// rulePure: the named functions and everything they call inside the module
// have no externally visible writes, except those listed in allow
// (function name -> substring of the effect description -> reason).
func (c *Ctx) rulePure(r *Report, rule string, roots []string, allow map[string]map[string]string) {
	var rs []*ssa.Function
	for _, n := range roots {
		obj, _ := c.find(n)
		f := c.ssaFunc(obj)
		if f == nil {
			r.bad(rule, n, "function not found", "")
			continue
		}
		rs = append(rs, f)
	}
	for _, f := range closureOf(rs...) {
		name := ssaFuncName(f)
		r.fn(name)
		var bad []string
		pos := ""
		for _, e := range sideEffects(f) {
			ok := false
			for sub := range allow[name] {
				if strings.Contains(e.Desc, sub) {
					ok = true
				}
			}
			if !ok {
				bad = append(bad, e.Kind+" "+e.Desc)
				if pos == "" {
					pos = c.pos(e.Pos)
				}
			}
		}
		if len(bad) > 0 {
			r.bad(rule, name, fmt.Sprintf("writes state visible outside it: %s", uniqJoin(bad)), pos)
		} else {
			r.ok(rule, name, "no store through parameters, captured variables, globals or loaded pointers; no map update; no send")
		}
	}
}

// globalWrites lists stores to package-level variables outside init.
func (c *Ctx) ruleNoGlobalWrites(r *Report, rule string) {
	r.rule(rule, 1, "no function other than package initialisation stores to a package-level variable of the library (no caches, counters or registries that one call could leave behind for the next)")
	n := 0
	for _, fn := range c.allFuncs() {
		if fn.Pkg == nil || fn.Pkg.Pkg.Path() != bclPath {
			if fn.Parent() == nil || !inRepo(fn) {
				continue
			}
		}
		name := ssaFuncName(fn)
		if name == "init" || strings.HasPrefix(name, "init$") || strings.HasPrefix(name, "init#") {
			continue
		}
		for _, b := range fn.Blocks {
			for _, ins := range b.Instrs {
				var addr ssa.Value
				switch ins := ins.(type) {
				case *ssa.Store:
					addr = ins.Addr
				case *ssa.MapUpdate:
					addr = ins.Map
				default:
					continue
				}
				if k, d := addrRoot(addr, 0); k == "global" {
					n++
					r.bad(rule, name+"/"+d, fmt.Sprintf("%s stores to package variable %s", name, d), c.pos(ins.Pos()))
				}
			}
		}
	}
	// uses of package-level variables outside initialisation: loads whose value is only read
	for _, fn := range c.allFuncs() {
		if !inRepo(fn) || fn.Pkg == nil || fn.Pkg.Pkg.Path() != bclPath {
			continue
		}
		name := ssaFuncName(fn)
		if name == "init" || strings.HasPrefix(name, "init$") || strings.HasPrefix(name, "init#") {
			continue
		}
		for _, b := range fn.Blocks {
			for _, ins := range b.Instrs {
				for _, op := range ins.Operands(nil) {
					g, ok := (*op).(*ssa.Global)
					if !ok || g.Pkg == nil || g.Pkg.Pkg.Path() != bclPath {
						continue
					}
					if why := globalUseMutable(ins, g); why != "" {
						n++
						r.bad(rule, name+"/"+g.Name()+"/use", fmt.Sprintf("%s %s package variable %s: memory shared by all calls in the process can be written through it", name, why, g.Name()), c.pos(ins.Pos()))
					}
				}
			}
		}
	}
	// package-level variables of kinds that carry state across calls
	var vars []string
	sc := c.Bcl.Types.Scope()
	for _, nm := range sc.Names() {
		if v, ok := sc.Lookup(nm).(*types.Var); ok {
			vars = append(vars, v.Name())
			if isSyncState(v.Type()) {
				n++
				r.bad(rule, "var/"+v.Name(), fmt.Sprintf("package variable %s has type %s: shared mutable state across calls", v.Name(), v.Type()), c.pos(v.Pos()))
			}
		}
	}
	if n == 0 {
		r.ok(rule, "package-vars", fmt.Sprintf("package variables %v are written only during initialisation", vars))
	}
}

func isSyncState(t types.Type) bool {
	s := t.String()
	return strings.HasPrefix(s, "sync.") || strings.HasPrefix(s, "*sync.") || strings.HasPrefix(s, "sync/atomic.")
}

// ssaReadOnly: every use of the slice value only reads it.
func ssaReadOnly(v ssa.Value, depth int) bool {
	refs := v.Referrers()
	if refs == nil || depth > 4 {
		return refs == nil
	}
	for _, r := range *refs {
		switch r := r.(type) {
		case *ssa.DebugRef:
		case *ssa.Range, *ssa.Next:
		case *ssa.IndexAddr:
			// element address: must only be loaded from
			ir := r.Referrers()
			if ir != nil {
				for _, u := range *ir {
					switch u := u.(type) {
					case *ssa.UnOp:
						if u.Op != token.MUL {
							return false
						}
					case *ssa.FieldAddr:
						if addrStored(u) {
							return false
						}
					case *ssa.DebugRef:
					default:
						return false
					}
				}
			}
		case *ssa.Call:
			// len(v) / cap(v)
			if b, ok := r.Call.Value.(*ssa.Builtin); ok && (b.Name() == "len" || b.Name() == "cap") {
				continue
			}
			return false
		case *ssa.Phi:
			if !ssaReadOnly(r, depth+1) {
				return false
			}
		default:
			return false
		}
	}
	return true
}

// globalUseMutable: how instruction ins uses the address of global g, when
// that use can lead to a write ("" for plain reads).
func globalUseMutable(ins ssa.Instruction, g *ssa.Global) string {
	switch x := ins.(type) {
	case *ssa.UnOp:
		if x.Op == token.MUL {
			// the value loaded: arrays and structs are copies; slices, maps and pointers alias
			switch x.Type().Underlying().(type) {
			case *types.Slice, *types.Map, *types.Pointer:
				if elemWritten(x) {
					return "writes through the slice/map/pointer held in"
				}
			}
			return ""
		}
	case *ssa.Store:
		if x.Addr == ssa.Value(g) {
			return "" // reported as a store already
		}
		return "stores the address of"
	case *ssa.IndexAddr:
		if addrStored(x) {
			return "writes an element of"
		}
		if addrEscapes(x) {
			return "hands out the address of an element of"
		}
		return ""
	case *ssa.FieldAddr:
		if addrStored(x) {
			return "writes a field of"
		}
		return ""
	case *ssa.Slice:
		if ssaReadOnly(x, 0) {
			return ""
		}
		return "slices (a mutable view of)"
	case *ssa.DebugRef:
		return ""
	case ssa.CallInstruction:
		return "passes the address of"
	case *ssa.MakeClosure, *ssa.MakeInterface, *ssa.Phi, *ssa.Return:
		return "lets escape the address of"
	}
	return ""
}

func addrEscapes(v ssa.Value) bool {
	refs := v.Referrers()
	if refs == nil {
		return false
	}
	for _, r := range *refs {
		switch r := r.(type) {
		case *ssa.UnOp, *ssa.DebugRef:
		case *ssa.FieldAddr:
			if addrEscapes(r) {
				return true
			}
		case *ssa.Store:
			if r.Val == v {
				return true
			}
		default:
			return true
		}
	}
	return false
}
