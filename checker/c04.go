package main

import (
	"fmt"
	"go/ast"
	"go/token"
	"go/types"
	"strings"
)

func init() { register("C04", "other", checkC04) }

func ruleNibbles(c *Ctx, r *Report, rule string) {
	r.rule(rule, 4, "bind selectors are distinct non-zero values within the low nibble, targets distinct non-zero multiples of 16 within the high nibble; the compiler packs target&0xF0 | selector&0x0F and the VM unpacks with the same masks")
	sel := constsOfType(c.Bcl, "bindSelector")
	if v, ok := pkgConstInt(c.Bcl, "bindAll"); ok {
		dup := false
		for _, s := range sel {
			if s.Name == "bindAll" {
				dup = true
			}
		}
		if !dup {
			sel = append(sel, namedConst{Name: "bindAll", Val: v})
		}
	}
	tgt := constsOfType(c.Bcl, "bindTarget")
	okS := len(sel) >= 4
	seen := map[int64]bool{}
	for _, s := range sel {
		if s.Val <= 0 || s.Val > 0x0F || seen[s.Val] {
			okS = false
		}
		seen[s.Val] = true
	}
	r.check(okS, rule, "selectors", fmt.Sprintf("%d distinct values in 1..15", len(sel)), fmt.Sprintf("bind selector constants %v must be distinct, non-zero and fit the low nibble", sel), "")
	okT := len(tgt) >= 2
	seen = map[int64]bool{}
	for _, s := range tgt {
		if s.Val <= 0 || s.Val > 0xF0 || s.Val%16 != 0 || seen[s.Val] {
			okT = false
		}
		seen[s.Val] = true
	}
	r.check(okT, rule, "targets", fmt.Sprintf("%d distinct multiples of 16", len(tgt)), fmt.Sprintf("bind target constants %v must be distinct, non-zero multiples of 16 within a byte", tgt), "")
	// pack
	maskOf := func(e ast.Expr) (types.Type, int64, bool) {
		be, ok := c.stripConv(e).(*ast.BinaryExpr)
		if !ok || be.Op != token.AND {
			return nil, 0, false
		}
		k, isC := c.intConst(be.Y)
		return c.typeOf(be.X), k, isC
	}
	if _, fd := c.find("bindStmt"); fd == nil {
		r.bad(rule, "pack", "bindStmt not found", "")
	} else {
		ok := false
		// in the bind statement or a helper it is split into
		var sites []*ast.CallExpr
		c.walkCallsDeep(c.Bcl, fd.Body, func(call *ast.CallExpr) {
			if c.calleeName(call) == "parser.emitByte" && len(call.Args) == 1 {
				sites = append(sites, call)
			}
		})
		for _, call := range sites {
			cs := struct{ Call *ast.CallExpr }{call}
			arg := c.stripConv(cs.Call.Args[0])
			// the packing in a one-line helper: pack(target, selector)
			if hc, isCall := arg.(*ast.CallExpr); isCall {
				if fn, isFn := c.callee(hc).(*types.Func); isFn && fn.Pkg() != nil && fn.Pkg().Path() == bclPath {
					if hfd := c.funcDecls[fn]; hfd != nil && hfd.Body != nil && len(hfd.Body.List) == 1 {
						if rs, isRet := hfd.Body.List[0].(*ast.ReturnStmt); isRet && len(rs.Results) == 1 {
							arg = c.stripConv(rs.Results[0])
						}
					}
				}
			}
			be, isB := arg.(*ast.BinaryExpr)
			if !isB || be.Op != token.OR {
				continue
			}
			t1, m1, ok1 := maskOf(be.X)
			t2, m2, ok2 := maskOf(be.Y)
			if ok1 && ok2 {
				got := map[string]int64{typeShort(t1): m1, typeShort(t2): m2}
				ok = got["bindTarget"] == 0xF0 && got["bindSelector"] == 0x0F
			}
		}
		r.check(ok, rule, "pack", "byte(target&0xF0) | byte(selector&0x0F)", "the BIND operand byte must be target&0xF0 | selector&0x0F", c.pos(fd.Pos()))
	}
	// unpack
	vm, err := c.vmModel()
	if err != nil {
		r.bad(rule, "unpack", err.Error(), "")
		return
	}
	arm := vm.Arms["opBIND"]
	if arm == nil {
		r.bad(rule, "unpack", "no BIND arm", "")
		return
	}
	got := map[string]int64{}
	var byteObj types.Object
	armNodes := vm.armNodes(c, arm)
	vm.inspectArm(c, arm, func(n ast.Node) bool {
		call, ok := n.(*ast.CallExpr)
		if !ok || len(call.Args) != 1 {
			return true
		}
		tv, ok := c.infoFor(call).Types[call.Fun]
		if !ok || !tv.IsType() {
			return true
		}
		be, ok := stripParens(call.Args[0]).(*ast.BinaryExpr)
		if !ok || be.Op != token.AND {
			return true
		}
		// the masked value is the operand byte: the result of the byte reader, directly, through a local, or
		// handed on as a parameter of a method the arm is split into
		rc, isCall := stripParens(vm.argExpr(c, armNodes, be.X)).(*ast.CallExpr)
		if !isCall || vm.callRole(c, rc) != "readByte" {
			return true
		}
		if k, isC := c.intConst(be.Y); isC {
			got[typeShort(tv.Type)] = k
		}
		return true
	})
	_ = byteObj
	if !(got["bindSelector"] == 0x0F && got["bindTarget"] == 0xF0) {
		// the byte is not taken apart with two masks (a table keyed by the whole byte, say): the arm evaluated for
		// each of the 256 option bytes says what every byte does, which is what the masks are for
		if spec, err := loadLangSpec(); err == nil {
			scratch := newReport(r.Prop, r.Level)
			scratch.cur = r.cur
			if usable, _ := ruleBindTable(c, scratch, "bind-table", vm, spec, true); usable {
				bad := false
				for _, o := range scratch.Obs {
					if o.Status != Discharged {
						bad = true
					}
				}
				if !bad && len(scratch.Obs) > 0 {
					r.ok(rule, "unpack", "decided per option byte by the BIND model: every documented target|selector byte selects as documented, every other byte is a runtime error")
					return
				}
			}
		}
	}
	r.check(got["bindSelector"] == 0x0F && got["bindTarget"] == 0xF0, rule, "unpack", "selector = byte&0x0F, target = byte&0xF0", fmt.Sprintf("the VM must unpack the BIND operand byte with masks 0x0F (selector) and 0xF0 (target); found %v", got), c.pos(arm.Clause.Pos()))
}

// bindArmAST gathers the pieces of the BIND arm.
type bindParts struct {
	clause      *ast.CaseClause
	filter      *filterLoop
	blocks      types.Object
	typeVar     types.Object
	selVar      types.Object
	tgtVar      types.Object
	table       *ast.SwitchStmt
	guards      []*ast.IfStmt
	warnIf      *ast.IfStmt
	freshOK     bool
	stmtsPos    map[ast.Stmt]int
	helper      *ast.FuncDecl // the candidate filter lives in this function
	helperParts *bindParts
	clauseRoot  ast.Node
	roots       []ast.Node // the clause and the bodies of the machine's methods the arm is split into
}

func (c *Ctx) bindParts(vm *vmModel) (*bindParts, string) {
	arm := vm.Arms["opBIND"]
	if arm == nil || arm.Clause == nil {
		return nil, "no BIND arm"
	}
	bp := &bindParts{clause: arm.Clause, stmtsPos: map[ast.Stmt]int{}}
	bp.roots = vm.armNodes(c, arm)
	// the arm as one statement list: a call of one of the machine's methods (the arm split into steps) is
	// followed by that method's statements; `var ( x = e … )` counts as the assignments it is
	var stmts []ast.Stmt
	var flatten func(list []ast.Stmt, depth int)
	flatten = func(list []ast.Stmt, depth int) {
		for _, st := range list {
			if ds, ok := st.(*ast.DeclStmt); ok {
				if gd, ok := ds.Decl.(*ast.GenDecl); ok && gd.Tok == token.VAR {
					split := false
					for _, sp := range gd.Specs {
						if vs, ok := sp.(*ast.ValueSpec); ok && len(vs.Values) == len(vs.Names) && len(vs.Values) > 0 {
							split = true
							for k := range vs.Names {
								stmts = append(stmts, &ast.AssignStmt{Lhs: []ast.Expr{vs.Names[k]}, Tok: token.DEFINE, TokPos: vs.Pos(), Rhs: []ast.Expr{vs.Values[k]}})
							}
						}
					}
					if split {
						continue
					}
				}
			}
			stmts = append(stmts, st)
			if depth > 3 {
				continue
			}
			var call *ast.CallExpr
			switch x := st.(type) {
			case *ast.ExprStmt:
				call, _ = x.X.(*ast.CallExpr)
			case *ast.ReturnStmt:
				if len(x.Results) == 1 {
					call, _ = x.Results[0].(*ast.CallExpr)
				}
			case *ast.IfStmt:
				if as, ok := x.Init.(*ast.AssignStmt); ok && len(as.Rhs) == 1 {
					call, _ = as.Rhs[0].(*ast.CallExpr)
				}
			case *ast.AssignStmt:
				if len(x.Rhs) == 1 {
					call, _ = x.Rhs[0].(*ast.CallExpr)
				}
			}
			if call == nil {
				continue
			}
			fn := c.callee(call)
			if _, isRole := vm.MethodRoles[fn]; isRole {
				continue
			}
			if fd := vm.InlineMethods[fn]; fd != nil {
				flatten(fd.Body.List, depth+1)
			}
		}
	}
	flatten(arm.Clause.Body, 0)
	for i, s := range stmts {
		bp.stmtsPos[s] = i
		switch s := s.(type) {
		case *ast.AssignStmt:
			if len(s.Lhs) == 1 && len(s.Rhs) == 1 {
				obj := c.objOf(s.Lhs[0])
				rhs := s.Rhs[0]
				if ta, ok := stripParens(rhs).(*ast.TypeAssertExpr); ok {
					rhs = ta.X
				}
				if call, ok := stripParens(rhs).(*ast.CallExpr); ok {
					if vm.callRole(c, call) == "readConst" {
						bp.typeVar = obj
					}
					// candidates := helper(vm.result, blockType): look for the filter inside the helper
					if fn, ok := c.callee(call).(*types.Func); ok && isNamedSlice(c.typeOf(call), "Block") {
						if hd := c.funcDecls[fn]; hd != nil && hd.Body != nil && len(call.Args) == 2 && c.fieldPath(call.Args[0]) == "<vm>.result" {
							bp.blocks = obj
							bp.helper = hd
						}
					}
					if c.calleeName(call) == "make" {
						if isNamedSlice(c.typeOf(call), "Block") {
							bp.blocks = obj
							if n, isC := c.intConst(call.Args[1]); isC && n == 0 {
								bp.freshOK = true
							}
						}
					}
					if tv, ok := c.infoFor(call).Types[call.Fun]; ok && tv.IsType() {
						switch typeShort(tv.Type) {
						case "bindSelector":
							bp.selVar = obj
						case "bindTarget":
							bp.tgtVar = obj
						}
					}
				}
				if cl, ok := stripParens(rhs).(*ast.CompositeLit); ok && isNamedSlice(c.typeOf(cl), "Block") && len(cl.Elts) == 0 {
					bp.blocks = obj
					bp.freshOK = true
				}
			}
		case *ast.DeclStmt:
			for _, sp := range s.Decl.(*ast.GenDecl).Specs {
				if vs, ok := sp.(*ast.ValueSpec); ok && len(vs.Values) == 0 && len(vs.Names) == 1 {
					obj := c.infoFor(vs).Defs[vs.Names[0]]
					if obj != nil && isNamedSlice(obj.Type(), "Block") {
						bp.blocks = obj
						bp.freshOK = true
					}
				}
			}
		case *ast.RangeStmt, *ast.ForStmt:
			if fl := c.asFilterLoop(s, func(x ast.Expr) bool { return c.fieldPath(x) == "<vm>.result" }); fl != nil {
				bp.filter = fl
			}
		case *ast.SwitchStmt:
			storesBinding := false
			ast.Inspect(s, func(n ast.Node) bool {
				if as, ok := n.(*ast.AssignStmt); ok && len(as.Lhs) == 1 && c.fieldPath(as.Lhs[0]) == "<vm>.binding" {
					storesBinding = true
				}
				return true
			})
			if storesBinding && bp.table == nil {
				bp.table = s
			}
		case *ast.IfStmt:
			if be, ok := stripParens(s.Cond).(*ast.BinaryExpr); ok && c.fieldPath(be.X) == "<vm>.binding" {
				bp.warnIf = s
			} else {
				bp.guards = append(bp.guards, s)
			}
		}
	}
	if bp.helper != nil {
		// inside the helper: a fresh slice, a range over the first parameter, return of the slice
		hb := &bindParts{clause: bp.clause, stmtsPos: map[ast.Stmt]int{}}
		hb.typeVar = c.paramObj(bp.helper, 1)
		first := c.paramObj(bp.helper, 0)
		for _, s := range bp.helper.Body.List {
			switch s := s.(type) {
			case *ast.AssignStmt:
				if len(s.Lhs) == 1 && len(s.Rhs) == 1 {
					if call, ok := s.Rhs[0].(*ast.CallExpr); ok && c.calleeName(call) == "make" && isNamedSlice(c.typeOf(call), "Block") {
						hb.blocks = c.objOf(s.Lhs[0])
						if n, isC := c.intConst(call.Args[1]); isC && n == 0 {
							hb.freshOK = true
						}
					}
					if cl, ok := stripParens(s.Rhs[0]).(*ast.CompositeLit); ok && isNamedSlice(c.typeOf(cl), "Block") && len(cl.Elts) == 0 {
						hb.blocks = c.objOf(s.Lhs[0])
						hb.freshOK = true
					}
				}
			case *ast.DeclStmt:
				for _, sp := range s.Decl.(*ast.GenDecl).Specs {
					if vs, ok := sp.(*ast.ValueSpec); ok && len(vs.Values) == 0 && len(vs.Names) == 1 {
						if o := c.infoFor(vs).Defs[vs.Names[0]]; o != nil && isNamedSlice(o.Type(), "Block") {
							hb.blocks = o
							hb.freshOK = true
						}
					}
				}
			case *ast.RangeStmt, *ast.ForStmt:
				if fl := c.asFilterLoop(s, func(x ast.Expr) bool { return c.isObj(x, first) }); fl != nil {
					hb.filter = fl
				}
			}
		}
		bp.helperParts = hb
		if hb.filter == nil || hb.blocks == nil {
			return bp, "the candidate helper does not range over its first argument into a fresh slice"
		}
	}
	switch {
	case bp.filter == nil && bp.helper == nil:
		return bp, "no loop over vm.result"
	case bp.blocks == nil:
		return bp, "no candidate slice"
	case bp.table == nil:
		return bp, "no selection switch"
	case bp.typeVar == nil || bp.selVar == nil || bp.tgtVar == nil:
		return bp, "operand variables (type, selector, target) not identified"
	}
	return bp, ""
}

func isNamedSlice(t types.Type, elem string) bool {
	s, ok := t.Underlying().(*types.Slice)
	return ok && isNamed(s.Elem(), bclPath, elem)
}

func ruleBindFilter(c *Ctx, r *Report, rule string, bp *bindParts) {
	outer := bp
	if bp.helperParts != nil {
		bp = bp.helperParts
		bp.clauseRoot = outer.helper.Body
	}
	r.rule(rule, 3, "the candidates are collected into a fresh slice by ranging over all of vm.result in order and appending exactly the blocks whose Type equals the BIND operand")
	pos := c.pos(bp.clause.Pos())
	r.check(bp.freshOK, rule, "fresh-slice", "candidates start as a new empty slice", "the candidate slice must be a fresh empty slice (not a view of vm.result)", pos)
	f := bp.filter
	// the loop body, whatever its spelling: exactly one append to the candidates, of the element itself,
	// under exactly the condition elem.Type == operand; everything else in the body is a guard that skips (continue)
	ok := true
	why := "the loop must append a block iff its Type equals the BIND operand: `if b.Type == type { candidates = append(candidates, b) }` or an equivalent form"
	var appendStmt *ast.AssignStmt
	nAssign := 0
	ast.Inspect(f.Body, func(n ast.Node) bool {
		switch n := n.(type) {
		case *ast.AssignStmt:
			for _, l := range n.Lhs {
				if c.isObj(l, bp.blocks) {
					nAssign++
					appendStmt = n
				} else if _, isIdx := stripParens(l).(*ast.IndexExpr); isIdx {
					ok = false
					why = "the loop stores through an index"
				}
			}
		case *ast.IncDecStmt, *ast.GoStmt, *ast.DeferStmt, *ast.SendStmt, *ast.ReturnStmt:
			ok = false
			why = fmt.Sprintf("the loop contains a %T", n)
		case *ast.BranchStmt:
			if n.Tok != token.CONTINUE {
				ok = false
				why = "the loop can be left early (" + n.Tok.String() + "): not every block is looked at"
			}
		case *ast.ForStmt, *ast.RangeStmt:
			ok = false
			why = "nested loop"
		}
		return true
	})
	if nAssign != 1 || appendStmt == nil {
		ok = false
	}
	if ok {
		call, isC := appendStmt.Rhs[0].(*ast.CallExpr)
		ok = isC && len(appendStmt.Lhs) == 1 && c.calleeName(call) == "append" && len(call.Args) == 2 && c.isObj(call.Args[0], bp.blocks) && f.ElemIs(call.Args[1])
		if !ok {
			why = "a matching block must be appended to the candidate slice, nothing else"
		}
	}
	if ok {
		// the facts under which the append runs: exactly elem.Type == operand
		facts := splitFacts(c.factsAt(f.Body, appendStmt))
		typeEq, other := 0, 0
		for _, fc := range facts {
			rel, isRel := c.relOf(condAtom{E: stripParens(fc.Cond), Pos: fc.Pos, Init: fc.Init})
			if isRel && rel.Op == token.EQL {
				l, rr := rel.L, rel.R
				if c.isObj(l, bp.typeVar) {
					l, rr = rr, l
				}
				if sel, isS := stripParens(l).(*ast.SelectorExpr); isS && sel.Sel.Name == "Type" && f.ElemIs(sel.X) && c.isObj(rr, bp.typeVar) {
					typeEq++
					continue
				}
			}
			other++
		}
		if typeEq < 1 || other > 0 || len(facts) != typeEq {
			ok = false
			why = "the filter condition must be exactly <block>.Type == <BIND operand constant>"
		}
		// guards that skip must be about the same condition only (no other reason to skip a block)
		ast.Inspect(f.Body, func(n ast.Node) bool {
			ifs, isIf := n.(*ast.IfStmt)
			if !isIf {
				return true
			}
			atoms, pure := c.nnf(ifs.Cond, true, nil).conjuncts()
			if !pure || len(atoms) != 1 {
				ok = false
				why = "a compound condition decides which blocks are candidates"
				return true
			}
			rel, isRel := c.relOf(atoms[0])
			if !isRel || (rel.Op != token.EQL && rel.Op != token.NEQ) {
				ok = false
				why = "a condition other than the type comparison decides which blocks are candidates"
			}
			return true
		})
	}
	r.check(ok, rule, "type-filter", "append iff b.Type == operand, for every block, in order", "BIND candidate loop: "+why, c.pos(f.Stmt.Pos()))
	// the candidate slice is not modified elsewhere in the arm
	mods := 0
	var scope ast.Node = bp.clause
	if bp.clauseRoot != nil {
		scope = bp.clauseRoot
	}
	if outer != bp {
		// in the arm itself the returned slice is assigned once and never modified
		am := 0
		for _, root := range outer.roots {
			ast.Inspect(root, func(n ast.Node) bool {
				switch n := n.(type) {
				case *ast.AssignStmt:
					for _, l := range n.Lhs {
						if c.isObj(l, outer.blocks) {
							am++
						}
						if ix, ok := l.(*ast.IndexExpr); ok && c.isObj(ix.X, outer.blocks) {
							am += 10
						}
					}
				case *ast.ValueSpec:
					for _, nm := range n.Names {
						if c.infoFor(nm).Defs[nm] == outer.blocks && len(n.Values) > 0 {
							am++
						}
					}
				}
				return true
			})
		}
		if am != 1 {
			mods += 100
		}
	}
	ast.Inspect(scope, func(n ast.Node) bool {
		if as, ok := n.(*ast.AssignStmt); ok {
			for _, l := range as.Lhs {
				if c.isObj(l, bp.blocks) {
					mods++
				}
				if ix, ok := l.(*ast.IndexExpr); ok && c.isObj(ix.X, bp.blocks) {
					mods += 10
				}
			}
		}
		return true
	})
	r.check(mods == 2, rule, "candidates-untouched", "the candidate slice is assigned only at its creation and in the filter", fmt.Sprintf("the candidate slice is modified outside its creation and the filter (%d assignments)", mods), pos)
}

func ruleCountGuards(c *Ctx, r *Report, rule string, bp *bindParts) {
	r.rule(rule, 2, "before selecting: no candidate is a runtime error; selector 'one' with a count other than 1 is a runtime error")
	tablePos := bp.stmtsPos[bp.table]
	empty, exactlyOne := false, false
	one := int64(-1)
	for _, k := range constsOfType(c.Bcl, "bindSelector") {
		if k.Name == "bindOne" {
			one = k.Val
		}
	}
	lenOf := func(e ast.Expr) bool {
		e = stripParens(e)
		if id, isID := e.(*ast.Ident); isID {
			for _, root := range bp.roots {
				if def, n := c.singleDef(root, c.objOf(id)); n == 1 && def != nil {
					e = stripParens(def)
				}
			}
		}
		call, ok := e.(*ast.CallExpr)
		return ok && c.calleeName(call) == "len" && c.isObj(call.Args[0], bp.blocks)
	}
	returnsErr := func(ifs *ast.IfStmt) bool {
		for _, s := range ifs.Body.List {
			if rs, ok := s.(*ast.ReturnStmt); ok {
				// the error may travel beside other results (halt, err)
				for _, res := range rs.Results {
					if call, ok := res.(*ast.CallExpr); ok && c.calleeName(call) == "vm.runtimeError" {
						return true
					}
				}
			}
		}
		return false
	}
	for _, g := range bp.guards {
		afterFilter := true
		if bp.filter != nil && bp.helper == nil {
			afterFilter = bp.stmtsPos[g] > bp.stmtsPos[bp.filter.Stmt]
		}
		if bp.stmtsPos[g] > tablePos || !afterFilter || !returnsErr(g) {
			continue
		}
		atoms, pure := c.nnf(g.Cond, true, nil).conjuncts()
		if !pure {
			continue
		}
		if len(atoms) == 1 {
			if b, ok := c.boundOf(atoms[0]); ok && lenOf(b.X) && b.Hi != nil && *b.Hi == 0 {
				empty = true
			}
		}
		if len(atoms) == 2 {
			okLen, okSel := false, false
			for _, a := range atoms {
				b, ok := c.boundOf(a)
				if !ok {
					continue
				}
				if lenOf(b.X) && b.Ne != nil && *b.Ne == 1 {
					okLen = true
				}
				if c.isObj(b.X, bp.selVar) && b.Lo != nil && b.Hi != nil && *b.Lo == one && *b.Hi == one {
					okSel = true
				}
			}
			if okLen && okSel {
				exactlyOne = true
			}
		}
	}
	pos := c.pos(bp.clause.Pos())
	r.check(empty, rule, "none", "len(candidates) == 0 -> runtime error, before the selection", "BIND must fail with a runtime error when no block of the type exists, before selecting", pos)
	r.check(exactlyOne, rule, "exactly-one", "selector one and len != 1 -> runtime error, before the selection", "BIND with selector 'one' must fail unless exactly one candidate exists, before selecting", pos)
}

func ruleSelectionTable(c *Ctx, r *Report, rule string, bp *bindParts) {
	r.rule(rule, 8, "the (target, selector) switch maps struct+one/first -> first candidate, struct+last -> last, slice+all -> all, slice+one/first -> first as a 1-slice, slice+last -> last as a 1-slice; everything else is a runtime error")
	want := map[string]string{
		"bindStruct/bindOne": "StructBinding{c[0]}", "bindStruct/bindFirst": "StructBinding{c[0]}", "bindStruct/bindLast": "StructBinding{c[len-1]}",
		"bindSlice/bindAll": "SliceBinding{c}", "bindSlice/bindOne": "SliceBinding{c[:1]}", "bindSlice/bindFirst": "SliceBinding{c[:1]}", "bindSlice/bindLast": "SliceBinding{c[len-1:]}",
	}
	sels := constsOfType(c.Bcl, "bindSelector")
	if v, ok := pkgConstInt(c.Bcl, "bindAll"); ok {
		sels = append(sels, namedConst{Name: "bindAll", Val: v})
	}
	tgts := constsOfType(c.Bcl, "bindTarget")
	lenMinus1 := func(e ast.Expr) bool {
		be, ok := stripParens(e).(*ast.BinaryExpr)
		if !ok || be.Op != token.SUB {
			return false
		}
		x := stripParens(be.X)
		if id, isID := x.(*ast.Ident); isID {
			for _, root := range bp.roots {
				if def, n := c.singleDef(root, c.objOf(id)); n == 1 && def != nil {
					x = stripParens(def)
				}
			}
		}
		call, ok := x.(*ast.CallExpr)
		k, isC := c.intConst(be.Y)
		return ok && isC && k == 1 && c.calleeName(call) == "len" && c.isObj(call.Args[0], bp.blocks)
	}
	classify := func(e ast.Expr) string {
		cl, ok := stripParens(e).(*ast.CompositeLit)
		if !ok || len(cl.Elts) != 1 {
			return "?"
		}
		v := cl.Elts[0]
		if kv, ok := v.(*ast.KeyValueExpr); ok {
			v = kv.Value
		}
		inner := "?"
		switch x := stripParens(v).(type) {
		case *ast.Ident:
			if c.isObj(x, bp.blocks) {
				inner = "c"
			}
		case *ast.IndexExpr:
			if c.isObj(x.X, bp.blocks) {
				if k, isC := c.intConst(x.Index); isC && k == 0 {
					inner = "c[0]"
				} else if lenMinus1(x.Index) {
					inner = "c[len-1]"
				}
			}
		case *ast.SliceExpr:
			if c.isObj(x.X, bp.blocks) && x.Max == nil {
				switch {
				case x.Low == nil && x.High != nil:
					if k, isC := c.intConst(x.High); isC && k == 1 {
						inner = "c[:1]"
					}
				case x.Low != nil && x.High == nil && lenMinus1(x.Low):
					inner = "c[len-1:]"
				case x.Low != nil && x.High != nil:
					if k, isC := c.intConst(x.Low); isC && k == 0 {
						if k2, isC2 := c.intConst(x.High); isC2 && k2 == 1 {
							inner = "c[:1]"
						}
					}
				}
			}
		}
		return typeShort(c.typeOf(cl)) + "{" + inner + "}"
	}
	// every store to vm.binding in the arm (and in the methods it is split into), with the conditions under
	// which control reaches it: enclosing if/switch conditions, tagged or tagless, fallthrough chains included.
	// The operands are recognised by their types (bindTarget, bindSelector), whatever the variables are called.
	got := map[string]string{}
	nStores := 0
	isTyped := func(e ast.Expr, name string) bool { return isNamed(c.typeOf(e), bclPath, name) }
	for _, root := range bp.roots {
		pm := parentMap(root)
		ast.Inspect(root, func(n ast.Node) bool {
			as, ok := n.(*ast.AssignStmt)
			if !ok || len(as.Lhs) != 1 || len(as.Rhs) != 1 || c.fieldPath(as.Lhs[0]) != "<vm>.binding" {
				return true
			}
			nStores++
			res := classify(as.Rhs[0])
			// alternatives: a disjunction of conjunctions of (operand kind, constant)
			alts := []map[string]string{{}}
			for cur := ast.Node(as); cur != nil && cur != root; cur = pm[cur] {
				cc, isCC := pm[cur].(*ast.CaseClause)
				if !isCC {
					continue
				}
				blk, _ := pm[cc].(*ast.BlockStmt)
				sw, _ := pm[blk].(*ast.SwitchStmt)
				if sw == nil {
					continue
				}
				// the clauses that lead here: this one and the ones falling through to it
				idx := -1
				for k, cl := range blk.List {
					if cl == ast.Stmt(cc) {
						idx = k
					}
				}
				var level []map[string]string
				for k := idx; k >= 0; k-- {
					cl := blk.List[k].(*ast.CaseClause)
					if k < idx {
						falls := false
						if nb := len(cl.Body); nb > 0 {
							if bs, ok := cl.Body[nb-1].(*ast.BranchStmt); ok && bs.Tok == token.FALLTHROUGH {
								falls = true
							}
						}
						if !falls {
							break
						}
					}
					for _, e := range cl.List {
						var conjs [][]condAtom
						if sw.Tag != nil {
							conjs = [][]condAtom{{{E: &ast.BinaryExpr{X: sw.Tag, Op: token.EQL, Y: e}, Pos: true}}}
						} else {
							conjs = c.nnf(e, true, nil).dnf()
						}
						for _, conj := range conjs {
							m := map[string]string{}
							okc := true
							for _, a := range conj {
								be, isB := a.E.(*ast.BinaryExpr)
								if !isB || be.Op != token.EQL || !a.Pos {
									okc = false
									continue
								}
								x, y := be.X, be.Y
								if _, isC := c.intConst(x); isC {
									x, y = y, x
								}
								k, isC := c.intConst(y)
								switch {
								case isC && isTyped(x, "bindTarget"):
									m["t"] = constNameOf(tgts, k)
								case isC && isTyped(x, "bindSelector"):
									m["s"] = constNameOf(sels, k)
								default:
									okc = false
								}
							}
							if !okc {
								m["?"] = types.ExprString(e)
							}
							level = append(level, m)
						}
					}
				}
				// combine with the inner levels
				var next []map[string]string
				for _, a := range alts {
					for _, b := range level {
						m := map[string]string{}
						for k, v := range a {
							m[k] = v
						}
						for k, v := range b {
							m[k] = v
						}
						next = append(next, m)
					}
				}
				alts = next
			}
			for _, m := range alts {
				key := m["t"] + "/" + m["s"]
				if m["?"] != "" || m["t"] == "" || m["s"] == "" {
					key = fmt.Sprintf("?/%d", nStores)
					res = "unrecognised case condition " + m["?"]
				}
				if prev, dup := got[key]; dup && prev != res {
					res = prev + " | " + res
				}
				got[key] = res
			}
			return true
		})
	}
	tpos := c.pos(bp.clause.Pos())
	for _, k := range sortedKeys(want) {
		r.check(got[k] == want[k], rule, k, want[k], fmt.Sprintf("(%s) selects %s; documented: %s", k, got[k], want[k]), tpos)
	}
	for _, k := range sortedKeys(got) {
		if _, ok := want[k]; !ok {
			r.bad(rule, k, fmt.Sprintf("undocumented selection case (%s) -> %s", k, got[k]), tpos)
		}
	}
	// any other combination is a runtime error: a default clause returning one, or — when every selecting
	// case returns — the statement after the selection
	defaultErr := false
	isErrReturn := func(s ast.Stmt) bool {
		rs, ok := s.(*ast.ReturnStmt)
		if !ok {
			return false
		}
		for _, res := range rs.Results {
			if call, ok := res.(*ast.CallExpr); ok && c.calleeName(call) == "vm.runtimeError" {
				return true
			}
		}
		return false
	}
	for _, root := range bp.roots {
		ast.Inspect(root, func(n ast.Node) bool {
			switch n := n.(type) {
			case *ast.CaseClause:
				if n.List == nil {
					for _, st := range n.Body {
						if isErrReturn(st) {
							defaultErr = true
						}
					}
				}
			case *ast.BlockStmt:
				// switch …; return vm.runtimeError(...) as the last two statements of a method body
				if k := len(n.List); k >= 2 {
					if _, isSw := n.List[k-2].(*ast.SwitchStmt); isSw && isErrReturn(n.List[k-1]) {
						defaultErr = true
					}
				}
			}
			return true
		})
	}
	r.check(defaultErr, rule, "default", "any other combination is a runtime error", "the selection must end in a runtime error for every combination it does not list", tpos)
}

func ruleBindParse(c *Ctx, r *Report, rule string, spec *langSpec) {
	r.rule(rule, 8, "bind statement words, read off the compiler's diagnostic-free paths (token texts are followed through every comparison, helper and table): each selector word (none, 1, first, last, all) and target word (struct, slice) yields the option byte target|selector of the documented constants; ':all' needs a slice target; a path on which the selector or target word is none of the documented ones emits nothing")
	m, err := c.emitModel()
	if err != nil {
		r.bad(rule, "model", err.Error(), "")
		return
	}
	e := m.Entries["decl"]
	if e == nil {
		r.bad(rule, "decl", "no analysis entry for decl", "")
		return
	}
	pos := ""
	if e.Decl != nil {
		pos = c.pos(e.Decl.Pos())
	}
	for _, u := range e.Undecided {
		r.undecided(rule, "decl", u, pos)
	}
	sels := constsOfType(c.Bcl, "bindSelector")
	if v, ok := pkgConstInt(c.Bcl, "bindAll"); ok {
		sels = append(sels, namedConst{Name: "bindAll", Val: v})
	}
	tgts := constsOfType(c.Bcl, "bindTarget")
	val := func(cs []namedConst, name string) int64 {
		for _, k := range cs {
			if k.Name == name {
				return k.Val
			}
		}
		return -1
	}
	// expected table
	want := map[string]string{}
	selWords := map[string]string{"": "One"}
	for w, k := range spec.BindSel {
		selWords[w] = k
	}
	for sw, sk := range selWords {
		for tw, tk := range spec.BindTgt {
			if sk == "All" && tk != "Slice" {
				continue
			}
			key := tw
			if sw != "" {
				key = sw + "," + tw
			}
			want[key] = fmt.Sprint(val(tgts, "bind"+tk)&0xF0 | val(sels, "bind"+sk)&0x0F)
		}
	}
	got := map[string]string{}
	for _, o := range e.Outcomes {
		if o.LastOp != "opBIND" {
			continue
		}
		adv := 0
		for _, t := range o.Trace {
			if t == "adv" {
				adv++
			}
		}
		nWords := 0
		if o.Words != "" {
			nWords = strings.Count(o.Words, ",") + 1
		}
		// bind TYPE [: SEL] -> TARGET: 4 tokens with one word known (the target), 6 with two
		if !((adv == 4 && nWords == 1) || (adv == 6 && nWords == 2)) {
			r.bad(rule, "unknown-words", fmt.Sprintf("a diagnostic-free path compiles a bind statement of %d tokens knowing only the words [%s]: an undocumented selector or target word is accepted", adv, o.Words), pos)
			continue
		}
		if prev, dup := got[o.Words]; dup && prev != o.BindByte {
			got[o.Words] = prev + "|" + o.BindByte
		} else {
			got[o.Words] = o.BindByte
		}
	}
	for _, key := range sortedKeys(want) {
		kind := "target/" + key
		if strings.Contains(key, ",") {
			kind = "selector+target/" + key
		}
		r.check(got[key] == want[key], rule, kind, "option byte "+want[key], fmt.Sprintf("bind words [%s] compile to option byte %q, documented %s (target | selector)", key, got[key], want[key]), pos)
	}
	for _, key := range sortedKeys(got) {
		if _, ok := want[key]; !ok {
			r.bad(rule, "word/"+key, fmt.Sprintf("undocumented bind words [%s] are accepted (option byte %s)", key, got[key]), pos)
		}
	}
}

func checkC04(c *Ctx, r *Report) {
	spec, err := loadLangSpec()
	if err != nil {
		r.bad("spec", "language.json", err.Error(), "")
		return
	}
	ruleNibbles(c, r, "nibbles")
	ruleBindEmission(c, r, "bind-emission")
	r.rule("operand-emission", 6, "the emission primitives write what the VM decodes: emitOp one opcode byte, emitUvarint exactly the bytes uvarintToBytes produced for the operand (a slot, a constant index, a count), emitBytes each byte once: an operand emitted in another form names another slot or constant")
	checkEmitPrimitives(c, r, "operand-emission")
	// what BIND selects from: the result list holds completed toplevel blocks only, in definition order
	ruleEndBlock(c, r, "candidates-completed")
	vm, err := c.vmModel()
	if err != nil {
		r.bad("vm", "model", err.Error(), "")
		return
	}
	bp, why := c.bindParts(vm)
	// the arm partially evaluated per option byte and candidate count: decides on its own when it can follow the
	// arm; when it cannot, the syntactic rules below decide (and the reverse)
	usable, whyModel := ruleBindTable(c, r, "bind-table", vm, spec, true)
	if usable {
		// decided by the model; the syntactic rules are the fallback for an arm the model cannot follow
	} else if why != "" {
		r.undecided("bind-arm", "BIND", "the BIND arm is not in the shape the checker understands: "+why+"; "+whyModel, "")
	} else {
		ruleBindFilter(c, r, "filter", bp)
		ruleCountGuards(c, r, "count-guards", bp)
		ruleSelectionTable(c, r, "selection-table", bp)
		// warning iff a binding exists, without returning
		r.rule("warn", 1, "a BIND executed when a binding already exists writes a warning and continues")
		okWarn := false
		if bp.warnIf != nil {
			be := stripParens(bp.warnIf.Cond).(*ast.BinaryExpr)
			isNil := false
			if id, ok := stripParens(be.Y).(*ast.Ident); ok && id.Name == "nil" {
				isNil = true
			}
			calls, rets := 0, 0
			for _, s := range bp.warnIf.Body.List {
				if es, ok := s.(*ast.ExprStmt); ok {
					if call, ok := es.X.(*ast.CallExpr); ok && c.calleeName(call) == "vm.warning" {
						calls++
					}
				}
				if _, ok := s.(*ast.ReturnStmt); ok {
					rets++
				}
			}
			okWarn = be.Op == token.NEQ && isNil && calls == 1 && rets == 0 && bp.stmtsPos[bp.warnIf] < bp.stmtsPos[bp.table]
		}
		r.check(okWarn, "warn", "BIND", "if vm.binding != nil { vm.warning(...) } and go on", "a repeated bind must warn (vm.warning) when vm.binding != nil and must not return", c.pos(bp.clause.Pos()))
	}
	ruleBindParse(c, r, "parse-table", spec)
	ruleResultAppendOnly(c, r, "result-append-only")
	r.rule("binding-writers", 1, "vm.binding is assigned only in the BIND arm")
	c.ownership(r, "binding-writers", "vm", "binding", map[string]string{"vm.run": "the BIND arm", "execute": "returned"}, true)
	ruleVMEffect(c, r, "vm-effect", true)
	r.note("which blocks a particular program binds (depends on run-time block lists); only the selection machinery is decided")
}

// filterLoop abstracts `for _, b := range xs` and `for i := 0; i < len(xs); i++` (element xs[i]).
type filterLoop struct {
	Stmt   ast.Stmt
	Body   *ast.BlockStmt
	ElemIs func(e ast.Expr) bool
	IdxIs  func(e ast.Expr) bool // e is the position (byte index for strings) of the current element
	// Implied: the loop visits, in ascending order, exactly the positions holding this constant (a search-and-hop
	// scan: i := IndexByte(src[off:], C); if i < 0 { break }; …; off += i+1); Action is the body between the
	// break guard and the hop
	Implied *int64
	Action  []ast.Stmt
	pos     *Lin // hop scan: the position as a linear form
}

func (fl *filterLoop) posEquals(c *Ctx, l *Lin) bool { return fl.pos != nil && l.equal(fl.pos) }

// linOfExpr renders an integer expression over identifiers as a linear form (symbols are the objects).
func (c *Ctx) linOfExpr(e ast.Expr) (*Lin, bool) {
	e = c.stripConv(e)
	if k, ok := c.intConst(e); ok {
		return linConst(k), true
	}
	switch e := e.(type) {
	case *ast.Ident:
		if obj := c.objOf(e); obj != nil {
			return linSym(fmt.Sprintf("%s@%d", obj.Name(), obj.Pos())), true
		}
	case *ast.BinaryExpr:
		if e.Op == token.ADD || e.Op == token.SUB {
			a, ok1 := c.linOfExpr(e.X)
			b, ok2 := c.linOfExpr(e.Y)
			if ok1 && ok2 {
				if e.Op == token.ADD {
					return a.add(b), true
				}
				return a.sub(b), true
			}
		}
	}
	return nil, false
}

func (c *Ctx) symOfObj(obj types.Object) *Lin {
	return linSym(fmt.Sprintf("%s@%d", obj.Name(), obj.Pos()))
}

func (c *Ctx) asFilterLoop(s ast.Stmt, isSource func(ast.Expr) bool) *filterLoop {
	switch s := s.(type) {
	case *ast.RangeStmt:
		if !isSource(s.X) {
			return nil
		}
		var vobj, kobj types.Object
		if id, ok := s.Value.(*ast.Ident); ok && s.Value != nil && id.Name != "_" {
			vobj = c.objOf(id)
		}
		if id, ok := s.Key.(*ast.Ident); ok && s.Key != nil && id.Name != "_" {
			kobj = c.objOf(id)
		}
		src := s.X
		return &filterLoop{Stmt: s, Body: s.Body, IdxIs: func(e ast.Expr) bool { return kobj != nil && c.isObj(e, kobj) }, ElemIs: func(e ast.Expr) bool {
			e = stripParens(e)
			if vobj != nil && c.isObj(e, vobj) {
				return true
			}
			if ix, ok := e.(*ast.IndexExpr); ok && kobj != nil && c.isObj(ix.Index, kobj) && c.sameExpr(ix.X, src) {
				return true
			}
			return false
		}}
	case *ast.ForStmt:
		// for i := 0; i < len(xs); i++
		init, ok := s.Init.(*ast.AssignStmt)
		if !ok || len(init.Lhs) != 1 || len(init.Rhs) != 1 {
			return nil
		}
		if k, isC := c.intConst(init.Rhs[0]); !isC || k != 0 {
			return nil
		}
		iv := c.objOf(init.Lhs[0].(*ast.Ident))
		if s.Post == nil {
			return c.asHopScan(s, iv, isSource)
		}
		post, ok := s.Post.(*ast.IncDecStmt)
		if !ok || post.Tok != token.INC || !c.isObj(post.X, iv) {
			return nil
		}
		cond, ok := stripParens(s.Cond).(*ast.BinaryExpr)
		if !ok || cond.Op != token.LSS || !c.isObj(cond.X, iv) {
			return nil
		}
		call, ok := stripParens(cond.Y).(*ast.CallExpr)
		if !ok || c.calleeName(call) != "len" || len(call.Args) != 1 || !isSource(call.Args[0]) {
			return nil
		}
		if c.assignedIn(s.Body, iv) {
			return nil
		}
		src := call.Args[0]
		return &filterLoop{Stmt: s, Body: s.Body, IdxIs: func(e ast.Expr) bool { return c.isObj(e, iv) }, ElemIs: func(e ast.Expr) bool {
			ix, ok := stripParens(e).(*ast.IndexExpr)
			return ok && c.isObj(ix.Index, iv) && c.sameExpr(ix.X, src)
		}}
	}
	return nil
}

// ruleBindEmission: a bind statement compiles to exactly one BIND instruction
// (opcode, type constant, option byte) and touches no other code: every bind
// statement of the source is executed, so each one's runtime errors and the
// "last one wins" order are the VM's to decide.
func ruleBindEmission(c *Ctx, r *Report, rule string) {
	r.rule(rule, 1, "on every diagnostic-free path a bind statement emits exactly [BIND, type-constant operand, option byte] through the emission primitives and writes nothing else into the code (no earlier instruction is patched, dropped or replaced)")
	m, err := c.emitModel()
	if err != nil {
		r.bad(rule, "model", err.Error(), "")
		return
	}
	e := m.Entries["decl"]
	if e == nil {
		r.bad(rule, "decl", "no analysis entry for decl", "")
		return
	}
	pos := ""
	if e.Decl != nil {
		pos = c.pos(e.Decl.Pos())
	}
	n := 0
	for _, o := range e.Outcomes {
		isBind := false
		for _, t := range o.Trace {
			if t == "BIND" {
				isBind = true
			}
		}
		if !isBind {
			continue
		}
		n++
		var ops []string
		for _, t := range o.Trace {
			if t != "adv" && t != "semi" && t != "loop{" && t != "}" {
				ops = append(ops, t)
			}
		}
		key := fmt.Sprintf("bind-statement#%d", n)
		switch {
		case len(o.Problems) > 0:
			r.bad(rule, key, "compiling a bind statement "+strings.Join(o.Problems, "; "), pos)
		case strings.Join(ops, " ") != "BIND v B":
			r.bad(rule, key, fmt.Sprintf("a bind statement emits [%s]; it must emit exactly [BIND v B]", strings.Join(ops, " ")), pos)
		default:
			r.ok(rule, key, "emits BIND v B, nothing else")
		}
	}
	if n == 0 {
		r.bad(rule, "bind-statement", "no diagnostic-free path of decl() emits BIND", pos)
	}
	// nobody but the emission primitives writes code bytes (so no statement can erase or rewrite an earlier BIND)
	c.ownership(r, rule, "Prog", "code", progOwners["code"], true)
}

// asHopScan: for off := 0; [off < len(src)]; { i := strings.IndexByte(src[off:], C); if i < 0 { break }; <action>; off += i + 1 }
func (c *Ctx) asHopScan(s *ast.ForStmt, off types.Object, isSource func(ast.Expr) bool) *filterLoop {
	if s.Cond != nil {
		cond, ok := stripParens(s.Cond).(*ast.BinaryExpr)
		if !ok || cond.Op != token.LSS || !c.isObj(cond.X, off) {
			return nil
		}
		call, ok := stripParens(cond.Y).(*ast.CallExpr)
		if !ok || c.calleeName(call) != "len" || len(call.Args) != 1 || !isSource(call.Args[0]) {
			return nil
		}
	}
	list := s.Body.List
	if len(list) < 3 {
		return nil
	}
	// i := strings.IndexByte(src[off:], C)
	def, ok := list[0].(*ast.AssignStmt)
	if !ok || len(def.Lhs) != 1 || len(def.Rhs) != 1 {
		return nil
	}
	call, ok := def.Rhs[0].(*ast.CallExpr)
	if !ok || len(call.Args) != 2 {
		return nil
	}
	switch c.calleeName(call) {
	case "strings.IndexByte", "strings.IndexRune", "bytes.IndexByte":
	default:
		return nil
	}
	se, ok := stripParens(call.Args[0]).(*ast.SliceExpr)
	if !ok || !isSource(se.X) || se.High != nil || se.Low == nil || !c.isObj(se.Low, off) {
		return nil
	}
	k, isK := c.intConst(call.Args[1])
	if !isK || k < 0 || k >= 0x80 {
		return nil // a single byte below 0x80 is found at character boundaries only
	}
	iObj := c.objOf(def.Lhs[0])
	// if i < 0 { break }
	guard, ok := list[1].(*ast.IfStmt)
	if !ok || guard.Else != nil || guard.Init != nil || len(guard.Body.List) != 1 {
		return nil
	}
	if br, isBr := guard.Body.List[0].(*ast.BranchStmt); !isBr || br.Tok != token.BREAK || br.Label != nil {
		if _, isRet := guard.Body.List[0].(*ast.ReturnStmt); !isRet {
			return nil
		}
	}
	b, isB := c.boundOf(condAtom{E: stripParens(guard.Cond), Pos: true})
	if !isB || !c.isObj(b.X, iObj) || b.Hi == nil || *b.Hi != -1 || b.Lo != nil {
		return nil
	}
	// off += i + 1 (or off = off + i + 1) as the last statement
	hop, ok := list[len(list)-1].(*ast.AssignStmt)
	if !ok || len(hop.Lhs) != 1 || len(hop.Rhs) != 1 || !c.isObj(hop.Lhs[0], off) {
		return nil
	}
	step, okL := c.linOfExpr(hop.Rhs[0])
	if !okL {
		return nil
	}
	want := c.symOfObj(iObj).add(linConst(1))
	switch hop.Tok {
	case token.ADD_ASSIGN:
	case token.ASSIGN:
		want = want.add(c.symOfObj(off))
	default:
		return nil
	}
	if !step.equal(want) {
		return nil
	}
	action := list[2 : len(list)-1]
	for _, a := range action {
		if c.assignedIn(a, off) || c.assignedIn(a, iObj) {
			return nil
		}
	}
	pos := c.symOfObj(off).add(c.symOfObj(iObj))
	return &filterLoop{Stmt: s, Body: s.Body, Implied: &k, Action: action, pos: pos,
		IdxIs: func(e ast.Expr) bool {
			l, ok := c.linOfExpr(e)
			return ok && l.equal(pos)
		},
		ElemIs: func(e ast.Expr) bool { return false },
	}
}
