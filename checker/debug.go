package main

import (
	"fmt"
	"go/constant"
	"sort"
	"strings"
)

func init() { register("DBGVM", "other", dbgVM); register("DBGEM", "other", dbgEM) }

func dbgEM(c *Ctx, r *Report) {
	m, err := c.emitModel()
	if err != nil {
		fmt.Println("ERR", err)
		return
	}
	fmt.Println("missing", m.Missing)
	for _, k := range m.order {
		e := m.Entries[k]
		fmt.Printf("== %s: %d outcomes, undecided %v\n", k, len(e.Outcomes), e.Undecided)
		for _, o := range e.Outcomes {
			fmt.Printf("   d%s L%s B%+d need=%d jumps=%d scopes=%d dead=%v pend=%s last=%s trace=%v ev=%v words=%q\n", signed(o.D), signed(o.L), o.B, o.Need, o.Jumps, o.Scopes, o.Dead, o.Pending, o.LastOp, o.Trace, o.Events, o.Words)
			for _, p := range o.Problems {
				fmt.Println("      PROBLEM", p)
			}
		}
	}
	var ops []string
	for o := range m.Emitted {
		ops = append(ops, o)
	}
	sort.Strings(ops)
	fmt.Println("emitted", len(ops), ops)
	seen := map[string]bool{}
	for _, o := range m.Operands {
		k := fmt.Sprintf("%s#%d %s <- %s", o.Op, o.Index, o.Kind, o.Prov)
		if !seen[k] {
			seen[k] = true
			fmt.Println("  operand", k)
		}
	}
	r.ok("dbg", "x", "")
}

func dbgVM(c *Ctx, r *Report) {
	m, err := c.vmModel()
	if err != nil {
		fmt.Println("ERR", err)
		return
	}
	fmt.Println("func", m.FuncName, "closures", len(m.Closures), "unhandled", m.Unhandled, "default", m.Default)
	for _, u := range m.Undecided {
		fmt.Println("UNDECIDED", u)
	}
	var names []string
	for n := range m.Arms {
		names = append(names, n)
	}
	sort.Slice(names, func(i, j int) bool { return m.Arms[names[i]].Val < m.Arms[names[j]].Val })
	for _, n := range names {
		a := m.Arms[n]
		s := a.summary()
		fmt.Printf("%-10s shape=%-3q Δ=%-3s need=%d sym=%v peak=%d normal=%d aborts=%d ends=%d ok=%v %s\n", n, s.Shape, s.Delta, s.Need, s.NeedSym, s.Peak, s.Normal, s.Aborts, s.Ends, s.OK, s.Why)
		if len(a.Paths) <= 3 {
			for _, p := range a.Paths {
				for _, e := range p.Events {
					fmt.Printf("      %s %s val=%s\n", e.Kind, e.Detail, e.Val)
				}
			}
		}
	}
	r.ok("dbg", "x", "")
}

func init() { register("DBGARM", "other", dbgArm) }

func dbgArm(c *Ctx, r *Report) {
	m, _ := c.vmModel()
	for _, n := range []string{"opDEFBLOCK", "opENDBLOCK", "opGETFIELD"} {
		a := m.Arms[n]
		for i, p := range a.Paths {
			fmt.Printf("%s path %d abort=%v\n", n, i, p.Abort)
			for _, e := range p.Events {
				fmt.Printf("      %s %s val=%s paths=%v\n", e.Kind, e.Detail, e.Val, e.Paths)
			}
		}
	}
	a := m.Arms["opBIND"]
	seen := map[string]bool{}
	for _, p := range a.Paths {
		var ss []string
		for _, e := range p.Events {
			if e.Kind == "store" || (e.Kind == "if" && !strings.HasPrefix(e.Detail, "?")) {
				ss = append(ss, e.Kind+" "+e.Detail+" "+e.Val.String())
			}
		}
		k := fmt.Sprint(p.Abort, ss)
		if !seen[k] && len(seen) < 40 {
			seen[k] = true
			fmt.Println("BIND", k)
		}
	}
	r.ok("dbg", "x", "")
}

func init() { register("DBGADD", "other", dbgAdd) }

func dbgAdd(c *Ctx, r *Report) {
	m, _ := c.vmModel()
	seen := map[string]bool{}
	for _, n := range []string{"opADD", "opMUL", "opEQ", "opLT"} {
		for _, p := range m.Arms[n].Paths {
			if p.Abort {
				continue
			}
			var ss []string
			for _, e := range p.Events {
				if e.Kind == "call" && !strings.HasPrefix(e.Detail, "printStack") && !strings.HasPrefix(e.Detail, "Prog.disasm") && !strings.HasPrefix(e.Detail, "is") {
					ss = append(ss, e.Detail)
				}
				if e.Kind == "if" && strings.HasSuffix(e.Detail, "=true") && !strings.HasPrefix(e.Detail, "?") {
					ss = append(ss, "IF "+e.Detail)
				}
				if e.Kind == "stk:w" {
					ss = append(ss, "W "+e.Detail+" "+e.Val.String())
				}
			}
			k := n + " " + strings.Join(ss, " ; ")
			if !seen[k] {
				seen[k] = true
				fmt.Println(k)
			}
		}
	}
	r.ok("dbg", "x", "")
}

func init() { register("DBGNEXT", "other", dbgNext) }

func dbgNext(c *Ctx, r *Report) {
	m, err := c.nextModel()
	if err != nil {
		fmt.Println("ERR", err)
		return
	}
	fmt.Println("loop", m.HasLoop, "undecided", m.Undecided)
	show := func(tag string, ps []nextPay) {
		for i, p := range ps {
			fmt.Printf("%s %d: pos=%s start=%s shift=%s len=%s kept=%v toEnd=%v app=%v recv=%v closed=%v doneSet=%q doneKnown=%q full=%q fullSlice=%s lp=%v/%v#%d decoded=%v(%s) left=%q problems=%v\n", tag, i, p.pos, p.start, p.shift, p.length, p.keptFrom, p.keptToEnd, p.appended, p.received, p.closed, p.doneSet, p.doneKnown, p.fullKnown, p.fullSlice, p.lpChunk, p.lpOff, p.lpCalls, p.decoded, p.decodeSlice, p.leftLoop, p.problems)
		}
	}
	show("iter", m.Iter)
	show("final", m.Final)
	r.ok("dbg", "x", "")
}

func init() { register("DBGLEX", "other", dbgLex) }

func dbgLex(c *Ctx, r *Report) {
	sf := c.stateFuncs()
	for _, name := range sortedKeys(sf) {
		m := c.lexStateModel(sf[name])
		fmt.Printf("== %s: %d paths, undecided %v\n", name, len(m.Paths), m.Undecided)
		for _, p := range m.Paths {
			fmt.Printf("   %s -> %s\n", strings.Join(p.Log, " "), p.Ret)
		}
	}
	r.ok("dbg", "x", "")
}

func init() { register("DBGSER", "other", dbgSER) }

func dbgSER(c *Ctx, r *Report) {
	_, dfd := c.find("Prog.Dump")
	_, lfd := c.find("Prog.Load")
	if dfd == nil || lfd == nil {
		fmt.Println("no Dump/Load")
		return
	}
	d, dp := c.dumpEvents(dfd)
	fmt.Println("DUMP ", seqString(d))
	for _, p := range dp {
		fmt.Println("   PROBLEM", p)
	}
	d2, _ := c.dumpEventsAST(dfd)
	fmt.Println("DUMP0", seqString(d2))
	l, lp := c.loadEvents(lfd)
	fmt.Println("LOAD ", seqString(l))
	for _, p := range lp {
		fmt.Println("   PROBLEM", p)
	}
	l2, _ := c.loadEventsAST(lfd)
	fmt.Println("LOAD0", seqString(l2))
	m := c.serModelOf(lfd, true)
	for _, g := range m.Good {
		for _, d := range g.Decisions {
			fmt.Printf("   good decision %s %v hdr=%q nev=%d\n", d.Cond, d.Taken, d.Header, d.NEv)
		}
	}
	for _, b := range m.Bad {
		d := m.rejecting(b)
		if d == nil {
			fmt.Println("   BAD path without a rejecting decision", b.Result)
			continue
		}
		fmt.Printf("   bad path: %s on %s %v hdr=%q\n", b.Result, d.Cond, d.Taken, d.Header)
	}
	fs, und := c.readFailures(lfd)
	for _, u := range und {
		fmt.Println("   UNDECIDED", u)
	}
	for _, f := range fs {
		fmt.Printf("   fail read at %s: %d paths, nil=%v other=%v\n", f.At, f.Paths, f.Nil, f.Other)
	}
	for _, n := range []string{"uvarintFromBuf", "valueFromBuf", "bytesFromBuf"} {
		_, hd := c.find(n)
		if hd == nil {
			continue
		}
		fs, und := c.readFailures(hd)
		for _, u := range und {
			fmt.Println("   UNDECIDED", n, u)
		}
		for _, f := range fs {
			fmt.Printf("   %s fail read at %s: %d paths, nil=%v other=%v\n", n, f.At, f.Paths, f.Nil, f.Other)
		}
	}
	r.ok("dbg", "x", "")
}

func init() { register("DBGREFL", "other", dbgREFL) }

func dbgREFL(c *Ctx, r *Report) {
	for _, which := range []string{"copyBlocks", "copyBlock"} {
		m := c.reflModelOf(which)
		fmt.Printf("== %s: %d paths, undecided %v\n", which, len(m.Paths), m.Undecided)
		for i, p := range m.Paths {
			var ev []string
			for _, e := range p.Events {
				ok := "ok"
				if !e.OK {
					ok = "BAD"
				}
				ev = append(ev, fmt.Sprintf("%s:%s", e.Op, ok))
			}
			fmt.Printf(" path %d ret=%s events=%v\n", i, p.Ret, ev)
			for _, s := range p.Setters {
				fmt.Printf("    setter key=%s x=%s lookups=%v field=%s result=%s\n", s.Key, s.X, s.Lookups, s.Field, s.Result)
			}
			var fs []string
			for k, v := range p.Facts {
				fs = append(fs, fmt.Sprintf("%s=%v", k, v))
			}
			sort.Strings(fs)
			fmt.Printf("    facts %v\n    failures %v pending %v stores %v marks %v problems %v nilAt %d\n", fs, p.Failures, p.Pending, p.TableStores, p.BodyMarks, p.Problems, p.NilBindingAt)
		}
	}
	r.ok("dbg", "x", "")
}

func init() { register("DBGCLI", "other", dbgCLI) }

func dbgCLI(c *Ctx, r *Report) {
	_, fd := c.findIn(c.Cmd, "parseArgs")
	if fd == nil {
		fmt.Println("no parseArgs")
		return
	}
	for _, w := range []string{"-d", "--disasm", "-t", "--stats", "--bdump", "--bdump=F", "--bdumpx", "--bload=G", "-h", "--", "-dt", "-d1", "-x", "--zzz", "-", "file.bcl", ""} {
		outs, und := c.argsOutcomes(fd, w)
		fmt.Printf("%-10q", w)
		for _, o := range outs {
			fmt.Printf(" | %s", o)
		}
		if len(und) > 0 {
			fmt.Printf(" UNDECIDED %v", und)
		}
		fmt.Println()
	}
	show := func(title string, outs []argOutcome, und []string) {
		fmt.Println(title)
		for _, o := range outs {
			var vs []string
			for k, v := range o.Vals {
				vs = append(vs, k+"="+v.String())
			}
			sort.Strings(vs)
			var rs []string
			for _, v := range o.Ret {
				rs = append(rs, v.String())
			}
			fmt.Printf("   %s vals=%v events=%v ret=%v\n", o.Result, vs, o.Events, rs)
		}
		if len(und) > 0 {
			fmt.Println("   UNDECIDED", und)
		}
	}
	o1, u1 := c.argsTail(fd, nil, nil)
	show("tail rest=[] no flags", o1, u1)
	o2, u2 := c.argsTail(fd, []string{"x.bcl"}, map[string]Value{"bdump": constV(constant.MakeBool(true))})
	show("tail rest=[x.bcl] --bdump", o2, u2)
	o3, u3 := c.argsTail(fd, []string{"a", "b"}, nil)
	show("tail rest=[a b]", o3, u3)
	if _, od := c.findIn(c.Cmd, "open"); od != nil {
		o, u := c.cliInterp(od, cliOpts{args: []Value{constV(constant.MakeString("-"))}, fields: map[string]Value{"file": constV(constant.MakeString("-"))}, zero: true})
		show("open file=-", o, u)
	}
	if _, md := c.findIn(c.Cmd, "main"); md != nil {
		o, u := c.cliInterp(md, cliOpts{calls: map[string]Value{"cmd.parseArgs": {K: vTuple, Tup: []Value{tagV("pa", nil), tagV("errv", "usage")}}}})
		show("main: parseArgs fails", o, u)
		o, u = c.cliInterp(md, cliOpts{calls: map[string]Value{"cmd.parseArgs": {K: vTuple, Tup: []Value{tagV("pa", nil), tagV("nil", nil)}}, "cmd.run": tagV("errv", "run")}, fields: map[string]Value{"help": tagV("nil", nil)}})
		show("main: run fails", o, u)
		o, u = c.cliInterp(md, cliOpts{calls: map[string]Value{"cmd.parseArgs": {K: vTuple, Tup: []Value{tagV("pa", nil), tagV("nil", nil)}}, "cmd.run": tagV("nil", nil)}, fields: map[string]Value{"help": tagV("helpfn", nil)}})
		show("main: help", o, u)
	}
	r.ok("dbg", "x", "")
}

func init() { register("DBGBIND", "other", dbgBind) }

func dbgBind(c *Ctx, r *Report) {
	vm, err := c.vmModel()
	if err != nil {
		fmt.Println("ERR", err)
		return
	}
	m, err := c.bindModel(vm, []int64{0x11, 0x12, 0x13, 0x1f, 0x21, 0x22, 0x23, 0x2f, 0x10, 0x01, 0x31, 0x14})
	if err != nil {
		fmt.Println("ERR", err)
		return
	}
	for _, cell := range m.Cells {
		fmt.Printf("opt=%#x n=%s old=%q -> binding=%q err=%q warned=%v %v\n", cell.Opt, cell.NClass, cell.HadOld, cell.Binding, cell.Err, cell.Warned, cell.Problems)
	}
	fmt.Println("undecided", m.Undecided)
	r.rule("dbg", 0, "debug")
}

func init() { register("DBGDIS", "other", dbgDis) }

func dbgDis(c *Ctx, r *Report) {
	m, err := c.disModel()
	if err != nil {
		fmt.Println("ERR", err)
		return
	}
	for name, a := range m.Arms {
		fmt.Printf("%s ok=%v shape=%q why=%s\n", name, a.OK, a.Shape, a.Why)
	}
	fmt.Println("undecided", m.Undecided)
	r.rule("dbg", 0, "debug")
}
