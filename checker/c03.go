package main

import (
	"fmt"
	"go/ast"
	"go/token"
	"go/types"
	"strings"
)

func init() { register("C03", "other", checkC03) }

// parentOf builds a child->parent map for the subtree.
func parentMap(root ast.Node) map[ast.Node]ast.Node {
	m := map[ast.Node]ast.Node{}
	var stack []ast.Node
	ast.Inspect(root, func(n ast.Node) bool {
		if n == nil {
			stack = stack[:len(stack)-1]
			return true
		}
		if len(stack) > 0 {
			m[n] = stack[len(stack)-1]
		}
		stack = append(stack, n)
		return true
	})
	return m
}

// ruleResultAppendOnly: every use of vm.result is the single append, a
// range, len(), or a plain read for returning it.
func ruleResultAppendOnly(c *Ctx, r *Report, rule string) {
	r.rule(rule, 3, "vm.result is only ever appended to (one site: a toplevel block closing), ranged over, measured or returned: completed blocks are never replaced, removed, reordered or aliased by a scratch slice")
	appends := 0
	for _, f := range c.Bcl.Syntax {
		for _, d := range f.Decls {
			fd, ok := d.(*ast.FuncDecl)
			if !ok || fd.Body == nil {
				continue
			}
			pm := parentMap(fd.Body)
			ast.Inspect(fd.Body, func(n ast.Node) bool {
				sel, ok := n.(*ast.SelectorExpr)
				if !ok || c.fieldPath(sel) != "<vm>.result" {
					return true
				}
				fn := funcName(c.Bcl.TypesInfo.Defs[fd.Name].(*types.Func))
				par := pm[sel]
				key := fmt.Sprintf("%s/%T", fn, par)
				switch p := par.(type) {
				case *ast.CallExpr:
					name := c.calleeName(p)
					switch {
					case name == "append" && len(p.Args) >= 1 && p.Args[0] == ast.Expr(sel):
						// must be vm.result = append(vm.result, x)
						as, isA := pm[p].(*ast.AssignStmt)
						if isA && len(as.Lhs) == 1 && c.fieldPath(as.Lhs[0]) == "<vm>.result" && !p.Ellipsis.IsValid() {
							appends++
							r.ok(rule, fn+"/append", "vm.result = append(vm.result, block)")
						} else {
							r.bad(rule, fn+"/append", "vm.result is appended into something other than itself", c.pos(p.Pos()))
						}
					case name == "len":
						r.ok(rule, fn+"/len", "length read")
					default:
						if c.paramReadOnly(p, sel) {
							r.ok(rule, fn+"/passed-readonly/"+name, "handed to "+name+", which only ranges over / measures / reads it")
						} else {
							r.bad(rule, key+"/"+name, "vm.result is handed to "+name+" (it may be modified, re-sliced or aliased)", c.pos(sel.Pos()))
						}
					}
				case *ast.RangeStmt:
					if p.X == ast.Expr(sel) {
						r.ok(rule, fn+"/range", "ranged over")
					}
				case *ast.ReturnStmt:
					r.ok(rule, fn+"/return", "returned")
				case *ast.AssignStmt:
					isLhs := false
					for _, l := range p.Lhs {
						if l == ast.Expr(sel) {
							isLhs = true
						}
					}
					if isLhs {
						// only the append form is allowed
						okForm := false
						if len(p.Rhs) == 1 {
							if call, ok := p.Rhs[0].(*ast.CallExpr); ok && c.calleeName(call) == "append" && len(call.Args) >= 1 && c.fieldPath(call.Args[0]) == "<vm>.result" {
								okForm = true
							}
						}
						if !okForm {
							r.bad(rule, fn+"/assign", "vm.result is assigned something other than append(vm.result, ...)", c.pos(p.Pos()))
						}
					} else {
						r.bad(rule, fn+"/alias", "vm.result is copied into another variable (aliasing the result list)", c.pos(p.Pos()))
					}
				case *ast.IndexExpr:
					// vm.result[i] read as a value is harmless; stored to, or its address taken, is not
					written := false
					var cur ast.Node = p
					for up := pm[cur]; up != nil; cur, up = up, pm[up] {
						switch u := up.(type) {
						case *ast.SelectorExpr, *ast.ParenExpr:
							continue
						case *ast.AssignStmt:
							for _, l := range u.Lhs {
								if l == cur.(ast.Expr) {
									written = true
								}
							}
						case *ast.IncDecStmt:
							written = true
						case *ast.UnaryExpr:
							if u.Op == token.AND {
								written = true
							}
						}
						break
					}
					if written {
						r.bad(rule, key, "an element of vm.result is stored to or has its address taken: completed blocks may be replaced", c.pos(sel.Pos()))
					} else {
						r.ok(rule, fn+"/index-read", "element read by value")
					}
				case *ast.SliceExpr:
					r.bad(rule, key, "vm.result is sliced: the list may be aliased", c.pos(sel.Pos()))
				default:
					r.bad(rule, key, fmt.Sprintf("unexpected use of vm.result (%T)", par), c.pos(sel.Pos()))
				}
				return true
			})
		}
	}
	r.check(appends == 1, rule, "single-append", "exactly one append site", fmt.Sprintf("%d append sites for vm.result, expected exactly one", appends), "")
}

func ruleEndBlock(c *Ctx, r *Report, rule string) {
	r.rule(rule, 4, "ENDBLOCK: a nested block is stored by value in its parent's Fields under child.key(), only after a lookup of that key in that map missed (a hit is a runtime error); a toplevel block (index 0) is appended to the result; the block stack shrinks by one")
	vm, err := c.vmModel()
	if err != nil {
		r.bad(rule, "vm", err.Error(), "")
		return
	}
	arm := vm.Arms["opENDBLOCK"]
	if arm == nil {
		r.bad(rule, "ENDBLOCK", "no VM arm", "")
		return
	}
	pos := c.pos(arm.Clause.Pos())
	nested, top, dupErr := 0, 0, 0
	bad := ""
	for _, p := range arm.Paths {
		if d, ok := p.BlkDelta.isConst(); !ok || d != -1 {
			if !p.Abort {
				bad = "a path does not pop exactly one block"
			}
		}
		var ifs []string
		var mapw *vmEvent
		var app *vmEvent
		for i := range p.Events {
			ev := &p.Events[i]
			switch ev.Kind {
			case "if":
				ifs = append(ifs, ev.Detail)
			case "mapw":
				mapw = ev
			case "append":
				app = ev
			}
		}
		missed := false
		hit := false
		for _, d := range ifs {
			if d == "ok(lookup(Fields of blk(-2)[callres(Block.key(recv=blk(-1)))]))=false" {
				missed = true
			}
			if d == "ok(lookup(Fields of blk(-2)[callres(Block.key(recv=blk(-1)))]))=true" {
				hit = true
			}
		}
		switch {
		case mapw != nil:
			nested++
			if mapw.Detail != "Fields of blk(-2)" || mapw.Callee != "callres(Block.key(recv=blk(-1)))" {
				bad = fmt.Sprintf("the child is stored into %s under key %s; must be the parent's Fields under child.key()", mapw.Detail, mapw.Callee)
			}
			if !missed || hit {
				bad = fmt.Sprintf("the parent's Fields are updated on a path where the duplicate lookup did not miss (decisions %v)", ifs)
			}
		case app != nil:
			top++
			if app.Detail != "result" || len(app.Val.Tup) != 1 && app.Val.K != vTag {
				bad = "unexpected append target"
			}
		case p.Abort && hit:
			dupErr++
		case p.Abort:
			// the only reason for ENDBLOCK to fail is the duplicate child key; in particular a toplevel
			// block is always appended to the result
			bad = fmt.Sprintf("ENDBLOCK has a failing path that is not the duplicate-child-key error (decisions %v): a block the source defines would be refused", ifs)
		default:
			bad = "a continuing path neither stores the block in its parent nor appends it to the result"
		}
	}
	r.check(bad == "" && nested > 0, rule, "nested", "parent.Fields[child.key()] = child after a missed lookup", "ENDBLOCK: "+bad, pos)
	r.check(top > 0, rule, "toplevel", "append(result, blockStack[0])", "ENDBLOCK has no path that appends a toplevel block to the result", pos)
	r.check(dupErr > 0, rule, "duplicate-error", "a hit in the parent's Fields is a runtime error", "ENDBLOCK has no error path for a duplicate child key", pos)
	// the stored value is the child by value, the appended one is blockStack[0]
	okVal, okTop := false, false
	vm.inspectArm(c, arm, func(n ast.Node) bool {
		as, ok := n.(*ast.AssignStmt)
		if !ok || len(as.Lhs) != 1 || len(as.Rhs) != 1 {
			return true
		}
		if ix, ok := as.Lhs[0].(*ast.IndexExpr); ok && strings.HasSuffix(c.fieldPath(ix.X), ".Fields") {
			if st, ok := as.Rhs[0].(*ast.StarExpr); ok {
				if _, ok := st.X.(*ast.Ident); ok && isNamed(c.typeOf(as.Rhs[0]), bclPath, "Block") {
					okVal = true
				}
			} else if isNamed(c.typeOf(as.Rhs[0]), bclPath, "Block") {
				if _, isPtr := c.typeOf(as.Rhs[0]).(*types.Pointer); !isPtr {
					okVal = true
				}
			}
		}
		return true
	})
	// what is appended to the result is the block being closed: blockStack[0] (the arm knows the stack is at depth 1)
	// or blockStack[blockTos-1] as it was on entry
	for _, p := range arm.Paths {
		for _, ev := range p.Events {
			if ev.Kind == "append" && ev.Detail == "result" {
				v := ev.Val
				if len(v.Tup) == 1 {
					v = v.Tup[0]
				}
				if v.K == vTag && v.Tag == "blk" {
					if d, _ := v.Data.(string); d == "-1" || d == "-blockTos" {
						okTop = true
					}
				}
			}
		}
	}
	r.check(okVal && okTop, rule, "values", "child stored by value; blockStack[0] appended", fmt.Sprintf("ENDBLOCK: child stored by value %v, blockStack[0] appended %v", okVal, okTop), pos)
}

func ruleFreshBlock(c *Ctx, r *Report, rule string) {
	r.rule(rule, 2, "DEFBLOCK builds Block{Type: first operand constant, Name: second operand constant, Fields: a new empty map} at blockStack[blockTos] and then increments blockTos")
	vm, err := c.vmModel()
	if err != nil {
		r.bad(rule, "vm", err.Error(), "")
		return
	}
	arm := vm.Arms["opDEFBLOCK"]
	if arm == nil {
		r.bad(rule, "DEFBLOCK", "no VM arm", "")
		return
	}
	pos := c.pos(arm.Clause.Pos())
	okPath := false
	for _, p := range arm.Paths {
		if p.Abort {
			continue
		}
		d, isC := p.BlkDelta.isConst()
		w := false
		for _, ev := range p.Events {
			if ev.Kind == "blk:w" && ev.Detail == "blockTos+0" {
				w = true
			}
		}
		okPath = isC && d == 1 && w && p.Shape == "vv"
		if !okPath {
			break
		}
	}
	r.check(okPath, rule, "push", "blockStack[blockTos] = block; blockTos++", "DEFBLOCK must write the new block at blockStack[blockTos] and increment blockTos by one", pos)
	// the composite literal
	okLit := false
	why := "no Block literal found"
	armNodes := vm.armNodes(c, arm)
	vm.inspectArm(c, arm, func(n ast.Node) bool {
		cl, ok := n.(*ast.CompositeLit)
		if !ok || !isNamed(c.typeOf(cl), bclPath, "Block") {
			return true
		}
		fields := map[string]ast.Expr{}
		order := []string{}
		names := []string{"Type", "Name", "Fields"}
		for i, e := range cl.Elts {
			if kv, ok := e.(*ast.KeyValueExpr); ok {
				fields[kv.Key.(*ast.Ident).Name] = kv.Value
				order = append(order, kv.Key.(*ast.Ident).Name)
			} else if i < len(names) {
				fields[names[i]] = e
				order = append(order, names[i])
			}
		}
		isReadConst := func(e ast.Expr) bool {
			if e == nil {
				return false
			}
			e = vm.argExpr(c, armNodes, e)
			if ta, ok := stripParens(e).(*ast.TypeAssertExpr); ok {
				e = ta.X
			}
			call, ok := stripParens(e).(*ast.CallExpr)
			if !ok {
				return false
			}
			return vm.callRole(c, call) == "readConst"
		}
		typeFirst := false
		for _, o := range order {
			if o == "Type" {
				typeFirst = true
				break
			}
			if o == "Name" {
				break
			}
		}
		freshMap := false
		if f := fields["Fields"]; f != nil {
			switch x := stripParens(f).(type) {
			case *ast.CompositeLit:
				_, isMap := c.typeOf(x).Underlying().(*types.Map)
				freshMap = isMap && len(x.Elts) == 0
			case *ast.CallExpr:
				freshMap = c.calleeName(x) == "make"
			}
		}
		okLit = isReadConst(fields["Type"]) && isReadConst(fields["Name"]) && typeFirst && freshMap
		why = fmt.Sprintf("Type from first operand %v, Name from second operand %v (Type evaluated first %v), fresh Fields map %v", isReadConst(fields["Type"]), isReadConst(fields["Name"]), typeFirst, freshMap)
		return false
	})
	r.check(okLit, rule, "literal", "Block{Type: const#1, Name: const#2, Fields: new map}", "DEFBLOCK: "+why, pos)
}

func ruleResultOnError(c *Ctx, r *Report, rule string) {
	r.rule(rule, 3, "execute returns vm.result and vm.binding on every path, Execute forwards them with the error; Interpret* return nil results only when parsing failed")
	if _, fd := c.find("execute"); fd == nil {
		r.bad(rule, "execute", "function not found", "")
	} else {
		ok, n := true, 0
		ast.Inspect(fd.Body, func(x ast.Node) bool {
			if _, isLit := x.(*ast.FuncLit); isLit {
				return false
			}
			rs, isR := x.(*ast.ReturnStmt)
			if !isR {
				return true
			}
			n++
			if len(rs.Results) < 2 || c.fieldPath(rs.Results[0]) != "<vm>.result" || c.fieldPath(rs.Results[1]) != "<vm>.binding" {
				ok = false
			}
			return true
		})
		r.check(ok && n > 0, rule, "execute", "returns vm.result, vm.binding whatever the error", "execute must return vm.result and vm.binding on every path (also with a runtime error)", c.pos(fd.Pos()))
	}
	// Execute, Interpret and InterpretFile hand on what execute returned: on every path they return either the call
	// of a function that does, or the (blocks, binding) variables they got from such a call; "no results" is returned
	// only when a parse step failed
	for _, name := range []string{"Execute", "Interpret", "InterpretFile"} {
		_, fd := c.find(name)
		if fd == nil {
			r.bad(rule, name, "function not found", "")
			continue
		}
		ok, why := c.forwardsExec(fd, 0, map[*ast.FuncDecl]bool{})
		r.check(ok, rule, name, "forwards the blocks and the binding execute produced, whatever the error", name+" must return the blocks and binding it got from execute on every path: "+why, c.pos(fd.Pos()))
	}
}

// forwardsExec: see ruleResultOnError.
func (c *Ctx) forwardsExec(fd *ast.FuncDecl, depth int, seen map[*ast.FuncDecl]bool) (bool, string) {
	if depth > 4 || seen[fd] {
		return false, "call chain too deep"
	}
	seen[fd] = true
	defer delete(seen, fd)
	isForwarder := func(call *ast.CallExpr) bool {
		name := c.calleeName(call)
		if name == "execute" {
			return true
		}
		fn, ok := c.callee(call).(*types.Func)
		if !ok || fn.Pkg() == nil || fn.Pkg().Path() != bclPath {
			return false
		}
		hd := c.funcDecls[fn]
		if hd == nil || hd.Body == nil || hd == fd {
			return false
		}
		// a forwarder returns ([]Block, Binding, …)
		sig := fn.Type().(*types.Signature)
		if sig.Results().Len() < 2 || !isNamedSlice(sig.Results().At(0).Type(), "Block") {
			return false
		}
		ok2, _ := c.forwardsExec(hd, depth+1, seen)
		return ok2
	}
	// variables holding a forwarder's first two results, and error variables of parse steps
	var resObj, bindObj types.Object
	parseErr := map[types.Object]bool{}
	ast.Inspect(fd.Body, func(x ast.Node) bool {
		as, ok := x.(*ast.AssignStmt)
		if !ok || len(as.Rhs) != 1 {
			return true
		}
		call, ok := as.Rhs[0].(*ast.CallExpr)
		if !ok {
			return true
		}
		if len(as.Lhs) >= 2 && isForwarder(call) {
			resObj, bindObj = c.objOf(as.Lhs[0]), c.objOf(as.Lhs[1])
			return true
		}
		// a step returning (*Prog, error): parsing or loading
		if len(as.Lhs) == 2 && isNamed(c.typeOf(as.Lhs[0]), bclPath, "Prog") {
			parseErr[c.objOf(as.Lhs[1])] = true
		}
		return true
	})
	// a helper that is handed the outcome of the parse step (prog, err): its error parameter is the parse error as
	// long as nothing else is ever assigned to it
	if depth > 0 && fd.Type.Params != nil {
		hasProg := false
		var errParams []types.Object
		for _, f := range fd.Type.Params.List {
			for _, nm := range f.Names {
				o := c.objOf(nm)
				if o == nil {
					continue
				}
				if isNamed(o.Type(), bclPath, "Prog") {
					hasProg = true
				}
				if isErrorType(o.Type()) {
					errParams = append(errParams, o)
				}
			}
		}
		if hasProg {
			for _, o := range errParams {
				assigned := false
				ast.Inspect(fd.Body, func(x ast.Node) bool {
					if as, ok := x.(*ast.AssignStmt); ok {
						for _, l := range as.Lhs {
							if c.isObj(l, o) {
								assigned = true
							}
						}
					}
					return true
				})
				if !assigned {
					parseErr[o] = true
				}
			}
		}
	}
	n := 0
	okAll, why := true, ""
	ast.Inspect(fd.Body, func(x ast.Node) bool {
		if _, isLit := x.(*ast.FuncLit); isLit {
			return false
		}
		rs, isR := x.(*ast.ReturnStmt)
		if !isR {
			return true
		}
		n++
		switch {
		case len(rs.Results) == 0:
			// named results: they must be the forwarded variables
			if fd.Type.Results == nil || resObj == nil {
				okAll, why = false, "bare return without forwarded named results"
			}
		case len(rs.Results) == 1:
			call, isC := rs.Results[0].(*ast.CallExpr)
			if !isC || !isForwarder(call) {
				okAll, why = false, "returns "+types.ExprString(rs.Results[0])+", which does not forward execute's results"
			}
		default:
			if resObj != nil && c.isObj(rs.Results[0], resObj) && c.isObj(rs.Results[1], bindObj) {
				return true
			}
			// no results: only because a parse step failed
			if isNilIdent(rs.Results[0]) && isNilIdent(rs.Results[1]) {
				for _, f := range splitFacts(c.factsAt(fd.Body, rs)) {
					be, isB := stripParens(f.Cond).(*ast.BinaryExpr)
					if isB && isNilIdent(be.Y) && (be.Op == token.NEQ) == f.Pos && parseErr[c.objOf(be.X)] {
						// … and the error tested is still the parse step's: no other assignment to the variable (the
						// error of the execution, say) may reach this return
						if at := c.otherDefReaches(fd, rs, c.objOf(be.X)); at != "" {
							okAll, why = false, "returns no results under a test of an error variable that execute's error was assigned to ("+at+"): blocks completed before a runtime error are dropped"
						}
						return true
					}
				}
				okAll, why = false, "returns no results on a path where the failure is not a parse failure ("+c.pos(rs.Pos())+")"
				return true
			}
			okAll, why = false, "returns "+types.ExprString(rs.Results[0])+" instead of the blocks it got from execute ("+c.pos(rs.Pos())+")"
		}
		return true
	})
	if n == 0 {
		return false, "no return statement"
	}
	return okAll, why
}

func ruleBlockKey(c *Ctx, r *Report, rule string) {
	r.rule(rule, 3, "Block.key is Type, or Type.Name when the name is not empty; TYPE and NAME read the innermost block's type and name; the block name constant is the unquoted string")
	if _, fd := c.find("Block.key"); fd == nil {
		r.bad(rule, "Block.key", "function not found", "")
	} else {
		ok := false
		if len(fd.Body.List) == 2 {
			ifs, isIf := fd.Body.List[0].(*ast.IfStmt)
			rs, isR := fd.Body.List[1].(*ast.ReturnStmt)
			if isIf && isR && len(rs.Results) == 1 && len(ifs.Body.List) == 1 {
				cond, isB := stripParens(ifs.Cond).(*ast.BinaryExpr)
				r1, isR1 := ifs.Body.List[0].(*ast.ReturnStmt)
				if isB && isR1 && cond.Op == token.EQL && c.fieldPath(cond.X) == "<Block>.Name" {
					if s, isS := c.strConst(cond.Y); isS && s == "" && len(r1.Results) == 1 && c.fieldPath(r1.Results[0]) == "<Block>.Type" {
						// Type + "." + Name
						if b1, ok1 := stripParens(rs.Results[0]).(*ast.BinaryExpr); ok1 && b1.Op == token.ADD && c.fieldPath(b1.Y) == "<Block>.Name" {
							if b2, ok2 := stripParens(b1.X).(*ast.BinaryExpr); ok2 && b2.Op == token.ADD && c.fieldPath(b2.X) == "<Block>.Type" {
								if dot, isD := c.strConst(b2.Y); isD && dot == "." {
									ok = true
								}
							}
						}
					}
				}
			}
		}
		r.check(ok, rule, "Block.key", `Name == "" ? Type : Type + "." + Name`, "Block.key must return Type for an unnamed block and Type + \".\" + Name otherwise", c.pos(fd.Pos()))
	}
	// pseudo fields in the field read
	vm, err := c.vmModel()
	if err == nil {
		got := map[string]string{}
		var roots []ast.Node
		if lit := vm.Closures["blockGet"]; lit != nil {
			roots = append(roots, lit)
		}
		if arm := vm.Arms["opGETFIELD"]; arm != nil {
			roots = append(roots, vm.armNodes(c, arm)...)
		}
		for _, root := range roots {
			ast.Inspect(root, func(n ast.Node) bool {
				sw, ok := n.(*ast.SwitchStmt)
				if !ok || sw.Tag == nil {
					return true
				}
				for _, a := range c.switchArms(sw) {
					for _, v := range a.Vals {
						if v == nil || len(a.Body) != 1 {
							continue
						}
						if rs, ok := a.Body[0].(*ast.ReturnStmt); ok && len(rs.Results) >= 1 {
							got[v.ExactString()] = c.exprShape(rs.Results[0])
						}
					}
				}
				return true
			})
		}
		// the pseudo-field switch comes before any scan of the open blocks
		first := true
		for _, root := range roots {
			var swPos, loopPos token.Pos
			ast.Inspect(root, func(n ast.Node) bool {
				switch n := n.(type) {
				case *ast.SwitchStmt:
					for _, a := range c.switchArms(n) {
						for _, v := range a.Vals {
							if v != nil && (v.ExactString() == `"TYPE"` || v.ExactString() == `"NAME"`) && swPos == 0 {
								swPos = n.Pos()
							}
						}
					}
				case *ast.ForStmt:
					if loopPos == 0 {
						loopPos = n.Pos()
					}
				case *ast.RangeStmt:
					if loopPos == 0 {
						loopPos = n.Pos()
					}
				}
				return true
			})
			if swPos != 0 && loopPos != 0 && loopPos < swPos {
				first = false
			}
		}
		ok := got[`"TYPE"`] == "<vm>.blockStack[blockTos-1].Type" && got[`"NAME"`] == "<vm>.blockStack[blockTos-1].Name" && first
		r.check(ok, rule, "pseudo-fields", "TYPE/NAME read blockStack[blockTos-1], before any field lookup", fmt.Sprintf("TYPE and NAME must read the innermost block's Type and Name before any field of that spelling is looked up (found %v, pseudo-fields first: %v)", got, first), "")
	}
	// block name: the unquoted string literal when there is one, the empty string otherwise (read off the emission model)
	if em, err := c.emitModel(); err != nil {
		r.bad(rule, "block-name", err.Error(), "")
	} else {
		named, unnamed, bad := 0, 0, ""
		pos := ""
		for _, k := range em.order {
			for _, o := range em.Entries[k].Outcomes {
				hasStr := false
				for _, ev := range o.Events {
					if ev == "match:tSTR" {
						hasStr = true
					}
				}
				for _, op := range o.Operands {
					if op.Op != "opDEFBLOCK" || op.Index != 1 {
						continue
					}
					pos = c.pos(op.Pos)
					switch {
					case hasStr && op.Src == "unquote(token)":
						named++
					case !hasStr && op.Src == `const:""`:
						unnamed++
					default:
						bad = fmt.Sprintf("on a path with events %v the name constant is made from %q", o.Events, op.Src)
					}
				}
			}
		}
		r.check(bad == "" && named > 0 && unnamed > 0, rule, "block-name", "name constant = strconv.Unquote(text of the string token), \"\" when the block has no name", "the block name constant must be the unquoted text of the string token (and empty without one): "+bad, pos)
	}
}

// exprShape renders vm.blockStack[vm.blockTos-1].Type as "<vm>.blockStack[blockTos-1].Type".
func (c *Ctx) exprShape(e ast.Expr) string {
	switch e := stripParens(e).(type) {
	case *ast.CallExpr:
		// a trivial accessor such as curBlock() { return &vm.blockStack[vm.blockTos-1] }
		if u := c.unfoldTrivial(e); u != ast.Expr(e) {
			return c.exprShape(u)
		}
	case *ast.UnaryExpr:
		if e.Op == token.AND {
			return c.exprShape(e.X)
		}
	case *ast.StarExpr:
		return c.exprShape(e.X)
	case *ast.SelectorExpr:
		if fp := c.fieldPath(e); fp != "" && !strings.Contains(fp, "[]") {
			return fp
		}
		return c.exprShape(e.X) + "." + e.Sel.Name
	case *ast.IndexExpr:
		idx := "?"
		if be, ok := stripParens(e.Index).(*ast.BinaryExpr); ok {
			if k, isC := c.intConst(be.Y); isC {
				fp := c.fieldPath(be.X)
				idx = fmt.Sprintf("%s%s%d", fp[strings.LastIndex(fp, ".")+1:], be.Op, k)
			}
		} else if k, isC := c.intConst(e.Index); isC {
			idx = fmt.Sprint(k)
		}
		return c.exprShape(e.X) + "[" + idx + "]"
	case *ast.Ident:
		return c.fieldPath(e)
	}
	return "?"
}

var fieldsOwners = map[string]string{
	"vm.run$blockSet": "SETFIELD: the innermost block's field",
	"vm.run":          "ENDBLOCK: child stored in its parent; DEFBLOCK: fresh map",
	"vm.run$blockGet": "field read",
	"copyBlock":       "Bind reads the fields",
}

func checkC03(c *Ctx, r *Report) {
	ruleFreshBlock(c, r, "fresh-block")
	ruleEndBlock(c, r, "endblock")
	ruleResultAppendOnly(c, r, "result-append-only")
	ruleResultOnError(c, r, "result-on-error")
	ruleBlockKey(c, r, "key-and-names")
	ruleFieldAccess(c, r, "field-access")
	r.rule("operand-emission", 6, "the emission primitives write what the VM decodes: emitOp one opcode byte, emitUvarint exactly the bytes uvarintToBytes produced for the operand (a slot, a constant index, a count), emitBytes each byte once: an operand emitted in another form names another slot or constant")
	checkEmitPrimitives(c, r, "operand-emission")
	r.rule("fields-writers", 2, "Block.Fields is written only by SETFIELD's helper and by ENDBLOCK/DEFBLOCK in the VM loop")
	c.ownership(r, "fields-writers", "Block", "Fields", fieldsOwners, true)
	ruleVMEffect(c, r, "vm-effect", true)
	r.note("the contents of Fields for an arbitrary program (depends on run-time values)")
}

// paramReadOnly: arg is passed to a module function whose corresponding
// parameter is only ranged over, measured with len, or indexed for reading
// (checked on the SSA form: no store through it, no re-slicing, no append,
// not returned, not stored, not passed on).
func (c *Ctx) paramReadOnly(call *ast.CallExpr, arg ast.Expr) bool {
	fn, ok := c.callee(call).(*types.Func)
	if !ok || fn.Pkg() == nil || fn.Pkg().Path() != bclPath {
		return false
	}
	idx := -1
	for i, a := range call.Args {
		if a == arg {
			idx = i
		}
	}
	sf := c.ssaFunc(fn)
	if sf == nil || idx < 0 {
		return false
	}
	if fn.Type().(*types.Signature).Recv() != nil {
		idx++
	}
	if idx >= len(sf.Params) {
		return false
	}
	return ssaReadOnly(sf.Params[idx], 0)
}

// otherDefReaches: walking back from `at` through the preceding statements of the enclosing blocks, is there an
// assignment to v that is not a parse step `(prog, v) = f(…)` with f returning (*Prog, error), and that can fall
// through to `at`? Returns its position, or "". The nearest plain parse-step assignment ends the walk (it kills
// what came before); an assignment inside a compound statement counts unless the block it sits in ends in a return.
func (c *Ctx) otherDefReaches(fd *ast.FuncDecl, at ast.Stmt, v types.Object) string {
	if v == nil {
		return ""
	}
	pm := parentMap(fd.Body)
	isParseStep := func(as *ast.AssignStmt) bool {
		return len(as.Lhs) == 2 && len(as.Rhs) == 1 && isNamed(c.typeOf(as.Lhs[0]), bclPath, "Prog") && c.isObj(as.Lhs[1], v)
	}
	assigns := func(as *ast.AssignStmt) bool {
		for _, l := range as.Lhs {
			if c.isObj(l, v) {
				return true
			}
		}
		return false
	}
	endsInReturn := func(b *ast.BlockStmt) bool {
		if b == nil || len(b.List) == 0 {
			return false
		}
		_, ok := b.List[len(b.List)-1].(*ast.ReturnStmt)
		return ok
	}
	var node ast.Node = at
	for node != nil && node != ast.Node(fd.Body) {
		par := pm[node]
		var list []ast.Stmt
		switch b := par.(type) {
		case *ast.BlockStmt:
			list = b.List
		case *ast.CaseClause:
			list = b.Body
		case *ast.CommClause:
			list = b.Body
		}
		idx := -1
		for i, st := range list {
			if ast.Node(st) == node {
				idx = i
			}
		}
		for i := idx - 1; i >= 0; i-- {
			if as, ok := list[i].(*ast.AssignStmt); ok && assigns(as) {
				if isParseStep(as) {
					return ""
				}
				return c.pos(as.Pos())
			}
			found := ""
			ast.Inspect(list[i], func(x ast.Node) bool {
				if _, isLit := x.(*ast.FuncLit); isLit {
					return false
				}
				as, ok := x.(*ast.AssignStmt)
				if !ok || !assigns(as) || isParseStep(as) || found != "" {
					return true
				}
				// the block the assignment sits in
				var blk *ast.BlockStmt
				for q := pm[ast.Node(as)]; q != nil; q = pm[q] {
					if b, isB := q.(*ast.BlockStmt); isB {
						blk = b
						break
					}
				}
				if !endsInReturn(blk) {
					found = c.pos(as.Pos())
				}
				return true
			})
			if found != "" {
				return found
			}
		}
		node = par
	}
	return ""
}
