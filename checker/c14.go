package main

import (
	"encoding/hex"
	"fmt"
	"go/ast"
	"os"
	"path/filepath"
	"strings"
)

type formatSpec struct {
	MagicHex      string                       `json:"magic_hex"`
	Major         int64                        `json:"major"`
	Minor         int64                        `json:"minor"`
	JumpLen       int64                        `json:"jump_byte_length"`
	Opcodes       map[string]int64             `json:"opcodes"`
	Typecodes     map[string]int64             `json:"typecodes"`
	ValueCodecs   map[string]map[string]string `json:"value_codecs"`
	BindSelectors map[string]int64             `json:"bind_selectors"`
	BindTargets   map[string]int64             `json:"bind_targets"`
	Sections      []string                     `json:"sections"`
	SectionCodecs map[string]string            `json:"section_codecs"`
	VarintModule  string                       `json:"varint_module"`
	VarintVersion string                       `json:"varint_version"`
}

func loadFormatSpec() (*formatSpec, error) {
	var s formatSpec
	if err := readSpec("format.json", &s); err != nil {
		return nil, err
	}
	return &s, nil
}

func init() { register("C14", "other", checkC14) }

// frozenConstants compares the numbering constants with format 1.1.
func frozenConstants(c *Ctx, r *Report, rule string, spec *formatSpec) {
	r.rule(rule, 45, "if the declared version is (1,1): magic, the 31 opcode values, 5 type codes, bind nibbles and the jump operand width equal spec/format.json; no extra opcode or type code without a version change")
	major, ok1 := pkgConstInt(c.Bcl, "bytecodeMajor")
	minor, ok2 := pkgConstInt(c.Bcl, "bytecodeMinor")
	magic, ok3 := pkgConstString(c.Bcl, "bytecodeMagic")
	if !ok1 || !ok2 || !ok3 {
		r.bad(rule, "version-constants", "bytecodeMagic/bytecodeMajor/bytecodeMinor not found as package constants", "")
		return
	}
	if major != spec.Major || minor != spec.Minor {
		// A different version is a different format: this rule has nothing to say about it,
		// but the oracle then needs a new table; refuse to pass vacuously.
		r.undecided(rule, "version-constants", fmt.Sprintf("tree declares format %d.%d; the oracle describes %d.%d — a version change needs a new spec/format.json", major, minor, spec.Major, spec.Minor), "")
		return
	}
	r.ok(rule, "version-constants", fmt.Sprintf("format %d.%d", major, minor))
	r.check(hex.EncodeToString([]byte(magic)) == spec.MagicHex, rule, "magic", "magic = "+spec.MagicHex,
		fmt.Sprintf("magic is %x, format 1.1 says %s", magic, spec.MagicHex), "")

	cmp := func(what, typeName, prefix string, want map[string]int64) {
		have := constsOfType(c.Bcl, typeName)
		if len(have) == 0 {
			r.bad(rule, what, "no constants of type "+typeName+" found", "")
			return
		}
		seen := map[string]bool{}
		for _, k := range have {
			name := strings.TrimPrefix(k.Name, prefix)
			wv, ok := want[name]
			seen[name] = true
			pos := c.pos(k.Obj.Pos())
			switch {
			case !ok:
				r.bad(rule, what+"/"+name, fmt.Sprintf("%s = %d is not part of format 1.1 (adding it needs a version change)", k.Name, k.Val), pos)
			case wv != k.Val:
				r.bad(rule, what+"/"+name, fmt.Sprintf("%s = %d, format 1.1 says %d", k.Name, k.Val, wv), pos)
			default:
				r.ok(rule, what+"/"+name, fmt.Sprintf("%d", k.Val))
			}
		}
		for name, wv := range want {
			if !seen[name] {
				// an untyped constant of the same family (bindAll = 15 carries no type)
				if v, ok := pkgConstInt(c.Bcl, prefix+name); ok {
					r.check(v == wv, rule, what+"/"+name, fmt.Sprintf("%d (untyped constant)", v),
						fmt.Sprintf("%s%s = %d, format 1.1 says %d", prefix, name, v, wv), "")
					continue
				}
				r.bad(rule, what+"/"+name, fmt.Sprintf("format 1.1 %s %s = %d has no constant in the tree", what, name, wv), "")
			}
		}
	}
	cmp("opcode", "opcode", "op", spec.Opcodes)
	cmp("typecode", "typecode", "type", spec.Typecodes)
	cmp("bind-selector", "bindSelector", "bind", spec.BindSelectors)
	cmp("bind-target", "bindTarget", "bind", spec.BindTargets)
	if jl, ok := pkgConstInt(c.Bcl, "jumpByteLength"); ok {
		r.check(jl == spec.JumpLen, rule, "jumpByteLength", "2", fmt.Sprintf("jumpByteLength = %d, format 1.1 says %d", jl, spec.JumpLen), "")
	} else {
		r.bad(rule, "jumpByteLength", "constant not found", "")
	}
}

// varintDep pins the varint library by module path, version and hash.
func varintDep(c *Ctx, r *Report, rule string, spec *formatSpec) {
	r.rule(rule, 2, "the sqlite4 varint codec is github.com/mohae/uvarint at the pinned version and go.sum hash (the wrappers around it: rule varint-wrappers)")
	gomod, err := os.ReadFile(filepath.Join(c.Repo, "go.mod"))
	if err != nil {
		r.bad(rule, "go.mod", err.Error(), "")
		return
	}
	want := spec.VarintModule + " " + spec.VarintVersion
	r.check(strings.Contains(string(gomod), want), rule, "go.mod", want, "go.mod does not require "+want, "go.mod")
	gosum, _ := os.ReadFile(filepath.Join(c.Repo, "go.sum"))
	const wantHash = "h1:"
	found := ""
	for _, line := range strings.Split(string(gosum), "\n") {
		f := strings.Fields(line)
		if len(f) == 3 && f[0] == spec.VarintModule && f[1] == spec.VarintVersion {
			found = f[2]
		}
	}
	r.check(strings.HasPrefix(found, wantHash) && found == uvarintH1, rule, "go.sum", found,
		fmt.Sprintf("go.sum hash for %s is %q, pinned %q", spec.VarintModule, found, uvarintH1), "go.sum")
	ruleVarintWrappers(c, r, "varint-wrappers", spec.VarintModule)
}

// ruleVarintWrappers: the operand/length codec on both sides (compiler and
// Dump write with uvarintToBytes, VM and Load read with uvarintFromBytes) is
// one library's Encode/Decode pair, reached through plain wrappers: a single
// return statement handing the parameters through. A fast path, a local
// re-implementation or a different library on one side makes writer and
// reader disagree for some values (the boundaries 240/241, 2287/2288, ...).
func ruleVarintWrappers(c *Ctx, r *Report, rule string, module string) {
	if module == "" {
		module = "github.com/mohae/uvarint"
	}
	r.rule(rule, 2, "uvarintToBytes and uvarintFromBytes are plain wrappers — one return statement passing their parameters, in order, to "+module+".Encode / .Decode — so that every writer and every reader of a varint use the two halves of one codec")
	for _, w := range []struct{ fn, callee string }{
		{"uvarintToBytes", module + ".Encode"},
		{"uvarintFromBytes", module + ".Decode"},
	} {
		_, fd := c.find(w.fn)
		if fd == nil {
			r.bad(rule, w.fn, "function not found", "")
			continue
		}
		r.fn(w.fn)
		ok := false
		why := "the body is not a single return statement"
		if len(fd.Body.List) == 1 {
			if rs, isR := fd.Body.List[0].(*ast.ReturnStmt); isR && len(rs.Results) == 1 {
				if call, isC := rs.Results[0].(*ast.CallExpr); isC {
					why = "it calls " + c.calleeName(call)
					if c.calleeName(call) == w.callee {
						ok = true
						k := 0
						for _, f := range fd.Type.Params.List {
							for _, nm := range f.Names {
								if k >= len(call.Args) || !c.isObj(call.Args[k], c.objOf(nm)) {
									ok = false
									why = "the parameters are not passed through unchanged"
								}
								k++
							}
						}
						if k != len(call.Args) {
							ok = false
						}
					}
				}
			}
		}
		r.check(ok, rule, w.fn, "return "+w.callee+"(params…)", fmt.Sprintf("%s must be a plain wrapper of %s (%s): any other encoding path can disagree with the decoder on the other side", w.fn, w.callee, why), c.pos(fd.Pos()))
	}
}

const uvarintH1 = "h1:fXRYk7YXVIBMGAHT+GmAcbiXrudXMPtqdLfbkVfUhkI="

func checkC14(c *Ctx, r *Report) {
	spec, err := loadFormatSpec()
	if err != nil {
		r.bad("spec", "format.json", err.Error(), "")
		return
	}
	frozenConstants(c, r, "frozen-constants", spec)
	varintDep(c, r, "varint-dep", spec)
	ruleSectionAgreement(c, r, "section-agreement", spec)
	ruleCodecAgreement(c, r, "codec-agreement", spec)
	ruleShape(c, r, "operand-shapes", true, true)
	checkU16(c, r, "endianness")
	ruleHeaderGuards(c, r, "version-accept")
	ruleUvarintLen(c, r, "varint-length")
	ruleNibbles(c, r, "bind-byte")
	ruleLineCalcAdd(c, r, "line-table-values")
	r.note("that a stored corpus of .bcb files still executes to its recorded results (needs execution)")
	r.note("the arithmetic of the signed-integer mapping i64ToU64/u64ToI64")
}
