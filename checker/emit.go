package main

// E-EMIT: effect interpretation of the compiler (parse.go). The parser's
// functions are interpreted on all paths under assumption A (no diagnostic
// is raised — the claim is about accepted programs, and parse returns an
// error iff errorAt ran). Emission primitives carry the VM's per-opcode
// stack effect (from E-VM), so each function gets a checked stack-effect
// signature; recursion is cut at parsePrecedence, decl and the dynamic
// dispatch through the rules table, whose signatures are then verified for
// every body they stand for.

import (
	"fmt"
	"go/ast"
	"go/constant"
	"go/token"
	"go/types"
	"sort"
	"strings"
)

type jumpTok struct {
	ID    int
	Ord   int // ordinal among the jumps emitted on this path
	Op    string
	Depth *Lin
}

type operandProv struct {
	Op    string
	Index int    // operand position within the instruction
	Kind  string // v, B, H
	Prov  string // provenance of the value
	Pos   token.Pos
	Src   string // for a constant index: what the constant was made from ("unquote(token)", `const:""`), when followed
}

// errSite: a diagnostic call met on a path, with what the path had last done with the tokens.
type errSite struct {
	Pos     token.Pos
	Fn      string // entry being interpreted
	At      string // "prev" or "current": the token the diagnostic is attached to
	LastTok string
}

type emPay struct {
	base      *Lin // depth at entry of the analysed function
	d, L      *Lin
	B         int
	scopes    []*Lin
	jumps     []jumpTok
	njumps    int
	dead      bool
	pendOp    string
	pendShape string // operands still to be emitted for pendOp
	pendIdx   int
	minSlack  int64 // min over emissions of const part of (d - need - d0)
	lastOp    string
	trace     []string
	prevTyp   Value
	lastTok   string // what the path last did with the token stream: "" (nothing yet), "consumed", "peeked"
	epoch     int    // number of advances so far (dispatch axiom)
	operands  []operandProv
	problems  []string
	events    []string // declVar/defVar order, etc.
	emitted   map[string]bool
	valEq     map[int]string   // token text known: epoch of the token -> the constant it equals
	valNe     map[int][]string // epoch -> constants it is known to differ from
	bindByte  string           // the option byte emitted for BIND on this path (constant, or "?")
}

func (p *emPay) Clone() Payload {
	q := *p
	q.scopes = append([]*Lin(nil), p.scopes...)
	q.jumps = append([]jumpTok(nil), p.jumps...)
	q.trace = append([]string(nil), p.trace...)
	q.operands = append([]operandProv(nil), p.operands...)
	q.problems = append([]string(nil), p.problems...)
	q.events = append([]string(nil), p.events...)
	q.emitted = map[string]bool{}
	for k := range p.emitted {
		q.emitted[k] = true
	}
	q.valEq = map[int]string{}
	for k, v := range p.valEq {
		q.valEq[k] = v
	}
	q.valNe = map[int][]string{}
	for k, v := range p.valNe {
		q.valNe[k] = append([]string(nil), v...)
	}
	return &q
}

func (p *emPay) key() string {
	var js []string
	for _, j := range p.jumps {
		js = append(js, fmt.Sprintf("%d:%s@%s", j.ID, j.Op, j.Depth))
	}
	var sc []string
	for _, s := range p.scopes {
		sc = append(sc, s.String())
	}
	return fmt.Sprintf("%s|%s|%d|%v|%v|%v|%s%s|%d|%v|%v|%s|%s|%s", p.d, p.L, p.B, sc, js, p.dead, p.pendOp, p.pendShape, p.minSlack, p.trace, p.problems, p.prevTyp, p.words(), p.bindByte)
}

// words renders what is known about token texts on this path: "w1,w2" in token order (only equalities).
func (p *emPay) words() string {
	var eps []int
	for ep := range p.valEq {
		eps = append(eps, ep)
	}
	sort.Ints(eps)
	var ws []string
	for _, ep := range eps {
		ws = append(ws, p.valEq[ep])
	}
	return strings.Join(ws, ",")
}

// assumeVal records text(epoch) == s (eq) or != s; false when that contradicts what is known.
func (p *emPay) assumeVal(epoch int, s string, eq bool) bool {
	if p.valEq == nil {
		p.valEq, p.valNe = map[int]string{}, map[int][]string{}
	}
	if known, ok := p.valEq[epoch]; ok {
		return (known == s) == eq
	}
	for _, n := range p.valNe[epoch] {
		if n == s && eq {
			return false
		}
	}
	if eq {
		p.valEq[epoch] = s
	} else {
		p.valNe[epoch] = append(p.valNe[epoch], s)
	}
	return true
}

// emitModel is the result of analysing the compiler.
type emitModel struct {
	c        *Ctx
	vm       *vmModel
	ops      []namedConst
	toks     []namedConst
	precs    []namedConst
	rules    []ruleRow
	ruleOf   map[int64]ruleRow
	isa      map[string]armSummary
	jumpLen  int64
	Entries  map[string]*emitEntry // key: "fn" or "fn@tToken"
	order    []string
	Emitted  map[string]bool
	Operands []operandProv
	Missing  []string  // unresolved anchors
	ErrSites []errSite // diagnostics raised on the interpreted paths
	curEntry string
	nextJump int
	inPopN   bool
}

type emitOutcome struct {
	D, L     *Lin // relative to entry symbols d0, L0
	B        int
	Need     int64
	Trace    []string
	Problems []string
	Jumps    int
	Scopes   int
	Dead     bool
	Pending  string
	LastOp   string
	Events   []string
	Ret      Value
	Words    string // token texts assumed on the path, in token order
	BindByte string
	Operands []operandProv
}

type emitEntry struct {
	Key       string
	Fn        string
	Token     string
	Outcomes  []emitOutcome
	Undecided []string
	Decl      *ast.FuncDecl
}

// roles of parser functions in the interpretation
var emitPrims = map[string]string{
	"parser.emitOp": "emitOp", "parser.emitByte": "emitByte", "parser.emitBytes": "emitBytes",
	"parser.emitUvarint": "emitUvarint", "parser.emitJump": "emitJump", "parser.patchJump": "patchJump",
	"parser.popN": "popN", "parser.beginScope": "beginScope", "parser.endScope": "endScope",
	"parser.addLocal": "addLocal", "parser.markInitialized": "markInit",
	"parser.resolveLocal": "resolveLocal", "parser.identConst": "identConst", "parser.makeConst": "makeConst",
	"parser.advance": "advance", "parser.consume": "consume", "parser.match": "match", "parser.matchEnd": "matchEnd",
	"parser.check": "check", "parser.checkEnd": "checkEnd", "parser.sync": "sync",
	"parser.error": "error", "parser.errorAtCurrent": "error", "parser.errorAt": "error",
	"getRule": "getRule", "parser.currentProg": "nop", "parser.finishStats": "nop",
	"parser.parsePrecedence": "cut:parsePrecedence", "decl": "cut:decl",
	"Prog.count": "count", "Prog.write": "rawwrite", "Prog.addConst": "rawconst",
	"Prog.initForParse": "nop", "newLexer": "nop", "newLineCalc": "nop", "newProg": "nop",
}

var emitModelCache = map[*Ctx]*emitModel{}

func (c *Ctx) emitModel() (*emitModel, error) {
	if m, ok := emitModelCache[c]; ok {
		return m, nil
	}
	vm, err := c.vmModel()
	if err != nil {
		return nil, err
	}
	m := &emitModel{c: c, vm: vm, Entries: map[string]*emitEntry{}, Emitted: map[string]bool{}, ruleOf: map[int64]ruleRow{}, isa: map[string]armSummary{}}
	m.ops = constsOfType(c.Bcl, "opcode")
	m.toks = constsOfType(c.Bcl, "tokenType")
	m.precs = constsOfType(c.Bcl, "precedence")
	m.jumpLen, _ = pkgConstInt(c.Bcl, "jumpByteLength")
	rows, _, err := c.rulesTable()
	if err != nil {
		return nil, err
	}
	m.rules = rows
	for _, r := range rows {
		m.ruleOf[r.TokVal] = r
	}
	for name, arm := range vm.Arms {
		m.isa[name] = arm.summary()
	}
	for name, role := range emitPrims {
		if f, _ := c.find(name); f == nil {
			if role == "markInit" || role == "nop" || role == "getRule" {
				// written in place, its effect is recognised from the store itself (markInit) or it has none
				continue
			}
			m.Missing = append(m.Missing, name)
		}
	}
	sort.Strings(m.Missing)

	// entries: parse, decl, parsePrecedence, every (prefix|infix) × token, and
	// the statement-level functions on their own for reporting
	m.run("parse", "", "parse")
	m.run("decl", "", "decl")
	m.run("parser.parsePrecedence", "", "parsePrecedence")
	for _, fn := range []string{"varDecl", "stmt", "printStmt", "exprStmt", "blockStmt", "bindStmt", "expr"} {
		m.run(fn, "", "stmt")
	}
	for _, r := range rows {
		if r.Prefix != "" {
			m.run(r.Prefix, r.Token, "prefix")
		}
		if r.Infix != "" {
			m.run(r.Infix, r.Token, "infix")
		}
	}
	emitModelCache[c] = m
	return m, nil
}

func (m *emitModel) opName(v int64) string { return constNameOf(m.ops, v) }

func (m *emitModel) run(fn, tok, class string) {
	c := m.c
	key := fn
	if tok != "" {
		key = fn + "@" + tok
	}
	if _, done := m.Entries[key]; done {
		return
	}
	ent := &emitEntry{Key: key, Fn: fn, Token: tok}
	m.Entries[key] = ent
	m.order = append(m.order, key)
	_, fd := c.find(fn)
	if fd == nil || fd.Body == nil {
		ent.Undecided = append(ent.Undecided, "function "+fn+" not found")
		return
	}
	ent.Decl = fd
	m.curEntry = key
	in := newInterp(c, m.hooks())
	pay := &emPay{base: linSym("d0"), d: linSym("d0"), L: linSym("L0"), prevTyp: unknownV(), emitted: map[string]bool{}}
	if fn == "parse" {
		pay.base, pay.d, pay.L = linConst(0), linConst(0), linConst(0)
	}
	if tok != "" {
		pay.lastTok = "consumed" // a prefix/infix rule runs right after parsePrecedence consumed its token
		for _, t := range m.toks {
			if t.Name == tok {
				pay.prevTyp = constV(constant.MakeInt64(t.Val))
			}
		}
	}
	st := &State{Env: map[types.Object]Value{}, P: pay}
	// bind parameters: the *parser receiver/param is untracked; bool params unknown
	res := in.inlineBody(st, fd.Type, fd.Body, fd.Recv, nil)
	seen := map[string]bool{}
	for _, r := range res {
		p := r.st.P.(*emPay)
		k := p.key()
		if seen[k] {
			continue
		}
		seen[k] = true
		need := int64(0)
		if p.minSlack < 0 {
			need = -p.minSlack
		}
		base := linSym("d0")
		baseL := linSym("L0")
		if fn == "parse" {
			base, baseL = linConst(0), linConst(0)
		}
		ent.Outcomes = append(ent.Outcomes, emitOutcome{D: p.d.sub(base), L: p.L.sub(baseL), B: p.B, Need: need, Trace: p.trace, Problems: p.problems,
			Jumps: len(p.jumps), Scopes: len(p.scopes), Dead: p.dead, Pending: p.pendOp + ":" + p.pendShape, LastOp: p.lastOp, Events: p.events, Ret: r.v, Words: p.words(), BindByte: p.bindByte, Operands: append([]operandProv(nil), p.operands...)})
		for op := range p.emitted {
			m.Emitted[op] = true
		}
		m.Operands = append(m.Operands, p.operands...)
	}
	ent.Undecided = in.Undecided
}

func (m *emitModel) hooks() Hooks {
	c := m.c
	pay := func(st *State) *emPay { return st.P.(*emPay) }
	var h Hooks
	h.SameEffect = func(a, b *State) bool { return pay(a).key() == pay(b).key() }
	h.Inline = func(fn *types.Func) bool {
		if fn.Pkg() == nil || fn.Pkg().Path() != bclPath {
			return false
		}
		_, prim := emitPrims[funcName(fn)]
		return !prim
	}
	h.Load = func(in *Interp, st *State, e ast.Expr) (Value, bool) {
		p := pay(st)
		switch c.fieldPath(e) {
		case "<parser>.prev.typ":
			return p.prevTyp, true
		case "<parser>.panicMode", "<parser>.hadError":
			return constV(constant.MakeBool(false)), true
		case "<parser>.scope.localCount":
			return linV(p.L), true
		case "<parser>.scope.depth":
			return tagV("scopedepth", ""), true
		case "<parser>.prev.val":
			return tagV("prevval", p.epoch), true
		case "<parser>.prev":
			// the token copied into a local (tok := p.prev): its type and text are what p.prev's are now
			if _, isSel := stripParens(e).(*ast.SelectorExpr); isSel && isNamed(c.typeOf(e), bclPath, "token") {
				return Value{K: vStruct, T: c.typeOf(e), Fields: map[string]Value{"typ": p.prevTyp, "val": tagV("prevval", p.epoch)}}, true
			}
		}
		// rules[t] written in place of getRule(t)
		if ix, ok := e.(*ast.IndexExpr); ok && m.isRulesIndex(ix) {
			ref := ruleRef{Epoch: p.epoch}
			if c.fieldPath(ix.Index) == "<parser>.prev.typ" {
				ref.FromPrev = true
			}
			for _, kv := range in.eval(st.clone(), ix.Index) {
				if kv.v.K == vConst {
					if v, ok := constant.Int64Val(kv.v.C); ok {
						ref.Tok = &v
					}
				}
				break
			}
			return tagV("rule", ref), true
		}
		// rule.prec / rule.prefix / rule.infix on a value obtained from getRule
		if sel, ok := e.(*ast.SelectorExpr); ok {
			for _, vs := range []ast.Expr{sel.X} {
				var base Value
				if id, ok := stripParens(vs).(*ast.Ident); ok {
					base = st.Env[c.objOf(id)]
				} else if call, ok := stripParens(vs).(*ast.CallExpr); ok && emitPrims[c.calleeName(call)] == "getRule" {
					r := in.eval(st, call)
					if len(r) == 1 {
						base = r[0].v
					}
				} else if ix, ok := stripParens(vs).(*ast.IndexExpr); ok && m.isRulesIndex(ix) {
					r := in.eval(st, ix)
					if len(r) == 1 {
						base = r[0].v
					}
				}
				if base.K == vTag && base.Tag == "rule" {
					info := base.Data.(ruleRef)
					switch sel.Sel.Name {
					case "prec":
						if info.Tok != nil {
							if row, ok := m.ruleOf[*info.Tok]; ok {
								return constV(constant.MakeInt64(row.PrecV)), true
							}
							return constV(constant.MakeInt64(0)), true
						}
						return unknownV(), true
					case "prefix", "infix":
						return tagV("rulefn", ruleFn{Field: sel.Sel.Name, Epoch: info.Epoch, FromPrev: info.FromPrev}), true
					}
				}
			}
		}
		return Value{}, false
	}
	h.Decide = func(in *Interp, st *State, cond ast.Expr) tri { return triUnknown }
	h.Assume = func(in *Interp, st *State, cond ast.Expr, branch bool) bool {
		// idx >= 0 refines a resolveLocal result
		be, ok := stripParens(cond).(*ast.BinaryExpr)
		if !ok {
			return true
		}
		// the text of a consumed token compared with a string constant
		if be.Op == token.EQL || be.Op == token.NEQ {
			for _, side := range [][2]ast.Expr{{be.X, be.Y}, {be.Y, be.X}} {
				k, isK := c.strConst(side[1])
				if !isK {
					continue
				}
				for _, vs := range in.eval(st.clone(), side[0]) {
					if vs.v.K == vTag && vs.v.Tag == "prevval" {
						return pay(st).assumeVal(vs.v.Data.(int), k, (be.Op == token.EQL) == branch)
					}
					break
				}
			}
		}
		id, ok := stripParens(be.X).(*ast.Ident)
		if !ok {
			return true
		}
		obj := c.objOf(id)
		v, ok := st.Env[obj]
		if !ok || v.K != vTag || v.Tag != "localidx" {
			return true
		}
		k, isC := c.intConst(be.Y)
		if !isC {
			return true
		}
		found := false
		switch {
		case be.Op == token.GEQ && k == 0, be.Op == token.GTR && k == -1, be.Op == token.NEQ && k == -1:
			found = branch
		case be.Op == token.LSS && k == 0, be.Op == token.EQL && k == -1, be.Op == token.LEQ && k == -1:
			found = !branch
		default:
			return true
		}
		if found {
			st.Env[obj] = tagV("local", "slot of a declared, initialised local (resolveLocal >= 0)")
			pay(st).events = append(pay(st).events, "local:found")
		} else {
			st.Env[obj] = tagV("nolocal", "-1")
			pay(st).events = append(pay(st).events, "local:notfound")
		}
		return true
	}
	h.AssumeKey = func(in *Interp, st *State, key Value, k constant.Value, eq bool) bool {
		if key.K == vTag && key.Tag == "prevval" && k.Kind() == constant.String {
			return pay(st).assumeVal(key.Data.(int), constant.StringVal(k), eq)
		}
		return true
	}
	h.CaseMatch = func(in *Interp, st *State, tag Value, caseExpr ast.Expr, taken bool) bool {
		if tag.K == vTag && tag.Tag == "prevval" {
			if k, isK := c.strConst(caseExpr); isK {
				return pay(st).assumeVal(tag.Data.(int), k, taken)
			}
		}
		return true
	}
	h.Decision = func(in *Interp, st *State, cond ast.Expr, v Value, branch bool) {
		be, ok := stripParens(cond).(*ast.BinaryExpr)
		if !ok {
			if id, isID := stripParens(cond).(*ast.Ident); isID {
				pay(st).events = append(pay(st).events, fmt.Sprintf("%s=%v", id.Name, branch))
			}
			return
		}
		if c.fieldPath(be.X) == "<parser>.scope.depth" {
			if k, isC := c.intConst(be.Y); isC {
				pay(st).events = append(pay(st).events, fmt.Sprintf("depth %s %d=%v", be.Op, k, branch))
			}
		}
	}
	h.Loop = func(in *Interp, st *State, loop ast.Stmt, body func(*State) []*State) ([]*State, bool) {
		return m.loop(in, st, loop, body), true
	}
	h.Store = func(in *Interp, st *State, lhs ast.Expr, op token.Token, v Value) bool {
		p := pay(st)
		switch fp := c.fieldPath(lhs); {
		case c.isMarkInitTarget(lhs) && op == token.ASSIGN && v.K == vTag && v.Tag == "scopedepth":
			// markInitialized, written in place: locals[localCount-1].depth = scope.depth
			p.events = append(p.events, "markInit")
			p.trace = append(p.trace, "init")
			return true
		case fp == "<parser>.scope.localCount" || strings.HasPrefix(fp, "<parser>.scope.locals") || fp == "<parser>.scope.depth":
			p.problems = append(p.problems, c.pos(lhs.Pos())+": the scope tables are modified outside beginScope/endScope/addLocal/markInitialized")
			return true
		case strings.HasPrefix(fp, "<Prog>.code") || strings.HasPrefix(fp, "<parser>.prog.code") || strings.HasPrefix(fp, "<Prog>.constants") || strings.HasPrefix(fp, "<parser>.prog.constants"):
			p.problems = append(p.problems, c.pos(lhs.Pos())+": code or constants are modified outside the emission primitives")
			return true
		}
		return false
	}
	h.Call = func(in *Interp, st *State, call *ast.CallExpr, callee types.Object, args []Value) ([]valState, bool) {
		p := pay(st)
		// dynamic call through a rules-table entry
		if callee == nil {
			if id, ok := stripParens(call.Fun).(*ast.Ident); ok {
				if v, ok := st.Env[c.objOf(id)]; ok && v.K == vTag && v.Tag == "rulefn" {
					rf := v.Data.(ruleFn)
					if rf.Epoch != p.epoch || !rf.FromPrev {
						p.problems = append(p.problems, c.pos(call.Pos())+": rule function taken from the table for a token other than p.prev at the time of the call (dispatch axiom broken)")
					}
					m.applySig(p, call, rf.Field)
					return one(st, unknownV()), true
				}
			}
			return nil, false
		}
		role := emitPrims[qname(callee)]
		if qname(callee) == "strconv.Unquote" && len(args) == 1 && args[0].K == vTag && args[0].Tag == "prevval" {
			uq := tagV("unquoted", args[0].Data)
			uq.T = types.Typ[types.String]
			return one(st, Value{K: vTuple, Tup: []Value{uq, unknownV()}}), true
		}
		switch {
		case role == "":
			return nil, false
		case role == "nop", role == "count":
			return one(st, unknownV()), true
		case role == "error":
			at := ""
			switch qname(callee) {
			case "parser.error":
				at = "prev"
			case "parser.errorAtCurrent":
				at = "current"
			default:
				if len(call.Args) > 0 {
					switch c.fieldPath(call.Args[0]) {
					case "&<parser>.prev", "<parser>.prev":
						at = "prev"
					case "&<parser>.current", "<parser>.current":
						at = "current"
					}
					if ue, ok := stripParens(call.Args[0]).(*ast.UnaryExpr); ok && ue.Op == token.AND {
						switch c.fieldPath(ue.X) {
						case "<parser>.prev":
							at = "prev"
						case "<parser>.current":
							at = "current"
						}
					}
				}
			}
			m.ErrSites = append(m.ErrSites, errSite{Pos: call.Pos(), Fn: m.curEntry, At: at, LastTok: p.lastTok})
			return []valState{}, true // assumption A: this path raises a diagnostic, the program is rejected
		case role == "advance", role == "consume", role == "sync":
			p.lastTok = "consumed"
			p.epoch++
			p.prevTyp = unknownV()
			p.trace = append(p.trace, "adv")
			return one(st, unknownV()), true
		case role == "match", role == "matchEnd":
			f := st.clone()
			pay(f).lastTok = "peeked"
			p.lastTok = "consumed"
			p.epoch++
			p.prevTyp = unknownV()
			adv := "adv"
			if role == "match" && len(args) == 1 && args[0].K == vConst {
				if v, ok := constant.Int64Val(args[0].C); ok && constNameOf(m.toks, v) == "tSEMICOLON" {
					adv = "semi" // the optional statement terminator: not part of any statement form
				}
			}
			p.trace = append(p.trace, adv)
			if role == "match" && len(args) == 1 && args[0].K == vConst {
				if v, ok := constant.Int64Val(args[0].C); ok {
					p.events = append(p.events, "match:"+constNameOf(m.toks, v))
				}
			}
			return []valState{{st, constV(constant.MakeBool(true))}, {f, constV(constant.MakeBool(false))}}, true
		case role == "check", role == "checkEnd":
			p.lastTok = "peeked"
			return one(st, unknownV()), true
		case role == "getRule":
			ref := ruleRef{Epoch: p.epoch}
			if len(call.Args) == 1 {
				switch c.fieldPath(call.Args[0]) {
				case "<parser>.prev.typ":
					ref.FromPrev = true
				}
				if args[0].K == vConst {
					if v, ok := constant.Int64Val(args[0].C); ok {
						ref.Tok = &v
					}
				}
				// an identifier bound to p.prev.typ at an earlier point with no advance since
				if id, ok := stripParens(call.Args[0]).(*ast.Ident); ok && args[0].K == vConst {
					_ = id
				}
			}
			return one(st, tagV("rule", ref)), true
		case role == "emitOp":
			m.emitOp(p, call, args[0])
			return one(st, unknownV()), true
		case role == "emitJump":
			m.emitOp(p, call, args[0])
			m.operand(p, call, "H", "placeholder")
			m.nextJump++
			p.njumps++
			t := jumpTok{ID: m.nextJump, Ord: p.njumps, Op: p.lastOp, Depth: p.d}
			p.jumps = append(p.jumps, t)
			p.trace = append(p.trace, fmt.Sprintf("jump#%d", t.Ord))
			if p.lastOp == "opJUMP" {
				p.dead = true
			}
			return one(st, tagV("jump", t.ID)), true
		case role == "patchJump":
			if args[0].K != vTag || args[0].Tag != "jump" {
				p.problems = append(p.problems, c.pos(call.Pos())+": patchJump argument is not a value returned by emitJump")
				return one(st, unknownV()), true
			}
			id := args[0].Data.(int)
			idx := -1
			for i, j := range p.jumps {
				if j.ID == id {
					idx = i
				}
			}
			if idx < 0 {
				p.problems = append(p.problems, c.pos(call.Pos())+": jump patched twice (or never emitted on this path)")
				return one(st, unknownV()), true
			}
			if p.pendShape != "" {
				p.problems = append(p.problems, c.pos(call.Pos())+": jump patched in the middle of instruction "+p.pendOp)
			}
			t := p.jumps[idx]
			p.jumps = append(p.jumps[:idx:idx], p.jumps[idx+1:]...)
			if p.dead {
				p.dead = false
				p.d = t.Depth
			} else if !p.d.equal(t.Depth) {
				p.problems = append(p.problems, fmt.Sprintf("%s: stack depth at the jump target (%s) differs from the depth at the jump (%s)", c.pos(call.Pos()), p.d, t.Depth))
			}
			p.trace = append(p.trace, fmt.Sprintf("patch#%d", t.Ord))
			return one(st, unknownV()), true
		case role == "emitUvarint":
			prov := "unknown"
			if len(args) == 1 {
				prov = provOf(args[0])
			}
			n0 := len(p.operands)
			m.operand(p, call, "v", prov)
			if len(p.operands) == n0+1 && len(args) == 1 && args[0].K == vTag && args[0].Tag == "constidx" && len(args[0].Tup) == 1 {
				p.operands[n0].Src, _ = args[0].Tup[0].Data.(string)
			}
			return one(st, unknownV()), true
		case role == "emitByte":
			if p.pendOp == "opBIND" {
				p.bindByte = "?"
				if len(args) == 1 && args[0].K == vConst {
					p.bindByte = args[0].C.ExactString()
				}
			}
			m.operand(p, call, "B", "byte")
			return one(st, unknownV()), true
		case role == "emitBytes":
			n := -1
			if len(args) == 1 && args[0].K == vList {
				n = len(args[0].Tup)
			}
			switch {
			case n == 1:
				m.operand(p, call, "B", "byte")
			case int64(n) == m.jumpLen && n > 0:
				m.operand(p, call, "H", "bytes")
			default:
				p.problems = append(p.problems, c.pos(call.Pos())+": emitBytes with an argument list the checker cannot relate to an operand shape")
			}
			return one(st, unknownV()), true
		case role == "rawwrite", role == "rawconst":
			p.problems = append(p.problems, c.pos(call.Pos())+": direct call of "+qname(callee)+" outside the emission primitives")
			return one(st, unknownV()), true
		case role == "popN":
			cnt, ok := args[0].asLin()
			if !ok {
				p.problems = append(p.problems, c.pos(call.Pos())+": popN with a count the checker cannot express")
				return one(st, unknownV()), true
			}
			m.pop(p, call, cnt)
			return one(st, unknownV()), true
		case role == "beginScope":
			p.scopes = append(p.scopes, p.L)
			p.trace = append(p.trace, "scope+")
			return one(st, unknownV()), true
		case role == "endScope":
			if len(p.scopes) == 0 {
				p.problems = append(p.problems, c.pos(call.Pos())+": endScope without a matching beginScope on this path")
				return one(st, unknownV()), true
			}
			saved := p.scopes[len(p.scopes)-1]
			p.scopes = p.scopes[:len(p.scopes)-1]
			cnt := p.L.sub(saved)
			p.L = saved
			p.trace = append(p.trace, "scope-")
			m.pop(p, call, cnt)
			return one(st, unknownV()), true
		case role == "addLocal":
			p.L = p.L.add(linConst(1))
			p.events = append(p.events, "addLocal")
			p.trace = append(p.trace, "local+")
			return one(st, unknownV()), true
		case role == "markInit":
			p.events = append(p.events, "markInit")
			p.trace = append(p.trace, "init")
			return one(st, unknownV()), true
		case role == "resolveLocal":
			return one(st, tagV("localidx", "result of resolveLocal, not yet compared with 0")), true
		case role == "identConst":
			return one(st, tagV("constidx", "identConst:string")), true
		case role == "makeConst":
			t := "?"
			if len(args) == 1 && args[0].T != nil {
				t = types.TypeString(args[0].T, func(*types.Package) string { return "" })
			}
			cv := tagV("constidx", "makeConst:"+t)
			if len(args) == 1 {
				switch {
				case args[0].K == vTag && args[0].Tag == "unquoted":
					cv.Tup = []Value{tagV("src", "unquote(token)")}
					if t == "?" {
						cv.Data = "makeConst:string"
					}
				case args[0].K == vConst:
					cv.Tup = []Value{tagV("src", "const:"+args[0].C.ExactString())}
				}
			}
			return one(st, cv), true
		case role == "cut:decl":
			// signature of decl: depth and local count grow together by 0 or 1
			if p.pendShape != "" || p.dead {
				p.problems = append(p.problems, c.pos(call.Pos())+": statement compiled in the middle of an instruction or in unreachable code")
			}
			m.slack(p, 0)
			p.epoch++
			p.prevTyp = unknownV()
			p.lastTok = "consumed"
			p.lastOp = "?"
			p.trace = append(p.trace, "sub:decl")
			g := st.clone()
			gp := g.P.(*emPay)
			gp.d, gp.L = gp.d.add(linConst(1)), gp.L.add(linConst(1))
			return []valState{{st, unknownV()}, {g, unknownV()}}, true
		case strings.HasPrefix(role, "cut:"):
			which := strings.TrimPrefix(role, "cut:")
			if which == "parsePrecedence" {
				arg := "?"
				if len(args) == 1 && args[0].K == vConst {
					if v, ok := constant.Int64Val(args[0].C); ok {
						arg = constNameOf(m.precs, v)
					}
				}
				p.trace = append(p.trace, "sub:E("+arg+")")
			}
			m.applySig(p, call, which)
			return one(st, unknownV()), true
		}
		return nil, false
	}
	return h
}

type ruleRef struct {
	Tok      *int64
	Epoch    int
	FromPrev bool
}

type ruleFn struct {
	Field    string
	Epoch    int
	FromPrev bool
}

func provOf(v Value) string {
	switch v.K {
	case vTag:
		switch v.Tag {
		case "constidx":
			return fmt.Sprint(v.Data)
		case "local":
			return "local"
		case "nolocal":
			return "nolocal(-1)"
		case "localidx":
			return "localidx-unchecked"
		}
		return v.Tag
	case vLin:
		return "count:" + v.L.String()
	case vConst:
		return "const:" + v.C.String()
	}
	return "unknown"
}

// applySig applies a declared signature at a cut point.
func (m *emitModel) applySig(p *emPay, call *ast.CallExpr, which string) {
	if p.pendShape != "" {
		p.problems = append(p.problems, m.c.pos(call.Pos())+": call into the expression compiler in the middle of instruction "+p.pendOp)
	}
	if p.dead {
		p.problems = append(p.problems, m.c.pos(call.Pos())+": code emitted where no path reaches it (after an unconditional jump, before its patch)")
	}
	p.epoch++
	p.prevTyp = unknownV()
	p.lastTok = "consumed"
	switch which {
	case "parsePrecedence", "prefix":
		// need 0, d+1
		m.slack(p, 0)
		p.d = p.d.add(linConst(1))
		if which == "prefix" {
			p.trace = append(p.trace, "sub:prefix")
		}
	case "infix":
		// need <= 1, d+0
		m.slack(p, 1)
		p.trace = append(p.trace, "sub:infix")
	}
	p.lastOp = "?"
}

func (m *emitModel) slack(p *emPay, need int64) {
	base := p.d.sub(p.base)
	ok := true
	for _, co := range base.T {
		if co < 0 {
			ok = false
		}
	}
	if !ok {
		p.problems = append(p.problems, "operand need cannot be related to the entry depth: "+base.String())
		return
	}
	if s := base.C - need; s < p.minSlack {
		p.minSlack = s
	}
}

func (m *emitModel) emitOp(p *emPay, call *ast.CallExpr, arg Value) {
	c := m.c
	if arg.K != vConst {
		p.problems = append(p.problems, c.pos(call.Pos())+": emitOp with a non-constant opcode on this path")
		return
	}
	v, _ := constant.Int64Val(arg.C)
	op := m.opName(v)
	if p.pendShape != "" {
		p.problems = append(p.problems, fmt.Sprintf("%s: %s emitted while %s still lacks operands %q (instruction atomicity)", c.pos(call.Pos()), op, p.pendOp, p.pendShape))
	}
	if p.dead {
		p.problems = append(p.problems, c.pos(call.Pos())+": "+op+" emitted where no path reaches it")
	}
	isa, ok := m.isa[op]
	if !ok || !isa.OK {
		p.problems = append(p.problems, c.pos(call.Pos())+": opcode "+op+" has no consistent VM arm")
		return
	}
	p.emitted[op] = true
	p.trace = append(p.trace, strings.TrimPrefix(op, "op"))
	p.lastOp = op
	p.pendOp, p.pendShape, p.pendIdx = op, isa.Shape, 0
	switch op {
	case "opRET":
		if !p.d.equal(linConst(0)) {
			p.problems = append(p.problems, fmt.Sprintf("%s: RET emitted at stack depth %s, must be 0", c.pos(call.Pos()), p.d))
		}
		if p.B != 0 {
			p.problems = append(p.problems, c.pos(call.Pos())+": RET emitted with open blocks")
		}
		return
	case "opDEFBLOCK":
		p.B++
	case "opENDBLOCK":
		p.B--
		if p.B < 0 {
			p.problems = append(p.problems, c.pos(call.Pos())+": ENDBLOCK without a matching DEFBLOCK on this path")
		}
	}
	if isa.NeedSym {
		if !m.inPopN {
			p.problems = append(p.problems, c.pos(call.Pos())+": "+op+" (operand-sized pop) emitted outside popN")
		}
		return
	}
	m.slack(p, isa.Need)
	switch isa.Delta {
	case "1":
		p.d = p.d.add(linConst(1))
	case "-1":
		p.d = p.d.sub(linConst(1))
	case "0":
	default:
		p.problems = append(p.problems, c.pos(call.Pos())+": "+op+" has effect "+isa.Delta+" which only popN may emit")
	}
}

func (m *emitModel) operand(p *emPay, call *ast.CallExpr, kind, prov string) {
	c := m.c
	if p.pendShape == "" || string(p.pendShape[0]) != kind {
		p.problems = append(p.problems, fmt.Sprintf("%s: operand of kind %s emitted but instruction %s expects %q next", c.pos(call.Pos()), kind, p.pendOp, p.pendShape))
		return
	}
	p.operands = append(p.operands, operandProv{Op: p.pendOp, Index: p.pendIdx, Kind: kind, Prov: prov, Pos: call.Pos()})
	p.trace = append(p.trace, kind)
	p.pendShape = p.pendShape[1:]
	p.pendIdx++
}

// pop models popN(count): effect -count.
func (m *emitModel) pop(p *emPay, call *ast.CallExpr, cnt *Lin) {
	c := m.c
	if p.pendShape != "" {
		p.problems = append(p.problems, c.pos(call.Pos())+": popN in the middle of instruction "+p.pendOp)
	}
	for _, co := range cnt.T {
		if co < 0 {
			p.problems = append(p.problems, c.pos(call.Pos())+": pop count "+cnt.String()+" may be negative")
		}
	}
	if cnt.C < 0 {
		p.problems = append(p.problems, c.pos(call.Pos())+": pop count "+cnt.String()+" may be negative")
	}
	after := p.d.sub(cnt)
	rel := after.sub(p.base)
	for _, co := range rel.T {
		if co < 0 {
			p.problems = append(p.problems, fmt.Sprintf("%s: popping %s entries may reach below the entry depth (%s left)", c.pos(call.Pos()), cnt, rel))
		}
	}
	if rel.C < p.minSlack {
		p.minSlack = rel.C
	}
	p.d = after
	p.emitted["opPOP"] = true
	p.emitted["opPOPN"] = true
	p.trace = append(p.trace, "popN("+cnt.String()+")")
	p.lastOp = "popN"
}

// loop: statement loops whose body calls decl grow d and L together (a
// fresh symbol K >= 0 stands for the number of locals declared so far);
// every other loop must leave the emission state as it found it.
func (m *emitModel) loop(in *Interp, st *State, loop ast.Stmt, body func(*State) []*State) []*State {
	c := m.c
	var cond ast.Expr
	var init ast.Stmt
	var blk *ast.BlockStmt
	isRange := false
	switch s := loop.(type) {
	case *ast.ForStmt:
		cond, init, blk = s.Cond, s.Init, s.Body
		if s.Post != nil {
			defer func() {}()
		}
	case *ast.RangeStmt:
		blk = s.Body
		isRange = true
		if s.Key != nil {
			in.store(st, s.Key, token.ASSIGN, unknownV())
		}
		if s.Value != nil {
			in.store(st, s.Value, token.ASSIGN, unknownV())
		}
	}
	callsDecl := false
	walkCalls(blk, true, func(call *ast.CallExpr) {
		if emitPrims[c.calleeName(call)] == "cut:decl" {
			callsDecl = true
		}
	})
	sts := []*State{st}
	if init != nil {
		sts = in.exec(st, init)
	}
	var out []*State
	for _, st := range sts {
		head := st.P.(*emPay)
		if head.pendShape != "" || head.dead {
			head.problems = append(head.problems, c.pos(loop.Pos())+": loop entered in the middle of an instruction or in unreachable code")
		}
		inv := st.clone()
		ip := inv.P.(*emPay)
		if callsDecl {
			k := linSym(in.freshSym("K"))
			ip.d, ip.L = head.d.add(k), head.L.add(k)
		}
		ip.prevTyp = unknownV()
		ip.epoch += 1000
		ip.trace = append(ip.trace, "loop{")
		in.havoc(inv, blk)
		if fs, ok := loop.(*ast.ForStmt); ok && fs.Post != nil {
			in.havoc(inv, fs.Post)
		}
		iter := inv.clone()
		var entered []*State
		if cond != nil {
			for _, b := range in.branch(iter, cond) {
				if b.taken {
					entered = append(entered, b.st)
				}
			}
		} else {
			entered = []*State{iter}
		}
		for _, e := range entered {
			for _, r := range body(e) {
				rp := r.P.(*emPay)
				if r.Term == tReturn || r.Term == tGoto || (r.Label != "" && (r.Term == tBreak || r.Term == tContinue)) {
					out = append(out, r)
					continue
				}
				dd := rp.d.sub(ip.d)
				dl := rp.L.sub(ip.L)
				kd, okd := dd.isConst()
				kl, okl := dl.isConst()
				switch {
				case !okd || !okl || kd != kl || kd < 0 || kd > 1 || (!callsDecl && kd != 0):
					ip.problems = append(ip.problems, fmt.Sprintf("%s: one iteration of this loop changes the stack depth by %s and the local count by %s (allowed: both 0%s)", c.pos(loop.Pos()), dd, dl, map[bool]string{true: ", or both +1 in a statement loop", false: ""}[callsDecl]))
				}
				if rp.B != ip.B || len(rp.jumps) != len(ip.jumps) || len(rp.scopes) != len(ip.scopes) || rp.pendShape != "" || rp.dead {
					ip.problems = append(ip.problems, c.pos(loop.Pos())+": one iteration of this loop leaves blocks, scopes, jumps or an instruction open")
				}
				for _, pr := range rp.problems {
					dup := false
					for _, q := range ip.problems {
						if q == pr {
							dup = true
						}
					}
					if !dup {
						ip.problems = append(ip.problems, pr)
					}
				}
				ip.minSlack = min64(ip.minSlack, rp.minSlack)
				for op := range rp.emitted {
					ip.emitted[op] = true
				}
				if len(rp.operands) > len(ip.operands) {
					ip.operands = append(ip.operands, rp.operands[len(ip.operands):]...)
				}
				if r.Term == tBreak {
					// leaves the loop with the state of this iteration
					r.Term = tNone
					out = append(out, r)
				}
			}
		}
		ip.trace = append(ip.trace, "}")
		if cond != nil {
			for _, b := range in.branch(inv, cond) {
				if !b.taken {
					out = append(out, b.st)
				}
			}
		} else if isRange {
			out = append(out, inv)
		}
	}
	return out
}

func min64(a, b int64) int64 {
	if a < b {
		return a
	}
	return b
}

// isMarkInitTarget: lhs is <scope>.locals[<scope>.localCount-1].depth.
func (c *Ctx) isMarkInitTarget(lhs ast.Expr) bool {
	sel, ok := stripParens(lhs).(*ast.SelectorExpr)
	if !ok || sel.Sel.Name != "depth" {
		return false
	}
	ix, ok := stripParens(sel.X).(*ast.IndexExpr)
	if !ok || !strings.HasSuffix(c.fieldPath(ix.X), ".locals") {
		return false
	}
	be, ok := stripParens(ix.Index).(*ast.BinaryExpr)
	if !ok || be.Op != token.SUB || !strings.HasSuffix(c.fieldPath(be.X), ".localCount") {
		return false
	}
	k, isC := c.intConst(be.Y)
	return isC && k == 1
}

// isRulesIndex: e indexes the table of parse rules (the accessor written in place).
func (m *emitModel) isRulesIndex(e *ast.IndexExpr) bool {
	a, ok := m.c.typeOf(e.X).Underlying().(*types.Array)
	return ok && isNamed(a.Elem(), bclPath, "parseRule")
}
