package main

// E-CLI: wiring of cmd/bcl.

import (
	"fmt"
	"go/ast"
	"go/constant"
	"go/token"
	"go/types"
	"sort"
	"strings"

	"golang.org/x/tools/go/packages"
)

type cliSpec struct {
	BoolFlags  map[string]string   `json:"bool_flags"`
	ValueFlags map[string][]string `json:"value_flags"`
	Help       string              `json:"help_flag"`
	Terminator string              `json:"terminator"`
	Wiring     map[string][]string `json:"wiring"`
	ExitUsage  int64               `json:"exit_usage"`
	ExitRun    int64               `json:"exit_run"`
	ExitHelp   int64               `json:"exit_help"`
}

func init() { register("C18", "other", checkC18) }

func checkC18(c *Ctx, r *Report) {
	var spec cliSpec
	if err := readSpec("cli.json", &spec); err != nil {
		r.bad("spec", "cli.json", err.Error(), "")
		return
	}
	if c.Cmd == nil {
		r.bad("anchors", "cmd/bcl", "package cmd/bcl not loaded", "")
		return
	}
	find := func(name string) *ast.FuncDecl {
		if _, fd := c.findIn(c.Cmd, name); fd != nil {
			return fd
		}
		// the same function turned into a method (or back): unique by simple name in the command's package
		var hit *ast.FuncDecl
		n := 0
		for obj, fd := range c.funcDecls {
			if obj.Pkg() == c.Cmd.Types && fd.Name.Name == name {
				hit = fd
				n++
			}
		}
		if n == 1 {
			return hit
		}
		return nil
	}
	pa := find("parseArgs")
	run := find("run")
	mainFn := find("main")
	die := find("die")
	open := find("open")
	if pa == nil || run == nil || mainFn == nil || die == nil || open == nil {
		r.bad("anchors", "cmd/bcl", "parseArgs/run/main/die/open not all found", "")
		return
	}
	r.fn("cmd.parseArgs", "cmd.run", "cmd.main", "cmd.die", "cmd.open")

	// ---- flags: one iteration of the argument loop per class of word (E-CLI model)
	r.rule("flags", 12, "parseArgs, one iteration of its argument loop interpreted per class of word: each documented spelling turns on exactly its field and goes on; a value flag turns on its field and, with =F, stores F (any other suffix is a usage error); '-h' returns with the help function set (or, when the help field is a bool, with it true) and no error; '--' appends the remaining arguments to the file words and ends the loop; an unknown '-x' / '--xyz' is a usage error; a lone '-' and other words are appended to the file words; the usage string names every flag")
	outcome := func(word string) ([]argOutcome, string) {
		outs, und := c.argsOutcomes(pa, word)
		var ss []string
		for _, o := range outs {
			ss = append(ss, o.String())
		}
		for _, u := range und {
			ss = append(ss, "undecided: "+u)
		}
		return outs, strings.Join(ss, " | ")
	}
	single := func(outs []argOutcome) *argOutcome {
		if len(outs) == 1 && len(outs[0].Problems) == 0 {
			return &outs[0]
		}
		return nil
	}
	setsOnly := func(o *argOutcome, want map[string]string) bool {
		if o == nil || len(o.Sets) != len(want) {
			return false
		}
		for k, v := range want {
			if o.Sets[k] != v {
				return false
			}
		}
		return true
	}
	for _, sp := range sortedKeys(spec.BoolFlags) {
		outs, desc := outcome(sp)
		o := single(outs)
		ok := o != nil && o.Result == "next" && setsOnly(o, map[string]string{spec.BoolFlags[sp]: "true"}) && !o.RestWord && !o.RestTail && len(o.Spliced) == 0
		r.check(ok, "flags", "bool/"+sp, "sets "+spec.BoolFlags[sp], fmt.Sprintf("flag %s: %s; documented: sets %s and goes on", sp, desc, spec.BoolFlags[sp]), c.pos(pa.Pos()))
	}
	for _, sp := range sortedKeys(spec.ValueFlags) {
		fs := spec.ValueFlags[sp]
		if len(fs) != 2 {
			r.bad("flags", "value/"+sp, "spec: a value flag needs its two fields", "")
			continue
		}
		outs1, d1 := outcome(sp)
		outs2, d2 := outcome(sp + "=F.bcb")
		outs3, d3 := outcome(sp + "x")
		outs4, d4 := outcome(sp + "=")
		o1, o2, o3, o4 := single(outs1), single(outs2), single(outs3), single(outs4)
		ok := o1 != nil && o1.Result == "next" && setsOnly(o1, map[string]string{fs[0]: "true"}) &&
			o2 != nil && o2.Result == "next" && setsOnly(o2, map[string]string{fs[0]: "true", fs[1]: `"F.bcb"`}) &&
			o3 != nil && o3.Result == "error" &&
			o4 != nil && o4.Result == "next" && o4.Sets[fs[0]] == "true" && (o4.Sets[fs[1]] == `""` || o4.Sets[fs[1]] == "")
		r.check(ok, "flags", "value/"+sp, "sets "+strings.Join(fs, ","), fmt.Sprintf("flag %s: bare: %s; with =F.bcb: %s; with another suffix: %s; with '=': %s; documented: sets %v", sp, d1, d2, d3, d4, fs), c.pos(pa.Pos()))
	}
	{
		outsH, dH := outcome(spec.Help)
		oH := single(outsH)
		outsT, dT := outcome(spec.Terminator)
		oT := single(outsT)
		helpWant := "func"
		if c.helpIsBool(pa) {
			helpWant = "true" // the flag form: main prints the usage itself (checked under exit-codes)
		}
		okH := oH != nil && oH.Result == "help" && setsOnly(oH, map[string]string{"help": helpWant})
		okT := oT != nil && oT.Result == "stop" && len(oT.Sets) == 0
		r.check(okH && okT, "flags", "help+terminator", "-h and -- handled", fmt.Sprintf("parseArgs must handle -h (%s) and -- (%s)", dH, dT), c.pos(pa.Pos()))
		r.check(oT != nil && oT.RestTail && !oT.RestWord, "flags", "terminator-appends", "the words after '--' are appended to the file words seen before it", "the '--' case must append the remaining arguments to the file words collected so far (rest = append(rest, args[1:]...)); assigning them drops a FILE given before '--': "+dT, c.pos(pa.Pos()))
	}
	{
		okU := true
		var descs []string
		for _, w := range []string{"-x", "--zzz", "-1", "--d"} {
			outs, d := outcome(w)
			o := single(outs)
			if o == nil || o.Result != "error" || len(o.Sets) != 0 || o.RestWord {
				okU = false
			}
			descs = append(descs, w+": "+d)
		}
		r.check(okU, "flags", "unknown-flag", "a word of two or more characters starting with '-' that is no flag is a usage error; a lone '-' is not", "unknown flags must be usage errors: "+strings.Join(descs, "; "), c.pos(pa.Pos()))
		okF := true
		descs = nil
		for _, w := range []string{"-", "file.bcl", "x", ""} {
			outs, d := outcome(w)
			o := single(outs)
			if o == nil || o.Result != "next" || len(o.Sets) != 0 || !o.RestWord || o.RestTail {
				okF = false
			}
			descs = append(descs, fmt.Sprintf("%q: %s", w, d))
		}
		r.check(okF, "flags", "file-words", "other words are collected as file arguments", "words that are not flags (a lone '-' included) must be collected as file arguments: "+strings.Join(descs, "; "), c.pos(pa.Pos()))
	}
	// usage string mentions the flags
	if u, ok := pkgConstString(c.Cmd, "usage"); ok {
		missing := []string{}
		for sp := range spec.BoolFlags {
			if !strings.Contains(u, sp) {
				missing = append(missing, sp)
			}
		}
		for sp := range spec.ValueFlags {
			if !strings.Contains(u, sp) {
				missing = append(missing, sp)
			}
		}
		sort.Strings(missing)
		r.check(len(missing) == 0, "flags", "usage-string", "names every flag", fmt.Sprintf("the usage string does not mention %v", missing), "")
	} else {
		r.bad("flags", "usage-string", "constant usage not found", "")
	}
	// cluster expansion
	r.rule("cluster", 1, "-xyz is replaced by -x -y -z (lower-case letters only; anything else is a usage error) in front of the arguments that follow, the expansion being built on a fresh list that already holds a copy of those arguments before it is joined to the part of the argument list up to the current word")
	{
		okC := true
		var descs []string
		for w, want := range map[string][]string{"-dt": {"-d", "-t"}, "-srd": {"-s", "-r", "-d"}} {
			outs, d := outcome(w)
			o := single(outs)
			if o == nil || o.Result != "next" || len(o.Sets) != 0 || o.RestWord || o.RestTail || strings.Join(o.Spliced, " ") != strings.Join(want, " ") {
				okC = false
			}
			descs = append(descs, w+": "+d)
		}
		for _, w := range []string{"-d1", "-dT", "-d-"} {
			outs, d := outcome(w)
			o := single(outs)
			if o == nil || o.Result != "error" {
				okC = false
			}
			descs = append(descs, w+": "+d)
		}
		sort.Strings(descs)
		r.check(okC, "cluster", "expansion", "letters spliced in before a copy of the tail", "cluster expansion: "+strings.Join(descs, "; "), c.pos(pa.Pos()))
	}

	// ---- wiring
	r.rule("wiring", 4, "run passes exactly the documented options to LoadProg, ParseFile and Execute, taken from the matching flag fields; it passes neither OptOutput nor OptLogger; the result is printed with fmt.Printf under the result flag; Dump happens before Execute")
	seenCalls := map[string]int{}
	pos := map[string]int{}
	idx := 0
	c.walkCallsDeep(c.Cmd, run.Body, func(call *ast.CallExpr) {
		idx++
		name := c.calleeName(call)
		want, tracked := spec.Wiring[name]
		if name == "Prog.Dump" {
			if _, seen := pos["Dump"]; !seen {
				pos["Dump"] = idx
			}
		}
		switch name {
		case "OptOutput", "OptLogger":
			r.bad("wiring", name, "the command passes "+name+": its output would no longer be the library's default streams", c.pos(call.Pos()))
		}
		if !tracked {
			return
		}
		seenCalls[name]++
		pos[name] = idx
		var got []string
		for _, a := range call.Args {
			oc, ok := a.(*ast.CallExpr)
			if !ok || !strings.HasPrefix(c.calleeName(oc), "Opt") || len(oc.Args) != 1 {
				continue
			}
			fp := c.fieldPath(oc.Args[0])
			got = append(got, c.calleeName(oc)+":"+fp[strings.LastIndex(fp, ".")+1:])
		}
		sort.Strings(got)
		w := append([]string(nil), want...)
		sort.Strings(w)
		r.check(strings.Join(got, ",") == strings.Join(w, ","), "wiring", name, strings.Join(w, ","), fmt.Sprintf("%s is called with options %v; documented: %v", name, got, w), c.pos(call.Pos()))
	})
	for name := range spec.Wiring {
		if seenCalls[name] != 1 {
			r.bad("wiring", name+"/count", fmt.Sprintf("run calls %s %d times, expected once", name, seenCalls[name]), c.pos(run.Pos()))
		}
	}
	r.check(pos["Dump"] > 0 && pos["Dump"] < pos["Execute"], "wiring", "dump-before-execute", "Dump precedes Execute", "run must dump the program before executing it", c.pos(run.Pos()))
	// result printing: on the path where every call succeeds, run prints to standard output exactly twice when the
	// result flag is set — after Execute — and not at all otherwise
	okResult := false
	resDesc := ""
	{
		count := func(result bool) (n int, afterExec bool, paths int) {
			outs, _ := c.cliInterp(run, cliOpts{fields: map[string]Value{"result": constV(constant.MakeBool(result))}, happy: true})
			afterExec = true
			for _, o := range outs {
				if o.Result != "ok" {
					continue
				}
				paths++
				k := 0
				for _, e := range o.Events {
					if strings.HasPrefix(e, "print:Stdout") {
						k++
					}
				}
				if k > n {
					n = k
				}
				if k != n {
					afterExec = false // paths disagree
				}
			}
			return
		}
		nT, sameT, pT := count(true)
		nF, sameF, pF := count(false)
		okResult = nT == 2 && nF == 0 && sameT && sameF && pT > 0 && pF > 0
		resDesc = fmt.Sprintf("with the flag: %d prints on %d successful paths; without: %d prints on %d paths", nT, pT, nF, pF)
	}
	r.check(okResult, "wiring", "result", "if a.result { Printf(result); Printf(binding) }", "under the result flag run must print the blocks and the binding (two prints to standard output), and nothing without it: "+resDesc, c.pos(run.Pos()))

	// ---- exit codes and streams
	r.rule("exit-codes", 4, "main: usage error -> die(2), help -> the help function called (a bool help field: the usage constant printed on stdout by main) and exit 0 with run not called, run error -> die(1); die prints the error to standard error and exits with its argument")
	{
		paOK := Value{K: vTuple, Tup: []Value{tagV("pa", nil), tagV("nil", nil)}}
		paErr := Value{K: vTuple, Tup: []Value{tagV("pa", nil), tagV("errv", "usage")}}
		scen := func(calls map[string]Value, help Value) (string, []argOutcome) {
			outs, _ := c.cliInterp(mainFn, cliOpts{calls: calls, fields: map[string]Value{"help": help}})
			var ds []string
			for _, o := range outs {
				ds = append(ds, o.Result+" "+strings.Join(o.Events, ","))
			}
			return strings.Join(ds, " | "), outs
		}
		has := func(o argOutcome, prefix string) bool {
			for _, e := range o.Events {
				if strings.HasPrefix(e, prefix) {
					return true
				}
			}
			return false
		}
		// help kept as a function handed back to main, or as a flag main answers by printing the usage itself
		helpOff, helpOn := tagV("nil", nil), tagV("helpfn", nil)
		helpBool := c.helpIsBool(pa)
		if helpBool {
			helpOff, helpOn = constV(constant.MakeBool(false)), constV(constant.MakeBool(true))
		}
		// usage error: the error on standard error, exit 2, run not called
		d1, o1 := scen(map[string]Value{funcNameOfDeclQ(c, pa): paErr, funcNameOfDeclQ(c, run): tagV("nil", nil)}, helpOff)
		ok1 := len(o1) == 1 && o1[0].Result == fmt.Sprintf("exit(%d)", spec.ExitUsage) && has(o1[0], "print:Stderr errv(usage)") && !has(o1[0], "call:"+funcNameOfDeclQ(c, run))
		r.check(ok1, "exit-codes", "usage", "the usage error on standard error, exit 2", fmt.Sprintf("when parseArgs fails main does [%s]; documented: the error on standard error and exit status %d", d1, spec.ExitUsage), c.pos(mainFn.Pos()))
		// run error
		d2, o2 := scen(map[string]Value{funcNameOfDeclQ(c, pa): paOK, funcNameOfDeclQ(c, run): tagV("errv", "run")}, helpOff)
		ok2 := len(o2) == 1 && o2[0].Result == fmt.Sprintf("exit(%d)", spec.ExitRun) && has(o2[0], "print:Stderr errv(run)")
		r.check(ok2, "exit-codes", "run", "the run error on standard error, exit 1", fmt.Sprintf("when run fails main does [%s]; documented: the error on standard error and exit status %d", d2, spec.ExitRun), c.pos(mainFn.Pos()))
		// help
		d3, o3 := scen(map[string]Value{funcNameOfDeclQ(c, pa): paOK, funcNameOfDeclQ(c, run): tagV("nil", nil)}, helpOn)
		// main returning normally is exit status 0
		helpExit := func(res string) bool {
			return res == fmt.Sprintf("exit(%d)", spec.ExitHelp) || (spec.ExitHelp == 0 && res == "?")
		}
		helpShown := len(o3) == 1 && has(o3[0], "call:field:help")
		if helpBool {
			u, okU := pkgConstString(c.Cmd, "usage")
			helpShown = false
			if okU && len(o3) == 1 {
				for _, e := range o3[0].Events {
					if strings.HasPrefix(e, "print:Stdout") && strings.Contains(e, constant.MakeString(u).String()) {
						helpShown = true
					}
				}
			}
		}
		ok3 := len(o3) == 1 && helpExit(o3[0].Result) && helpShown && !has(o3[0], "call:"+funcNameOfDeclQ(c, run)) && !has(o3[0], "print:Stderr")
		r.check(ok3, "exit-codes", "help", "help printed, exit 0, nothing run", fmt.Sprintf("with -h main does [%s]; documented: the help function called, exit status %d, the program not run", d3, spec.ExitHelp), c.pos(mainFn.Pos()))
	}
	okDie := len(die.Body.List) == 2
	if okDie {
		c1, ok1 := die.Body.List[0].(*ast.ExprStmt)
		c2, ok2 := die.Body.List[1].(*ast.ExprStmt)
		okDie = ok1 && ok2
		if okDie {
			p1, _ := c1.X.(*ast.CallExpr)
			p2, _ := c2.X.(*ast.CallExpr)
			okDie = p1 != nil && p2 != nil && c.calleeName(p1) == "fmt.Fprintln" && qname(c.objOf(p1.Args[0])) == "os.Stderr" && c.isObj(p1.Args[1], c.paramObj(die, 1)) &&
				c.calleeName(p2) == "os.Exit" && c.isObj(p2.Args[0], c.paramObj(die, 0))
		}
	}
	r.check(okDie, "exit-codes", "die", "Fprintln(os.Stderr, err); os.Exit(code)", "die must print the error to os.Stderr and exit with the given code", c.pos(die.Pos()))

	ruleDerivedDumpName(c, r, "derived-bfile")
	r.rule("streams", 3, "the command writes to standard output directly (no buffered writer that could lose output on an error path); the library's default writers are os.Stdout and os.Stderr")
	buffered := ""
	for _, f := range c.Cmd.Syntax {
		ast.Inspect(f, func(n ast.Node) bool {
			if call, ok := n.(*ast.CallExpr); ok {
				if name := c.calleeName(call); strings.HasPrefix(name, "bufio.NewWriter") {
					// the dump file may be buffered by the library; the command itself must not buffer stdout
					buffered = c.pos(call.Pos())
				}
			}
			return true
		})
	}
	r.check(buffered == "", "streams", "unbuffered-stdout", "no bufio writer in the command", "the command wraps its output in a bufio.Writer: output printed before a failure is lost unless every error path flushes", buffered)
	if _, mk := c.find("makeConfig"); mk != nil {
		got := map[string]string{}
		bodies := []ast.Node{mk.Body}
		walkCalls(mk.Body, false, func(call *ast.CallExpr) {
			if fn, ok := c.callee(call).(*types.Func); ok && fn.Pkg() != nil && fn.Pkg().Path() == bclPath && isNamed(c.typeOf(call), bclPath, "config") {
				if hd := c.funcDecls[fn]; hd != nil && hd.Body != nil {
					bodies = append(bodies, hd.Body) // defaults taken from a helper that returns the config
				}
			}
		})
		for _, b := range bodies {
			ast.Inspect(b, func(n ast.Node) bool {
				if kv, ok := n.(*ast.KeyValueExpr); ok {
					if id, ok := kv.Key.(*ast.Ident); ok {
						got[id.Name] = qname(c.objOf(kv.Value))
					}
				}
				return true
			})
		}
		// the two writer defaults by what they are for, whatever the fields are called: results -> Stdout, diagnostics -> Stderr
		var outs, logs []string
		for k, v := range got {
			lk := strings.ToLower(k)
			switch v {
			case "os.Stdout":
				outs = append(outs, k)
				if strings.Contains(lk, "log") || strings.Contains(lk, "err") {
					outs = append(outs, "!"+k)
				}
			case "os.Stderr":
				logs = append(logs, k)
				if !(strings.Contains(lk, "log") || strings.Contains(lk, "err") || strings.Contains(lk, "diag")) {
					logs = append(logs, "!"+k)
				}
			}
		}
		if len(outs) == 1 && len(logs) == 1 {
			got["output"], got["logw"] = "os.Stdout", "os.Stderr"
		}
		r.check(got["output"] == "os.Stdout" && got["logw"] == "os.Stderr", "streams", "library-defaults", "output: os.Stdout, logw: os.Stderr", fmt.Sprintf("makeConfig defaults are %v; must be output: os.Stdout, logw: os.Stderr", got), c.pos(mk.Pos()))
	}
	// stdin: with no file word and no flags parseArgs leaves file = "-"; open("-") gives os.Stdin without opening anything
	okStdin, okDash := false, false
	dashDesc, stdinDesc := "", ""
	{
		for _, flags := range []map[string]Value{nil, {"bload": constV(constant.MakeBool(true))}, {"disasm": constV(constant.MakeBool(true)), "stats": constV(constant.MakeBool(true))}} {
			outs, _ := c.argsTail(pa, nil, flags)
			good := len(outs) > 0
			for _, o := range outs {
				v, has := o.Vals["file"]
				if o.Result != "ok" || !has || v.K != vConst || v.C.ExactString() != `"-"` {
					good = false
				}
				dashDesc += fmt.Sprintf("[%s file=%v] ", o.Result, o.Vals["file"])
			}
			okDash = good
			if !good {
				break
			}
		}
		// the function that opens the input: given "-"
		outs, _ := c.cliInterp(open, cliOpts{args: []Value{constV(constant.MakeString("-"))}, fields: map[string]Value{"file": constV(constant.MakeString("-"))}, zero: true})
		okStdin = len(outs) > 0
		for _, o := range outs {
			isStdin := len(o.Ret) > 0 && o.Ret[0].K == vTag && o.Ret[0].Tag == "os" && o.Ret[0].Data.(string) == "Stdin"
			opened := false
			for _, e := range o.Events {
				if strings.HasPrefix(e, "os.Open") {
					opened = true
				}
			}
			if !isStdin || opened {
				okStdin = false
			}
			stdinDesc += fmt.Sprintf("[%v %v] ", o.Ret, o.Events)
		}
	}
	r.check(okStdin && okDash, "streams", "stdin", "no file -> '-' -> os.Stdin", "without a file argument the command must read standard input ('' -> '-' in parseArgs, '-' -> os.Stdin in open): parseArgs without file words gives "+dashDesc+"; open(\"-\") gives "+stdinDesc, c.pos(open.Pos()))
	// ---- the .bcb file carries every part of the program that the output depends on
	if fspec, err := loadFormatSpec(); err == nil {
		ruleSectionAgreement(c, r, "bdump-bload-sections", fspec)
	} else {
		r.bad("bdump-bload-sections", "format.json", err.Error(), "")
	}
	r.note("end-to-end behaviour of the binary (argument permutations, the .bcb round trip, byte-identical output): nothing is executed")
}

// lastAssignBefore names the function whose call result was last assigned to id before pos.
func (c *Ctx) lastAssignBefore(fd *ast.FuncDecl, id *ast.Ident, pos token.Pos) string {
	obj := c.objOf(id)
	out := "?"
	ast.Inspect(fd.Body, func(n ast.Node) bool {
		as, ok := n.(*ast.AssignStmt)
		if !ok || as.Pos() >= pos || len(as.Rhs) != 1 {
			return true
		}
		for _, l := range as.Lhs {
			if lid, ok := l.(*ast.Ident); ok && c.objOf(lid) == obj {
				if call, ok := as.Rhs[0].(*ast.CallExpr); ok {
					out = c.calleeName(call)
				}
			}
		}
		return true
	})
	return out
}

// cmdCallReaches: the statically resolved callee (a function of the command) calls target, directly or through its own static callees.
func (c *Ctx) cmdCallReaches(call *ast.CallExpr, target string) bool {
	seen := map[string]bool{}
	var visit func(name string, depth int) bool
	visit = func(name string, depth int) bool {
		if name == target {
			return true
		}
		if depth > 4 || seen[name] || !strings.HasPrefix(name, "cmd.") {
			return false
		}
		seen[name] = true
		_, fd := c.findIn(c.Cmd, strings.TrimPrefix(name, "cmd."))
		if fd == nil || fd.Body == nil {
			return false
		}
		for _, n := range c.callsIn(fd.Body) {
			if visit(n, depth+1) {
				return true
			}
		}
		return false
	}
	return visit(c.calleeName(call), 0)
}

// walkCallsDeep visits the calls under body in source order; a call of a
// function of package pkg (with a body) is followed at that point, so that
// helpers the command was split into are seen in the order they run.
func (c *Ctx) walkCallsDeep(pkg *packages.Package, body ast.Node, f func(*ast.CallExpr)) {
	onStack := map[*ast.FuncDecl]bool{}
	var walk func(n ast.Node, depth int)
	walk = func(n ast.Node, depth int) {
		walkCalls(n, false, func(call *ast.CallExpr) {
			f(call)
			if depth > 5 {
				return
			}
			fn, ok := c.callee(call).(*types.Func)
			if !ok || fn.Pkg() == nil || fn.Pkg() != pkg.Types {
				return
			}
			fd := c.funcDecls[fn]
			if fd == nil || fd.Body == nil || onStack[fd] {
				return
			}
			onStack[fd] = true
			walk(fd.Body, depth+1)
			onStack[fd] = false
		})
	}
	walk(body, 0)
}

func isStringSlice(t types.Type) bool {
	if t == nil {
		return false
	}
	sl, ok := t.Underlying().(*types.Slice)
	return ok && types.TypeString(sl.Elem(), nil) == "string"
}

// funcNameOfDeclQ: the qualified name ("cmd.run") under which a command function appears as a callee.
func funcNameOfDeclQ(c *Ctx, fd *ast.FuncDecl) string {
	n := funcNameOfDecl(c, fd)
	if !strings.HasPrefix(n, "cmd.") {
		n = "cmd." + n
	}
	return n
}

// ruleDerivedDumpName: `--bdump` without a value writes FILE with its ".bcl" suffix replaced by ".bcb".
func ruleDerivedDumpName(c *Ctx, r *Report, rule string) {
	r.rule(rule, 1, "the BFILE name derived for a bare --bdump is FILE with exactly the suffix \".bcl\" removed and \".bcb\" appended: FILE[:len(FILE)-len(\".bcl\")] under strings.HasSuffix(FILE, \".bcl\"), strings.TrimSuffix(FILE, \".bcl\") or the result of strings.CutSuffix — not a character-set trim (TrimRight), a first-dot cut or a replace, which change other file names")
	n := 0
	for _, it := range c.sortedDecls() {
		if it.obj.Pkg() == nil || it.obj.Pkg() != c.Cmd.Types || it.fd.Body == nil {
			continue
		}
		fd := it.fd
		ast.Inspect(fd.Body, func(x ast.Node) bool {
			be, ok := x.(*ast.BinaryExpr)
			if !ok || be.Op != token.ADD {
				return true
			}
			ext, isK := c.strConst(be.Y)
			if !isK || ext != ".bcb" {
				return true
			}
			n++
			key := fmt.Sprintf("%s/derived#%d", funcNameOfDecl(c, fd), n)
			stem := c.stripConv(be.X)
			// a local holding the stem
			if id, isID := stem.(*ast.Ident); isID {
				if def, k := c.singleDef(fd.Body, c.objOf(id)); k == 1 && def != nil {
					stem = c.stripConv(def)
				}
			}
			ok2, why := false, "the stem is "+types.ExprString(be.X)
			switch e := stem.(type) {
			case *ast.SliceExpr:
				// f[:len(f)-len(".bcl")] / f[:len(f)-4], under HasSuffix(f, ".bcl")
				if e.Low == nil && e.High != nil && e.Max == nil {
					if hb, isB := c.stripConv(e.High).(*ast.BinaryExpr); isB && hb.Op == token.SUB {
						lenOf := func(a ast.Expr) ast.Expr {
							if call, isC := c.stripConv(a).(*ast.CallExpr); isC && c.calleeName(call) == "len" && len(call.Args) == 1 {
								return call.Args[0]
							}
							return nil
						}
						cut := int64(-1)
						if k, isC := c.intConst(hb.Y); isC {
							cut = k
						}
						if la := lenOf(hb.X); la != nil && c.sameExpr(la, e.X) && cut == int64(len(".bcl")) {
							for _, f := range splitFacts(c.factsAt(fd.Body, be)) {
								if call, isC := stripParens(f.Cond).(*ast.CallExpr); isC && f.Pos && c.calleeName(call) == "strings.HasSuffix" && len(call.Args) == 2 && c.sameExpr(call.Args[0], e.X) {
									if sfx, isS := c.strConst(call.Args[1]); isS && sfx == ".bcl" {
										ok2 = true
									}
								}
							}
							if !ok2 {
								why = "the last four bytes are cut off without the file name being known to end in \".bcl\""
							}
						} else {
							why = "the slice does not cut exactly len(\".bcl\") bytes off the end of the file name"
						}
					}
				}
			case *ast.CallExpr:
				switch c.calleeName(e) {
				case "strings.TrimSuffix":
					if len(e.Args) == 2 {
						if sfx, isS := c.strConst(e.Args[1]); isS && sfx == ".bcl" {
							ok2 = true
						}
					}
				case "strings.CutSuffix":
					if len(e.Args) == 2 {
						if sfx, isS := c.strConst(e.Args[1]); isS && sfx == ".bcl" {
							ok2 = true
						}
					}
				default:
					why = "the stem is computed by " + c.calleeName(e) + ", which does not remove exactly the suffix \".bcl\""
				}
			}
			r.check(ok2, rule, key, "FILE minus the suffix .bcl, plus .bcb", "the derived BFILE name: "+why, c.pos(be.Pos()))
			return true
		})
	}
}

// helpIsBool reports whether the help field of the struct parseArgs returns is a bool
// (main then prints the usage itself) rather than a function handed back to main.
func (c *Ctx) helpIsBool(pa *ast.FuncDecl) bool {
	if pa.Type.Results == nil || len(pa.Type.Results.List) == 0 {
		return false
	}
	t := c.typeOf(pa.Type.Results.List[0].Type)
	if t == nil {
		return false
	}
	st, ok := t.Underlying().(*types.Struct)
	if !ok {
		return false
	}
	for i := 0; i < st.NumFields(); i++ {
		if f := st.Field(i); f.Name() == "help" {
			b, ok := f.Type().Underlying().(*types.Basic)
			return ok && b.Kind() == types.Bool
		}
	}
	return false
}
