package main

// E-CLI: wiring of cmd/bcl.

import (
	"fmt"
	"go/ast"
	"go/token"
	"go/types"
	"sort"
	"strings"

	"golang.org/x/tools/go/packages"
)

type cliSpec struct {
	BoolFlags  map[string]string   `json:"bool_flags"`
	ValueFlags map[string][]string `json:"value_flags"`
	Help       string              `json:"help_flag"`
	Terminator string              `json:"terminator"`
	Wiring     map[string][]string `json:"wiring"`
	ExitUsage  int64               `json:"exit_usage"`
	ExitRun    int64               `json:"exit_run"`
	ExitHelp   int64               `json:"exit_help"`
}

func init() { register("C18", "other", checkC18) }

func checkC18(c *Ctx, r *Report) {
	var spec cliSpec
	if err := readSpec("cli.json", &spec); err != nil {
		r.bad("spec", "cli.json", err.Error(), "")
		return
	}
	if c.Cmd == nil {
		r.bad("anchors", "cmd/bcl", "package cmd/bcl not loaded", "")
		return
	}
	find := func(name string) *ast.FuncDecl {
		if _, fd := c.findIn(c.Cmd, name); fd != nil {
			return fd
		}
		// the same function turned into a method (or back): unique by simple name in the command's package
		var hit *ast.FuncDecl
		n := 0
		for obj, fd := range c.funcDecls {
			if obj.Pkg() == c.Cmd.Types && fd.Name.Name == name {
				hit = fd
				n++
			}
		}
		if n == 1 {
			return hit
		}
		return nil
	}
	pa := find("parseArgs")
	run := find("run")
	mainFn := find("main")
	die := find("die")
	open := find("open")
	if pa == nil || run == nil || mainFn == nil || die == nil || open == nil {
		r.bad("anchors", "cmd/bcl", "parseArgs/run/main/die/open not all found", "")
		return
	}
	r.fn("cmd.parseArgs", "cmd.run", "cmd.main", "cmd.die", "cmd.open")

	// ---- flags
	r.rule("flags", 12, "parseArgs' switch maps each documented spelling to its field, value flags to their pair of fields, '-h' to help, '--' to the rest, unknown '-x' to a usage error, a lone '-' and other words to the file list; the usage string names every flag")
	var sw *ast.SwitchStmt
	ast.Inspect(pa.Body, func(n ast.Node) bool {
		if s, ok := n.(*ast.SwitchStmt); ok && s.Tag == nil && sw == nil {
			sw = s
		}
		return true
	})
	if sw == nil {
		r.bad("flags", "switch", "parseArgs has no flag switch", c.pos(pa.Pos()))
		return
	}
	var argObj interface{}
	if as, ok := sw.Init.(*ast.AssignStmt); ok {
		argObj = c.objOf(as.Lhs[0])
	}
	_ = argObj
	gotBool := map[string]string{}
	gotValue := map[string][]string{}
	var clusterClause, unknownClause, defaultClause, helpClause, termClause *ast.CaseClause
	setsOf := func(body []ast.Stmt) []string {
		var fs []string
		for _, s := range body {
			ast.Inspect(s, func(n ast.Node) bool {
				if as, ok := n.(*ast.AssignStmt); ok {
					for _, l := range as.Lhs {
						if fp := c.fieldPath(l); strings.HasPrefix(fp, "<cmd.parsedArgs>.") || strings.HasPrefix(fp, "<parsedArgs>.") {
							fs = append(fs, fp[strings.Index(fp, ".")+1:])
						}
					}
				}
				// &a.field handed to a helper that stores the value
				if ue, ok := n.(*ast.UnaryExpr); ok && ue.Op == token.AND {
					if fp := c.fieldPath(ue.X); strings.HasPrefix(fp, "<cmd.parsedArgs>.") || strings.HasPrefix(fp, "<parsedArgs>.") {
						fs = append(fs, fp[strings.Index(fp, ".")+1:])
					}
				}
				return true
			})
		}
		sort.Strings(fs)
		return fs
	}
	for _, a := range c.switchArms(sw) {
		if a.Default {
			defaultClause = a.Clause
			continue
		}
		fields := setsOf(a.Body)
		for _, e := range a.Exprs {
			switch x := stripParens(e).(type) {
			case *ast.BinaryExpr:
				// table form: `case flags[arg] != nil: *flags[arg] = true` with flags := map[string]*bool{"-d": &a.disasm, ...}
				if x.Op == token.NEQ && isNilIdent(x.Y) {
					if ix, ok := stripParens(x.X).(*ast.IndexExpr); ok {
						if id, ok := stripParens(ix.X).(*ast.Ident); ok {
							if def, n := c.singleDef(pa.Body, c.objOf(id)); n == 1 {
								if cl, ok := def.(*ast.CompositeLit); ok {
									setsTrue := false
									for _, st := range a.Body {
										if as, ok := st.(*ast.AssignStmt); ok && len(as.Lhs) == 1 && len(as.Rhs) == 1 {
											if star, ok := as.Lhs[0].(*ast.StarExpr); ok {
												if ix2, ok := stripParens(star.X).(*ast.IndexExpr); ok && c.sameExpr(ix2, ix) {
													if rid, ok := as.Rhs[0].(*ast.Ident); ok && rid.Name == "true" {
														setsTrue = true
													}
												}
											}
										}
									}
									okTable := setsTrue
									for _, el := range cl.Elts {
										kv, ok := el.(*ast.KeyValueExpr)
										if !ok {
											okTable = false
											continue
										}
										k, ok1 := c.strConst(kv.Key)
										ue, ok2 := kv.Value.(*ast.UnaryExpr)
										if !ok1 || !ok2 || ue.Op != token.AND {
											okTable = false
											continue
										}
										fp := c.fieldPath(ue.X)
										if setsTrue {
											gotBool[k] = fp[strings.Index(fp, ".")+1:]
										}
									}
									if okTable {
										continue
									}
								}
							}
						}
					}
				}
				if x.Op == token.EQL {
					if s, ok := c.strConst(x.Y); ok {
						switch {
						case s == spec.Help:
							helpClause = a.Clause
						case s == spec.Terminator:
							termClause = a.Clause
						case len(fields) == 1:
							gotBool[s] = fields[0]
						default:
							gotBool[s] = strings.Join(fields, "+")
						}
						continue
					}
				}
				if x.Op == token.LAND || x.Op == token.LOR {
					// len(arg) >= N && arg[0] == '-'   (any equivalent spelling)
					if atoms, pure := c.nnf(x, true, nil).conjuncts(); pure && len(atoms) == 2 {
						minLen, dash := int64(-1), false
						for _, at := range atoms {
							if b, ok := c.boundOf(at); ok {
								if call, isC := stripParens(b.X).(*ast.CallExpr); isC && c.calleeName(call) == "len" && b.Lo != nil && b.Hi == nil {
									minLen = *b.Lo
								}
								if _, isIx := stripParens(b.X).(*ast.IndexExpr); isIx && b.Lo != nil && b.Hi != nil && *b.Lo == '-' && *b.Hi == '-' {
									dash = true
								}
							}
						}
						if dash && minLen == 3 {
							clusterClause = a.Clause
							continue
						}
						if dash && minLen == 2 {
							unknownClause = a.Clause
							continue
						}
					}
				}
				r.bad("flags", "case/"+fmt.Sprint(c.pos(e.Pos())), "unrecognised flag case condition", c.pos(e.Pos()))
			case *ast.CallExpr:
				if c.calleeName(x) == "strings.HasPrefix" && len(x.Args) == 2 {
					if s, ok := c.strConst(x.Args[1]); ok {
						gotValue[s] = fields
						continue
					}
				}
				r.bad("flags", "case/"+fmt.Sprint(c.pos(e.Pos())), "unrecognised flag case condition", c.pos(e.Pos()))
			default:
				r.bad("flags", "case/"+fmt.Sprint(c.pos(e.Pos())), "unrecognised flag case condition", c.pos(e.Pos()))
			}
		}
	}
	for _, sp := range sortedKeys(spec.BoolFlags) {
		r.check(gotBool[sp] == spec.BoolFlags[sp], "flags", "bool/"+sp, "sets "+spec.BoolFlags[sp], fmt.Sprintf("flag %s sets %q; documented: %s", sp, gotBool[sp], spec.BoolFlags[sp]), c.pos(sw.Pos()))
	}
	for sp := range gotBool {
		if _, ok := spec.BoolFlags[sp]; !ok {
			r.bad("flags", "bool/"+sp, "undocumented flag spelling "+sp, c.pos(sw.Pos()))
		}
	}
	for _, sp := range sortedKeys(spec.ValueFlags) {
		want := append([]string(nil), spec.ValueFlags[sp]...)
		sort.Strings(want)
		r.check(strings.Join(gotValue[sp], ",") == strings.Join(want, ","), "flags", "value/"+sp, "sets "+strings.Join(want, ","), fmt.Sprintf("flag %s[=F] sets %v; documented: %v", sp, gotValue[sp], want), c.pos(sw.Pos()))
	}
	r.check(helpClause != nil && termClause != nil, "flags", "help+terminator", "-h and -- handled", "parseArgs must handle -h and --", c.pos(sw.Pos()))
	// unknown flags: len(arg) > 1 && arg[0] == '-' -> error; default -> rest
	okUnknown := false
	if unknownClause != nil {
		for _, s := range unknownClause.Body {
			if rs, ok := s.(*ast.ReturnStmt); ok && len(rs.Results) == 2 && !isNilIdent(rs.Results[1]) {
				okUnknown = true
			}
		}
	}
	r.check(okUnknown, "flags", "unknown-flag", "a word of two or more characters starting with '-' that is no flag is a usage error; a lone '-' is not", "the unknown-flag case must be exactly `len(arg) > 1 && arg[0] == '-'` returning an error (so that '-' alone still names standard input)", c.pos(sw.Pos()))
	okDefault := false
	if defaultClause != nil {
		for _, f := range setsOf(defaultClause.Body) {
			_ = f
		}
		ast.Inspect(defaultClause, func(n ast.Node) bool {
			if call, ok := n.(*ast.CallExpr); ok && c.calleeName(call) == "append" {
				okDefault = true
			}
			return true
		})
	}
	// '--': everything after it is appended to the words collected so far
	okTerm := false
	if termClause != nil {
		ast.Inspect(termClause, func(n ast.Node) bool {
			as, ok := n.(*ast.AssignStmt)
			if !ok || len(as.Lhs) != 1 || len(as.Rhs) != 1 {
				return true
			}
			call, ok := as.Rhs[0].(*ast.CallExpr)
			if ok && c.calleeName(call) == "append" && len(call.Args) >= 2 && c.objOfExpr(as.Lhs[0]) != nil && c.objOfExpr(call.Args[0]) == c.objOfExpr(as.Lhs[0]) {
				okTerm = true
			}
			return true
		})
	}
	r.check(okTerm, "flags", "terminator-appends", "the words after '--' are appended to the file words seen before it", "the '--' case must append the remaining arguments to the file words collected so far (rest = append(rest, args[1:]...)); assigning them drops a FILE given before '--'", c.pos(sw.Pos()))
	r.check(okDefault, "flags", "file-words", "other words are collected as file arguments", "words that are not flags must be collected as file arguments", c.pos(sw.Pos()))
	// usage string mentions the flags
	if u, ok := pkgConstString(c.Cmd, "usage"); ok {
		missing := []string{}
		for sp := range spec.BoolFlags {
			if !strings.Contains(u, sp) {
				missing = append(missing, sp)
			}
		}
		for sp := range spec.ValueFlags {
			if !strings.Contains(u, sp) {
				missing = append(missing, sp)
			}
		}
		sort.Strings(missing)
		r.check(len(missing) == 0, "flags", "usage-string", "names every flag", fmt.Sprintf("the usage string does not mention %v", missing), "")
	} else {
		r.bad("flags", "usage-string", "constant usage not found", "")
	}
	// cluster expansion
	r.rule("cluster", 1, "-xyz expands to -x -y -z for lower-case letters by building the expansion on a fresh slice: the arguments after the cluster are copied before anything is appended onto args[:1]")
	okCluster := false
	why := "no cluster case (len(arg) > 2 && arg[0] == '-')"
	if clusterClause != nil {
		why = "the expansion must be args = append(args[:1], append(<fresh letters slice>, args[1:]...)...)"
		ast.Inspect(clusterClause, func(n ast.Node) bool {
			as, ok := n.(*ast.AssignStmt)
			if !ok || len(as.Lhs) != 1 || len(as.Rhs) != 1 {
				return true
			}
			outer, ok := as.Rhs[0].(*ast.CallExpr)
			if !ok || c.calleeName(outer) != "append" || len(outer.Args) != 2 || !outer.Ellipsis.IsValid() {
				return true
			}
			head, ok1 := outer.Args[0].(*ast.SliceExpr)
			inner, ok2 := outer.Args[1].(*ast.CallExpr)
			if !ok1 || !ok2 || c.calleeName(inner) != "append" || len(inner.Args) != 2 || !inner.Ellipsis.IsValid() {
				return true
			}
			tail, ok3 := inner.Args[1].(*ast.SliceExpr)
			if !ok3 {
				return true
			}
			sameBase := c.objOfExpr(head.X) != nil && c.objOfExpr(head.X) == c.objOfExpr(tail.X) && c.objOfExpr(head.X) == c.objOfExpr(as.Lhs[0])
			h, hok := c.intConst(head.High)
			l, lok := c.intConst(tail.Low)
			lettersFresh := c.objOfExpr(inner.Args[0]) != nil && c.objOfExpr(inner.Args[0]) != c.objOfExpr(head.X)
			if sameBase && hok && lok && h == 1 && l == 1 && head.Low == nil && tail.High == nil && lettersFresh {
				okCluster = true
			}
			return true
		})
	}
	r.check(okCluster, "cluster", "expansion", "tail copied onto the fresh letters slice first", "cluster expansion: "+why, c.pos(sw.Pos()))

	// ---- wiring
	r.rule("wiring", 4, "run passes exactly the documented options to LoadProg, ParseFile and Execute, taken from the matching flag fields; it passes neither OptOutput nor OptLogger; the result is printed with fmt.Printf under the result flag; Dump happens before Execute")
	seenCalls := map[string]int{}
	pos := map[string]int{}
	idx := 0
	c.walkCallsDeep(c.Cmd, run.Body, func(call *ast.CallExpr) {
		idx++
		name := c.calleeName(call)
		want, tracked := spec.Wiring[name]
		if name == "Prog.Dump" {
			if _, seen := pos["Dump"]; !seen {
				pos["Dump"] = idx
			}
		}
		switch name {
		case "OptOutput", "OptLogger":
			r.bad("wiring", name, "the command passes "+name+": its output would no longer be the library's default streams", c.pos(call.Pos()))
		}
		if !tracked {
			return
		}
		seenCalls[name]++
		pos[name] = idx
		var got []string
		for _, a := range call.Args {
			oc, ok := a.(*ast.CallExpr)
			if !ok || !strings.HasPrefix(c.calleeName(oc), "Opt") || len(oc.Args) != 1 {
				continue
			}
			fp := c.fieldPath(oc.Args[0])
			got = append(got, c.calleeName(oc)+":"+fp[strings.LastIndex(fp, ".")+1:])
		}
		sort.Strings(got)
		w := append([]string(nil), want...)
		sort.Strings(w)
		r.check(strings.Join(got, ",") == strings.Join(w, ","), "wiring", name, strings.Join(w, ","), fmt.Sprintf("%s is called with options %v; documented: %v", name, got, w), c.pos(call.Pos()))
	})
	for name := range spec.Wiring {
		if seenCalls[name] != 1 {
			r.bad("wiring", name+"/count", fmt.Sprintf("run calls %s %d times, expected once", name, seenCalls[name]), c.pos(run.Pos()))
		}
	}
	r.check(pos["Dump"] > 0 && pos["Dump"] < pos["Execute"], "wiring", "dump-before-execute", "Dump precedes Execute", "run must dump the program before executing it", c.pos(run.Pos()))
	// result printing
	okResult := false
	ast.Inspect(run.Body, func(n ast.Node) bool {
		ifs, ok := n.(*ast.IfStmt)
		if !ok || !strings.HasSuffix(c.fieldPath(ifs.Cond), ".result") {
			return true
		}
		nPrint := 0
		for _, s := range ifs.Body.List {
			if es, ok := s.(*ast.ExprStmt); ok {
				if call, ok := es.X.(*ast.CallExpr); ok && c.calleeName(call) == "fmt.Printf" {
					nPrint++
				}
			}
		}
		okResult = nPrint == 2 && len(ifs.Body.List) == 2
		return true
	})
	r.check(okResult, "wiring", "result", "if a.result { Printf(result); Printf(binding) }", "under the result flag run must print the blocks and the binding with fmt.Printf, nothing else", c.pos(run.Pos()))

	// ---- exit codes and streams
	r.rule("exit-codes", 4, "main: usage error -> die(2), help -> usage on stdout and exit 0, run error -> die(1); die prints the error to standard error and exits with its argument")
	dieArgs := map[string]int64{}
	helpExit := int64(-1)
	ast.Inspect(mainFn.Body, func(n ast.Node) bool {
		ifs, ok := n.(*ast.IfStmt)
		if !ok {
			return true
		}
		for _, s := range ifs.Body.List {
			es, ok := s.(*ast.ExprStmt)
			if !ok {
				continue
			}
			call, ok := es.X.(*ast.CallExpr)
			if !ok {
				continue
			}
			switch c.calleeName(call) {
			case "cmd.die":
				k, _ := c.intConst(call.Args[0])
				// which error: the one from parseArgs or from run
				which := "?"
				if id, ok := call.Args[1].(*ast.Ident); ok {
					def := c.lastAssignBefore(mainFn, id, ifs.Pos())
					which = def
				}
				dieArgs[which] = k
			case "os.Exit":
				k, _ := c.intConst(call.Args[0])
				helpExit = k
			}
		}
		return true
	})
	r.check(dieArgs[funcNameOfDecl(c, pa)] == spec.ExitUsage, "exit-codes", "usage", "die(2, err) after parseArgs", fmt.Sprintf("a usage error exits with %d, documented %d", dieArgs[funcNameOfDecl(c, pa)], spec.ExitUsage), c.pos(mainFn.Pos()))
	r.check(dieArgs[funcNameOfDecl(c, run)] == spec.ExitRun, "exit-codes", "run", "die(1, err) after run", fmt.Sprintf("a run error exits with %d, documented %d", dieArgs[funcNameOfDecl(c, run)], spec.ExitRun), c.pos(mainFn.Pos()))
	r.check(helpExit == spec.ExitHelp, "exit-codes", "help", "os.Exit(0) after help", fmt.Sprintf("help exits with %d, documented %d", helpExit, spec.ExitHelp), c.pos(mainFn.Pos()))
	okDie := len(die.Body.List) == 2
	if okDie {
		c1, ok1 := die.Body.List[0].(*ast.ExprStmt)
		c2, ok2 := die.Body.List[1].(*ast.ExprStmt)
		okDie = ok1 && ok2
		if okDie {
			p1, _ := c1.X.(*ast.CallExpr)
			p2, _ := c2.X.(*ast.CallExpr)
			okDie = p1 != nil && p2 != nil && c.calleeName(p1) == "fmt.Fprintln" && qname(c.objOf(p1.Args[0])) == "os.Stderr" && c.isObj(p1.Args[1], c.paramObj(die, 1)) &&
				c.calleeName(p2) == "os.Exit" && c.isObj(p2.Args[0], c.paramObj(die, 0))
		}
	}
	r.check(okDie, "exit-codes", "die", "Fprintln(os.Stderr, err); os.Exit(code)", "die must print the error to os.Stderr and exit with the given code", c.pos(die.Pos()))

	r.rule("streams", 3, "the command writes to standard output directly (no buffered writer that could lose output on an error path); the library's default writers are os.Stdout and os.Stderr")
	buffered := ""
	for _, f := range c.Cmd.Syntax {
		ast.Inspect(f, func(n ast.Node) bool {
			if call, ok := n.(*ast.CallExpr); ok {
				if name := c.calleeName(call); strings.HasPrefix(name, "bufio.NewWriter") {
					// the dump file may be buffered by the library; the command itself must not buffer stdout
					buffered = c.pos(call.Pos())
				}
			}
			return true
		})
	}
	r.check(buffered == "", "streams", "unbuffered-stdout", "no bufio writer in the command", "the command wraps its output in a bufio.Writer: output printed before a failure is lost unless every error path flushes", buffered)
	if _, mk := c.find("makeConfig"); mk != nil {
		got := map[string]string{}
		bodies := []ast.Node{mk.Body}
		walkCalls(mk.Body, false, func(call *ast.CallExpr) {
			if fn, ok := c.callee(call).(*types.Func); ok && fn.Pkg() != nil && fn.Pkg().Path() == bclPath && isNamed(c.typeOf(call), bclPath, "config") {
				if hd := c.funcDecls[fn]; hd != nil && hd.Body != nil {
					bodies = append(bodies, hd.Body) // defaults taken from a helper that returns the config
				}
			}
		})
		for _, b := range bodies {
			ast.Inspect(b, func(n ast.Node) bool {
				if kv, ok := n.(*ast.KeyValueExpr); ok {
					if id, ok := kv.Key.(*ast.Ident); ok {
						got[id.Name] = qname(c.objOf(kv.Value))
					}
				}
				return true
			})
		}
		r.check(got["output"] == "os.Stdout" && got["logw"] == "os.Stderr", "streams", "library-defaults", "output: os.Stdout, logw: os.Stderr", fmt.Sprintf("makeConfig defaults are %v; must be output: os.Stdout, logw: os.Stderr", got), c.pos(mk.Pos()))
	}
	// stdin
	okStdin := false
	ast.Inspect(open.Body, func(n ast.Node) bool {
		ifs, ok := n.(*ast.IfStmt)
		if !ok {
			return true
		}
		if be, ok := stripParens(ifs.Cond).(*ast.BinaryExpr); ok && be.Op == token.EQL {
			if s, isS := c.strConst(be.Y); isS && s == "-" {
				for _, st := range ifs.Body.List {
					if rs, ok := st.(*ast.ReturnStmt); ok && len(rs.Results) == 2 && qname(c.objOf(rs.Results[0])) == "os.Stdin" {
						okStdin = true
					}
				}
			}
		}
		return true
	})
	okDash := false
	dashBodies := []ast.Node{pa.Body}
	c.walkCallsDeep(c.Cmd, pa.Body, func(call *ast.CallExpr) {
		if fn, ok := c.callee(call).(*types.Func); ok && fn.Pkg() == c.Cmd.Types {
			if hd := c.funcDecls[fn]; hd != nil && hd.Body != nil {
				dashBodies = append(dashBodies, hd.Body)
			}
		}
	})
	for _, body := range dashBodies {
		ast.Inspect(body, func(n ast.Node) bool {
			as, ok := n.(*ast.AssignStmt)
			if !ok || len(as.Lhs) != 1 || len(as.Rhs) != 1 || !strings.HasSuffix(c.fieldPath(as.Lhs[0]), ".file") {
				return true
			}
			if v, isV := c.strConst(as.Rhs[0]); !isV || v != "-" {
				return true
			}
			// under the fact that no file was given: file == "" or no file words (len(rest) == 0)
			for _, f := range splitFacts(c.factsAt(body, as)) {
				a := condAtom{E: stripParens(f.Cond), Pos: f.Pos, Init: f.Init}
				if x, isEmpty, ok := c.emptyStringCmp(a); ok && isEmpty {
					if strings.HasSuffix(c.fieldPath(x), ".file") || isStringSlice(c.typeOf(x)) {
						okDash = true
					}
				}
			}
			return true
		})
	}
	r.check(okStdin && okDash, "streams", "stdin", "no file -> '-' -> os.Stdin", "without a file argument the command must read standard input ('' -> '-' in parseArgs, '-' -> os.Stdin in open)", c.pos(open.Pos()))
	// ---- the .bcb file carries every part of the program that the output depends on
	if fspec, err := loadFormatSpec(); err == nil {
		ruleSectionAgreement(c, r, "bdump-bload-sections", fspec)
	} else {
		r.bad("bdump-bload-sections", "format.json", err.Error(), "")
	}
	r.note("end-to-end behaviour of the binary (argument permutations, the .bcb round trip, byte-identical output): nothing is executed")
}

// lastAssignBefore names the function whose call result was last assigned to id before pos.
func (c *Ctx) lastAssignBefore(fd *ast.FuncDecl, id *ast.Ident, pos token.Pos) string {
	obj := c.objOf(id)
	out := "?"
	ast.Inspect(fd.Body, func(n ast.Node) bool {
		as, ok := n.(*ast.AssignStmt)
		if !ok || as.Pos() >= pos || len(as.Rhs) != 1 {
			return true
		}
		for _, l := range as.Lhs {
			if lid, ok := l.(*ast.Ident); ok && c.objOf(lid) == obj {
				if call, ok := as.Rhs[0].(*ast.CallExpr); ok {
					out = c.calleeName(call)
				}
			}
		}
		return true
	})
	return out
}

// cmdCallReaches: the statically resolved callee (a function of the command) calls target, directly or through its own static callees.
func (c *Ctx) cmdCallReaches(call *ast.CallExpr, target string) bool {
	seen := map[string]bool{}
	var visit func(name string, depth int) bool
	visit = func(name string, depth int) bool {
		if name == target {
			return true
		}
		if depth > 4 || seen[name] || !strings.HasPrefix(name, "cmd.") {
			return false
		}
		seen[name] = true
		_, fd := c.findIn(c.Cmd, strings.TrimPrefix(name, "cmd."))
		if fd == nil || fd.Body == nil {
			return false
		}
		for _, n := range c.callsIn(fd.Body) {
			if visit(n, depth+1) {
				return true
			}
		}
		return false
	}
	return visit(c.calleeName(call), 0)
}

// walkCallsDeep visits the calls under body in source order; a call of a
// function of package pkg (with a body) is followed at that point, so that
// helpers the command was split into are seen in the order they run.
func (c *Ctx) walkCallsDeep(pkg *packages.Package, body ast.Node, f func(*ast.CallExpr)) {
	onStack := map[*ast.FuncDecl]bool{}
	var walk func(n ast.Node, depth int)
	walk = func(n ast.Node, depth int) {
		walkCalls(n, false, func(call *ast.CallExpr) {
			f(call)
			if depth > 5 {
				return
			}
			fn, ok := c.callee(call).(*types.Func)
			if !ok || fn.Pkg() == nil || fn.Pkg() != pkg.Types {
				return
			}
			fd := c.funcDecls[fn]
			if fd == nil || fd.Body == nil || onStack[fd] {
				return
			}
			onStack[fd] = true
			walk(fd.Body, depth+1)
			onStack[fd] = false
		})
	}
	walk(body, 0)
}

func isStringSlice(t types.Type) bool {
	if t == nil {
		return false
	}
	sl, ok := t.Underlying().(*types.Slice)
	return ok && types.TypeString(sl.Elem(), nil) == "string"
}
