package main

// E-CONC (part 2): which goroutine touches which field, and how sharing is justified.

import (
	"fmt"
	"go/ast"
	"go/token"
	"go/types"
	"sort"
	"strings"

	"golang.org/x/tools/go/ssa"
)

type concSpec struct {
	Shared map[string]struct {
		Class  string   `json:"class"` // confined-before-go, lock, handoff, channel, immutable
		Writer []string `json:"writers"`
		Why    string   `json:"why"`
	} `json:"shared"`
	GoStatements int `json:"go_statements"`
}

// goroutineRoots finds the functions started by `go` statements plus the
// synchronous roots they run concurrently with.
func (c *Ctx) goroutineRoots() (map[string]*ssa.Function, int) {
	roots := map[string]*ssa.Function{}
	n := 0
	for _, fn := range c.allFuncs() {
		if fn.Pkg == nil && fn.Parent() == nil {
			continue
		}
		if !strings.HasPrefix(ssaPkgPath(fn), bclPath) || ssaPkgPath(fn) != bclPath {
			continue
		}
		for _, b := range fn.Blocks {
			for _, ins := range b.Instrs {
				g, ok := ins.(*ssa.Go)
				if !ok {
					continue
				}
				n++
				var callee *ssa.Function
				if mc, ok := g.Call.Value.(*ssa.MakeClosure); ok {
					callee, _ = mc.Fn.(*ssa.Function)
				} else {
					callee = g.Call.StaticCallee()
				}
				if callee != nil {
					roots[ssaFuncName(callee)] = callee
				}
			}
		}
	}
	return roots, n
}

func ssaPkgPath(f *ssa.Function) string {
	for f != nil {
		if f.Pkg != nil {
			return f.Pkg.Pkg.Path()
		}
		f = f.Parent()
	}
	return ""
}

// ruleSharedLocations classifies every struct field reachable from two
// concurrently running roots with at least one write.
func ruleSharedLocations(c *Ctx, r *Report, rule string) {
	r.rule(rule, 5, "every struct field touched from two concurrently running goroutine roots (reader, parser, lexer) with at least one write is justified: written only by a constructor before the `go` statement, or accessed only under the owner's mutex, or handed over through a channel; any other shared field is a violation")
	goRoots, nGo := c.goroutineRoots()
	cg := c.VTA()
	roleOf := map[string]string{}
	var names []string
	for n := range goRoots {
		names = append(names, n)
	}
	sort.Strings(names)
	reach := map[string]map[*ssa.Function]bool{}
	for _, n := range names {
		role := n
		switch {
		case n == "lexer.run":
			role = "L"
		default:
			// the parser goroutine reaches parse(); any other goroutine of the API is the reader
			role = "R"
			for f := range reachable(cg, goRoots[n]) {
				if ssaFuncName(f) == "parse" {
					role = "P"
				}
			}
		}
		roleOf[n] = role
		reach[role] = reachable(cg, goRoots[n])
	}
	// the parser also runs synchronously (Parse) next to the lexer goroutine
	if obj, _ := c.find("parse"); obj != nil {
		if reach["P"] == nil {
			reach["P"] = map[*ssa.Function]bool{}
		}
		for f := range reachable(cg, c.ssaFunc(obj)) {
			reach["P"][f] = true
		}
	}
	r.check(nGo == 3 && reach["L"] != nil && reach["R"] != nil && reach["P"] != nil, rule, "roots", "3 go statements: reader, parser, lexer", fmt.Sprintf("expected exactly the three goroutines reader/parser/lexer; found %d go statements, roots %v", nGo, roleOf), "")
	if reach["L"] == nil || reach["P"] == nil {
		return
	}
	// the lexer goroutine's reach excludes what only the constructor does: newLexer runs in P before `go`
	type acc struct {
		roots map[string]bool
		write map[string]bool
		fns   map[string]bool
	}
	fields := map[string]*acc{}
	// long-lived, pointer-shared structures; small value structs (token, errCombined, writers …) are copied, not shared
	tracked := map[string]bool{"lexer": true, "parser": true, "scopeCompiler": true, "Prog": true, "lineCalc": true, "vm": true, "config": true, "Block": true, "logger": true}
	for _, a := range c.fieldAccesses() {
		if !tracked[a.Struct] {
			continue
		}
		key := a.Struct + "." + a.Field
		for role, set := range reach {
			if !set[a.Fn] {
				continue
			}
			if fields[key] == nil {
				fields[key] = &acc{map[string]bool{}, map[string]bool{}, map[string]bool{}}
			}
			fields[key].roots[role] = true
			fields[key].fns[ssaFuncName(a.Fn)+"@"+role] = true
			if a.Kind != "read" {
				fields[key].write[role+":"+ssaFuncName(a.Fn)] = true
			}
		}
	}
	r.fn("lexer.run", "ParseFile$go#1", "ParseFile$go#2", "parse")
	for _, key := range sortedKeys(fields) {
		a := fields[key]
		if len(a.roots) < 2 || len(a.write) == 0 {
			continue
		}
		var writers []string
		for w := range a.write {
			writers = append(writers, w)
		}
		sort.Strings(writers)
		class, why := classifyShared(c, key, a.roots, writers)
		if class == "" {
			r.bad(rule, key, fmt.Sprintf("field %s is touched from goroutines %v and written by %v without a recognised justification (constructor before `go`, mutex, channel hand-off): %s", key, sortedBoolKeys(a.roots), writers, why), "")
		} else {
			r.ok(rule, key, fmt.Sprintf("%s — roots %v, writers %v", class, sortedBoolKeys(a.roots), writers))
		}
	}
}

func sortedBoolKeys(m map[string]bool) []string {
	var out []string
	for k := range m {
		out = append(out, k)
	}
	sort.Strings(out)
	return out
}

// classifyShared justifies a shared field, or returns "".
func classifyShared(c *Ctx, key string, roots map[string]bool, writers []string) (string, string) {
	onlyBy := func(fns ...string) bool {
		for _, w := range writers {
			fn := w[strings.Index(w, ":")+1:]
			ok := false
			for _, f := range fns {
				if fn == f {
					ok = true
				}
			}
			if !ok {
				return false
			}
		}
		return true
	}
	switch {
	case strings.HasPrefix(key, "lexer."):
		// written by the constructor (before `go l.run()`) and by the lexer goroutine's own primitives;
		// the only other root reading lexer fields is the parser through nextToken (tokens channel)
		f := strings.TrimPrefix(key, "lexer.")
		if f == "tokens" || f == "inputs" || f == "lpUpd" {
			if onlyBy("newLexer") && c.goAfterInit("newLexer") {
				return "confined before go (set in newLexer before `go l.run()`)", ""
			}
			return "", "the field is assigned outside the constructor"
		}
		// window fields: only the lexer goroutine may touch them at all
		if len(roots) == 1 && roots["L"] {
			return "single root", ""
		}
		// newLexer's composite literal zero-initialises; P reaches newLexer only
		for _, w := range writers {
			if !strings.HasPrefix(w, "L:") && !strings.HasSuffix(w, ":newLexer") {
				return "", "a lexer window field is written outside the lexer goroutine"
			}
		}
		return "lexer goroutine only (constructor aside)", ""
	case key == "lineCalc.lfs":
		if c.lockShape("lineCalc.add") && c.lockShape("lineCalc.lineColAt") && onlyBy("lineCalc.add", "newLineCalc", "Prog.Load") {
			return "lock-protected (lineCalc.mu held by add and lineColAt for their whole body)", ""
		}
		return "", "an accessor of the line table does not hold lineCalc.mu for its whole body"
	case key == "lineCalc.mu":
		return "the mutex itself", ""
	case strings.HasPrefix(key, "token."):
		return "values sent over the token channel (copied)", ""
	}
	return "", "no rule for this field"
}

// goAfterInit: in the constructor the go statement comes after the struct literal that sets the fields.
func (c *Ctx) goAfterInit(fn string) bool {
	_, fd := c.find(fn)
	if fd == nil {
		return false
	}
	litAt, goAt, assignsAfter := -1, -1, false
	for i, s := range fd.Body.List {
		switch s := s.(type) {
		case *ast.AssignStmt:
			if goAt >= 0 {
				assignsAfter = true
			}
			for _, rhs := range s.Rhs {
				if ue, ok := rhs.(*ast.UnaryExpr); ok && ue.Op == token.AND {
					if _, ok := ue.X.(*ast.CompositeLit); ok {
						litAt = i
					}
				}
			}
		case *ast.GoStmt:
			goAt = i
		case *ast.ExprStmt:
			// the go statement in a helper of its own: l.spawn()
			if call, ok := s.X.(*ast.CallExpr); ok {
				if f, isF := c.callee(call).(*types.Func); isF && f.Pkg() != nil && f.Pkg().Path() == bclPath {
					if hd := c.funcDecls[f]; hd != nil && hd.Body != nil {
						for _, hs := range hd.Body.List {
							if _, isGo := hs.(*ast.GoStmt); isGo {
								goAt = i
							}
						}
					}
				}
			}
		}
	}
	return litAt >= 0 && goAt > litAt && !assignsAfter
}

// lockShape: the method begins with recv.mu.Lock() and defer recv.mu.Unlock()
// and touches the receiver's fields only after them.
func (c *Ctx) lockShape(fn string) bool {
	_, fd := c.find(fn)
	if fd == nil || len(fd.Body.List) < 2 {
		return false
	}
	isMuCall := func(s ast.Stmt, method string, deferred bool) bool {
		var call *ast.CallExpr
		switch s := s.(type) {
		case *ast.ExprStmt:
			if deferred {
				return false
			}
			call, _ = s.X.(*ast.CallExpr)
		case *ast.DeferStmt:
			if !deferred {
				return false
			}
			call = s.Call
		}
		if call == nil || c.calleeName(call) != "sync.Mutex."+method {
			return false
		}
		sel, ok := call.Fun.(*ast.SelectorExpr)
		return ok && strings.HasSuffix(c.fieldPath(sel.X), ".mu")
	}
	return isMuCall(fd.Body.List[0], "Lock", false) && isMuCall(fd.Body.List[1], "Unlock", true)
}

// ruleExecuteReadonly: executing a Prog does not modify it.
func ruleExecuteReadonly(c *Ctx, r *Report, rule string) {
	r.rule(rule, 1, "no function reachable from execute (static calls and closures) writes a field of Prog, lineCalc or config, or an element of Prog's slices: a Prog can be executed repeatedly and concurrently")
	obj, _ := c.find("execute")
	root := c.ssaFunc(obj)
	if root == nil {
		r.bad(rule, "execute", "function not found", "")
		return
	}
	set := map[*ssa.Function]bool{}
	for _, f := range closureOf(root) {
		set[f] = true
	}
	// dynamic calls: add VTA-reachable module functions too
	for f := range reachable(c.VTA(), root) {
		if inRepo(f) {
			set[f] = true
		}
	}
	// the exported wrapper: what Execute does around execute must leave the Prog alone as well
	outer := map[*ssa.Function]bool{}
	if eobj, _ := c.find("Execute"); eobj != nil {
		if eroot := c.ssaFunc(eobj); eroot != nil {
			for _, f := range closureOf(eroot) {
				if !set[f] {
					outer[f] = true
				}
			}
		}
	}
	n := 0
	for _, a := range c.fieldAccesses() {
		if a.Kind == "read" {
			continue
		}
		if outer[a.Fn] && (a.Struct == "Prog" || (a.Struct == "lineCalc" && a.Field != "mu")) {
			n++
			r.bad(rule, fmt.Sprintf("%s/%s.%s", ssaFuncName(a.Fn), a.Struct, a.Field), fmt.Sprintf("%s, part of Execute, writes %s.%s (%s): executing a Prog must not alter it", ssaFuncName(a.Fn), a.Struct, a.Field, a.Kind), c.pos(a.Pos))
			continue
		}
		if !set[a.Fn] {
			continue
		}
		switch a.Struct {
		case "Prog", "lineCalc", "config":
			if a.Struct == "lineCalc" && a.Field == "mu" {
				continue
			}
			n++
			r.bad(rule, fmt.Sprintf("%s/%s.%s", ssaFuncName(a.Fn), a.Struct, a.Field), fmt.Sprintf("%s, reachable from execute, writes %s.%s (%s)", ssaFuncName(a.Fn), a.Struct, a.Field, a.Kind), c.pos(a.Pos))
		}
	}
	if n == 0 {
		r.ok(rule, "execute", fmt.Sprintf("%d functions reachable from execute, none writes Prog/lineCalc/config", len(set)))
	}
	r.Extra["execute_reachable"] = len(set)
}

// ruleAmbientInputs: no time, randomness, environment or CPU-count dependence.
func ruleAmbientInputs(c *Ctx, r *Report, rule string) {
	r.rule(rule, 1, "the library calls nothing from time, math/rand, crypto/rand, os environment/host queries, runtime CPU/goroutine queries, and sorts only with sort.Strings/sort.Ints (no comparator that can tie); it has exactly one select statement and no sync.Pool / package-level caches")
	bad := 0
	selects := 0
	for _, it := range c.sortedDecls() {
		obj, fd := it.obj, it.fd
		if obj.Pkg() == nil || obj.Pkg().Path() != bclPath || fd.Body == nil {
			continue
		}
		ast.Inspect(fd.Body, func(n ast.Node) bool {
			switch n := n.(type) {
			case *ast.SelectStmt:
				selects++
			case *ast.CallExpr:
				name := c.calleeName(n)
				pkg := name
				if i := strings.LastIndex(name, "."); i >= 0 {
					pkg = name[:i]
				}
				why := ""
				switch {
				case strings.HasPrefix(name, "time."), strings.HasPrefix(name, "math/rand"), strings.HasPrefix(name, "crypto/rand"):
					why = "time or randomness"
				case name == "os.Getenv" || name == "os.Environ" || name == "os.LookupEnv" || name == "os.Hostname" || name == "os.Getpid" || name == "os.Getwd":
					why = "process environment"
				case strings.HasPrefix(name, "runtime.NumCPU") || strings.HasPrefix(name, "runtime.GOMAXPROCS") || strings.HasPrefix(name, "runtime.NumGoroutine"):
					why = "scheduler parameters"
				case pkg == "sort" && name != "sort.Strings" && name != "sort.Ints" && name != "sort.SearchInts" && name != "sort.SearchStrings":
					why = "a sort whose comparator may leave ties in map order (only sort.Strings/sort.Ints are accepted)"
				case strings.HasPrefix(name, "slices.SortFunc") || strings.HasPrefix(name, "slices.SortStableFunc"):
					why = "a sort whose comparator may leave ties in map order"
				case strings.HasPrefix(name, "sync.Pool.") || strings.HasPrefix(name, "sync.Map."):
					why = "process-wide cache"
				}
				if why != "" {
					bad++
					r.bad(rule, qname(obj)+"/"+name, fmt.Sprintf("%s calls %s: %s makes the outcome depend on more than the input", qname(obj), name, why), c.pos(n.Pos()))
				}
			}
			return true
		})
	}
	if bad == 0 {
		r.ok(rule, "library", "no ambient input, no comparator sort")
	}
	r.check(selects == 1, rule, "select-count", "one select statement (the reader's guarded send)", fmt.Sprintf("%d select statements in the library; the only accepted one is the reader's chunk-send/done select", selects), "")
	_ = types.Universe
}

// ruleParserDrains: parse() returns only after the end-of-input test
// succeeded, i.e. after the parser consumed the lexer's finaliser token (the
// lexer goroutine ends right after emitting it). An earlier exit leaves the
// lexer blocked on its token channel and the reader on its input channel.
func ruleParserDrains(c *Ctx, r *Report, rule string) {
	r.rule(rule, 2, "on every interpreted path of parse() (the functions it is split into read through) the last thing the end-of-input test matchEnd() said before parse returns is 'true' — the finaliser token tEOF/tFAIL was consumed — and it was asked at least once; matchEnd is checkEnd (current.typ <= tEOF) followed by advance")
	_, fd := c.find("parse")
	if fd == nil {
		r.bad(rule, "parse", "function not found", "")
		return
	}
	meObj, _ := c.find("parser.matchEnd")
	// the functions through which parse reaches matchEnd are interpreted in place
	reaches := map[types.Object]bool{}
	var visit func(d *ast.FuncDecl, depth int) bool
	seen := map[*ast.FuncDecl]bool{}
	visit = func(d *ast.FuncDecl, depth int) bool {
		if d == nil || d.Body == nil || depth > 4 || seen[d] {
			return false
		}
		seen[d] = true
		found := false
		walkCalls(d.Body, false, func(call *ast.CallExpr) {
			fn, ok := c.callee(call).(*types.Func)
			if !ok {
				return
			}
			if meObj != nil && types.Object(fn) == types.Object(meObj) {
				found = true
				return
			}
			if fn.Pkg() != nil && fn.Pkg().Path() == bclPath && visit(c.funcDecls[fn], depth+1) {
				reaches[fn] = true
				found = true
			}
		})
		return found
	}
	visit(fd, 0)
	var h Hooks
	h.Inline = func(fn *types.Func) bool {
		if reaches[fn] {
			return true
		}
		// the step that picks parse's error result
		if fn.Pkg() != nil && fn.Pkg().Path() == bclPath {
			res := fn.Type().(*types.Signature).Results()
			if res.Len() == 1 && isErrorType(res.At(0).Type()) {
				return true
			}
			if root, ok := c.infoFor(fd).Defs[fd.Name].(*types.Func); ok {
				return res.Len() > 0 && types.Identical(res, root.Type().(*types.Signature).Results())
			}
		}
		return false
	}
	h.Call = func(in *Interp, st *State, call *ast.CallExpr, callee types.Object, args []Value) ([]valState, bool) {
		if meObj != nil && callee == types.Object(meObj) {
			p := st.P.(*strsPay)
			p.items = append(p.items, "asked")
			return one(st, tagV("matchEnd", len(p.items))), true
		}
		return nil, false
	}
	h.Decision = func(in *Interp, st *State, cond ast.Expr, v Value, branch bool) {
		if v.K == vTag && v.Tag == "matchEnd" {
			p := st.P.(*strsPay)
			p.items = append(p.items, fmt.Sprintf("%v", branch))
		}
	}
	in := newInterp(c, h)
	st := &State{Env: map[types.Object]Value{}, P: &strsPay{}}
	var args []Value
	for _, f := range fd.Type.Params.List {
		for range f.Names {
			args = append(args, unknownV())
		}
	}
	res := in.inlineBody(st, fd.Type, fd.Body, fd.Recv, args)
	var bad []string
	for _, vs := range res {
		items := vs.st.P.(*strsPay).items
		last := ""
		if len(items) > 0 {
			last = items[len(items)-1]
		}
		if last != "true" {
			bad = append(bad, fmt.Sprintf("a path returns with the end-of-input test history %v", items))
		}
	}
	for _, u := range in.Undecided {
		if strings.Contains(u, "loop body changes the tracked state") {
			continue
		}
		r.undecided(rule, "parse/model", u, c.pos(fd.Pos()))
	}
	r.check(len(bad) == 0 && len(res) > 0, rule, "parse/drains", fmt.Sprintf("%d paths, each returning right after matchEnd() said true", len(res)), "parse can return without matchEnd() having just returned true: the rest of the tokens is never consumed, so the lexer goroutine (and with it the reader) stays blocked after the call returned: "+strings.Join(dedupe(bad), "; "), c.pos(fd.Pos()))
	// matchEnd itself: checkEnd then advance
	if _, me := c.find("parser.matchEnd"); me != nil {
		calls := []string{}
		for _, cs := range c.callsOf(me) {
			calls = append(calls, cs.Name)
		}
		adv := false
		for _, cn := range calls {
			if cn == "parser.advance" {
				adv = true
			}
		}
		r.check(adv, rule, "matchEnd", "consumes the finaliser token with advance()", fmt.Sprintf("matchEnd calls %v: it must consume the end token with advance()", calls), c.pos(me.Pos()))
	} else {
		r.bad(rule, "matchEnd", "function not found", "")
	}
}

// ruleWriterPassThrough: the library hands the caller's writers on as they
// are. A wrapper constructed by the library (bufio.Writer and the like) has
// state of its own; stored in a Prog it is shared, unsynchronised, by every
// execution of that Prog, whatever the caller's writer guarantees.
func ruleWriterPassThrough(c *Ctx, r *Report, rule string) {
	r.rule(rule, 6, "every value stored in an io.Writer field of a library struct (config, writers, Prog, vm, logger) is an existing writer passed on unchanged — a parameter, another such field, os.Stdout/os.Stderr — never the result of a call that wraps it (a buffered or otherwise stateful writer created by the library would be shared by concurrent executions of one Prog)")
	isWriter := func(t types.Type) bool { return t != nil && types.TypeString(t, nil) == "io.Writer" }
	n := 0
	judge := func(where string, field string, v ast.Expr, pos token.Pos) {
		n++
		key := fmt.Sprintf("%s/%s#%d", where, field, n)
		v = stripParens(v)
		switch x := v.(type) {
		case *ast.Ident, *ast.SelectorExpr:
			r.ok(rule, key, "passes on "+types.ExprString(v))
			_ = x
		default:
			r.bad(rule, key, fmt.Sprintf("%s stores %s in the writer field %s: the library must pass the caller's writer on unchanged, not wrap it in a writer with state of its own", where, types.ExprString(v), field), c.pos(pos))
		}
	}
	for _, it := range c.sortedDecls() {
		obj, fd := it.obj, it.fd
		if obj.Pkg() == nil || obj.Pkg().Path() != bclPath || fd.Body == nil {
			continue
		}
		where := qname(obj)
		n = 0
		ast.Inspect(fd.Body, func(x ast.Node) bool {
			switch e := x.(type) {
			case *ast.CompositeLit:
				_, st := structOf(c.typeOf(e))
				if st == nil {
					return true
				}
				for i, el := range e.Elts {
					var fld *types.Var
					val := el
					if kv, ok := el.(*ast.KeyValueExpr); ok {
						if id, ok := kv.Key.(*ast.Ident); ok {
							for j := 0; j < st.NumFields(); j++ {
								if st.Field(j).Name() == id.Name {
									fld = st.Field(j)
								}
							}
						}
						val = kv.Value
					} else if i < st.NumFields() {
						fld = st.Field(i)
					}
					if fld != nil && isWriter(fld.Type()) {
						judge(where, typeShort(c.typeOf(e))+"."+fld.Name(), val, el.Pos())
					}
				}
			case *ast.AssignStmt:
				for i, l := range e.Lhs {
					sel, ok := stripParens(l).(*ast.SelectorExpr)
					if !ok || i >= len(e.Rhs) || len(e.Lhs) != len(e.Rhs) {
						continue
					}
					if s, ok := c.infoFor(sel).Selections[sel]; ok && s.Kind() == types.FieldVal && isWriter(s.Obj().Type()) {
						judge(where, typeShort(s.Recv())+"."+sel.Sel.Name, e.Rhs[i], e.Pos())
					}
				}
			}
			return true
		})
	}
}
