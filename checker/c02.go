package main

import (
	"fmt"
	"go/ast"
	"go/token"
	"go/types"
	"strings"
)

func init() { register("C02", "other", checkC02) }

// downwardScan checks `for i := <top>-1; i >= 0; i-- { ... return ... }` and
// reports the expression <top>.
func (c *Ctx) downwardScan(fs *ast.ForStmt) (top string, ok bool) {
	// Every spelling of "visit top-1, top-2, …, 0": with T the table's count field, i the induction
	// variable starting at i0 and stepping by ±1, the table index e(i) used in the body must satisfy
	// e(i0) = T-1, decrease by one per iteration, and the guard must let the loop run exactly while e(i) >= 0.
	as, isA := fs.Init.(*ast.AssignStmt)
	if !isA || len(as.Lhs) != 1 || len(as.Rhs) != 1 || fs.Cond == nil {
		return "", false
	}
	ivID, isID := as.Lhs[0].(*ast.Ident)
	if !isID {
		return "", false
	}
	iv := c.objOf(ivID)
	post, isP := fs.Post.(*ast.IncDecStmt)
	if !isP || !c.isObj(post.X, iv) {
		return "", false
	}
	step := int64(1)
	if post.Tok == token.DEC {
		step = -1
	}
	// linear evaluation over the symbols "i" and "T" (the count field, found on the way)
	var eval func(e ast.Expr) (*Lin, bool)
	eval = func(e ast.Expr) (*Lin, bool) {
		e = c.stripConv(e)
		if k, isC := c.intConst(e); isC {
			return linConst(k), true
		}
		switch x := e.(type) {
		case *ast.Ident:
			if c.objOf(x) == iv {
				return linSym("i"), true
			}
			// the count handed in as a parameter that every caller binds to the count field
			if fp := c.fieldPath(x); strings.HasSuffix(fp, ".localCount") || strings.HasSuffix(fp, ".blockTos") {
				if top == "" || top == fp {
					top = fp
					return linSym("T"), true
				}
			}
		case *ast.SelectorExpr:
			fp := c.fieldPath(x)
			if strings.HasSuffix(fp, ".localCount") || strings.HasSuffix(fp, ".blockTos") {
				if top == "" || top == fp {
					top = fp
					return linSym("T"), true
				}
			}
		case *ast.BinaryExpr:
			a, ok1 := eval(x.X)
			b, ok2 := eval(x.Y)
			if ok1 && ok2 {
				switch x.Op {
				case token.ADD:
					return a.add(b), true
				case token.SUB:
					return a.sub(b), true
				}
			}
		}
		return nil, false
	}
	i0, ok0 := eval(as.Rhs[0])
	if !ok0 || i0.coef("i") != 0 {
		return "", false
	}
	// the table index used in the body
	var idx *Lin
	okIdx := true
	ast.Inspect(fs.Body, func(n ast.Node) bool {
		ix, isIx := n.(*ast.IndexExpr)
		if !isIx {
			return true
		}
		fp := c.fieldPath(ix.X)
		if !strings.HasSuffix(fp, ".locals") && !strings.HasSuffix(fp, ".blockStack") {
			return true
		}
		l, okL := eval(ix.Index)
		if !okL || l.coef("i") == 0 {
			okIdx = false
			return true
		}
		if idx != nil && !idx.equal(l) {
			okIdx = false
		}
		idx = l
		return true
	})
	if idx == nil || !okIdx || top == "" {
		return "", false
	}
	subst := func(e *Lin, iVal *Lin) *Lin {
		k := e.coef("i")
		return e.without("i").add(iVal.scale(k))
	}
	// starts at T-1, moves down by one
	if !subst(idx, i0).equal(linSym("T").sub(linConst(1))) || idx.coef("i")*step != -1 {
		return "", false
	}
	// the guard: a single comparison of i with a bound; the last admitted i must give index 0
	atoms, pure := c.nnf(fs.Cond, true, nil).conjuncts()
	if !pure || len(atoms) != 1 {
		return "", false
	}
	rel, isRel := c.relOf(atoms[0])
	if !isRel {
		return "", false
	}
	l, okL := eval(rel.L)
	rr, okR := eval(rel.R)
	if !okL || !okR {
		return "", false
	}
	// normalise to  i <= last  (step +1)  or  i >= last  (step -1)
	var last *Lin
	switch {
	case l.equal(linSym("i")) && rr.coef("i") == 0 && step == 1: // i < R  or  i <= R
		last = rr
		if rel.Op == token.LSS {
			last = rr.sub(linConst(1))
		} else if rel.Op != token.LEQ {
			return "", false
		}
	case rr.equal(linSym("i")) && l.coef("i") == 0 && step == -1: // L < i  or  L <= i
		last = l
		if rel.Op == token.LSS {
			last = l.add(linConst(1))
		} else if rel.Op != token.LEQ {
			return "", false
		}
	default:
		return "", false
	}
	if !subst(idx, last).equal(linConst(0)) {
		return "", false
	}
	// the induction variable is not assigned in the body
	if c.assignedIn(fs.Body, iv) {
		return "", false
	}
	return top, true
}

func ruleResolveOrder(c *Ctx, r *Report, rule string) {
	r.rule(rule, 4, "an identifier compiles to SET/GETLOCAL with the slot found by resolveLocal; only if none is found: a compile error at depth 0, else SET/GETFIELD with the name constant; assignment only under canAssign && match('=')")
	m, err := c.emitModel()
	if err != nil {
		r.bad(rule, "model", err.Error(), "")
		return
	}
	var e *emitEntry
	for _, row := range m.rules {
		if row.Token == "tIDENT" && row.Prefix != "" {
			e = m.Entries[row.Prefix+"@tIDENT"]
		}
	}
	if e == nil || len(e.Outcomes) == 0 {
		r.bad(rule, "ident", "no prefix rule compiles identifiers", "")
		return
	}
	seen := map[string]bool{}
	for _, o := range e.Outcomes {
		ops, _ := opsOfTrace(o.Trace)
		found, notfound, depth0, inBlock := false, false, false, false
		for _, ev := range o.Events {
			switch ev {
			case "local:found":
				found = true
			case "local:notfound":
				notfound = true
			case "depth == 0=true", "depth > 0=false", "depth <= 0=true", "depth != 0=false":
				depth0 = true
			case "depth == 0=false", "depth > 0=true", "depth <= 0=false", "depth != 0=true":
				inBlock = true
			}
		}
		got := strings.Join(ops, " ")
		key := got
		pos := c.pos(e.Decl.Pos())
		switch {
		case found && (got == "GETLOCAL" || got == "SETLOCAL"):
			r.ok(rule, "local/"+got, "slot from resolveLocal")
		case notfound && inBlock && !depth0 && (got == "GETFIELD" || got == "SETFIELD"):
			r.ok(rule, "field/"+got, "name constant, inside a block, no local of that name")
		case notfound && depth0:
			r.bad(rule, "toplevel/"+key, "an unknown identifier at toplevel compiles to "+got+" instead of a compile error", pos)
		default:
			r.bad(rule, "other/"+key, fmt.Sprintf("identifier compiles to [%s] with local found=%v, not found=%v, in block=%v", got, found, notfound, inBlock), pos)
		}
		seen[got] = true
		// SET forms need the assigned expression
		if strings.HasPrefix(got, "SET") {
			hasE := false
			for _, t := range o.Trace {
				if strings.HasPrefix(t, "sub:E(") {
					hasE = true
				}
			}
			if !hasE {
				r.bad(rule, "assign/"+got, "assignment compiled without compiling the assigned expression", pos)
			}
		}
	}
	for _, w := range []string{"GETLOCAL", "SETLOCAL", "GETFIELD", "SETFIELD"} {
		if !seen[w] {
			r.bad(rule, "missing/"+w, "no path compiles an identifier to "+w, c.pos(e.Decl.Pos()))
		}
	}
	// assignment guarded by canAssign && match(tEQ): every path compiling a SET form decided canAssign to be true and
	// consumed an '=' before the assigned expression; no path does so with canAssign false
	{
		fd := e.Decl
		okGuard, sets := true, 0
		for _, o := range e.Outcomes {
			ops, _ := opsOfTrace(o.Trace)
			if len(ops) == 0 || !strings.HasPrefix(ops[0], "SET") {
				continue
			}
			sets++
			can := false
			for _, ev := range o.Events {
				if ev == "canAssign=true" {
					can = true
				}
				if ev == "canAssign=false" {
					can = false
					okGuard = false
				}
			}
			adv := false
			for _, t := range o.Trace {
				if t == "adv" {
					adv = true
				}
				if strings.HasPrefix(t, "sub:E(") && !adv {
					okGuard = false
				}
			}
			eq := false
			for _, ev := range o.Events {
				if ev == "match:tEQ" {
					eq = true
				}
			}
			if !can || !adv || !eq {
				okGuard = false
			}
		}
		if sets == 0 {
			okGuard = false
		}
		r.check(okGuard, rule, "assign-guard", "canAssign && match('=')", "assignment must be compiled only under canAssign && p.match(tEQ)", c.pos(fd.Pos()))
	}
}

func ruleDeclareThenInit(c *Ctx, r *Report, rule string) {
	r.rule(rule, 4, "var: the local is declared (depth -1) before its initializer is compiled and marked initialised after; resolveLocal never returns a local whose depth is -1; markInitialized sets the newest local's depth to the current depth")
	m, err := c.emitModel()
	if err != nil {
		r.bad(rule, "model", err.Error(), "")
		return
	}
	e := m.Entries["varDecl"]
	if e == nil || len(e.Outcomes) == 0 {
		r.bad(rule, "varDecl", "function not analysed", "")
	} else {
		ok := true
		why := ""
		for _, o := range e.Outcomes {
			iDecl, iInit, iMark := -1, -1, -1
			for i, t := range o.Trace {
				switch {
				case t == "local+":
					iDecl = i
				case strings.HasPrefix(t, "sub:E(") || t == "NIL":
					iInit = i
				case t == "init":
					iMark = i
				}
			}
			if !(iDecl >= 0 && iDecl < iInit && iInit < iMark) {
				ok = false
				why = fmt.Sprintf("path %v: declaration, initializer and mark-initialised are not in this order", o.Trace)
			}
		}
		r.check(ok, rule, "varDecl/order", "declare < initializer < mark initialised on every path", why, c.pos(e.Decl.Pos()))
	}
	// resolveLocal: scan downward, skip depth == -1, return first match
	if _, fd := c.find("parser.resolveLocal"); fd == nil {
		r.bad(rule, "resolveLocal", "function not found", "")
	} else {
		var loop *ast.ForStmt
		for _, s := range fd.Body.List {
			if fs, ok := s.(*ast.ForStmt); ok {
				loop = fs
			}
		}
		okScan, okSkip := false, false
		if loop != nil {
			top, ok := c.downwardScan(loop)
			okScan = ok && strings.HasSuffix(top, ".localCount")
			// every `return <non-constant>` lies after a guard on depth == -1 in the same branch
			ast.Inspect(loop.Body, func(n ast.Node) bool {
				ifs, ok := n.(*ast.IfStmt)
				if !ok {
					return true
				}
				atoms, pure := c.nnf(ifs.Cond, true, nil).conjuncts()
				if !pure {
					return true
				}
				leaves, returns := false, false
				for _, s := range ifs.Body.List {
					if bs, ok := s.(*ast.BranchStmt); ok && bs.Tok == token.CONTINUE {
						leaves = true
					}
					if _, ok := s.(*ast.ReturnStmt); ok {
						returns = true
					}
				}
				for _, at := range atoms {
					b, ok := c.boundOf(at)
					if !ok {
						continue
					}
					sel, ok := stripParens(b.X).(*ast.SelectorExpr)
					if !ok || sel.Sel.Name != "depth" {
						continue
					}
					switch {
					case b.Lo != nil && b.Hi != nil && *b.Lo == -1 && *b.Hi == -1 && len(atoms) == 1:
						// depth == -1: skip this local
						okSkip = leaves && !returns
					case b.Ne != nil && *b.Ne == -1:
						// ... && depth != -1: only then return the index
						okSkip = returns
					}
				}
				return true
			})
		}
		r.check(okScan, rule, "resolveLocal/innermost-first", "scans the locals from the newest downward and returns the first match", "resolveLocal must scan from localCount-1 down to 0 and return at the first match", c.pos(fd.Pos()))
		r.check(okSkip, rule, "resolveLocal/skip-uninitialised", "a local with depth -1 is skipped", "resolveLocal must skip locals whose depth is -1 (declared, not yet initialised)", c.pos(fd.Pos()))
	}
	// mark-initialised: wherever it is written, the store is locals[localCount-1].depth = scope.depth
	marks, badMark := 0, ""
	for _, it := range c.sortedDecls() {
		if it.fd.Body == nil || it.obj.Pkg() == nil || it.obj.Pkg().Path() != bclPath {
			continue
		}
		ast.Inspect(it.fd.Body, func(n ast.Node) bool {
			as, isA := n.(*ast.AssignStmt)
			if !isA || len(as.Lhs) != 1 || len(as.Rhs) != 1 {
				return true
			}
			sel, isS := stripParens(as.Lhs[0]).(*ast.SelectorExpr)
			if !isS || sel.Sel.Name != "depth" {
				return true
			}
			ix, isI := stripParens(sel.X).(*ast.IndexExpr)
			if !isI || !strings.HasSuffix(c.fieldPath(ix.X), ".locals") {
				// through a pointer to the slot (local := &locals[n]; local.depth = -1) is addLocal's form
				return true
			}
			if k, isC := c.intConst(as.Rhs[0]); isC && k == -1 {
				return true // declaration
			}
			if c.isMarkInitTarget(as.Lhs[0]) && strings.HasSuffix(c.fieldPath(as.Rhs[0]), ".depth") && !strings.Contains(c.fieldPath(as.Rhs[0]), "locals") {
				marks++
			} else {
				badMark = c.pos(as.Pos())
			}
			return true
		})
	}
	r.check(marks >= 1 && badMark == "", rule, "markInitialized", "locals[localCount-1].depth = scope.depth", "marking a local initialised must set the depth of the newest local to the current scope depth (offending store: "+badMark+")", badMark)
}

// ruleDupScope: the duplicate check of declVar.
func ruleDupScope(c *Ctx, r *Report, rule string) {
	r.rule(rule, 1, "declVar scans downward, stops at the first initialised local of an outer depth, reports a duplicate name inside the current scope, then adds the local")
	_, fd := c.find("parser.declVar")
	if fd == nil {
		r.bad(rule, "declVar", "function not found", "")
		return
	}
	var loop *ast.ForStmt
	addAfter := false
	// a scan that only counts the clashes (in a method of the scope tables), followed by a loop that reports one
	// error per clash counted: `for n := clashes(name); n > 0; n-- { p.error(…) }`
	var clashCounter types.Object // the counter the scan steps
	countedErrLoop := false
	for _, s := range c.expandedStmts(fd) {
		if fs, ok := s.(*ast.ForStmt); ok && loop != nil && !countedErrLoop {
			// the reporting loop after the scan
			if as, isA := fs.Init.(*ast.AssignStmt); isA && len(as.Lhs) == 1 && len(as.Rhs) == 1 && fs.Cond != nil && fs.Post != nil {
				nv := c.objOf(as.Lhs[0])
				from := c.objOfExpr(as.Rhs[0])
				be, isB := stripParens(fs.Cond).(*ast.BinaryExpr)
				dec, isD := fs.Post.(*ast.IncDecStmt)
				onlyErr := len(fs.Body.List) == 1
				if onlyErr {
					es, isE := fs.Body.List[0].(*ast.ExprStmt)
					call, isC := (ast.Expr)(nil), false
					if isE {
						call, isC = es.X.(*ast.CallExpr)
					}
					onlyErr = isE && isC && c.calleeName(call.(*ast.CallExpr)) == "parser.error"
				}
				if nv != nil && from != nil && isB && isD && onlyErr && be.Op == token.GTR && c.isObj(be.X, nv) && dec.Tok == token.DEC && c.isObj(dec.X, nv) {
					if k, isK := c.intConst(be.Y); isK && k == 0 {
						clashCounter = from
						countedErrLoop = true
						continue
					}
				}
			}
		}
		if fs, ok := s.(*ast.ForStmt); ok {
			loop = fs
		}
		if es, ok := s.(*ast.ExprStmt); ok && loop != nil {
			if call, ok := es.X.(*ast.CallExpr); ok && c.calleeName(call) == "parser.addLocal" {
				addAfter = true
			}
		}
	}
	clashCounterOf := func() types.Object { return clashCounter }
	if !countedErrLoop {
		clashCounterOf = nil
	}
	okScan, okBreak, okDup := false, false, false
	if loop != nil {
		top, ok := c.downwardScan(loop)
		okScan = ok && strings.HasSuffix(top, ".localCount")
		for _, s := range loop.Body.List {
			ifs, ok := s.(*ast.IfStmt)
			if !ok {
				continue
			}
			hasBreak, hasErr := false, false
			for _, b := range ifs.Body.List {
				if bs, ok := b.(*ast.BranchStmt); ok && bs.Tok == token.BREAK {
					hasBreak = true
				}
				if es, ok := b.(*ast.ExprStmt); ok {
					if call, ok := es.X.(*ast.CallExpr); ok && c.calleeName(call) == "parser.error" {
						hasErr = true
					}
				}
				// counted now, reported by the loop that follows: one error per clash all the same
				if inc, ok := b.(*ast.IncDecStmt); ok && inc.Tok == token.INC && clashCounterOf != nil && c.isObj(inc.X, clashCounterOf()) && len(ifs.Body.List) == 1 {
					hasErr = true
				}
			}
			atoms, pure := c.nnf(ifs.Cond, true, nil).conjuncts()
			if !pure {
				continue
			}
			if hasBreak {
				// local.depth != -1 && local.depth < p.scope.depth (any equivalent spelling)
				ne, lt, extra := false, false, 0
				for _, a := range atoms {
					if b, ok := c.boundOf(a); ok && b.Ne != nil && *b.Ne == -1 {
						if sel, ok := stripParens(b.X).(*ast.SelectorExpr); ok && sel.Sel.Name == "depth" {
							ne = true
							continue
						}
					}
					if rel, ok := c.relOf(a); ok && rel.Op == token.LSS && c.fieldPath(rel.R) == "<parser>.scope.depth" {
						if sel, ok := stripParens(rel.L).(*ast.SelectorExpr); ok && sel.Sel.Name == "depth" {
							lt = true
							continue
						}
					}
					extra++
				}
				if ne && lt && extra == 0 {
					okBreak = true
				}
			}
			if hasErr && len(atoms) == 1 {
				if rel, ok := c.relOf(atoms[0]); ok && rel.Op == token.EQL {
					okDup = true
				}
			}
		}
	}
	r.check(okScan && okBreak && okDup && addAfter, rule, "declVar", "duplicate check limited to the current scope, then addLocal",
		fmt.Sprintf("declVar: downward scan %v, stops at an initialised outer local %v, duplicate reported %v, addLocal after the scan %v", okScan, okBreak, okDup, addAfter), c.pos(fd.Pos()))
}

// ruleFieldAccess: the VM side of variables and fields.
func ruleFieldAccess(c *Ctx, r *Report, rule string) {
	r.rule(rule, 5, "SETLOCAL/GETLOCAL access the slot given by their operand and SET* keep the value on the stack; SETFIELD writes only the innermost open block; GETFIELD scans the block stack from the innermost block outward and stops at the first hit")
	vm, err := c.vmModel()
	if err != nil {
		r.bad(rule, "vm", err.Error(), "")
		return
	}
	has := func(op, kind string, pred func(vmEvent) bool) (bool, string) {
		arm := vm.Arms[op]
		if arm == nil {
			return false, ""
		}
		ok, n := true, 0
		for _, p := range arm.Paths {
			if p.Abort {
				continue
			}
			found := false
			for _, ev := range p.Events {
				if ev.Kind == kind {
					n++
					if pred(ev) {
						found = true
					} else {
						ok = false
					}
				}
			}
			if !found {
				ok = false
			}
		}
		return ok && n > 0, c.pos(arm.Clause.Pos())
	}
	ok, pos := has("opSETLOCAL", "slot:w", func(ev vmEvent) bool {
		return strings.HasPrefix(ev.Detail, "uv#") && ev.Val.K == vTag && ev.Val.Tag == "stk" && ev.Val.Data == int64(-1)
	})
	r.check(ok, rule, "SETLOCAL", "stack[operand] = top, value stays", "SETLOCAL must store the top of stack into the slot named by its operand and nothing else", pos)
	ok, pos = has("opGETLOCAL", "slot:r", func(ev vmEvent) bool { return strings.HasPrefix(ev.Detail, "uv#") })
	r.check(ok, rule, "GETLOCAL", "push(stack[operand])", "GETLOCAL must read the slot named by its operand", pos)
	if arm := vm.Arms["opGETLOCAL"]; arm != nil {
		okPush := true
		for _, p := range arm.Paths {
			if p.Abort {
				continue
			}
			pushed := false
			for _, ev := range p.Events {
				if ev.Kind == "stk:w" && ev.Detail == "tos+0" && ev.Val.K == vTag && ev.Val.Tag == "slotval" {
					pushed = true
				}
			}
			okPush = okPush && pushed
		}
		r.check(okPush, rule, "GETLOCAL/push", "pushes the slot's value", "GETLOCAL must push the value it read from the slot", c.pos(arm.Clause.Pos()))
	}
	ok, pos = has("opSETFIELD", "mapw", func(ev vmEvent) bool {
		return ev.Detail == "Fields of blk(-1)" && ev.Val.K == vTag && ev.Val.Tag == "stk" && ev.Val.Data == int64(-1)
	})
	r.check(ok, rule, "SETFIELD", "blockStack[blockTos-1].Fields[name] = top, value stays", "SETFIELD must store the top of stack into the Fields of the innermost open block only", pos)
	// every map write on Fields in the VM: SETFIELD (above) and ENDBLOCK (C03)
	for op, arm := range vm.Arms {
		for _, p := range arm.Paths {
			for _, ev := range p.Events {
				if ev.Kind == "mapw" && op != "opSETFIELD" && op != "opENDBLOCK" {
					r.bad(rule, "fields-writer/"+op, op+" writes a Fields map; only SETFIELD and ENDBLOCK may", c.pos(ev.Pos))
				}
			}
		}
	}
	// a field is present iff its key is in the map (comma-ok), whatever its value
	if arm := vm.Arms["opGETFIELD"]; arm != nil {
		okPresence, n := true, 0
		why := ""
		for _, p := range arm.Paths {
			if p.Abort {
				continue
			}
			looked, hit := false, false
			for _, ev := range p.Events {
				if ev.Kind == "lookup" {
					looked = true
				}
				if ev.Kind == "if" && strings.HasPrefix(ev.Detail, "ok(lookup(") && strings.HasSuffix(ev.Detail, "=true") {
					hit = true
				}
			}
			if looked {
				n++
				if !hit {
					okPresence = false
					var ds []string
					for _, ev := range p.Events {
						if ev.Kind == "if" {
							ds = append(ds, ev.Detail)
						}
					}
					why = fmt.Sprintf("a path pushes a looked-up field without the lookup's ok having been true (decisions %v)", ds)
				}
			}
		}
		r.check(okPresence && n > 0, rule, "GETFIELD/presence", "a looked-up value is used only when the map lookup reported the key present", "GETFIELD: "+why, c.pos(arm.Clause.Pos()))
	}
	// GETFIELD's scan
	lit := vm.Closures["blockGet"]
	var scans []*ast.ForStmt
	var ranges int
	if arm := vm.Arms["opGETFIELD"]; arm != nil && arm.Clause != nil {
		// the scan may live in the arm or in a closure it calls
		nodes := vm.armNodes(c, arm)
		if lit != nil {
			nodes = append(nodes, lit)
		}
		for _, n := range nodes {
			ast.Inspect(n, func(x ast.Node) bool {
				switch x := x.(type) {
				case *ast.ForStmt:
					scans = append(scans, x)
				case *ast.RangeStmt:
					ranges++
				}
				return true
			})
		}
	}
	okScan := len(scans) == 1 && ranges == 0
	if okScan {
		top, ok := c.downwardScan(scans[0])
		okScan = ok && top == "<vm>.blockTos"
		// leaves the loop on a hit (return, or break followed by the return of what was found)
		ret := false
		ast.Inspect(scans[0].Body, func(x ast.Node) bool {
			if _, ok := x.(*ast.ReturnStmt); ok {
				ret = true
			}
			if bs, ok := x.(*ast.BranchStmt); ok && bs.Tok == token.BREAK && bs.Label == nil {
				ret = true
			}
			return true
		})
		okScan = okScan && ret
	}
	p := ""
	if lit != nil {
		p = c.pos(lit.Pos())
	}
	r.check(okScan, rule, "GETFIELD/innermost-first", "block stack scanned from blockTos-1 down to 0, first hit returned", "the field read must scan the open blocks from the innermost (blockTos-1) outward and return the first hit", p)
}

func checkC02(c *Ctx, r *Report) {
	ruleSignatures(c, r, "lockstep", func(key string) bool {
		switch key {
		case "parse", "decl", "varDecl", "stmt", "printStmt", "exprStmt", "blockStmt", "bindStmt":
			return true
		}
		return false
	})
	ruleResolveOrder(c, r, "resolve-order")
	ruleDeclareThenInit(c, r, "declare-then-init")
	ruleDupScope(c, r, "dup-scope")
	ruleFieldAccess(c, r, "field-access")
	r.rule("operand-emission", 6, "the emission primitives write what the VM decodes: emitOp one opcode byte, emitUvarint exactly the bytes uvarintToBytes produced for the operand (a slot, a constant index, a count), emitBytes each byte once: an operand emitted in another form names another slot or constant")
	checkEmitPrimitives(c, r, "operand-emission")
	// an assignment is an expression: what follows '=' is a full expression again (a = b = 3)
	ruleAssignRHS(c, r, "nested-assignment")
	ruleVarintWrappers(c, r, "slot-operand-codec", "")
	// scope exit helpers
	r.rule("scope-exit", 3, "endScope pops exactly the locals it removes; popN emits the matching instruction; addLocal declares with depth -1")
	if _, fd := c.find("parser.endScope"); fd != nil {
		ok, why := c.endScopeShape(fd)
		r.check(ok, "scope-exit", "parser.endScope", "pops what it removes", "endScope: "+why, c.pos(fd.Pos()))
	}
	if _, fd := c.find("parser.addLocal"); fd != nil {
		ok, why := c.addLocalShape(fd)
		r.check(ok, "scope-exit", "parser.addLocal", "declares with depth -1", "addLocal: "+why, c.pos(fd.Pos()))
	}
	if m, err := c.emitModel(); err == nil {
		if _, fd := c.find("parser.popN"); fd != nil {
			ok := true
			for _, n := range []int64{0, 1, 3} {
				tr, probs := m.runPopN(fd, n)
				want := map[int64]string{0: "", 1: "POP", 3: "POPN v<-const:3"}[n]
				if tr != want || len(probs) > 0 {
					ok = false
				}
			}
			r.check(ok, "scope-exit", "parser.popN", "0: nothing, 1: POP, n: POPN n", "popN does not emit the pop its argument asks for", c.pos(fd.Pos()))
		}
	}
	ruleVMEffect(c, r, "vm-effect", true)
	ruleProgOwners(c, r, "prog-owners")
	r.note("that every read and write of every program denotes the variable the scoping rules say: only the resolution tables, their order and the slot/stack lock-step are decided")
	r.assume("assumption A (no diagnostic raised) for the emission rules")
	r.trust("local i lives in absolute stack slot i: follows from lockstep (depth - local count is 0 at every statement boundary) — argued in DESIGN.md")
}
