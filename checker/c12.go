package main

import (
	"go/ast"
	"go/token"
)

func init() {
	register("C12", "other", checkC12)
	register("C16", "other", checkC16)
}

func checkC12(c *Ctx, r *Report) {
	ruleSharedLocations(c, r, "shared-locations")
	ruleLexerStops(c, r, "post-final-emit")
	ruleParserProtocol(c, r, "prog-handoff")
	c.ruleNoGlobalWrites(r, "no-global-writes")
	ruleExecuteReadonly(c, r, "execute-readonly")
	ruleWriterPassThrough(c, r, "writer-pass-through")
	ruleChunkImmutable(c, r, "immutable-chunks")
	ruleResultAppendOnly(c, r, "result-not-aliased")
	r.rule("vm-per-call", 1, "execute builds its vm with a composite literal (a fresh machine per call)")
	if _, fd := c.find("execute"); fd != nil {
		fresh := false
		for _, cs := range c.callsOf(fd) {
			_ = cs
		}
		if len(fd.Body.List) > 0 {
			if as, ok := fd.Body.List[0].(*astAssign); ok {
				fresh = isFreshVM(c, as)
			}
		}
		r.check(fresh, "vm-per-call", "execute", "vm := &vm{...}", "execute must start by building a fresh vm with a composite literal (no pooling or reuse)", c.pos(fd.Pos()))
	} else {
		r.bad("vm-per-call", "execute", "function not found", "")
	}
	r.note("data-race freedom in Go's memory-model sense for all schedules (no happens-before model of the runtime is built); the classification is per struct field, not per object")
}

func checkC16(c *Ctx, r *Report) {
	ruleMapRange(c, r, "map-range")
	ruleAmbientInputs(c, r, "no-ambient-input")
	c.ruleNoGlobalWrites(r, "no-global-writes")
	ruleExecuteReadonly(c, r, "execute-readonly")
	ruleSharedLocations(c, r, "shared-locations")
	ruleParserProtocol(c, r, "channel-protocol")
	r.rule("identrefs-lookup-only", 1, "the identifier-to-constant map is only indexed (lookup and store by key), never ranged over: constant pool order follows first use in the source")
	c.ownership(r, "identrefs-lookup-only", "parser", "identRefs", map[string]string{"parser.identConst": "lookup / insert by key", "parser.makeConst": "lookup / insert of the empty string", "parse": "construction"}, false)
	r.note("scheduling effects beyond the classified sites; identical textual output across processes (fmt of maps is sorted by the standard library — trusted)")
}

type astAssign = ast.AssignStmt

func isFreshVM(c *Ctx, as *ast.AssignStmt) bool {
	if len(as.Rhs) != 1 {
		return false
	}
	ue, ok := as.Rhs[0].(*ast.UnaryExpr)
	if !ok || ue.Op != token.AND {
		return false
	}
	cl, ok := ue.X.(*ast.CompositeLit)
	return ok && isNamed(c.typeOf(cl), bclPath, "vm")
}
