package main

import (
	"encoding/json"
	"fmt"
	"os"
	"path/filepath"
	"sort"
	"strings"
	"time"
)

// Status of an obligation.
const (
	Discharged = "discharged"
	Violated   = "violated"
	Undecided  = "undecided" // counts as a failure
)

// Obligation is one instance of a rule on one construct. The key never
// contains a line number; Pos is for the human reader only.
type Obligation struct {
	Prop      string `json:"property"`
	Rule      string `json:"rule"`
	Construct string `json:"construct"`
	Status    string `json:"status"`
	Detail    string `json:"detail,omitempty"`
	Pos       string `json:"pos,omitempty"`
	Config    string `json:"config,omitempty"`
}

func (o Obligation) Key() string { return o.Prop + "/" + o.Rule + "/" + o.Construct }

type ruleInfo struct {
	name string
	doc  string
	min  int
	core bool
}

// Report collects the obligations of one property.
type Report struct {
	Prop    string
	Level   string
	Obs     []Obligation
	rules   map[string]*ruleInfo
	order   []string
	Notes   []string // what is not decided
	Assume  []string
	Trusted []string
	Funcs   map[string]bool // functions analysed
	Sites   int             // call sites / instructions inspected
	Configs []string
	cur     *Ctx
	Extra   map[string]any
}

func newReport(prop, level string) *Report {
	return &Report{Prop: prop, Level: level, rules: map[string]*ruleInfo{}, Funcs: map[string]bool{}, Extra: map[string]any{}}
}

// rule declares a rule with the minimum number of instances that were
// confirmed by hand on the reference tree; fewer instances fail the run.
func (r *Report) rule(name string, min int, doc string) {
	if _, ok := r.rules[name]; ok {
		return
	}
	r.rules[name] = &ruleInfo{name: name, doc: doc, min: min, core: true}
	r.order = append(r.order, name)
}

func (r *Report) add(rule, construct, status, detail, pos string) {
	if _, ok := r.rules[rule]; !ok {
		r.rule(rule, 1, "")
	}
	cfg := ""
	if r.cur != nil && r.cur.Config != "default" {
		cfg = r.cur.Config
	}
	// the same obligation seen under several configurations is merged;
	// a failure in any configuration wins
	for i := range r.Obs {
		o := &r.Obs[i]
		if o.Rule == rule && o.Construct == construct {
			if o.Status == Discharged && status != Discharged {
				o.Status, o.Detail, o.Pos, o.Config = status, detail, pos, cfg
			}
			return
		}
	}
	r.Obs = append(r.Obs, Obligation{Prop: r.Prop, Rule: rule, Construct: construct, Status: status, Detail: detail, Pos: pos, Config: cfg})
}

func (r *Report) ok(rule, construct, detail string) { r.add(rule, construct, Discharged, detail, "") }
func (r *Report) bad(rule, construct, detail, pos string) {
	r.add(rule, construct, Violated, detail, pos)
}
func (r *Report) undecided(rule, construct, detail, pos string) {
	r.add(rule, construct, Undecided, detail, pos)
}

// check records a discharged or violated obligation depending on cond.
func (r *Report) check(cond bool, rule, construct, okDetail, badDetail, pos string) bool {
	if cond {
		r.ok(rule, construct, okDetail)
	} else {
		r.bad(rule, construct, badDetail, pos)
	}
	return cond
}

func (r *Report) note(s string)   { r.Notes = append(r.Notes, s) }
func (r *Report) assume(s string) { r.Assume = append(r.Assume, s) }
func (r *Report) trust(s string)  { r.Trusted = append(r.Trusted, s) }
func (r *Report) fn(names ...string) {
	for _, n := range names {
		r.Funcs[n] = true
	}
}

// finish adds the instance-count obligations and puts the list in a fixed order.
func (r *Report) finish() {
	idx := map[string]int{}
	for i, n := range r.order {
		idx[n] = i
	}
	sort.SliceStable(r.Obs, func(i, j int) bool {
		a, b := r.Obs[i], r.Obs[j]
		if idx[a.Rule] != idx[b.Rule] {
			return idx[a.Rule] < idx[b.Rule]
		}
		return a.Construct < b.Construct
	})
	count := map[string]int{}
	for _, o := range r.Obs {
		count[o.Rule]++
	}
	for _, name := range r.order {
		ri := r.rules[name]
		if count[name] < ri.min {
			r.Obs = append(r.Obs, Obligation{Prop: r.Prop, Rule: name, Construct: "#instances", Status: Violated,
				Detail: fmt.Sprintf("rule matched %d constructs, at least %d were confirmed on the reference tree: the anchors of this rule were not found (a vacuous pass is refused)", count[name], ri.min)})
		}
	}
}

// ---- known findings ----

type KnownFinding struct {
	Property  string `json:"property"`
	Rule      string `json:"rule"`
	Construct string `json:"construct"`
	What      string `json:"what"`
	Status    string `json:"status"` // "known" or "fixed"
	Commit    string `json:"commit,omitempty"`
	Input     string `json:"failing_input,omitempty"`
}

func loadKnown(path string) ([]KnownFinding, error) {
	b, err := os.ReadFile(path)
	if err != nil {
		if os.IsNotExist(err) {
			return nil, nil
		}
		return nil, err
	}
	var doc struct {
		Findings []KnownFinding `json:"findings"`
	}
	if err := json.Unmarshal(b, &doc); err != nil {
		return nil, fmt.Errorf("%s: %w", path, err)
	}
	return doc.Findings, nil
}

// ---- evidence ----

type outcome struct {
	violations []Obligation
	known      []Obligation
	knownWhat  map[string]string
}

func (r *Report) classify(known []KnownFinding) outcome {
	out := outcome{knownWhat: map[string]string{}}
	for _, o := range r.Obs {
		if o.Status == Discharged {
			continue
		}
		matched := false
		for _, k := range known {
			if k.Status == "known" && k.Property == o.Prop && k.Rule == o.Rule && k.Construct == o.Construct {
				matched = true
				out.knownWhat[o.Key()] = k.What
				break
			}
		}
		if matched {
			out.known = append(out.known, o)
		} else {
			out.violations = append(out.violations, o)
		}
	}
	return out
}

func (r *Report) writeEvidence(path, verifDir, tier string, seed int64, wall float64, out outcome, cmd string) ([]string, error) {
	count := map[string]int{}
	failed := map[string]int{}
	discharged := 0
	for _, o := range r.Obs {
		count[o.Rule]++
		if o.Status == Discharged {
			discharged++
		} else {
			failed[o.Rule]++
		}
	}
	var ruleLines []string
	var ruleTable []map[string]any
	for _, name := range r.order {
		ri := r.rules[name]
		ruleLines = append(ruleLines, fmt.Sprintf("%s: %d instances (min %d), %d failed — %s", name, count[name], ri.min, failed[name], ri.doc))
		ruleTable = append(ruleTable, map[string]any{"rule": name, "instances": count[name], "min_instances": ri.min, "failed": failed[name], "doc": ri.doc})
	}
	// samples: every failed obligation, plus up to 3 discharged per rule
	var samples []Obligation
	per := map[string]int{}
	for _, o := range r.Obs {
		if o.Status != Discharged {
			samples = append(samples, o)
			continue
		}
		if per[o.Rule] < 3 {
			per[o.Rule]++
			samples = append(samples, o)
		}
	}
	var funcs []string
	for f := range r.Funcs {
		funcs = append(funcs, f)
	}
	sort.Strings(funcs)

	// replay files
	var replays []string
	vdir := filepath.Join(filepath.Dir(path), "violations")
	old, _ := filepath.Glob(filepath.Join(vdir, r.Prop+"-*.json"))
	for _, f := range old {
		os.Remove(f)
	}
	if len(out.violations) > 0 {
		os.MkdirAll(vdir, 0o755)
		for i, o := range out.violations {
			p := filepath.Join(vdir, fmt.Sprintf("%s-%d.json", r.Prop, i+1))
			b, _ := json.MarshalIndent(o, "", " ")
			if err := os.WriteFile(p, b, 0o644); err != nil {
				return nil, err
			}
			rel, err := filepath.Rel(verifDir, p)
			if err != nil {
				rel = p
			}
			replays = append(replays, rel)
		}
	}

	explanation := fmt.Sprintf("Static analysis of %s (no code of the repository is executed). Decided part: structural necessary conditions of %s, checked on every path / table row / call site named below. Rules: %s.",
		r.cur.Repo, r.Prop, strings.Join(ruleLines, "; "))
	if len(r.Notes) > 0 {
		explanation += " NOT decided: " + strings.Join(r.Notes, "; ") + "."
	}
	cov := map[string]any{
		"explanation":        explanation,
		"obligations":        len(r.Obs),
		"discharged":         discharged,
		"rules":              ruleTable,
		"functions_analysed": funcs,
		"call_sites":         r.Sites,
		"packages":           pkgPaths(r.cur),
		"configs":            r.Configs,
		"samples":            samples,
		"checker_cmd":        cmd,
		"trusted_base":       append([]string{"go/types, go/ssa, go/packages of golang.org/x/tools v0.29.0", "the Go subset modelled by the checker's structured interpreters (anything else is reported as undecided)"}, r.Trusted...),
		"not_decided":        r.Notes,
		"renamed_anchors":    r.cur.AliasNotes,
		"known_findings":     out.known,
	}
	for k, v := range r.Extra {
		cov[k] = v
	}
	ev := map[string]any{
		"property_id": r.Prop,
		"tier":        tier,
		"seed":        seed,
		"level":       r.Level,
		"coverage":    cov,
		"assumptions": append([]string{"the analysis is deterministic; the seed is recorded but unused"}, r.Assume...),
		"wall_s":      wall,
		"violations":  len(out.violations),
		"generated":   time.Now().UTC().Format(time.RFC3339),
	}
	b, err := json.MarshalIndent(ev, "", " ")
	if err != nil {
		return nil, err
	}
	os.MkdirAll(filepath.Dir(path), 0o755)
	return replays, os.WriteFile(path, b, 0o644)
}

func pkgPaths(c *Ctx) []string {
	var out []string
	for _, p := range c.Pkgs {
		out = append(out, p.PkgPath)
	}
	return out
}
