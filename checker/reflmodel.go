package main

// E-REFL model: copyBlocks and copyBlock (with the field setter, whatever form it takes: a closure, a method, a
// function; and every module helper they call) are interpreted over abstract reflect values. A path records
//
//   - the facts its decisions established (Kind() == Struct on a value, CanSet, AssignableTo, x != nil, a tag lookup
//     that missed, …),
//   - an event for every reflect operation with a panicking precondition, with whether the facts of the path
//     establish that precondition,
//   - the field lookups of each setter invocation (tag table with which key, name match with which key),
//   - failures (a setter or copyBlock that returned an error) and what the path finally returns.
//
// copyBlock is not unfolded into itself: a call of copyBlock is an event (precondition: the destination is known
// to be a struct) whose result may be nil or an error.

import (
	"fmt"
	"go/ast"
	"go/constant"
	"go/token"
	"go/types"
	"sort"
	"strings"
)

type reflEvent struct {
	Op     string // Elem, Type.Elem, MakeSlice, Index, Set, copyBlock-arg, v.Type, ValueOf(x).Type, dest.Set, FieldByIndexErr, Type.NumField, Type.Field, Type.FieldByNameFunc, x.(Block), …
	Pos    token.Pos
	OK     bool
	Why    string
	Detail string
	Setter int // index of the setter invocation it belongs to (0: none)
}

type reflLookup struct {
	Kind string // tag, name
	Key  string // description of the key used
	Pos  token.Pos
}

type reflSetter struct {
	Key, X     string
	KeyConst   string // the key when it is a constant
	Lookups    []reflLookup
	Field      string // description of the field finally used
	Pos        token.Pos
	Result     string // nil, err, maperr, res, unknown
	TableEmpty bool   // the tag lookup was skipped because the table is known to be empty
}

type reflFailure struct {
	What      string // setter / copyBlock / FieldByIndexErr
	Key       string // constant key of the setter, when known
	Kind      string // err, maperr, res
	Pos       token.Pos
	Tolerated bool
}

type reflPay struct {
	next         int
	origin       map[int]string
	kinds        map[string]map[string]bool
	facts        map[string]bool
	events       []reflEvent
	pending      map[int]string // result id -> unchecked / failed / ok / returned
	pendPos      map[int]token.Pos
	pendWhat     map[int]string
	failures     []reflFailure
	setters      []reflSetter
	curSetter    []int // stack of indexes into setters (1-based)
	loopDepth    int
	xTypes       map[string]types.Type // static type of the value a setter was given, by its description
	fields       map[string]Value
	tableStores  []string
	nilBindingAt int // number of events before binding == nil was decided (-1: never)
	problems     []string
	bodyMarks    []string // notes about loop bodies: "break", "continue-skip"
}

func newReflPay() *reflPay {
	return &reflPay{origin: map[int]string{}, kinds: map[string]map[string]bool{}, facts: map[string]bool{}, pending: map[int]string{},
		pendPos: map[int]token.Pos{}, pendWhat: map[int]string{}, fields: map[string]Value{}, nilBindingAt: -1, xTypes: map[string]types.Type{}}
}

func (p *reflPay) Clone() Payload {
	q := &reflPay{next: p.next, origin: map[int]string{}, kinds: map[string]map[string]bool{}, facts: map[string]bool{}, pending: map[int]string{},
		pendPos: map[int]token.Pos{}, pendWhat: map[int]string{}, fields: map[string]Value{}, loopDepth: p.loopDepth, nilBindingAt: p.nilBindingAt}
	for k, v := range p.origin {
		q.origin[k] = v
	}
	for k, v := range p.kinds {
		m := map[string]bool{}
		for a, b := range v {
			m[a] = b
		}
		q.kinds[k] = m
	}
	for k, v := range p.facts {
		q.facts[k] = v
	}
	for k, v := range p.pending {
		q.pending[k] = v
	}
	for k, v := range p.pendPos {
		q.pendPos[k] = v
	}
	for k, v := range p.pendWhat {
		q.pendWhat[k] = v
	}
	for k, v := range p.fields {
		q.fields[k] = v
	}
	q.xTypes = p.xTypes // append-only, shared
	q.events = append([]reflEvent(nil), p.events...)
	q.failures = append([]reflFailure(nil), p.failures...)
	q.setters = make([]reflSetter, len(p.setters))
	for i, s := range p.setters {
		s.Lookups = append([]reflLookup(nil), s.Lookups...)
		q.setters[i] = s
	}
	q.curSetter = append([]int(nil), p.curSetter...)
	q.tableStores = append([]string(nil), p.tableStores...)
	q.problems = append([]string(nil), p.problems...)
	q.bodyMarks = append([]string(nil), p.bodyMarks...)
	return q
}

func (p *reflPay) sig() string {
	var fs []string
	for k, v := range p.facts {
		fs = append(fs, fmt.Sprintf("%s=%v", k, v))
	}
	for e, ks := range p.kinds {
		for k, v := range ks {
			fs = append(fs, fmt.Sprintf("%s:%s=%v", e, k, v))
		}
	}
	for k, v := range p.pending {
		fs = append(fs, fmt.Sprintf("p%d=%s", k, v))
	}
	sort.Strings(fs)
	var ev []string
	for _, e := range p.events {
		ev = append(ev, fmt.Sprintf("%s@%d:%v", e.Op, e.Pos, e.OK))
	}
	var fl []string
	for _, f := range p.failures {
		fl = append(fl, fmt.Sprintf("%s/%s/%s/%v", f.What, f.Key, f.Kind, f.Tolerated))
	}
	var ss []string
	for _, s := range p.setters {
		ss = append(ss, fmt.Sprintf("%s|%s|%v|%s|%s", s.Key, s.X, s.Lookups, s.Field, s.Result))
	}
	return strings.Join(fs, ",") + "#" + strings.Join(ev, ",") + "#" + strings.Join(fl, ",") + "#" + strings.Join(ss, ";") + "#" + strings.Join(p.tableStores, ",") + "#" + strings.Join(p.problems, ";") + "#" + strings.Join(p.bodyMarks, ",")
}

func (p *reflPay) newRV(origin string) Value {
	p.next++
	p.origin[p.next] = origin
	return tagV("rv", p.next)
}

func rvName(id int) string { return fmt.Sprintf("v#%d", id) }

// tolerated: the one failure that may be passed over — the Name field missing in the struct (the typed
// field-mapping error of the setter called with the constant key "Name") while the block has no name.
func reflTolerated(facts map[string]bool, f reflFailure) bool {
	return f.What == "setter" && f.Key == "Name" && f.Kind == "maperr" && facts["empty:block.Name"]
}

func (p *reflPay) setKind(entity, kind string, holds bool) {
	if p.kinds[entity] == nil {
		p.kinds[entity] = map[string]bool{}
	}
	p.kinds[entity][kind] = holds
}

// kindIs: the entity is known to have one of the kinds.
func (p *reflPay) kindIs(entity string, kinds ...string) bool {
	for _, k := range kinds {
		if p.kinds[entity][k] {
			return true
		}
	}
	return false
}

func (p *reflPay) event(op string, pos token.Pos, ok bool, why, detail string) {
	cur := 0
	if n := len(p.curSetter); n > 0 {
		cur = p.curSetter[n-1]
	}
	p.events = append(p.events, reflEvent{Op: op, Pos: pos, OK: ok, Why: why, Detail: detail, Setter: cur})
}

func (p *reflPay) setter() *reflSetter {
	if n := len(p.curSetter); n > 0 {
		return &p.setters[p.curSetter[n-1]-1]
	}
	return nil
}

type sfInfo struct {
	Desc string // Field(t,i) / tagfield(K) / namefield(K)
	Via  string // tag, name, index
	Key  string
}

type keysInfo struct {
	Of     string
	Sorted bool
}

var reflKindNames = map[int64]string{20: "Interface", 21: "Map", 22: "Pointer", 23: "Slice", 24: "String", 25: "Struct", 17: "Array", 18: "Chan", 19: "Func", 0: "Invalid"}

func reflPayOf(st *State) *reflPay { return st.P.(*reflPay) }

// isSetterSig: func(string, any) error — the shape of the field setter.
func isSetterSig(t types.Type) bool {
	ki, xi, ok := setterParams(t)
	return ok && ki == 0 && xi == 1 && t.Underlying().(*types.Signature).Params().Len() == 2
}

// setterParams: the positions of the key (the only string parameter) and of the value (the only interface
// parameter, after the key) of a function returning an error; what else it is handed (the destination, the tag
// table) does not matter.
func setterParams(t types.Type) (ki, xi int, ok bool) {
	sig, isSig := t.Underlying().(*types.Signature)
	if !isSig || sig.Results().Len() != 1 || !isErrorType(sig.Results().At(0).Type()) || sig.Variadic() {
		return 0, 0, false
	}
	ki, xi = -1, -1
	for i := 0; i < sig.Params().Len(); i++ {
		pt := sig.Params().At(i).Type()
		if types.TypeString(pt, nil) == "string" {
			if ki >= 0 {
				return 0, 0, false
			}
			ki = i
		} else if _, isIface := pt.Underlying().(*types.Interface); isIface {
			if _, named := pt.(*types.Named); named {
				continue // Block-like interfaces, error: not the value
			}
			if xi >= 0 {
				return 0, 0, false
			}
			xi = i
		}
	}
	return ki, xi, ki >= 0 && xi > ki
}

type reflPath struct {
	Ret          string // nil, err, maperr, res, unknown
	RetRes       int
	Events       []reflEvent
	Facts        map[string]bool
	Kinds        map[string]map[string]bool
	Setters      []reflSetter
	Failures     []reflFailure
	Pending      map[int]string
	PendPos      map[int]token.Pos
	PendWhat     map[int]string
	TableStores  []string
	NilBindingAt int
	Problems     []string
	BodyMarks    []string
}

type reflModel struct {
	Root      *ast.FuncDecl
	Paths     []reflPath
	Undecided []string
}

func (c *Ctx) reflHooks(root *ast.FuncDecl, copyBlockObj types.Object) Hooks {
	var h Hooks
	isTag := func(v Value, t string) bool { return v.K == vTag && v.Tag == t }
	strOf := func(v Value) string {
		switch {
		case isTag(v, "str"), isTag(v, "key"), isTag(v, "x"):
			return v.Data.(string)
		case v.K == vConst && v.C.Kind() == constant.String:
			return fmt.Sprintf("%q", constant.StringVal(v.C))
		}
		return "?" + v.String()
	}
	descOf := func(v Value) string {
		if v.K == vTag {
			switch d := v.Data.(type) {
			case string:
				return d
			case int:
				return rvName(d)
			case sfInfo:
				return d.Desc
			}
			return v.Tag
		}
		return strOf(v)
	}
	nilV := tagV("nil", nil)
	h.StructLit = func(in *Interp, st *State, e *ast.CompositeLit, names []string, vals []Value) {
		tn := "<" + typeShort(c.typeOf(e)) + ">"
		for i, n := range names {
			if n != "" && i < len(vals) {
				reflPayOf(st).fields[tn+"."+n] = vals[i]
			}
		}
	}
	h.Inline = func(fn *types.Func) bool {
		if fn.Pkg() == nil || fn.Pkg().Path() != bclPath {
			return false
		}
		return types.Object(fn) != copyBlockObj
	}
	h.SameEffect = func(a, b *State) bool { return reflPayOf(a).sig() == reflPayOf(b).sig() }
	// ------------------------------------------------------------------ loads
	h.Load = func(in *Interp, st *State, e ast.Expr) (Value, bool) {
		p := reflPayOf(st)
		switch e := e.(type) {
		case *ast.Ident:
			if v, ok := c.objOf(e).(*types.Var); ok && v.Pkg() != nil && v.Pkg().Path() == bclPath && v.Parent() == v.Pkg().Scope() {
				if types.TypeString(v.Type(), nil) == "reflect.Type" {
					return tagV("rt", "pkg:"+v.Name()), true
				}
			}
		case *ast.SelectorExpr:
			switch c.fieldPath(e) {
			case "<Block>.Type":
				return tagV("str", "block.Type"), true
			case "<Block>.Name":
				return tagV("str", "block.Name"), true
			case "<Block>.Fields":
				return tagV("fields", "block.Fields"), true
			case "<StructBinding>.Value":
				return tagV("block", "binding.Value"), true
			case "<SliceBinding>.Value":
				return tagV("blocks", "blocks"), true
			}
			if o, ok := c.objOf(e).(*types.Var); ok && o.IsField() {
				// fields of a reflect.StructField value
				xv := in.eval(st.clone(), e.X)
				if len(xv) == 1 && isTag(xv[0].v, "sf") {
					f := xv[0].v.Data.(sfInfo)
					switch o.Name() {
					case "Index":
						return tagV("sfindex", f), true
					case "Type":
						return tagV("rt", "fieldtype("+f.Desc+")"), true
					case "Name":
						return tagV("str", "fieldname("+f.Desc+")"), true
					case "Tag":
						return tagV("sftag", f), true
					}
				}
				if fp := c.fieldPath(e); fp != "" {
					if v, ok := p.fields[fp]; ok {
						return v, true
					}
				}
			}
		case *ast.CompositeLit:
			// a map literal of the tag table's type; a struct literal sets its fields
			if mt, ok := c.typeOf(e).Underlying().(*types.Map); ok && types.TypeString(mt.Key(), nil) == "string" && len(e.Elts) == 0 {
				if isInt(mt.Elem()) {
					return tagV("tagtable", "tagged"), true
				}
				if types.TypeString(mt.Elem(), nil) == "reflect.StructField" {
					return tagV("tagtable", "tagged:sf"), true // the table holds the fields themselves
				}
			}
			return Value{}, false
		case *ast.TypeAssertExpr:
			// the unchecked assertion x.(Block)
			if e.Type == nil {
				return Value{}, false
			}
			if _, isTuple := c.typeOf(e).(*types.Tuple); isTuple {
				return Value{}, false
			}
			if isNamed(c.typeOf(e.Type), bclPath, "Block") {
				xv := in.eval(st.clone(), e.X)
				ok := false
				xd := "?"
				if len(xv) == 1 {
					xd = descOf(xv[0].v)
					ok = p.facts["assignable(type(valueof("+xd+")),blocktype)"]
				}
				p.event("x.(Block)", e.Pos(), ok, "the unchecked assertion x.(Block) is not under the assignability test of the value's type against the Block type", xd)
				return tagV("block", "asblock("+xd+")"), true
			}
		}
		return Value{}, false
	}
	h.Store = func(in *Interp, st *State, lhs ast.Expr, op token.Token, v Value) bool {
		p := reflPayOf(st)
		switch l := lhs.(type) {
		case *ast.SelectorExpr:
			if fp := c.fieldPath(l); fp != "" && op == token.ASSIGN {
				p.fields[fp] = v
				return true
			}
		case *ast.IndexExpr:
			xv := in.eval(st.clone(), l.X)
			if len(xv) == 1 && isTag(xv[0].v, "tagtable") {
				kv := in.eval(st.clone(), l.Index)
				kd := "?"
				if len(kv) == 1 {
					kd = descOf(kv[0].v)
				}
				p.tableStores = append(p.tableStores, fmt.Sprintf("%s -> %s", kd, descOf(v)))
				return true
			}
		}
		return false
	}
	h.Index = func(in *Interp, st *State, e *ast.IndexExpr, x, idx Value) (Value, bool) {
		p := reflPayOf(st)
		switch {
		case isTag(x, "tagtable"):
			// comma-ok is told apart by the interpreter (second value named "ok"); the value is the index found
			k := strOf(idx)
			if s := p.setter(); s != nil {
				s.Lookups = append(s.Lookups, reflLookup{"tag", k, e.Pos()})
			}
			if x.Data == "tagged:sf" {
				// the entry is the field itself: what t.Field(tagged[k]) gives with an index table
				if s := p.setter(); s != nil {
					s.Field = "tagfield(" + k + ")"
				}
				return tagV("sf", sfInfo{"tagfield(" + k + ")", "tag", k}), true
			}
			return tagV("tagidx", k), true
		case isTag(x, "fields"):
			return tagV("x", "fieldval("+strOf(idx)+")"), true
		case isTag(x, "keys") && isTag(idx, "idx"):
			ki := x.Data.(keysInfo)
			if !ki.Sorted {
				p.problems = append(p.problems, c.pos(e.Pos())+": the keys are used before they are sorted")
			}
			return tagV("key", "fkey"), true
		case isTag(x, "blocks") && isTag(idx, "idx"):
			return tagV("block", "blocks[i]"), true
		}
		return Value{}, false
	}
	h.BinOp = func(l Value, op token.Token, r Value) (Value, bool) {
		// n-1 of a field count, for descending scans
		if isTag(l, "numfield") && op == token.SUB && r.K == vConst {
			if k, ok := constant.Int64Val(r.C); ok && k == 1 {
				return tagV("numfield-1", l.Data), true
			}
		}
		if op == token.EQL || op == token.NEQ {
			b := func(x bool) (Value, bool) { return constV(constant.MakeBool(x == (op == token.EQL))), true }
			switch {
			case isTag(l, "nil") && isTag(r, "nil"):
				return b(true)
			case isTag(l, "errv") && isTag(r, "nil"), isTag(r, "errv") && isTag(l, "nil"):
				return b(false)
			}
		}
		return Value{}, false
	}
	// ------------------------------------------------------------------ decisions
	kindOfConst := func(e ast.Expr) string {
		if o, ok := c.objOf(c.stripConv(e)).(*types.Const); ok && o.Pkg() != nil && o.Pkg().Path() == "reflect" {
			if o.Name() == "Ptr" {
				return "Pointer"
			}
			return o.Name()
		}
		if k, ok := c.intConst(e); ok {
			if t := c.typeOf(e); t != nil && types.TypeString(t, nil) == "reflect.Kind" {
				return reflKindNames[k]
			}
		}
		return ""
	}
	// relate evaluates a comparison into (fact key / kind entity, truth when the condition holds)
	type rel struct {
		kindEntity, kind string
		fact             string
		factWhenTrue     bool
		res              int
	}
	relate := func(in *Interp, st *State, cond ast.Expr) (rel, bool) {
		be, ok := stripParens(cond).(*ast.BinaryExpr)
		if !ok {
			return rel{}, false
		}
		xv, yv := in.eval(st.clone(), be.X), in.eval(st.clone(), be.Y)
		if len(xv) != 1 || len(yv) != 1 {
			return rel{}, false
		}
		x, y := xv[0].v, yv[0].v
		xe, ye := be.X, be.Y
		op := be.Op
		flip := func() {
			x, y = y, x
			xe, ye = ye, xe
			switch op {
			case token.LSS:
				op = token.GTR
			case token.GTR:
				op = token.LSS
			case token.LEQ:
				op = token.GEQ
			case token.GEQ:
				op = token.LEQ
			}
		}
		if y.K == vTag && x.K != vTag {
			flip()
		}
		if isTag(x, "nil") && !isTag(y, "nil") {
			flip()
		}
		eq := op == token.EQL
		if op != token.EQL && op != token.NEQ {
			// len(tagged) > 0
			if isTag(x, "len") && x.Data.(string) == "tagtable" && y.K == vConst {
				if k, ok := constant.Int64Val(y.C); ok {
					switch {
					case op == token.GTR && k == 0, op == token.GEQ && k == 1:
						return rel{fact: "tagtable-empty", factWhenTrue: false}, true
					case op == token.LEQ && k == 0, op == token.LSS && k == 1:
						return rel{fact: "tagtable-empty", factWhenTrue: true}, true
					}
				}
			}
			return rel{}, false
		}
		switch {
		case isTag(x, "kind"):
			if k := kindOfConst(ye); k != "" {
				return rel{kindEntity: x.Data.(string), kind: k, factWhenTrue: eq}, true
			}
		case isTag(x, "res") && isTag(y, "nil"):
			return rel{res: x.Data.(int), factWhenTrue: eq}, true // true: result is nil
		case isTag(x, "binding") && isTag(y, "nil"):
			return rel{fact: "nilbinding", factWhenTrue: eq}, true
		case isTag(x, "x") && isTag(y, "nil"):
			return rel{fact: "nil:" + x.Data.(string), factWhenTrue: eq}, true
		case (isTag(x, "str") || isTag(x, "key")) && y.K == vConst && y.C.Kind() == constant.String && constant.StringVal(y.C) == "":
			return rel{fact: "empty:" + x.Data.(string), factWhenTrue: eq}, true
		case isTag(x, "str") && (isTag(y, "str") || isTag(y, "key") || y.K == vConst):
			// bcltag(F) == key: a scan for a tag
			a, b := x.Data.(string), strOf(y)
			if strings.HasPrefix(b, "bcltag(") {
				a, b = b, a
			}
			if strings.HasPrefix(a, "bcltag(") {
				return rel{fact: "tagmatch:" + a + "=" + b, factWhenTrue: eq}, true
			}
		case isTag(x, "len") && x.Data.(string) == "tagtable" && y.K == vConst:
			if k, ok := constant.Int64Val(y.C); ok && k == 0 {
				return rel{fact: "tagtable-empty", factWhenTrue: eq}, true
			}
		}
		return rel{}, false
	}
	h.DecideV = func(in *Interp, st *State, cond ast.Expr, v Value) tri {
		p := reflPayOf(st)
		if isTag(v, "cond") {
			if known, ok := p.facts[v.Data.(string)]; ok {
				if known {
					return triTrue
				}
				return triFalse
			}
			return triUnknown
		}
		if isTag(v, "typeok") {
			tt := v.Data.(typeTest)
			if isTag(tt.X, "binding") {
				// b, ok := binding.(T): what earlier assertions on the same value settled
				kind := typeShort(tt.T)
				switch {
				case p.facts["nilbinding"], p.facts["bindingnot:"+kind]:
					return triFalse
				case p.facts["bindingis:"+kind]:
					return triTrue
				}
				for f, known := range p.facts {
					if known && strings.HasPrefix(f, "bindingis:") {
						return triFalse
					}
				}
				return triUnknown
			}
			if typeShort(tt.T) == "fieldMappingErr" && isTag(tt.X, "errv") {
				if tt.X.Data.(string) == "maperr" {
					return triTrue
				}
				return triFalse
			}
			return triUnknown
		}
		if isTag(v, "ok") {
			// comma-ok of the tag table lookup
			if known, ok := p.facts["hit:"+v.Data.(string)]; ok {
				if known {
					return triTrue
				}
				return triFalse
			}
		}
		return triUnknown
	}
	h.Decide = func(in *Interp, st *State, cond ast.Expr) tri {
		p := reflPayOf(st)
		rl, ok := relate(in, st, cond)
		if !ok {
			return triUnknown
		}
		answer := func(truth bool) tri {
			if truth == rl.factWhenTrue {
				return triTrue
			}
			return triFalse
		}
		switch {
		case rl.kindEntity != "":
			if known, ok := p.kinds[rl.kindEntity][rl.kind]; ok {
				return answer(known)
			}
			// another kind is known to hold: this one does not
			for k, v := range p.kinds[rl.kindEntity] {
				if v && k != rl.kind {
					return answer(false)
				}
			}
		case rl.res != 0:
			switch p.pending[rl.res] {
			case "ok":
				return answer(true)
			case "failed":
				return answer(false)
			}
		case rl.fact != "":
			if known, ok := p.facts[rl.fact]; ok {
				return answer(known)
			}
			// a constant key is empty or not
			if strings.HasPrefix(rl.fact, "empty:\"") {
				return answer(rl.fact == "empty:\"\"")
			}
		}
		return triUnknown
	}
	h.Decision = func(in *Interp, st *State, cond ast.Expr, v Value, branch bool) {
		p := reflPayOf(st)
		switch {
		case isTag(v, "cond"):
			p.facts[v.Data.(string)] = branch
			if strings.HasPrefix(v.Data.(string), "found:") && !branch {
				// the name lookup missed
			}
			return
		case isTag(v, "typeok"):
			tt := v.Data.(typeTest)
			p.facts["typeok:"+descOf(tt.X)+":"+typeShort(tt.T)] = branch
			if isTag(tt.X, "binding") {
				// the if-chain form of the switch over the binding's type
				kind := typeShort(tt.T)
				if branch {
					p.facts["binding:"+kind] = true
					p.facts["bindingis:"+kind] = true
				} else {
					p.facts["bindingnot:"+kind] = true
					other := true
					for _, k := range c.bindingImpls() {
						if !p.facts["bindingnot:"+k] {
							other = false
						}
					}
					if other {
						p.facts["binding:other"] = true
					}
				}
			}
			return
		case isTag(v, "ok"):
			p.facts["hit:"+v.Data.(string)] = branch
			return
		}
		rl, ok := relate(in, st, cond)
		if !ok {
			return
		}
		truth := branch == rl.factWhenTrue
		switch {
		case rl.kindEntity != "":
			p.setKind(rl.kindEntity, rl.kind, truth)
		case rl.res != 0:
			if truth {
				p.pending[rl.res] = "ok"
			} else {
				p.pending[rl.res] = "failed"
				p.failures = append(p.failures, reflFailure{What: p.pendWhat[rl.res], Kind: "res", Pos: p.pendPos[rl.res]})
			}
		case rl.fact != "":
			p.facts[rl.fact] = truth
			if rl.fact == "nilbinding" && p.nilBindingAt < 0 {
				p.nilBindingAt = len(p.events)
			}
			if strings.HasPrefix(rl.fact, "tagmatch:") {
				// a scan of the fields for a tag: a tag lookup with that key
				ab := strings.SplitN(strings.TrimPrefix(rl.fact, "tagmatch:"), "=", 2)
				if s := p.setter(); s != nil && len(ab) == 2 {
					dup := false
					for _, l := range s.Lookups {
						if l.Kind == "tag" && l.Key == ab[1] {
							dup = true
						}
					}
					if !dup {
						s.Lookups = append(s.Lookups, reflLookup{"tag", ab[1], cond.Pos()})
					}
					if truth {
						s.Field = "tagfield(" + ab[1] + ")"
					}
				}
				p.tableStores = append(p.tableStores, "scan:"+ab[0])
			}
		}
	}
	h.CaseMatch = func(in *Interp, st *State, tag Value, caseExpr ast.Expr, taken bool) bool {
		p := reflPayOf(st)
		if isTag(tag, "kind") {
			if k := kindOfConst(caseExpr); k != "" {
				ent := tag.Data.(string)
				if known, ok := p.kinds[ent][k]; ok && known != taken {
					return false
				}
				p.setKind(ent, k, taken)
			}
		}
		return true
	}
	h.TypeCase = func(in *Interp, st *State, s *ast.TypeSwitchStmt, cc *ast.CaseClause, x Value, ts []types.Type) (Value, bool) {
		p := reflPayOf(st)
		if !isTag(x, "binding") {
			return x, true
		}
		if p.facts["nilbinding"] {
			// a nil interface matches no type
			if cc != nil && cc.List != nil {
				return x, false
			}
		}
		kind := "other"
		if cc != nil && len(ts) == 1 && ts[0] != nil {
			kind = typeShort(ts[0])
		} else if cc != nil && len(ts) > 1 {
			kind = "several"
		}
		p.facts["binding:"+kind] = true
		v := tagV("binding", kind)
		if len(ts) == 1 {
			v.T = ts[0]
		}
		return v, true
	}
	// ------------------------------------------------------------------ calls
	newRes := func(p *reflPay, what string, pos token.Pos) Value {
		p.next++
		p.pending[p.next] = "unchecked"
		p.pendPos[p.next] = pos
		p.pendWhat[p.next] = what
		return tagV("res", p.next)
	}
	// runSetter interprets one invocation of the field setter in place and records it
	runSetter := func(in *Interp, st *State, call *ast.CallExpr, args []Value, ki, xi int, run func(*State, []Value) []valState) []valState {
		p := reflPayOf(st)
		s := reflSetter{Pos: call.Pos(), Key: "?", X: "?"}
		if ki < len(args) && xi < len(args) && xi < len(call.Args) {
			s.Key, s.X = strOf(args[ki]), descOf(args[xi])
			if args[ki].K == vConst && args[ki].C.Kind() == constant.String {
				s.KeyConst = constant.StringVal(args[ki].C)
			}
			// inside, the parameters are symbolic: the key as given, the value as "x"
			args = append([]Value(nil), args...)
			if args[ki].K == vConst {
				args[ki] = tagV("key", s.Key)
			}
			args[xi] = tagV("x", s.X)
			if t := c.typeOf(call.Args[xi]); t != nil {
				p.xTypes[s.X] = t
			}
		}
		p.setters = append(p.setters, s)
		p.curSetter = append(p.curSetter, len(p.setters))
		idx := len(p.setters)
		var out []valState
		for _, vs := range run(st, args) {
			q := reflPayOf(vs.st)
			if n := len(q.curSetter); n > 0 && q.curSetter[n-1] == idx {
				q.curSetter = q.curSetter[:n-1]
			}
			res := "unknown"
			v := vs.v
			switch {
			case isTag(v, "nil"):
				res = "nil"
			case isTag(v, "errv"):
				res = v.Data.(string)
				q.failures = append(q.failures, reflFailure{What: "setter", Key: q.setters[idx-1].KeyConst, Kind: res, Pos: call.Pos()})
			case isTag(v, "res"):
				res = "res"
				if q.pending[v.Data.(int)] == "unchecked" {
					q.pending[v.Data.(int)] = "returned"
					// the setter's result now stands for it
					v = newRes(q, "setter", call.Pos())
				}
			default:
				if v.K == vUnknown && v.T != nil && typeShort(v.T) == "fieldMappingErr" {
					res = "maperr"
					v = tagV("errv", "maperr")
					q.failures = append(q.failures, reflFailure{What: "setter", Key: q.setters[idx-1].KeyConst, Kind: res, Pos: call.Pos()})
				}
			}
			q.setters[idx-1].Result = res
			out = append(out, valState{vs.st, v})
		}
		return out
	}
	h.CallValue = func(in *Interp, st *State, call *ast.CallExpr, fn *types.Func, args []Value) ([]valState, bool) {
		return nil, false
	}
	h.Call = func(in *Interp, st *State, call *ast.CallExpr, callee types.Object, args []Value) ([]valState, bool) {
		p := reflPayOf(st)
		name := ""
		if callee != nil {
			name = qname(callee)
		}
		arg := func(i int) Value {
			if i < len(args) {
				return args[i]
			}
			return unknownV()
		}
		// the receiver is evaluated once, on the path itself: a receiver that is a call (vx.Type().AssignableTo(…))
		// has events of its own
		var recvVal *Value
		recv := func() Value {
			if recvVal != nil {
				return *recvVal
			}
			v := unknownV()
			if sel, ok := stripParens(call.Fun).(*ast.SelectorExpr); ok {
				if _, isPkg := c.objOf(sel.X).(*types.PkgName); !isPkg {
					if vs := in.eval(st, sel.X); len(vs) >= 1 {
						v = vs[0].v
					}
				}
			}
			recvVal = &v
			return v
		}
		// the field setter: a local closure, a method or a function of the module with the setter's signature
		if ft := c.typeOf(call.Fun); ft != nil && isSetterSig(ft) && len(args) == 2 {
			if id, ok := stripParens(call.Fun).(*ast.Ident); ok {
				if fv, ok := st.Env[c.objOf(id)]; ok && fv.K == vFunc && fv.Lit != nil {
					lit := fv.Lit
					return runSetter(in, st, call, args, 0, 1, func(s *State, a []Value) []valState { return in.inlineLit(s, lit, a) }), true
				}
			}
			if fn, ok := callee.(*types.Func); ok && fn.Pkg() != nil && fn.Pkg().Path() == bclPath && types.Object(fn) != copyBlockObj {
				if fd := c.funcDecls[fn]; fd != nil && fd.Body != nil {
					return runSetter(in, st, call, args, 0, 1, func(s *State, a []Value) []valState { return in.inlineDecl(s, fd, call, a) }), true
				}
			}
		} else if ft != nil && len(p.curSetter) == 0 {
			// the setter as a plain function handed the destination and the tag table explicitly; its own helpers
			// (called while a setter runs) are just code
			if ki, xi, isS := setterParams(ft); isS && len(args) == ft.Underlying().(*types.Signature).Params().Len() {
				if fn, ok := callee.(*types.Func); ok && fn.Pkg() != nil && fn.Pkg().Path() == bclPath && types.Object(fn) != copyBlockObj {
					if fd := c.funcDecls[fn]; fd != nil && fd.Body != nil && fd.Recv == nil {
						return runSetter(in, st, call, args, ki, xi, func(s *State, a []Value) []valState { return in.inlineDecl(s, fd, call, a) }), true
					}
				}
			}
		}
		if callee != nil && callee == copyBlockObj {
			// precondition: the destination is known to be a struct
			dv := arg(0)
			ok := false
			dd := descOf(dv)
			if isTag(dv, "rv") {
				ok = p.kindIs(rvName(dv.Data.(int)), "Struct")
			}
			p.event("copyBlock-arg", call.Pos(), ok, "copyBlock is called with a value whose Kind() == Struct was not established (a pointer, interface or scalar where a struct is needed panics in NumField)", dd)
			return one(st, newRes(p, "copyBlock", call.Pos())), true
		}
		switch name {
		case "reflect.ValueOf":
			a := arg(0)
			d := descOf(a)
			if a.K == vUnknown {
				d = types.ExprString(call.Args[0])
			}
			return one(st, p.newRV("valueof("+d+")")), true
		case "reflect.TypeOf":
			return one(st, tagV("rt", "typeof("+types.ExprString(call.Args[0])+")")), true
		case "reflect.Value.Kind":
			if rv := recv(); isTag(rv, "rv") {
				return one(st, tagV("kind", rvName(rv.Data.(int)))), true
			}
		case "reflect.Type.Kind":
			if rt := recv(); isTag(rt, "rt") {
				return one(st, tagV("kind", rt.Data.(string))), true
			}
		case "reflect.Value.Elem":
			if rv := recv(); isTag(rv, "rv") {
				ent := rvName(rv.Data.(int))
				p.event("Elem", call.Pos(), p.kindIs(ent, "Pointer", "Interface"), "Value.Elem() is reached without a dominating Kind() == Pointer check on the same value (panics for other kinds)", ent)
				return one(st, p.newRV("elem("+ent+")")), true
			}
		case "reflect.Value.Type":
			if rv := recv(); isTag(rv, "rv") {
				id := rv.Data.(int)
				org := p.origin[id]
				switch {
				case strings.HasPrefix(org, "param:"):
					p.event("v.Type", call.Pos(), true, "", org)
				case strings.HasPrefix(org, "valueof("):
					x := strings.TrimSuffix(strings.TrimPrefix(org, "valueof("), ")")
					nonNil := false
					if known, ok := p.facts["nil:"+x]; ok && !known {
						nonNil = true
					}
					if x == "target" || x == "Block{}" {
						// not a value taken from a block
					} else {
						p.event("ValueOf(x).Type", call.Pos(), nonNil, "reflect.ValueOf(x).Type() is reached without a dominating x != nil check (panics on the zero Value)", x)
					}
				}
				return one(st, tagV("rt", "type("+rvName(id)+")")), true
			}
		case "reflect.Type.Elem":
			if rt := recv(); isTag(rt, "rt") {
				d := rt.Data.(string)
				ok := false
				if strings.HasPrefix(d, "type(v#") {
					ok = p.kindIs(strings.TrimSuffix(strings.TrimPrefix(d, "type("), ")"), "Slice", "Array", "Pointer", "Map", "Chan")
				}
				p.event("Type.Elem", call.Pos(), ok, "Type.Elem() is reached without a dominating Kind() == Slice check (panics for struct, int, …)", d)
				return one(st, tagV("rt", "elem("+d+")")), true
			}
		case "reflect.Type.Name":
			if rt := recv(); isTag(rt, "rt") {
				return one(st, tagV("str", "typename("+rt.Data.(string)+")")), true
			}
		case "reflect.MakeSlice":
			t := arg(0)
			ok, why := false, "reflect.MakeSlice must build a fresh slice of the (checked) slice type with length and capacity len(blocks)"
			src := ""
			if isTag(t, "rt") && strings.HasPrefix(t.Data.(string), "type(v#") {
				src = strings.TrimSuffix(strings.TrimPrefix(t.Data.(string), "type("), ")")
				ok = p.kindIs(src, "Slice")
			}
			lenOK := isTag(arg(1), "len") && isTag(arg(2), "len") && arg(1).Data.(string) == "blocks" && arg(2).Data.(string) == "blocks"
			p.event("MakeSlice", call.Pos(), ok && lenOK, why, descOf(t))
			nv := p.newRV("makeslice(" + src + ")")
			if lenOK {
				p.facts["lenblocks:"+rvName(nv.Data.(int))] = true
			}
			return one(st, nv), true
		case "reflect.Value.Index":
			if rv := recv(); isTag(rv, "rv") {
				id := rv.Data.(int)
				org := p.origin[id]
				ok := strings.HasPrefix(org, "makeslice(") && p.facts["lenblocks:"+rvName(id)] && isTag(arg(0), "idx") && arg(0).Data.(string) == "blocks"
				p.event("Index", call.Pos(), ok, "Value.Index is used on something other than the freshly made slice, or with an index that does not range over the blocks it was sized for", org)
				nv := p.newRV("index(" + rvName(id) + ")")
				if strings.HasPrefix(org, "makeslice(") {
					src := strings.TrimSuffix(strings.TrimPrefix(org, "makeslice("), ")")
					if p.kindIs("elem(type("+src+"))", "Struct") {
						p.setKind(rvName(nv.Data.(int)), "Struct", true)
					}
				}
				return one(st, nv), true
			}
		case "reflect.Value.Set":
			rv, a := recv(), arg(0)
			if isTag(rv, "rv") {
				id := rv.Data.(int)
				org := p.origin[id]
				if strings.HasPrefix(org, "field(") {
					// dest.Set(vx): CanSet and the value's type assignable to the field's type
					f := strings.TrimSuffix(strings.TrimPrefix(org, "field("), ")")
					canSet := p.facts["canset("+rvName(id)+")"]
					assignable := false
					if isTag(a, "rv") {
						assignable = p.facts["assignable("+c.reflTypeDesc(p, "type("+rvName(a.Data.(int))+")")+",fieldtype("+f+"))"]
					}
					p.event("dest.Set", call.Pos(), canSet && assignable, fmt.Sprintf("Value.Set is reached without both dominating checks: CanSet %v, AssignableTo(field type) %v", canSet, assignable), org)
					if s := p.setter(); s != nil {
						s.Field = f
					}
					return one(st, unknownV()), true
				}
				// target.Set(newSlice)
				ok := p.kindIs(rvName(id), "Slice") && isTag(a, "rv") && p.origin[a.Data.(int)] == "makeslice("+rvName(id)+")" && p.loopDepth == 0
				untolerated := false
				for _, f := range p.failures {
					if !reflTolerated(p.facts, f) {
						untolerated = true
					}
				}
				if untolerated {
					ok = false
				}
				p.event("Set", call.Pos(), ok, "the target slice must be replaced once, by the freshly made slice, after every element was filled without error", org)
				return one(st, unknownV()), true
			}
		case "reflect.Value.CanSet":
			if rv := recv(); isTag(rv, "rv") {
				return one(st, tagV("cond", "canset("+rvName(rv.Data.(int))+")")), true
			}
		case "reflect.Type.AssignableTo":
			rt, a := recv(), arg(0)
			if isTag(rt, "rt") && isTag(a, "rt") {
				from, to := c.reflTypeDesc(p, rt.Data.(string)), c.reflTypeDesc(p, a.Data.(string))
				// a value whose static type is not an interface has that very type: a string is no Block
				if to == "blocktype" && strings.HasPrefix(from, "type(valueof(") {
					x := strings.TrimSuffix(strings.TrimPrefix(from, "type(valueof("), "))")
					if t := p.xTypes[x]; t != nil {
						if _, isIface := t.Underlying().(*types.Interface); !isIface && !isNamed(t, bclPath, "Block") {
							return one(st, constV(constant.MakeBool(false))), true
						}
					}
				}
				return one(st, tagV("cond", "assignable("+from+","+to+")")), true
			}
		case "reflect.Value.FieldByIndexErr":
			rv := recv()
			ok := isTag(rv, "rv") && strings.HasPrefix(p.origin[rv.Data.(int)], "param:")
			p.event("FieldByIndexErr", call.Pos(), ok, "FieldByIndexErr must be applied to copyBlock's struct value", descOf(rv))
			f := "?"
			if a := arg(0); isTag(a, "sfindex") {
				f = a.Data.(sfInfo).Desc
			}
			nv := p.newRV("field(" + f + ")")
			return one(st, Value{K: vTuple, Tup: []Value{nv, newRes(p, "FieldByIndexErr", call.Pos())}}), true
		case "reflect.Type.NumField", "reflect.Type.Field", "reflect.Type.FieldByNameFunc":
			rt := recv()
			ok := false
			if isTag(rt, "rt") && strings.HasPrefix(rt.Data.(string), "type(v#") {
				var id int
				fmt.Sscanf(rt.Data.(string), "type(v#%d)", &id)
				ok = strings.HasPrefix(p.origin[id], "param:") || p.kindIs(rvName(id), "Struct")
			}
			op := strings.TrimPrefix(name, "reflect.")
			p.event(op, call.Pos(), ok, name+" must be applied to the type of copyBlock's (struct-kinded) value", descOf(rt))
			switch name {
			case "reflect.Type.NumField":
				return one(st, tagV("numfield", descOf(rt))), true
			case "reflect.Type.Field":
				i := arg(0)
				switch {
				case isTag(i, "tagidx"):
					k := i.Data.(string)
					if s := p.setter(); s != nil {
						s.Field = "tagfield(" + k + ")"
					}
					return one(st, tagV("sf", sfInfo{"tagfield(" + k + ")", "tag", k})), true
				case isTag(i, "fieldidx"):
					return one(st, tagV("sf", sfInfo{"Field(" + i.Data.(string) + ")", "index", i.Data.(string)})), true
				}
				return one(st, tagV("sf", sfInfo{"Field(?" + i.String() + ")", "index", "?"})), true
			default:
				// apply the matcher to a symbolic field name: it must come out as EqualFold(field name, key with "_" removed)
				key := "?"
				fnv := arg(0)
				var res []valState
				switch {
				case fnv.K == vFunc && fnv.Lit != nil:
					res = in.inlineLit(st.clone(), fnv.Lit, []Value{tagV("str", "fieldname")})
				case fnv.K == vFunc && fnv.FnObj != nil:
					if fd := c.funcDecls[fnv.FnObj]; fd != nil && fd.Body != nil {
						res = in.inlineDeclRecv(st.clone(), fd, call, []Value{tagV("str", "fieldname")}, fnv.Recv)
					}
				}
				if len(res) == 1 && isTag(res[0].v, "cond") {
					key = res[0].v.Data.(string)
				}
				if s := p.setter(); s != nil {
					s.Lookups = append(s.Lookups, reflLookup{"name", key, call.Pos()})
					s.Field = "namefield(" + key + ")"
				}
				p.next++
				return one(st, Value{K: vTuple, Tup: []Value{tagV("sf", sfInfo{"namefield(" + key + ")", "name", key}), tagV("cond", fmt.Sprintf("found:name#%d", p.next))}}), true
			}
		case "reflect.StructField.IsExported":
			if f := recv(); isTag(f, "sf") {
				return one(st, tagV("cond", "exported("+f.Data.(sfInfo).Desc+")")), true
			}
		case "reflect.StructTag.Get":
			if tg := recv(); isTag(tg, "sftag") {
				if k, ok := c.strConst(call.Args[0]); ok {
					if k == "bcl" {
						return one(st, tagV("str", "bcltag("+tg.Data.(sfInfo).Desc+")")), true
					}
					return one(st, tagV("str", "tag:"+k+"("+tg.Data.(sfInfo).Desc+")")), true
				}
			}
		case "reflect.StructTag.Lookup":
			if tg := recv(); isTag(tg, "sftag") {
				if k, ok := c.strConst(call.Args[0]); ok && k == "bcl" {
					return one(st, Value{K: vTuple, Tup: []Value{tagV("str", "bcltag("+tg.Data.(sfInfo).Desc+")"), unknownV()}}), true
				}
			}
		case "len":
			a := arg(0)
			switch {
			case isTag(a, "blocks"):
				return one(st, tagV("len", "blocks")), true
			case isTag(a, "tagtable"):
				return one(st, tagV("len", "tagtable")), true
			case isTag(a, "keys"):
				return one(st, tagV("len", "keys")), true
			case isTag(a, "fields"):
				return one(st, tagV("len", "fields")), true
			}
			return one(st, unknownV()), true
		case "make":
			if mt, ok := c.typeOf(call).Underlying().(*types.Map); ok && types.TypeString(mt.Key(), nil) == "string" {
				if isInt(mt.Elem()) {
					return one(st, tagV("tagtable", "tagged")), true
				}
				if types.TypeString(mt.Elem(), nil) == "reflect.StructField" {
					return one(st, tagV("tagtable", "tagged:sf")), true
				}
			}
			return one(st, unknownV()), true
		case "append":
			if len(args) >= 2 {
				var el Value
				if args[1].K == vList && len(args[1].Tup) == 1 {
					el = args[1].Tup[0]
				} else {
					el = args[1]
				}
				if isTag(el, "key") && el.Data.(string) == "mapkey" {
					return one(st, tagV("keys", keysInfo{"block.Fields", false})), true
				}
			}
			return one(st, unknownV()), true
		case "sort.Strings", "slices.Sort":
			if id, ok := stripParens(call.Args[0]).(*ast.Ident); ok {
				if v, ok := st.Env[c.objOf(id)]; ok && isTag(v, "keys") {
					ki := v.Data.(keysInfo)
					ki.Sorted = true
					st.Env[c.objOf(id)] = tagV("keys", ki)
				}
			}
			return one(st, unknownV()), true
		case "strings.Cut":
			s := arg(0)
			if sep, ok := c.strConst(call.Args[1]); ok && (isTag(s, "str") || isTag(s, "key")) {
				d := "cut(" + s.Data.(string) + ",\"" + sep + "\")"
				return one(st, Value{K: vTuple, Tup: []Value{tagV("str", d), unknownV(), unknownV()}}), true
			}
		case "strings.ReplaceAll", "strings.Replace":
			s := arg(0)
			if isTag(s, "str") || isTag(s, "key") {
				a, ok1 := c.strConst(call.Args[1])
				b, ok2 := c.strConst(call.Args[2])
				all := name == "strings.ReplaceAll"
				if !all && len(call.Args) == 4 {
					if n, ok := c.intConst(call.Args[3]); ok && n < 0 {
						all = true
					}
				}
				if ok1 && ok2 && a == "_" && b == "" && all {
					return one(st, tagV("str", "strip("+s.Data.(string)+")")), true
				}
				return one(st, tagV("str", name+"?("+s.Data.(string)+")")), true
			}
		case "strings.EqualFold":
			a, b := arg(0), arg(1)
			if (isTag(a, "str") || isTag(a, "key")) && (isTag(b, "str") || isTag(b, "key")) {
				x, y := a.Data.(string), b.Data.(string)
				if x > y {
					x, y = y, x
				}
				return one(st, tagV("cond", "eqfold("+x+","+y+")")), true
			}
		}
		if fn, _ := callee.(*types.Func); fn != nil && (fn.Pkg() == nil || fn.Pkg().Path() != bclPath) {
			// other string functions applied to a tracked string show up as a different string
			if fn.Pkg() != nil && (fn.Pkg().Path() == "strings" || fn.Pkg().Path() == "unicode") && len(args) > 0 && (isTag(arg(0), "str") || isTag(arg(0), "key")) {
				sig := fn.Type().(*types.Signature)
				if sig.Results().Len() == 1 && types.TypeString(sig.Results().At(0).Type(), nil) == "string" {
					return one(st, tagV("str", name+"("+arg(0).Data.(string)+")")), true
				}
			}
			sig := fn.Type().(*types.Signature)
			if res := sig.Results(); res.Len() == 1 && isErrorType(res.At(0).Type()) {
				return one(st, tagV("errv", "err")), true
			}
		}
		_ = nilV
		return nil, false
	}
	// ------------------------------------------------------------------ loops
	h.Loop = func(in *Interp, st *State, loop ast.Stmt, body func(*State) []*State) ([]*State, bool) {
		p := reflPayOf(st)
		kind := ""
		switch s := loop.(type) {
		case *ast.RangeStmt:
			xv := in.eval(st, s.X)
			if len(xv) != 1 {
				return nil, false
			}
			st = xv[0].st
			p = reflPayOf(st)
			x := xv[0].v
			in.havoc(st, s.Body)
			switch {
			case isTag(x, "blocks"):
				kind = "blocks"
				if s.Key != nil {
					in.store(st, s.Key, token.ASSIGN, tagV("idx", "blocks"))
				}
				if s.Value != nil {
					in.store(st, s.Value, token.ASSIGN, tagV("block", "blocks[i]"))
				}
			case isTag(x, "fields"):
				kind = "mapkeys"
				if s.Key != nil {
					in.store(st, s.Key, token.ASSIGN, tagV("key", "mapkey"))
				}
				if s.Value != nil {
					in.store(st, s.Value, token.ASSIGN, tagV("x", "mapval"))
					p.problems = append(p.problems, c.pos(loop.Pos())+": the block's fields are used in map order")
				}
			case isTag(x, "keys"):
				kind = "keys"
				if !x.Data.(keysInfo).Sorted {
					p.problems = append(p.problems, c.pos(loop.Pos())+": the keys are iterated before they are sorted")
				}
				if s.Key != nil {
					in.store(st, s.Key, token.ASSIGN, tagV("idx", "keys"))
				}
				if s.Value != nil {
					in.store(st, s.Value, token.ASSIGN, tagV("key", "fkey"))
				}
			default:
				return nil, false
			}
		case *ast.ForStmt:
			if s.Cond == nil || s.Init == nil {
				return nil, false
			}
			sts := in.exec(st, s.Init)
			if len(sts) != 1 {
				return nil, false
			}
			st = sts[0]
			p = reflPayOf(st)
			// the loop variable and its range
			init, ok := s.Init.(*ast.AssignStmt)
			if !ok || len(init.Lhs) != 1 {
				return nil, false
			}
			iv := c.objOf(init.Lhs[0])
			start := st.Env[iv]
			var boundV Value
			condOp := token.ILLEGAL
			for _, cj := range conjunctsOf(s.Cond) {
				be, ok := stripParens(cj).(*ast.BinaryExpr)
				if !ok || !c.isObj(be.X, iv) {
					continue
				}
				if vs := in.eval(st.clone(), be.Y); len(vs) == 1 {
					boundV, condOp = vs[0].v, be.Op
				}
			}
			up, down := false, false
			if inc, ok := s.Post.(*ast.IncDecStmt); ok && c.isObj(inc.X, iv) {
				up, down = inc.Tok == token.INC, inc.Tok == token.DEC
			}
			zero := start.K == vConst && start.C.Kind() == constant.Int && constant.Sign(start.C) == 0
			switch {
			case zero && up && condOp == token.LSS && isTag(boundV, "numfield"):
				kind = "fields-of-type"
				st.Env[iv] = tagV("fieldidx", "i")
			case isTag(start, "numfield-1") && down && condOp == token.GEQ && boundV.K == vConst && constant.Sign(boundV.C) == 0:
				kind = "fields-of-type"
				st.Env[iv] = tagV("fieldidx", "i")
			case zero && up && condOp == token.LSS && isTag(boundV, "len") && boundV.Data.(string) == "blocks":
				kind = "blocks"
				st.Env[iv] = tagV("idx", "blocks")
			case zero && up && condOp == token.LSS && isTag(boundV, "len") && boundV.Data.(string) == "keys":
				kind = "keys"
				st.Env[iv] = tagV("idx", "keys")
			default:
				if isTag(boundV, "numfield") || isTag(start, "numfield-1") {
					kind = "fields-of-type"
					st.Env[iv] = tagV("fieldidx", "partial")
				} else {
					return nil, false
				}
			}
			in.havoc(st, s.Body)
			if kind != "" {
				st.Env[iv] = st.Env[iv] // keep the symbolic index over havoc
			}
			switch kind {
			case "fields-of-type":
				if v := st.Env[iv]; !isTag(v, "fieldidx") {
					st.Env[iv] = tagV("fieldidx", "i")
				}
			case "blocks":
				st.Env[iv] = tagV("idx", "blocks")
			case "keys":
				st.Env[iv] = tagV("idx", "keys")
			}
		default:
			return nil, false
		}
		p.loopDepth++
		nFail := len(p.failures)
		nSet := len(p.setters)
		var out []*State
		seen := map[string]bool{}
		for _, r := range body(st) {
			q := reflPayOf(r)
			switch {
			case r.Term == tReturn, r.Term == tGoto, (r.Term == tBreak || r.Term == tContinue) && r.Label != "":
				q.loopDepth--
				out = append(out, r)
				continue
			case r.Term == tBreak:
				if kind == "keys" || kind == "blocks" {
					q.bodyMarks = append(q.bodyMarks, kind+":break at "+c.pos(loop.Pos()))
				}
			}
			r.Term = tNone
			q.loopDepth--
			// an iteration that goes on although something failed in it
			for _, f := range q.failures[nFail:] {
				if !reflTolerated(q.facts, f) {
					q.bodyMarks = append(q.bodyMarks, kind+":continues-after-failure at "+c.pos(loop.Pos()))
				}
			}
			if kind == "keys" {
				// exactly one setter invocation with the key and its value
				n := 0
				for _, s := range q.setters[nSet:] {
					if s.Key == "fkey" && s.X == "fieldval(fkey)" {
						n++
					}
				}
				if n != 1 {
					q.bodyMarks = append(q.bodyMarks, fmt.Sprintf("keys:setter-calls=%d at %s", n, c.pos(loop.Pos())))
				} else {
					q.bodyMarks = append(q.bodyMarks, "keys:visited")
				}
			}
			k := q.sig()
			if seen[k] {
				continue
			}
			seen[k] = true
			out = append(out, r)
		}
		return out, true
	}
	return h
}

// reflTypeDesc normalises a type description: the package-level variable holding reflect.TypeOf(Block{}) is "blocktype";
// type(v#n) of ValueOf(x) is "type(valueof(x))".
func (c *Ctx) reflTypeDesc(p *reflPay, d string) string {
	if strings.HasPrefix(d, "pkg:") {
		name := strings.TrimPrefix(d, "pkg:")
		if v, ok := c.Bcl.Types.Scope().Lookup(name).(*types.Var); ok {
			if lit := c.pkgVarInit(v); lit != nil {
				if call, ok := lit.(*ast.CallExpr); ok && c.calleeName(call) == "reflect.TypeOf" && len(call.Args) == 1 {
					if isNamed(c.typeOf(call.Args[0]), bclPath, "Block") {
						return "blocktype"
					}
				}
			}
		}
		return d
	}
	if strings.HasPrefix(d, "typeof(") && strings.Contains(d, "Block{}") {
		return "blocktype"
	}
	var id int
	if n, _ := fmt.Sscanf(d, "type(v#%d)", &id); n == 1 {
		if org := p.origin[id]; strings.HasPrefix(org, "valueof(") {
			return "type(" + org + ")"
		}
		return "type(" + rvName(id) + ")"
	}
	return d
}

// pkgVarInit: the initialiser expression of a package-level variable.
func (c *Ctx) pkgVarInit(v *types.Var) ast.Expr {
	for _, f := range c.Bcl.Syntax {
		for _, d := range f.Decls {
			gd, ok := d.(*ast.GenDecl)
			if !ok || gd.Tok != token.VAR {
				continue
			}
			for _, sp := range gd.Specs {
				vs := sp.(*ast.ValueSpec)
				for i, n := range vs.Names {
					if c.Bcl.TypesInfo.Defs[n] == types.Object(v) && i < len(vs.Values) {
						return vs.Values[i]
					}
				}
			}
		}
	}
	return nil
}

// reflModelOf interprets copyBlocks (which="copyBlocks") or copyBlock.
func (c *Ctx) reflModelOf(which string) *reflModel {
	key := "refl:" + which
	if c.memoTab == nil {
		c.memoTab = map[string]any{}
	}
	if m, ok := c.memoTab[key]; ok {
		return m.(*reflModel)
	}
	m := &reflModel{}
	c.memoTab[key] = m
	_, fd := c.find(which)
	cbObj, _ := c.find("copyBlock")
	if fd == nil || cbObj == nil {
		m.Undecided = append(m.Undecided, which+" not found")
		return m
	}
	m.Root = fd
	in := newInterp(c, c.reflHooks(fd, cbObj))
	pay := newReflPay()
	st := &State{Env: map[types.Object]Value{}, P: pay}
	var args []Value
	i := 0
	for _, f := range fd.Type.Params.List {
		for _, n := range f.Names {
			t := c.Bcl.TypesInfo.Defs[n].Type()
			ts := types.TypeString(t, nil)
			var v Value
			switch {
			case ts == "reflect.Value":
				v = pay.newRV("param:" + n.Name)
				pay.setKind(rvName(v.Data.(int)), "Struct", true) // copyBlock's precondition, established at every call site
			case isNamed(t, bclPath, "Block"):
				v = tagV("block", "block")
			case isNamed(t, bclPath, "Binding"):
				v = tagV("binding", "binding")
			default:
				v = tagV("x", "target")
			}
			args = append(args, v)
			i++
		}
	}
	res := in.inlineBody(st, fd.Type, fd.Body, fd.Recv, args)
	m.Undecided = append(m.Undecided, in.Undecided...)
	seen := map[string]bool{}
	for _, vs := range res {
		p := reflPayOf(vs.st)
		rp := reflPath{Ret: "unknown", Events: p.events, Facts: p.facts, Kinds: p.kinds, Setters: p.setters, Failures: p.failures, Pending: p.pending, PendPos: p.pendPos, PendWhat: p.pendWhat,
			TableStores: p.tableStores, NilBindingAt: p.nilBindingAt, Problems: p.problems, BodyMarks: p.bodyMarks}
		v := vs.v
		switch {
		case v.K == vTag && v.Tag == "nil":
			rp.Ret = "nil"
		case v.K == vTag && v.Tag == "errv":
			rp.Ret = v.Data.(string)
		case v.K == vTag && v.Tag == "res":
			rp.Ret = "res"
			rp.RetRes = v.Data.(int)
		case v.K == vUnknown && v.T != nil && typeShort(v.T) == "fieldMappingErr":
			rp.Ret = "maperr"
		}
		k := p.sig() + "|" + rp.Ret
		if seen[k] {
			continue
		}
		seen[k] = true
		m.Paths = append(m.Paths, rp)
	}
	return m
}

// bindingImpls: the named types of the package that implement Binding.
func (c *Ctx) bindingImpls() []string {
	var out []string
	bt := namedType(c.Bcl, "Binding")
	if bt == nil {
		return nil
	}
	iface, ok := bt.Underlying().(*types.Interface)
	if !ok {
		return nil
	}
	sc := c.Bcl.Types.Scope()
	for _, n := range sc.Names() {
		tn, ok := sc.Lookup(n).(*types.TypeName)
		if !ok || tn.IsAlias() {
			continue
		}
		if _, isI := tn.Type().Underlying().(*types.Interface); isI {
			continue
		}
		if types.Implements(tn.Type(), iface) || types.Implements(types.NewPointer(tn.Type()), iface) {
			out = append(out, typeShort(tn.Type()))
		}
	}
	sort.Strings(out)
	return out
}
