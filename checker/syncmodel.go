package main

// The behaviour of parser.sync() as a decision table over the current token:
// sync() and the predicates it calls are interpreted once per token constant
// (p.current.typ bound to that constant) for the first loop iteration only.
// For each token the table says whether sync stops there without consuming it
// or consumes it; a path that does neither would spin.

import (
	"fmt"
	"go/ast"
	"go/constant"
	"go/token"
	"go/types"
	"sort"
)

type syncPay struct {
	advanced, cleared, clearedBeforeLoop, inLoop, spun bool
}

func (p *syncPay) Clone() Payload { q := *p; return &q }

type syncTable struct {
	Stops, Advances, Spins []string // token names
	ClearsPanic            bool     // panicMode = false on every path before the loop is entered
	Undecided              []string
}

func (c *Ctx) syncModel() (*syncTable, error) {
	_, fd := c.find("parser.sync")
	if fd == nil {
		return nil, fmt.Errorf("parser.sync not found")
	}
	toks := constsOfType(c.Bcl, "tokenType")
	tab := &syncTable{ClearsPanic: true}
	for _, t := range toks {
		if t.Name == "tMAX" {
			continue
		}
		tv := constV(constant.MakeInt64(t.Val))
		var h Hooks
		pay := func(st *State) *syncPay { return st.P.(*syncPay) }
		h.SameEffect = func(a, b *State) bool { return *pay(a) == *pay(b) }
		h.Load = func(in *Interp, st *State, e ast.Expr) (Value, bool) {
			switch c.fieldPath(e) {
			case "<parser>.current.typ":
				v := tv
				v.T = c.typeOf(e)
				return v, true
			}
			return Value{}, false
		}
		h.Store = func(in *Interp, st *State, lhs ast.Expr, op token.Token, v Value) bool {
			if c.fieldPath(lhs) == "<parser>.panicMode" {
				if op == token.ASSIGN && v.K == vConst && v.C.Kind() == constant.Bool && !constant.BoolVal(v.C) {
					pay(st).cleared = true
				}
				return true
			}
			return false
		}
		h.Call = func(in *Interp, st *State, call *ast.CallExpr, callee types.Object, args []Value) ([]valState, bool) {
			switch qname(callee) {
			case "parser.advance":
				pay(st).advanced = true
				return one(st, unknownV()), true
			case "parser.errorAt", "parser.error", "parser.errorAtCurrent":
				return one(st, unknownV()), true
			}
			return nil, false
		}
		h.Inline = func(fn *types.Func) bool { return fn.Pkg() != nil && fn.Pkg().Path() == bclPath }
		h.Loop = func(in *Interp, st *State, loop ast.Stmt, body func(*State) []*State) ([]*State, bool) {
			fs, ok := loop.(*ast.ForStmt)
			if !ok || fs.Init != nil {
				return nil, false
			}
			p := pay(st)
			if !p.inLoop {
				p.clearedBeforeLoop = p.cleared
			}
			p.inLoop = true
			var out []*State
			brs := []branchState{{st, true}}
			if fs.Cond != nil {
				brs = in.branch(st, fs.Cond)
			}
			for _, b := range brs {
				if !b.taken {
					out = append(out, b.st) // the loop ends: sync stops at this token
					continue
				}
				for _, after := range body(b.st) {
					switch after.Term {
					case tReturn:
						out = append(out, after)
					case tBreak:
						after.Term = tNone
						out = append(out, after)
					default:
						// the iteration is over; with Post it would go on to the next token
						after.Term = tNone
						if fs.Post != nil {
							for _, a2 := range in.exec(after, fs.Post) {
								if !pay(a2).advanced {
									pay(a2).spun = true
								}
								a2.Term, a2.Ret = tReturn, nil
								out = append(out, a2)
							}
							continue
						}
						if !pay(after).advanced {
							pay(after).spun = true
						}
						after.Term, after.Ret = tReturn, nil
						out = append(out, after)
					}
				}
			}
			return out, true
		}
		in := newInterp(c, h)
		st := &State{Env: map[types.Object]Value{}, P: &syncPay{}}
		res := in.inlineBody(st, fd.Type, fd.Body, fd.Recv, nil)
		adv, stop, spin := false, false, false
		for _, r := range res {
			p := r.st.P.(*syncPay)
			switch {
			case p.spun:
				spin = true
			case p.advanced:
				adv = true
			default:
				stop = true
			}
			if !p.clearedBeforeLoop && !(p.cleared && !p.inLoop) {
				tab.ClearsPanic = false
			}
		}
		switch {
		case spin:
			tab.Spins = append(tab.Spins, t.Name)
		case adv && stop:
			tab.Undecided = append(tab.Undecided, t.Name+": both stops and advances")
		case adv:
			tab.Advances = append(tab.Advances, t.Name)
		default:
			tab.Stops = append(tab.Stops, t.Name)
		}
		for _, u := range in.Undecided {
			tab.Undecided = append(tab.Undecided, t.Name+": "+u)
		}
	}
	sort.Strings(tab.Stops)
	sort.Strings(tab.Advances)
	return tab, nil
}
