package main

// E-TOTAL: audit of partial operations reachable from the parsing/interpreting entry points.

import (
	"fmt"
	"go/ast"
	"go/constant"
	"go/token"
	"go/types"
	"sort"
	"strings"

	"golang.org/x/tools/go/ssa"
)

var c06Entries = []string{"Parse", "Interpret", "Unmarshal", "ParseFile", "InterpretFile", "UnmarshalFile", "Execute", "Bind"}

// reachFromEntries: module functions reachable (VTA, following go statements) from the API entry points.
func (c *Ctx) reachFromEntries(entries []string) map[*ssa.Function]bool {
	var roots []*ssa.Function
	for _, e := range entries {
		obj, _ := c.find(e)
		if f := c.ssaFunc(obj); f != nil {
			roots = append(roots, f)
		}
	}
	saved := noGoEdges
	noGoEdges = false
	defer func() { noGoEdges = saved }()
	out := map[*ssa.Function]bool{}
	for f := range reachable(c.VTA(), roots...) {
		if inRepo(f) && ssaPkgPath(f) == bclPath {
			out[f] = true
		}
	}
	return out
}

// declOfSSA maps an SSA function back to its syntax (declaration or literal body).
func (c *Ctx) bodyOf(f *ssa.Function) ast.Node {
	switch s := f.Syntax().(type) {
	case *ast.FuncDecl:
		return s.Body
	case *ast.FuncLit:
		return s.Body
	}
	return nil
}

func ruleExplicitPanic(c *Ctx, r *Report, rule string, reach map[*ssa.Function]bool) {
	r.rule(rule, 1, "no function reachable from Parse/Interpret/Unmarshal (and file variants, Execute, Bind) calls panic")
	n := 0
	var names []string
	for _, f := range sortedReach(reach) {
		names = append(names, ssaFuncName(f))
		body := c.bodyOf(f)
		if body == nil {
			continue
		}
		ast.Inspect(body, func(x ast.Node) bool {
			if lit, ok := x.(*ast.FuncLit); ok && ast.Node(lit.Body) != body {
				return false
			}
			if call, ok := x.(*ast.CallExpr); ok && c.calleeName(call) == "panic" {
				n++
				r.bad(rule, ssaFuncName(f)+"/panic", ssaFuncName(f)+" calls panic and is reachable from the parsing/interpreting API", c.pos(call.Pos()))
			}
			return true
		})
	}
	sort.Strings(names)
	r.fn(names...)
	if n == 0 {
		r.ok(rule, "reachable-set", fmt.Sprintf("%d reachable functions, no panic call", len(reach)))
	}
	r.Extra["reachable_functions"] = len(reach)
}

// ruleNoAbruptExit: the compiler side of the pipeline has no way out other than returning.
func ruleNoAbruptExit(c *Ctx, r *Report, rule string) {
	r.rule(rule, 1, "no function reachable from ParseFile (reader, lexer and parser goroutines included) calls panic, runtime.Goexit, os.Exit or log.Fatal*: the parser leaves its statement loop only through the end-of-tokens test, so it always reads the lexer's finaliser token and the lexer goroutine is never left blocked on a send (a panic recovered further up would end the parse with tokens undelivered)")
	reach := c.reachFromEntries([]string{"ParseFile"})
	n := 0
	var names []string
	for _, f := range sortedReach(reach) {
		names = append(names, ssaFuncName(f))
		body := c.bodyOf(f)
		if body == nil {
			continue
		}
		ast.Inspect(body, func(x ast.Node) bool {
			if lit, ok := x.(*ast.FuncLit); ok && ast.Node(lit.Body) != body {
				return false
			}
			if call, ok := x.(*ast.CallExpr); ok {
				switch name := c.calleeName(call); {
				case name == "panic", name == "runtime.Goexit", name == "os.Exit", strings.HasPrefix(name, "log.Fatal"), strings.HasPrefix(name, "log.Panic"):
					n++
					r.bad(rule, ssaFuncName(f)+"/"+name, ssaFuncName(f)+" calls "+name+" and runs inside ParseFile: the call can leave a goroutine of the pipeline blocked or end the parse before the token stream is drained", c.pos(call.Pos()))
				}
			}
			return true
		})
	}
	sort.Strings(names)
	r.fn(names...)
	if n == 0 && len(reach) > 20 {
		r.ok(rule, "reachable-set", fmt.Sprintf("%d reachable functions, none leaves abruptly", len(reach)))
	} else if n == 0 {
		r.bad(rule, "reachable-set", fmt.Sprintf("only %d functions found reachable from ParseFile: the anchors of this rule were not found", len(reach)), "")
	}
}

func ruleDroppedConversion(c *Ctx, r *Report, rule string, reach map[*ssa.Function]bool) {
	r.rule(rule, 4, "every strconv conversion in reachable code has its error bound to a variable that is tested right after the call")
	n := 0
	for _, f := range sortedReach(reach) {
		body := c.bodyOf(f)
		if body == nil {
			continue
		}
		pm := parentMap(body)
		ast.Inspect(body, func(x ast.Node) bool {
			call, ok := x.(*ast.CallExpr)
			if !ok {
				return true
			}
			name := c.calleeName(call)
			if !strings.HasPrefix(name, "strconv.Parse") && name != "strconv.Unquote" && name != "strconv.Atoi" {
				return true
			}
			n++
			key := fmt.Sprintf("%s/%s", ssaFuncName(f), name)
			as, isA := pm[call].(*ast.AssignStmt)
			if !isA || len(as.Lhs) != 2 || isBlank(as.Lhs[1]) {
				r.bad(rule, key, "the error of "+name+" is discarded", c.pos(call.Pos()))
				return true
			}
			errObj := c.objOfExpr(as.Lhs[1])
			tested := false
			if list, i := stmtListOf(pm, as); list != nil && i+1 < len(list) {
				if ifs, isIf := list[i+1].(*ast.IfStmt); isIf {
					if be, isB := stripParens(ifs.Cond).(*ast.BinaryExpr); isB && be.Op == token.NEQ && isNilIdent(be.Y) && c.isObj(be.X, errObj) {
						// the branch must report the error (p.error) — and not panic
						for _, cs := range c.callsIn(ifs.Body) {
							if strings.HasPrefix(cs, "parser.error") {
								tested = true
							}
						}
					}
				}
			}
			r.check(tested, rule, key, "error tested and reported as a diagnostic", "the error of "+name+" is not tested right after the call and turned into a diagnostic", c.pos(call.Pos()))
			return true
		})
	}
	_ = n
}

func (c *Ctx) callsIn(n ast.Node) []string {
	var out []string
	walkCalls(n, false, func(call *ast.CallExpr) { out = append(out, c.calleeName(call)) })
	return out
}

// rulePartialCalls: library calls with panicking preconditions.
func rulePartialCalls(c *Ctx, r *Report, rule string, reach map[*ssa.Function]bool) {
	r.rule(rule, 1, "strings.Repeat is called only where its count is known to be non-negative (a dominating `count < 0 -> error`)")
	n := 0
	for _, f := range sortedReach(reach) {
		body := c.bodyOf(f)
		if body == nil {
			continue
		}
		ast.Inspect(body, func(x ast.Node) bool {
			call, ok := x.(*ast.CallExpr)
			if !ok || c.calleeName(call) != "strings.Repeat" {
				return true
			}
			n++
			cnt := c.objOfExpr(call.Args[1])
			guarded := false
			for _, ft := range splitFacts(c.factsAt(body, call)) {
				b, ok := c.boundOf(condAtom{E: ft.Cond, Pos: ft.Pos, Init: ft.Init})
				if ok && cnt != nil && c.isObj(b.X, cnt) && b.Lo != nil && *b.Lo >= 0 {
					guarded = true
				}
			}
			r.check(guarded, rule, ssaFuncName(f)+"/strings.Repeat", "count >= 0 established", "strings.Repeat is reached without a dominating check that the count itself is non-negative (it panics on negative counts)", c.pos(call.Pos()))
			return true
		})
	}
	if n == 0 {
		r.ok(rule, "none", "strings.Repeat is not called")
	}
}

// ruleIfaceEq: == on interface values must not meet two uncomparable dynamic values.
func ruleIfaceEq(c *Ctx, r *Report, rule string, reach map[*ssa.Function]bool) {
	r.rule(rule, 1, "every == / != between two interface-typed run-time values in reachable code is guarded against both operands being blocks (Block holds a map: Go panics when comparing two of them)")
	isIface := func(e ast.Expr) bool {
		t := c.typeOf(e)
		if t == nil {
			return false
		}
		_, ok := t.Underlying().(*types.Interface)
		return ok
	}
	n := 0
	for _, f := range sortedReach(reach) {
		body := c.bodyOf(f)
		if body == nil {
			continue
		}
		ast.Inspect(body, func(x ast.Node) bool {
			if lit, ok := x.(*ast.FuncLit); ok && ast.Node(lit.Body) != body {
				return false
			}
			be, ok := x.(*ast.BinaryExpr)
			if !ok || (be.Op != token.EQL && be.Op != token.NEQ) {
				return true
			}
			if !isIface(be.X) || !isIface(be.Y) || isNilIdent(be.X) || isNilIdent(be.Y) || c.constOf(be.X) != nil || c.constOf(be.Y) != nil {
				return true
			}
			// error comparisons (err == io.EOF ...) are between comparable dynamic types
			if types.TypeString(c.typeOf(be.X), nil) == "error" || types.TypeString(c.typeOf(be.Y), nil) == "error" {
				return true
			}
			n++
			guarded := false
			isScalarTest := func(n string) bool {
				return n == "isInt" || n == "isFloat" || n == "isString" || n == "isBool" || n == "isNumber"
			}
			for _, nf := range factNFs(c.factsAt(body, be)) {
				for _, a := range nf.knownAtoms() {
					if call, ok := a.E.(*ast.CallExpr); ok {
						name := c.calleeName(call)
						if (name == "isBlock" && !a.Pos) || (a.Pos && isScalarTest(name)) {
							guarded = true
						}
					}
				}
				// a disjunction all of whose members exclude a block operand: !isBlock(a) || !isBlock(b)
				var scanOr func(n *condNF)
				scanOr = func(n *condNF) {
					if n.Or != nil {
						all := len(n.Or) > 0
						for _, k := range n.Or {
							ok := false
							if k.Atom != nil {
								if call, isC := k.Atom.E.(*ast.CallExpr); isC {
									name := c.calleeName(call)
									ok = (name == "isBlock" && !k.Atom.Pos) || (k.Atom.Pos && isScalarTest(name))
								}
							}
							all = all && ok
						}
						if all {
							guarded = true
						}
					}
					for _, k := range n.And {
						scanOr(k)
					}
				}
				scanOr(nf)
			}
			if !guarded {
				// the guard lives in a helper that classifies the operands: ask the interpreted machine — every path
				// that writes the result of comparing two stack values must have excluded a block operand before
				if vm, err := c.vmModel(); err == nil {
					writes, safe := 0, 0
					for _, arm := range vm.Arms {
						for _, pth := range arm.Paths {
							for i, ev := range pth.Events {
								if ev.Kind != "stk:w" || ev.Val.K != vTag || ev.Val.Tag != "cmp" {
									continue
								}
								writes++
								desc, _ := ev.Val.Data.(string)
								ops := strings.FieldsFunc(desc, func(r rune) bool { return r == ' ' })
								okPath := false
								for _, prev := range pth.Events[:i] {
									if prev.Kind != "if" {
										continue
									}
									for _, o := range ops {
										if !strings.HasPrefix(o, "stk(") {
											continue
										}
										if prev.Detail == "callres(isBlock("+o+"))=false" {
											okPath = true
										}
										for _, sc := range []string{"isInt", "isFloat", "isString", "isBool", "isNumber"} {
											if prev.Detail == "callres("+sc+"("+o+"))=true" {
												okPath = true
											}
										}
									}
								}
								if okPath {
									safe++
								}
							}
						}
					}
					if writes > 0 && safe == writes {
						guarded = true
					}
				}
			}
			r.check(guarded, rule, fmt.Sprintf("%s/iface-eq#%d", ssaFuncName(f), n), "guarded against block == block", "two run-time values are compared with == without excluding that both are blocks (comparing two Block values panics: uncomparable type)", c.pos(be.Pos()))
			return true
		})
	}
	if n == 0 {
		r.ok(rule, "none", "no == between two interface-typed run-time values")
	}
}

// ruleArrayCounters: fixed arrays indexed by a growing counter are bounds-checked.
func ruleArrayCounters(c *Ctx, r *Report, rule string) {
	r.rule(rule, 3, "vm.stack[vm.tos] (push), vm.blockStack[vm.blockTos] (DEFBLOCK) and scope.locals[localCount] (addLocal) are each dominated by a comparison of the counter with the array size on every path")
	vm, err := c.vmModel()
	if err != nil {
		r.bad(rule, "vm", err.Error(), "")
		return
	}
	var ung []string
	pushes, defs := 0, 0
	for _, arm := range vm.Arms {
		for _, p := range arm.Paths {
			ung = append(ung, p.Unguarded...)
			for _, ev := range p.Events {
				if ev.Kind == "stk:w" && ev.Idx != nil && ev.Idx.C >= 0 {
					pushes++
				}
				if ev.Kind == "blk:w" {
					defs++
				}
			}
		}
	}
	sort.Strings(ung)
	uniq := uniqJoin(ung)
	r.check(len(ung) == 0 && pushes > 0, rule, "operand-stack", fmt.Sprintf("%d push paths, all behind tos < stackSize", pushes), "operand stack: "+uniq, c.pos(vm.Loop.Pos()))
	r.check(len(ung) == 0 && defs > 0, rule, "block-stack", fmt.Sprintf("%d block pushes, all behind blockTos < blockStackSize", defs), "block stack: "+uniq, c.pos(vm.Loop.Pos()))
	// the overflow flag leads to an error return in the same iteration
	okFlag := false
	for _, arm := range vm.Arms {
		for _, p := range arm.Paths {
			if p.Abort {
				for _, ev := range p.Events {
					if ev.Kind == "if" && strings.HasPrefix(ev.Detail, "tos") && strings.HasSuffix(ev.Detail, "=true") {
						okFlag = true
					}
				}
			}
		}
	}
	r.check(okFlag, rule, "overflow-reported", "a full stack ends the run with a runtime error", "a push onto a full operand stack must end the run with a runtime error", c.pos(vm.Loop.Pos()))
	if _, fd := c.find("parser.addLocal"); fd != nil {
		ok, why := c.addLocalShape(fd)
		r.check(ok, rule, "locals-table", "localCount == table size -> error before the store", "addLocal: "+why, c.pos(fd.Pos()))
	} else {
		r.bad(rule, "locals-table", "addLocal not found", "")
	}
}

// ruleTypeAsserts: unchecked type assertions are justified.
func ruleTypeAsserts(c *Ctx, r *Report, rule string, reach map[*ssa.Function]bool) {
	r.rule(rule, 12, "every single-value type assertion in reachable code is justified: pop().(T) by a type test of the same stack position in the arm's condition; readConst().(string) by the compiler feeding that operand from a string constant (C10 provenance); v.(string) under a flag set only when v == \"\"; x.(Block) under AssignableTo(blockType); comparisons with sentinel error types by comma-ok")
	predFor := map[string]string{"string": "isString", "int": "isInt", "float64": "isFloat", "bool": "isBool"}
	m, _ := c.emitModel()
	vm, _ := c.vmModel()
	stringOperand := map[string]bool{}
	if m != nil {
		for _, o := range m.Operands {
			if strings.HasSuffix(o.Prov, ":string") {
				stringOperand[fmt.Sprintf("%s#%d", o.Op, o.Index)] = true
			} else if o.Kind == "v" && strings.HasPrefix(o.Prov, "makeConst:") || strings.HasPrefix(o.Prov, "identConst:") {
				if !strings.HasSuffix(o.Prov, ":string") {
					stringOperand[fmt.Sprintf("%s#%d", o.Op, o.Index)] = false
				}
			}
		}
	}
	n := 0
	perFn := map[string]int{}
	for _, f := range sortedReach(reach) {
		body := c.bodyOf(f)
		if body == nil {
			continue
		}
		pm := parentMap(body)
		ast.Inspect(body, func(x ast.Node) bool {
			if lit, ok := x.(*ast.FuncLit); ok && ast.Node(lit.Body) != body {
				return false
			}
			ta, ok := x.(*ast.TypeAssertExpr)
			if !ok || ta.Type == nil {
				return true
			}
			if as, ok := pm[ta].(*ast.AssignStmt); ok && len(as.Lhs) == 2 && len(as.Rhs) == 1 {
				return true // comma-ok
			}
			if _, ok := pm[ta].(*ast.TypeSwitchStmt); ok {
				return true
			}
			n++
			perFn[ssaFuncName(f)]++
			r.Sites++
			tname := types.TypeString(c.typeOf(ta.Type), func(p *types.Package) string { return "" })
			key := fmt.Sprintf("%s/assert#%d(%s)", ssaFuncName(f), perFn[ssaFuncName(f)], tname)
			pos := c.pos(ta.Pos())
			facts := splitFacts(c.factsAt(body, ta))
			inner, _ := stripParens(ta.X).(*ast.CallExpr)
			// X.(T) under a dominating type test of the same X: isString(x) … x.(string)
			if pred := predFor[tname]; pred != "" {
				same := false
				for _, ft := range facts {
					if call, isC := stripParens(ft.Cond).(*ast.CallExpr); isC && ft.Pos && c.calleeName(call) == pred && len(call.Args) == 1 {
						if _, isCall := stripParens(ta.X).(*ast.CallExpr); !isCall && c.sameExpr(call.Args[0], ta.X) {
							same = true
						}
					}
				}
				if same {
					r.ok(rule, key, fmt.Sprintf("%s(x) holds where x.(%s) is asserted", pred, tname))
					return true
				}
			}
			switch {
			case inner != nil && vm != nil && vm.callRole(c, inner) == "pop":
				// which pop of the statement is it? (left to right)
				stmt := enclosingStmt(pm, ta)
				idx := -1
				k := 0
				ast.Inspect(stmt, func(y ast.Node) bool {
					if call, ok := y.(*ast.CallExpr); ok && vm.callRole(c, call) == "pop" {
						if call == inner {
							idx = k
						}
						k++
					}
					return true
				})
				pred := predFor[tname]
				ok := false
				for _, ft := range facts {
					if call, isC := ft.Cond.(*ast.CallExpr); isC && ft.Pos && c.calleeName(call) == pred && len(call.Args) == 1 {
						if pk, isP := stripParens(call.Args[0]).(*ast.CallExpr); isP && vm.callRole(c, pk) == "peek" {
							if d, isD := c.intConst(pk.Args[0]); isD && int(d) == idx {
								ok = true
							}
						}
					}
				}
				how := fmt.Sprintf("%s(peek(%d)) holds in the arm", pred, idx)
				if !ok && pred != "" {
					// not visible in the arm's own conditions (the test lives in a helper that classifies the
					// operands): ask the interpreted arm — on every path that reaches this assertion, an earlier
					// decision must have established the same predicate of the same stack value
					reached, covered := 0, 0
					for _, arm := range vm.Arms {
						for _, pth := range arm.Paths {
							for i, ev := range pth.Events {
								if ev.Kind != "assert" || ev.Pos != ta.Pos() {
									continue
								}
								reached++
								parts := strings.SplitN(ev.Detail, " ", 2)
								if len(parts) != 2 {
									continue
								}
								want := "callres(" + pred + "(" + parts[1] + "))=true"
								for _, prev := range pth.Events[:i] {
									if prev.Kind == "if" && prev.Detail == want {
										covered++
										break
									}
								}
							}
						}
					}
					if reached > 0 && covered == reached {
						ok = true
						how = fmt.Sprintf("on all %d interpreted paths reaching it, %s of the popped value was established before", reached, pred)
					}
				}
				r.check(ok && pred != "", rule, key, how, fmt.Sprintf("pop().(%s) is not covered by %s(peek(%d)) in the arm's condition: a value of another type panics here", tname, pred, idx), pos)
			case inner != nil && vm != nil && vm.callRole(c, inner) == "readConst":
				// operand index within the arm
				op := ""
				for name, arm := range vm.Arms {
					if arm.Clause != nil && arm.Clause.Pos() <= ta.Pos() && ta.End() <= arm.Clause.End() {
						op = name
					}
				}
				k, idx := 0, -1
				if op != "" {
					ast.Inspect(vm.Arms[op].Clause, func(y ast.Node) bool {
						if call, ok := y.(*ast.CallExpr); ok && strings.HasPrefix(vm.callRole(c, call), "read") && vm.callRole(c, call) != "readOp" {
							if call == inner {
								idx = k
							}
							k++
						}
						return true
					})
				}
				v, known := stringOperand[fmt.Sprintf("%s#%d", op, idx)]
				r.check(tname == "string" && known && v, rule, key, fmt.Sprintf("operand %d of %s is always a string constant (compiler provenance)", idx, op), fmt.Sprintf("readConst().(%s) for operand %d of %s: the compiler does not guarantee a %s constant there", tname, idx, op, tname), pos)
			case tname == "Block":
				ok := false
				for _, ft := range facts {
					if call, isC := ft.Cond.(*ast.CallExpr); isC && ft.Pos && c.calleeName(call) == "reflect.Type.AssignableTo" {
						ok = true
					}
				}
				r.check(ok, rule, key, "under AssignableTo(blockType)", "x.(Block) is not under the assignability test", pos)
			default:
				// v.(string) under a flag set only when v == ""
				ok := false
				vobj := c.objOfExpr(ta.X)
				for _, ft := range facts {
					id, isID := ft.Cond.(*ast.Ident)
					if !isID || !ft.Pos {
						continue
					}
					flag := c.objOf(id)
					sets, good := 0, 0
					ast.Inspect(body, func(y ast.Node) bool {
						as, ok := y.(*ast.AssignStmt)
						if !ok || len(as.Lhs) != 1 || !c.isObj(as.Lhs[0], flag) {
							return true
						}
						if v := c.constOf(as.Rhs[0]); v != nil && v.ExactString() == "true" {
							sets++
							for _, f2 := range splitFacts(c.factsAt(body, as)) {
								if be, ok := f2.Cond.(*ast.BinaryExpr); ok && f2.Pos && be.Op == token.EQL && c.isObj(be.X, vobj) {
									if _, isS := c.strConst(be.Y); isS {
										good++
									}
								}
							}
						}
						return true
					})
					if sets > 0 && sets == good && tname == "string" {
						ok = true
					}
				}
				r.check(ok, rule, key, "under a flag set only when the value equals a string constant", fmt.Sprintf("unchecked assertion .(%s) has no recognised justification", tname), pos)
			}
			return true
		})
	}
}

func isClosureCall(call *ast.CallExpr, name string) bool {
	id, ok := call.Fun.(*ast.Ident)
	return ok && id.Name == name
}

func enclosingStmt(pm map[ast.Node]ast.Node, n ast.Node) ast.Node {
	for cur := n; cur != nil; cur = pm[cur] {
		if _, ok := cur.(ast.Stmt); ok {
			return cur
		}
	}
	return n
}

// ruleNilRule: function values taken from the rules table are non-nil when called.
func ruleNilRule(c *Ctx, r *Report, rule string) {
	r.rule(rule, 3, "a prefix rule is called only after a nil test; an infix rule is called only for tokens whose table row has a binding level above `none`, and every such row has a non-nil infix; parsePrecedence is never asked for level `none`; the table is indexed only by token constants below its length")
	rows, arrLen, err := c.rulesTable()
	if err != nil {
		r.bad(rule, "rules-table", err.Error(), "")
		return
	}
	ok := true
	why := ""
	for _, row := range rows {
		if row.PrecV > 0 && row.Infix == "" {
			ok = false
			why = fmt.Sprintf("token %s binds at %s but has no infix rule: the Pratt loop would call nil", row.Token, row.Prec)
		}
		if row.TokVal >= arrLen {
			ok = false
			why = "row outside the table"
		}
	}
	r.check(ok, rule, "rows", fmt.Sprintf("%d rows: level > none implies an infix rule", len(rows)), why, "")
	// all tokenType constants below the table length; no run-time conversion to tokenType
	toks := constsOfType(c.Bcl, "tokenType")
	okEnum := true
	maxTok := int64(0)
	for _, t := range toks {
		if t.Val > maxTok {
			maxTok = t.Val
		}
	}
	if maxTok >= arrLen+1 {
		okEnum = false
	}
	conv := ""
	for _, it := range c.sortedDecls() {
		obj, fd := it.obj, it.fd
		if obj.Pkg() == nil || obj.Pkg().Path() != bclPath || fd.Body == nil {
			continue
		}
		ast.Inspect(fd.Body, func(n ast.Node) bool {
			call, ok := n.(*ast.CallExpr)
			if !ok || len(call.Args) != 1 {
				return true
			}
			if tv, ok := c.infoFor(call).Types[call.Fun]; ok && tv.IsType() && isNamed(tv.Type, bclPath, "tokenType") && c.constOf(call.Args[0]) == nil {
				conv = c.pos(call.Pos())
			}
			return true
		})
	}
	r.check(okEnum && conv == "", rule, "enum-closed", fmt.Sprintf("%d token constants, table length %d, no run-time conversion to tokenType", len(toks), arrLen), "a token value can be produced outside the declared constants (run-time conversion at "+conv+") or exceeds the table", conv)
	// parsePrecedence: nil test before the prefix call; called with levels >= 1 only
	_, pp := c.find("parser.parsePrecedence")
	okNil := false
	if pp != nil {
		ast.Inspect(pp.Body, func(n ast.Node) bool {
			call, ok := n.(*ast.CallExpr)
			if !ok {
				return true
			}
			id, ok := call.Fun.(*ast.Ident)
			if !ok {
				return true
			}
			def, cnt := c.singleDef(pp.Body, c.objOf(id))
			if sel, ok := def.(*ast.SelectorExpr); ok && cnt == 1 && sel.Sel.Name == "prefix" {
				for _, ft := range splitFacts(c.factsAt(pp.Body, call)) {
					if be, ok := ft.Cond.(*ast.BinaryExpr); ok && be.Op == token.EQL && !ft.Pos && isNilIdent(be.Y) && c.isObj(be.X, c.objOf(id)) {
						okNil = true
					}
				}
			}
			return true
		})
	}
	r.check(okNil, rule, "prefix-nil-test", "prefixRule == nil -> error before the call", "the prefix rule must be tested for nil before it is called", "")
	m, err := c.emitModel()
	if err == nil {
		okLvl := true
		precVal := map[string]int64{}
		for _, p := range m.precs {
			precVal[p.Name] = p.Val
		}
		for _, e := range m.Entries {
			for _, o := range e.Outcomes {
				_, subs := opsOfTrace(o.Trace)
				for _, s := range subs {
					if strings.HasPrefix(s, "E(") {
						n := strings.TrimSuffix(strings.TrimPrefix(s, "E("), ")")
						if v, ok := precVal[n]; !ok || v < 1 {
							okLvl = false
						}
					}
				}
			}
		}
		r.check(okLvl, rule, "levels", "every parsePrecedence call passes a constant level above `none`", "parsePrecedence is called with level `none` or a non-constant level: its loop could call a nil infix rule", "")
	}
}

// ruleParserProgress: no iteration of the statement loops leaves the token position unchanged.
func ruleParserProgress(c *Ctx, r *Report, rule string, spec *langSpec) {
	r.rule(rule, 4, "parser termination: parsePrecedence advances before dispatching; every statement form other than the error default begins with a successful match; the tokens at which sync() stops are exactly ones decl/stmt consume unconditionally at toplevel, and sync advances otherwise; the block loop advances after an error")
	_, pp := c.find("parser.parsePrecedence")
	ok1 := false
	if pp != nil && len(pp.Body.List) > 0 {
		if es, ok := pp.Body.List[0].(*ast.ExprStmt); ok {
			if call, ok := es.X.(*ast.CallExpr); ok && c.calleeName(call) == "parser.advance" {
				ok1 = true
			}
		}
	}
	r.check(ok1, rule, "expression-advances", "parsePrecedence starts with advance()", "parsePrecedence must consume a token before anything else", "")
	lt, err := c.lexTables()
	if err != nil {
		r.bad(rule, "tables", err.Error(), "")
		return
	}
	// tokens consumed by decl/stmt: those a statement is entered after (read off the dispatch model)
	consumed := map[string]bool{}
	if d, err := c.stmtDispatch(spec); err == nil {
		for tok, fn := range d.got {
			if d.consumed[tok] && fn != "" && !strings.Contains(fn, "|") {
				consumed[tok] = true
			}
		}
	} else {
		r.bad(rule, "decl", err.Error(), "")
	}
	okSync := true
	for _, kw := range spec.SyncSet {
		if !consumed[lt.Keywords[kw]] {
			okSync = false
		}
	}
	r.check(okSync, rule, "sync-set-consumed", "every token sync() stops at starts a statement that consumes it", "sync() stops at a token that decl/stmt do not consume: the toplevel loop would spin on it", "")
	ruleSyncProgress(c, r, rule, consumed)
	// after an erroneous statement inside a block a token is consumed before the next statement is tried:
	// an advance() under the fact panicMode, either in the block's statement loop after decl(), or in decl() itself at depth > 0
	okBlk := false
	loopsWithDecl, loopsEnd := 0, 0
	for _, it := range c.sortedDecls() {
		fd := it.fd
		if fd.Body == nil || it.obj.Pkg() == nil || it.obj.Pkg().Path() != bclPath {
			continue
		}
		isDecl := qname(it.obj) == "decl"
		isParse := qname(it.obj) == "parse"
		ast.Inspect(fd.Body, func(n ast.Node) bool {
			switch n := n.(type) {
			case *ast.CallExpr:
				if c.calleeName(n) != "parser.advance" {
					return true
				}
				panicFact, deep, inStmtLoop := false, false, false
				for _, f := range splitFacts(c.factsAt(fd.Body, n)) {
					a := condAtom{E: stripParens(f.Cond), Pos: f.Pos, Init: f.Init}
					if c.fieldPath(a.E) == "<parser>.panicMode" && a.Pos {
						panicFact = true
					}
					if b, ok := c.boundOf(a); ok && c.fieldPath(b.X) == "<parser>.scope.depth" {
						if (b.Lo != nil && *b.Lo >= 1) || (b.Ne != nil && *b.Ne == 0) {
							deep = true
						}
					}
				}
				pm := parentMap(fd.Body)
				for p := pm[ast.Node(n)]; p != nil; p = pm[p] {
					if fs, ok := p.(*ast.ForStmt); ok {
						for _, cs := range c.callsIn(fs.Body) {
							if cs == "decl" {
								inStmtLoop = true
							}
						}
					}
				}
				if panicFact && ((inStmtLoop && !isParse) || (isDecl && deep)) {
					okBlk = true
				}
			case *ast.ForStmt:
				callsDecl := false
				for _, st := range n.Body.List {
					if es, ok := st.(*ast.ExprStmt); ok {
						if call, ok := es.X.(*ast.CallExpr); ok && c.calleeName(call) == "decl" {
							callsDecl = true
						}
					}
				}
				if !callsDecl {
					return true
				}
				loopsWithDecl++
				tests := false
				var where []ast.Node
				if n.Cond != nil {
					where = append(where, n.Cond)
				}
				// or a leading `if <end test> { return / break }`
				if len(n.Body.List) > 0 {
					if ifs, ok := n.Body.List[0].(*ast.IfStmt); ok && len(ifs.Body.List) > 0 {
						switch last := ifs.Body.List[len(ifs.Body.List)-1].(type) {
						case *ast.ReturnStmt:
							where = append(where, ifs.Cond)
						case *ast.BranchStmt:
							if last.Tok == token.BREAK {
								where = append(where, ifs.Cond)
							}
						}
					}
				}
				for _, w := range where {
					for _, cs := range c.callsIn(w) {
						if cs == "parser.matchEnd" || cs == "parser.checkEnd" {
							tests = true
						}
					}
				}
				if tests {
					loopsEnd++
				}
			}
			return true
		})
	}
	r.check(okBlk, rule, "block-loop-advances", "after a failed statement inside a block a token is consumed (advance under panicMode)", "inside a block an erroneous statement must be followed by an advance, or the loop may not make progress", "")
	r.check(loopsWithDecl == 2 && loopsEnd == 2, rule, "loops-stop-at-end", "both statement loops test for the end of input", fmt.Sprintf("%d statement loops, %d of them test for the end of input", loopsWithDecl, loopsEnd), "")
}

func ruleLexerProgress(c *Ctx, r *Report, rule string) {
	r.rule(rule, 2, "lexStart consumes a rune before dispatching; state functions return only state functions or nil")
	sf := c.stateFuncs()
	start := sf["lexStart"]
	ok := false
	if start != nil && len(start.Body.List) > 0 {
		if as, isA := start.Body.List[0].(*ast.AssignStmt); isA && len(as.Rhs) == 1 {
			if call, isC := as.Rhs[0].(*ast.CallExpr); isC && c.calleeName(call) == "lexer.next" {
				ok = true
			}
		}
	}
	r.check(ok, rule, "lexStart", "r := l.next() first", "lexStart must consume a rune before dispatching on it", "")
	bad := ""
	for name, fd := range sf {
		ast.Inspect(fd.Body, func(n ast.Node) bool {
			rs, isR := n.(*ast.ReturnStmt)
			if !isR || len(rs.Results) != 1 {
				return true
			}
			switch x := rs.Results[0].(type) {
			case *ast.Ident:
				if !c.isStopState(x) && c.stateFnOf(x, sf) == "" {
					// a local that holds what a state chooser returned
					okLocal := false
					if v, isVar := c.objOf(x).(*types.Var); isVar && !v.IsField() {
						if def, k := c.singleDef(fd.Body, v); k == 1 && def != nil {
							if call, isCall := stripParens(def).(*ast.CallExpr); isCall && (c.isStateChooser(c.calleeName(call), sf, 0) || c.isFailingHelper(c.calleeName(call), 0)) {
								okLocal = true
							}
						}
					}
					if !okLocal {
						bad = name + " returns " + x.Name
					}
				}
			case *ast.CallExpr:
				if !c.isFailingHelper(c.calleeName(x), 0) && !c.isStateChooser(c.calleeName(x), sf, 0) {
					bad = name + " returns the result of " + c.calleeName(x) + ", which is not lexer.fail, a helper ending in it, or a function choosing among the states"
				}
			default:
				bad = name + " returns a computed state"
			}
			return true
		})
	}
	r.check(bad == "" && len(sf) >= 8, rule, "states", fmt.Sprintf("%d state functions, closed under their returns", len(sf)), "lexer state machine: "+bad, "")
}

// ruleSyncProgress (C06): sync never returns without progress unless the
// current token starts a statement; decl resynchronises after a toplevel error.
func ruleSyncProgress(c *Ctx, r *Report, rule string, consumed map[string]bool) {
	_, fd := c.find("parser.sync")
	if fd == nil {
		r.bad(rule, "sync", "function not found", "")
		return
	}
	tab, err := c.syncModel()
	if err != nil {
		r.bad(rule, "sync", err.Error(), "")
		return
	}
	for _, u := range tab.Undecided {
		r.undecided(rule, "sync/model", u, c.pos(fd.Pos()))
	}
	// per token (decision table of sync): it either consumes the token, or stops at it — and then the token
	// must be one that ends the input or that decl consumes unconditionally
	toks := constsOfType(c.Bcl, "tokenType")
	eofVal := int64(-1)
	for _, t := range toks {
		if t.Name == "tEOF" {
			eofVal = t.Val
		}
	}
	var badStops []string
	for _, name := range tab.Stops {
		isEnd := false
		for _, t := range toks {
			if t.Name == name && t.Val <= eofVal {
				isEnd = true
			}
		}
		if !isEnd && !consumed[name] {
			badStops = append(badStops, name)
		}
	}
	r.check(len(tab.Spins) == 0 && len(badStops) == 0, rule, "sync-progress", "sync either consumes the current token or stops at one that starts a statement / ends the input", fmt.Sprintf("sync: tokens on which an iteration neither consumes nor stops: %v; tokens it stops at although no statement consumes them: %v (the toplevel loop would spin)", tab.Spins, badStops), c.pos(fd.Pos()))
	// decl: after the statement dispatch, a toplevel error leads to sync
	_, dd := c.find("decl")
	r.check(dd != nil && c.declResyncs(dd), rule, "decl-resyncs", "decl calls sync() when a toplevel statement failed", "decl must call sync() when it ends in panic mode at depth 0, or an unconsumed bad token makes the toplevel loop spin", "")
}

func sortedReach(reach map[*ssa.Function]bool) []*ssa.Function {
	var out []*ssa.Function
	for f := range reach {
		out = append(out, f)
	}
	sort.Slice(out, func(i, j int) bool {
		a, b := ssaFuncName(out[i]), ssaFuncName(out[j])
		if a != b {
			return a < b
		}
		return out[i].Pos() < out[j].Pos()
	})
	return out
}

// isStateChooser: every return of the function is nil, a state function, or the result of another chooser / failing helper.
func (c *Ctx) isStateChooser(name string, sf map[string]*ast.FuncDecl, depth int) bool {
	if depth > 3 || name == "" {
		return false
	}
	_, fd := c.find(name)
	if fd == nil || fd.Body == nil {
		return false
	}
	ok, n := true, 0
	ast.Inspect(fd.Body, func(x ast.Node) bool {
		if _, isLit := x.(*ast.FuncLit); isLit {
			return false
		}
		rs, isR := x.(*ast.ReturnStmt)
		if !isR {
			return true
		}
		n++
		if len(rs.Results) == 0 {
			ok = false
			return true
		}
		// (state, ok) results: the state is the first
		switch v := rs.Results[0].(type) {
		case *ast.Ident:
			if !c.isStopState(v) && c.stateFnOf(v, sf) == "" {
				ok = false
			}
		case *ast.CallExpr:
			if !c.isFailingHelper(c.calleeName(v), depth+1) && !c.isStateChooser(c.calleeName(v), sf, depth+1) {
				ok = false
			}
		default:
			ok = false
		}
		return true
	})
	return ok && n > 0
}

// isFailingHelper: name is lexer.fail, or a function every return of which is nil or a failing helper's result.
func (c *Ctx) isFailingHelper(name string, depth int) bool {
	if name == "lexer.fail" {
		return true
	}
	if depth > 3 || name == "" {
		return false
	}
	_, fd := c.find(name)
	if fd == nil || fd.Body == nil {
		return false
	}
	ok, n := true, 0
	ast.Inspect(fd.Body, func(x ast.Node) bool {
		if _, isLit := x.(*ast.FuncLit); isLit {
			return false
		}
		rs, isR := x.(*ast.ReturnStmt)
		if !isR {
			return true
		}
		n++
		if len(rs.Results) != 1 {
			ok = false
			return true
		}
		switch v := rs.Results[0].(type) {
		case *ast.Ident:
			if !c.isStopState(v) {
				ok = false
			}
		case *ast.CallExpr:
			if !c.isFailingHelper(c.calleeName(v), depth+1) {
				ok = false
			}
		default:
			ok = false
		}
		return true
	})
	return ok && n > 0
}

// ruleLocalIndex: an index or slice expression on a local slice/string
// variable must be in range by construction: the index is the induction
// variable of a loop over that same variable, or a constant / len(x)-k offset
// covered by a dominating guard on len(x).
func ruleLocalIndex(c *Ctx, r *Report, rule string, reach map[*ssa.Function]bool) {
	r.rule(rule, 3, "every x[i] / x[a:b] on a local slice, string or array-backed variable is in range on every path: i is the induction variable of a loop bounded by len(x), or a constant / len(x)-k offset dominated by a guard that bounds len(x) from below (the guard's failing branch returns an error instead)")
	seenBody := map[ast.Node]bool{}
	for _, f := range sortedReach(reach) {
		if f.Parent() != nil && c.bodyOf(f.Parent()) != nil {
			continue // closures are visited with their parent (a literal in a package-level table has none with a body)
		}
		body := c.bodyOf(f)
		if body == nil || seenBody[body] {
			continue
		}
		seenBody[body] = true
		fname := ssaFuncName(f)
		pm := parentMap(body)
		if lit, isLit := f.Syntax().(*ast.FuncLit); isLit {
			pm = parentMap(lit) // its own parameters are found through the literal
		}
		count := map[string]int{}
		ast.Inspect(body, func(n ast.Node) bool {
			var x ast.Expr
			var idxs []ast.Expr // index, or slice bounds
			isSlice := false
			switch e := n.(type) {
			case *ast.IndexExpr:
				x, idxs = e.X, []ast.Expr{e.Index}
			case *ast.SliceExpr:
				x, idxs, isSlice = e.X, []ast.Expr{e.Low, e.High}, true
			default:
				return true
			}
			id, ok := stripParens(x).(*ast.Ident)
			if !ok {
				return true
			}
			v, ok := c.objOf(id).(*types.Var)
			if !ok || v.IsField() || v.Parent() == v.Pkg().Scope() {
				return true
			}
			if c.isParam(body, pm, n, v) {
				// parameters: the bound is the callers' obligation (u16ToBytes(code[off:]) is E-ISA's; the candidates of a
				// bind handed to a selection helper are bounded by the count guards, C04 bind-table / count-guards)
				if isNamedSlice(v.Type(), "Block") {
					key := fmt.Sprintf("%s/%s[param]", fname, v.Name())
					count[key]++
					if count[key] > 1 {
						key = fmt.Sprintf("%s#%d", key, count[key])
					}
					r.ok(rule, key, "index on a parameter holding the bind candidates: in range by the caller's count guards (decided per cell by C04's bind rules)")
				}
				return true
			}
			switch u := v.Type().Underlying().(type) {
			case *types.Slice:
			case *types.Basic:
				if u.Info()&types.IsString == 0 {
					return true
				}
			default:
				return true
			}
			// a local that only stands for a struct field (code := p.code): indexes of fields are not this rule's
			// (the program's tables are E-ISA's, as when the field is written out)
			if def, k := c.singleDef(body, v); k == 1 && def != nil {
				if sel, isSel := stripParens(def).(*ast.SelectorExpr); isSel {
					if fv, isVar := c.objOf(sel).(*types.Var); isVar && fv.IsField() {
						return true
					}
				}
			}
			// a store target `x[i] = v` on a map is not an index; maps were excluded by type above
			for _, ix := range idxs {
				if ix == nil {
					continue
				}
				need, how, ok := c.indexNeed(body, pm, n, v, ix, isSlice)
				key := fmt.Sprintf("%s/%s[%s]", fname, v.Name(), types.ExprString(ix))
				if isSlice {
					key = fmt.Sprintf("%s/%s[%s:]", fname, v.Name(), types.ExprString(ix))
					if ix == idxs[1] {
						key = fmt.Sprintf("%s/%s[:%s]", fname, v.Name(), types.ExprString(ix))
					}
				}
				count[key]++
				if count[key] > 1 {
					key = fmt.Sprintf("%s#%d", key, count[key])
				}
				switch {
				case !ok:
					r.bad(rule, key, fmt.Sprintf("the index %s of %s is neither a loop variable bounded by len(%s) nor a constant / len(%s)-k offset: it cannot be shown in range", types.ExprString(ix), v.Name(), v.Name(), v.Name()), c.pos(n.Pos()))
				case need <= 0:
					r.ok(rule, key, how)
				default:
					if g := c.lenGuard(body, n, v, need); g != "" {
						r.ok(rule, key, fmt.Sprintf("%s; needs len(%s) >= %d: %s", how, v.Name(), need, g))
					} else {
						r.bad(rule, key, fmt.Sprintf("%s needs len(%s) >= %d, but no dominating guard establishes it: an empty or short %s panics here", types.ExprString(n.(ast.Expr)), v.Name(), need, v.Name()), c.pos(n.Pos()))
					}
				}
			}
			return true
		})
	}
}

// indexNeed: the minimal len(v) that makes index expression ix valid; need 0
// when it is valid for every length.
func (c *Ctx) indexNeed(body ast.Node, pm map[ast.Node]ast.Node, at ast.Node, v *types.Var, ix ast.Expr, isSlice bool) (need int64, how string, ok bool) {
	ix = c.stripConv(ix)
	extra := int64(1)
	if isSlice {
		extra = 0
	}
	if k, isC := c.intConst(ix); isC {
		if k < 0 {
			return 0, "", false
		}
		return k + extra, fmt.Sprintf("constant index %d", k), true
	}
	isLenV := func(e ast.Expr) bool {
		e = stripParens(e)
		if id, ok := e.(*ast.Ident); ok {
			// n := len(x), defined once and x not reassigned in between is the callers' concern (lenGuard checks it)
			if def, k := c.singleDef(body, c.objOf(id)); k == 1 && def != nil {
				e = stripParens(def)
			}
		}
		call, ok := e.(*ast.CallExpr)
		return ok && c.calleeName(call) == "len" && len(call.Args) == 1 && c.isObj(call.Args[0], v)
	}
	if isLenV(ix) && isSlice {
		return 0, "len(" + v.Name() + ")", true
	}
	if be, ok := ix.(*ast.BinaryExpr); ok && be.Op == token.SUB && isLenV(be.X) {
		if k, isC := c.intConst(be.Y); isC && k >= extra {
			return k, fmt.Sprintf("len(%s)-%d", v.Name(), k), true
		}
	}
	// the count a Read into the whole of v returned: 0 <= n <= len(v) is the io.Reader contract
	if id, ok := ix.(*ast.Ident); ok && isSlice {
		if def, k := c.singleDef(body, c.objOf(id)); k == 1 && def != nil {
			if call, isCall := stripParens(def).(*ast.CallExpr); isCall && len(call.Args) == 1 && c.isObj(call.Args[0], v) {
				if sel, isSel := call.Fun.(*ast.SelectorExpr); isSel && sel.Sel.Name == "Read" && !c.assignedIn(body, v) {
					if sig, isSig := c.typeOf(call.Fun).(*types.Signature); isSig && sig.Results().Len() == 2 && isInt(sig.Results().At(0).Type()) {
						return 0, "the count returned by Read(" + v.Name() + ") (at most len(" + v.Name() + ") by the io.Reader contract)", true
					}
				}
			}
		}
	}
	// induction variable of an enclosing loop over v
	if id, ok := ix.(*ast.Ident); ok {
		iv := c.objOf(id)
		for p := pm[at]; p != nil; p = pm[p] {
			switch l := p.(type) {
			case *ast.RangeStmt:
				if kid, ok := l.Key.(*ast.Ident); ok && c.objOf(kid) == iv && c.isObj(l.X, v) && !c.assignedIn(l.Body, iv) && !c.assignedIn(l.Body, v) {
					return 0, "range index over " + v.Name(), true
				}
			case *ast.ForStmt:
				if cond, ok := stripParens(l.Cond).(*ast.BinaryExpr); ok && cond.Op == token.LSS && c.isObj(cond.X, iv) && isLenV(cond.Y) && !c.assignedIn(l.Body, iv) && !c.assignedIn(l.Body, v) {
					if c.startsNonNegative(l.Init, iv) {
						return 0, "loop index below len(" + v.Name() + ")", true
					}
				}
			case *ast.FuncLit:
				return 0, "", false
			}
		}
	}
	return 0, "", false
}

func (c *Ctx) startsNonNegative(init ast.Stmt, iv types.Object) bool {
	as, ok := init.(*ast.AssignStmt)
	if !ok || len(as.Lhs) != 1 || len(as.Rhs) != 1 || !c.isObj(as.Lhs[0], iv) {
		return false
	}
	k, isC := c.intConst(as.Rhs[0])
	return isC && k >= 0
}

// assignedIn: obj is assigned (=, op=, ++, --, := shadowing excluded) inside n.
func (c *Ctx) assignedIn(n ast.Node, obj types.Object) bool {
	found := false
	ast.Inspect(n, func(x ast.Node) bool {
		switch s := x.(type) {
		case *ast.AssignStmt:
			for _, l := range s.Lhs {
				if id, ok := l.(*ast.Ident); ok && c.infoFor(id).Uses[id] == obj {
					found = true
				}
			}
		case *ast.IncDecStmt:
			if c.isObj(s.X, obj) {
				found = true
			}
		case *ast.UnaryExpr:
			if s.Op == token.AND && c.isObj(s.X, obj) {
				found = true
			}
		}
		return !found
	})
	return found
}

// lenGuard: a dominating fact bounds len(v) from below by need, and v is not
// reassigned between that guard and the use.
func (c *Ctx) lenGuard(body ast.Node, at ast.Node, v *types.Var, need int64) string {
	for _, f := range splitFacts(c.factsAt(body, at)) {
		b, ok := c.boundOf(condAtom{E: stripParens(f.Cond), Pos: f.Pos, Init: f.Init})
		if !ok {
			continue
		}
		bx := stripParens(b.X)
		if id, ok := bx.(*ast.Ident); ok {
			if def, k := c.singleDef(body, c.objOf(id)); k == 1 && def != nil {
				bx = stripParens(def)
			}
		}
		call, isCall := bx.(*ast.CallExpr)
		if !isCall || c.calleeName(call) != "len" || len(call.Args) != 1 || !c.isObj(call.Args[0], v) {
			continue
		}
		lo := int64(0)
		if b.Lo != nil {
			lo = *b.Lo
		}
		if b.Ne != nil && *b.Ne == 0 && lo < 1 {
			lo = 1
		}
		if lo < need {
			continue
		}
		// no reassignment of v between the guard and the use
		clean := true
		ast.Inspect(body, func(x ast.Node) bool {
			if as, ok := x.(*ast.AssignStmt); ok && as.Pos() > f.Cond.Pos() && as.Pos() < at.Pos() {
				for _, l := range as.Lhs {
					if c.isObj(l, v) {
						clean = false
					}
				}
			}
			return clean
		})
		if clean {
			return fmt.Sprintf("guard %s (%v) at %s", types.ExprString(f.Cond), f.Pos, c.pos(f.Cond.Pos()))
		}
	}
	return ""
}

// isParam: v is a parameter (or named result) of the function declaration or literal enclosing `at`.
func (c *Ctx) isParam(body ast.Node, pm map[ast.Node]ast.Node, at ast.Node, v *types.Var) bool {
	inFields := func(ft *ast.FuncType) bool {
		for _, fl := range []*ast.FieldList{ft.Params, ft.Results} {
			if fl == nil {
				continue
			}
			for _, f := range fl.List {
				for _, n := range f.Names {
					if c.objOf(n) == types.Object(v) {
						return true
					}
				}
			}
		}
		return false
	}
	for p := pm[at]; p != nil; p = pm[p] {
		if fl, ok := p.(*ast.FuncLit); ok && inFields(fl.Type) {
			return true
		}
	}
	if fd, ok := pm[body].(*ast.FuncDecl); ok {
		return inFields(fd.Type)
	}
	// body is the root of the parent map: look the declaration up by position
	for _, fd := range c.funcDecls {
		if fd.Body == body {
			return inFields(fd.Type)
		}
	}
	return false
}

// ruleIntDivGuard: integer division and remainder by a non-constant divisor
// must be dominated by a test that the divisor is not zero.
func ruleIntDivGuard(c *Ctx, r *Report, rule string, reach map[*ssa.Function]bool, delegated map[string]string) {
	r.rule(rule, 1, "every integer / and % whose divisor is not a non-zero constant is dominated by a guard that excludes a zero divisor (in the same function), or is one of the listed sites whose guard lives in the caller and is checked there")
	seenBody := map[ast.Node]bool{}
	scanned, sites := 0, 0
	defer func() {
		r.ok(rule, "scan", fmt.Sprintf("%d reachable function bodies scanned, %d integer division sites with a non-constant divisor", scanned, sites))
	}()
	for _, f := range sortedReach(reach) {
		body := c.bodyOf(f)
		if body == nil || seenBody[body] {
			continue
		}
		seenBody[body] = true
		scanned++
		fname := ssaFuncName(f)
		n := 0
		ast.Inspect(body, func(x ast.Node) bool {
			if _, isLit := x.(*ast.FuncLit); isLit && x != ast.Node(f.Syntax()) {
				return false // visited as its own function
			}
			var div ast.Expr
			switch e := x.(type) {
			case *ast.BinaryExpr:
				if e.Op == token.QUO || e.Op == token.REM {
					div = e.Y
				}
			case *ast.AssignStmt:
				if (e.Tok == token.QUO_ASSIGN || e.Tok == token.REM_ASSIGN) && len(e.Rhs) == 1 {
					div = e.Rhs[0]
				}
			}
			if div == nil {
				return true
			}
			t := c.typeOf(div)
			if t == nil {
				return true
			}
			if tp, ok := t.(*types.TypeParam); ok {
				// generic arithmetic: integer instantiations exist when the constraint admits an integer type
				if !constraintHasInt(tp) {
					return true
				}
			} else if b, ok := t.Underlying().(*types.Basic); !ok || b.Info()&types.IsInteger == 0 {
				return true
			}
			if v := c.constOf(div); v != nil {
				if k, ok := constant.Int64Val(v); !ok || k != 0 {
					return true
				}
			}
			n++
			sites++
			key := fmt.Sprintf("%s/div#%d", fname, n)
			if why, ok := delegated[fname]; ok {
				r.ok(rule, key, "guard in the caller: "+why)
				return true
			}
			// a helper only the delegating function calls (its int case moved into a function of its own)
			if owner, ok := c.privateHelperOf(fname, delegated, 0); ok {
				r.ok(rule, key, "private helper of "+owner+"; guard in that function's caller: "+delegated[owner])
				return true
			}
			guarded := ""
			for _, fct := range splitFacts(c.factsAt(body, x)) {
				b, ok := c.boundOf(condAtom{E: stripParens(fct.Cond), Pos: fct.Pos, Init: fct.Init})
				if !ok || !c.sameExpr(b.X, div) {
					continue
				}
				if (b.Ne != nil && *b.Ne == 0) || (b.Lo != nil && *b.Lo >= 1) || (b.Hi != nil && *b.Hi <= -1) {
					guarded = types.ExprString(fct.Cond)
				}
			}
			if guarded != "" {
				r.ok(rule, key, fmt.Sprintf("divisor %s: guard %s", types.ExprString(div), guarded))
			} else {
				r.bad(rule, key, fmt.Sprintf("%s divides by %s with no dominating test that it is not zero: integer division by zero panics", fname, types.ExprString(div)), c.pos(x.Pos()))
			}
			return true
		})
	}
}

func constraintHasInt(tp *types.TypeParam) bool {
	iface, ok := tp.Constraint().Underlying().(*types.Interface)
	if !ok {
		return true
	}
	found := false
	for i := 0; i < iface.NumEmbeddeds(); i++ {
		if u, ok := iface.EmbeddedType(i).(*types.Union); ok {
			for j := 0; j < u.Len(); j++ {
				if b, ok := u.Term(j).Type().Underlying().(*types.Basic); ok && b.Info()&types.IsInteger != 0 {
					found = true
				}
			}
		} else if b, ok := iface.EmbeddedType(i).Underlying().(*types.Basic); ok && b.Info()&types.IsInteger != 0 {
			found = true
		}
	}
	return found
}

// divDelegated: division sites whose zero test lives in the caller.
var divDelegated = map[string]string{
	"binopNumeric": "the VM's DIV arm tests the divisor for int zero before calling it (rule int-div)",
}
