package main

func init() { register("C06", "other", checkC06) }

func checkC06(c *Ctx, r *Report) {
	spec, err := loadLangSpec()
	if err != nil {
		r.bad("spec", "language.json", err.Error(), "")
		return
	}
	reach := c.reachFromEntries(c06Entries)
	ruleExplicitPanic(c, r, "explicit-panic", reach)
	ruleDisasmGated(c, r, "listing-gated")
	ruleDroppedConversion(c, r, "dropped-conversion-error", reach)
	rulePartialCalls(c, r, "partial-call", reach)
	ruleIfaceEq(c, r, "iface-eq", reach)
	ruleArrayCounters(c, r, "array-counter")
	ruleTypeAsserts(c, r, "type-assert", reach)
	ruleNilRule(c, r, "nil-rule")
	ruleDivZero(c, r, "int-div", false)
	ruleLocalIndex(c, r, "local-index", reach)
	ruleIntDivGuard(c, r, "int-div-guard", reach, divDelegated)
	ruleParserProgress(c, r, "parser-progress", spec)
	ruleLexerProgress(c, r, "lexer-progress")
	checkJumpArith(c, r, "forward-only")
	ruleVarintWrappers(c, r, "operand-codec", "")
	r.rule("operand-emission", 6, "the emission primitives write what the VM decodes: emitOp one opcode byte, emitUvarint exactly the bytes uvarintToBytes produced for the operand, emitBytes each byte once — the VM's operand fetches stay inside the code only for bytecode whose instructions tile it")
	checkEmitPrimitives(c, r, "operand-emission")
	if m, err := c.emitModel(); err == nil {
		r.rule("no-loop-op", 1, "the compiler never emits LOOP: every jump goes forward, pc strictly increases, execution reaches RET")
		r.check(!m.Emitted["opLOOP"], "no-loop-op", "LOOP", "never emitted", "the compiler emits LOOP (a backward jump): a compiled program may not terminate", "")
	}
	ruleReflectGuardsMode(c, r, "bind-guards", true)
	ruleReaderProtocolMode(c, r, "file-variants", "c06")
	r.note("slice-window arithmetic inside the lexer (input[start:pos]); Go-stack exhaustion by deep nesting and memory growth (excluded by the property beyond its bounds); strings.Repeat with counts whose product overflows or exhausts memory (excluded: repetition beyond 2^20 bytes); loaded (non-compiled) bytecode — that is C13's")
	r.trust("operand-stack reads below tos and local slots are in range for compiled programs by C10's well-formedness")
}
